/-
Helper lemmas about the EMCY model (CanopenModel/Emcy.lean).  Property theorems live in
CanopenProofs/C16.lean, never here.
-/
import CanopenModel.Emcy
import CanopenModel.Spec.Cia301Emcy
import CanopenProofs.Lemmas.Bytes

namespace Canopen.Emcy
open Canopen Canopen.Gen.Emcy Canopen.Spec

/-! ### the generated format -/

theorem emcyFields_eq : emcyFields = some [.uint 2, .uint 1, .bytes 5] := by decide

theorem length_eight {α : Type} {l : List α} (h : l.length = 8) :
    ∃ a b c d e f g k, l = [a, b, c, d, e, f, g, k] := by
  match l, h with
  | [a, b, c, d, e, f, g, k], _ => exact ⟨a, b, c, d, e, f, g, k, rfl⟩

theorem decode_eight (a b c d e f g k : Nat) :
    decode [a, b, c, d, e, f, g, k] = some (a + 256 * b, c, [d, e, f, g, k]) := by
  simp [decode, emcyFields_eq, structUnpack, structSize, fieldSize, unpackFields, unpackField,
    emcyTriple, leVal]

theorem decode_wrong_length (data : Bytes) (h : data.length ≠ 8) : decode data = none := by
  simp [decode, emcyFields_eq, structUnpack, structSize, fieldSize, h]

theorem decode_some_length {data : Bytes} {t : Nat × Nat × Bytes} (h : decode data = some t) :
    data.length = 8 := by
  by_cases h8 : data.length = 8
  · exact h8
  · rw [decode_wrong_length data h8] at h; cases h


/-! ### `EMCY_STRUCT.pack` -/

theorem encode_eq (code reg : Int) (data : Bytes) :
    encode code reg data =
      if 0 ≤ code ∧ code < 65536 then
        (if 0 ≤ reg ∧ reg < 256 then
          some (leBytes 2 code.toNat ++ (leBytes 1 reg.toNat ++ (padTo 5 (data.take 5) ++ [])))
         else none)
      else none := by
  simp only [encode, emcyFields_eq, structPack, packField]
  have e2 : ((256 ^ 2 : Nat) : Int) = 65536 := by decide
  have e1 : ((256 ^ 1 : Nat) : Int) = 256 := by decide
  rw [e2, e1]
  by_cases h1 : 0 ≤ code ∧ code < 65536 <;> by_cases h2 : 0 ≤ reg ∧ reg < 256 <;> simp [h1, h2]

theorem encode_in_range (code reg : Nat) (data : Bytes) (hc : code < 65536) (hr : reg < 256) :
    encode code reg data = some (emcyFrame code reg (padTo 5 (data.take 5))) := by
  rw [encode_eq]
  have h1 : (0 : Int) ≤ (code : Int) ∧ (code : Int) < 65536 := by omega
  have h2 : (0 : Int) ≤ (reg : Int) ∧ (reg : Int) < 256 := by omega
  rw [if_pos h1, if_pos h2]
  have : reg % 256 = reg := Nat.mod_eq_of_lt hr
  simp [leBytes, emcyFrame, this]

/-! ### vocabulary of the C16 statements -/

/-- the entry that an event of a history hands to the consumer of node `nid`, if any: a frame
    given to `on_emcy`, or a frame on the bus with the node's EMCY COB-ID, provided it unpacks -/
def delivered (nid : Nat) : Ev → Option Entry
  | .frame d ts => entryOfFrame d ts
  | .notify id d ts => if id = emcyCobId nid then entryOfFrame d ts else none
  | .addCb _ => none
  | .reset => none

/-- the callbacks registered by a history, in registration order -/
def registered : List Ev → List Nat
  | [] => []
  | .addCb k :: evs => k :: registered evs
  | _ :: evs => registered evs

/-- events that empty the active list: `reset()` and a delivered frame of class 00xx -/
def clears (nid : Nat) (ev : Ev) : Bool :=
  match ev, delivered nid ev with
  | .reset, _ => true
  | _, some e => isResetCode e.code
  | _, none => false

/-! ### one step -/

theorem step_delivered {nid : Nat} {c : Consumer} {ev : Ev} {e : Entry} (h : delivered nid ev = some e) :
    step nid c ev = (record c e, ⟨false, c.callbacks.map fun k => (k, e)⟩) := by
  cases ev with
  | frame d ts => simp only [delivered] at h; simp [step, onEmcy, h]
  | notify id d ts =>
    simp only [delivered] at h
    split at h
    · rename_i hid; simp [step, onEmcy, h, hid]
    · cases h
  | addCb k => cases h
  | reset => cases h

theorem step_undelivered_fst {nid : Nat} {c : Consumer} {ev : Ev} (h : delivered nid ev = none)
    (hr : ev ≠ .reset) : (step nid c ev).1 = { c with callbacks := c.callbacks ++ registered [ev] } ∧
      (step nid c ev).2.invoked = [] := by
  cases ev with
  | frame d ts => simp only [delivered] at h; simp [step, onEmcy, h, registered]
  | notify id d ts =>
    simp only [delivered] at h
    by_cases hid : id = emcyCobId nid
    · simp only [hid, if_true] at h; simp [step, onEmcy, h, hid, registered]
    · simp [step, hid, registered]
  | addCb k => simp [step, registered]
  | reset => exact absurd rfl hr

theorem run_nil (nid : Nat) (c : Consumer) : run nid c [] = c := rfl

theorem run_cons (nid : Nat) (c : Consumer) (e : Ev) (evs : List Ev) :
    run nid c (e :: evs) = run nid (step nid c e).1 evs := rfl

theorem run_append (nid : Nat) (c : Consumer) (a b : List Ev) :
    run nid c (a ++ b) = run nid (run nid c a) b := by
  simp [run, List.foldl_append]

theorem registered_append (a b : List Ev) : registered (a ++ b) = registered a ++ registered b := by
  induction a with
  | nil => rfl
  | cons e a ih => cases e <;> simp [registered, ih]

/-! ### histories -/

theorem run_callbacks (nid : Nat) (evs : List Ev) (c : Consumer) :
    (run nid c evs).callbacks = c.callbacks ++ registered evs := by
  induction evs generalizing c with
  | nil => simp [run_nil, registered]
  | cons e evs ih =>
    rw [run_cons, ih]
    cases hd : delivered nid e with
    | some x => rw [step_delivered hd]; cases e <;> simp_all [record, registered, delivered]
    | none =>
      by_cases hr : e = .reset
      · subst hr; simp [step, registered]
      · rw [(step_undelivered_fst hd hr).1]
        cases e <;> simp [registered]

/-- without `reset()` the log only grows, by the delivered entries, in order -/
theorem run_log (nid : Nat) (evs : List Ev) (c : Consumer) (h : Ev.reset ∉ evs) :
    (run nid c evs).log = c.log ++ evs.filterMap (delivered nid) := by
  induction evs generalizing c with
  | nil => simp [run_nil]
  | cons e evs ih =>
    have hr : e ≠ .reset := fun he => h (by simp [he])
    have h' : Ev.reset ∉ evs := fun he => h (by simp [he])
    rw [run_cons, ih _ h']
    cases hd : delivered nid e with
    | some x => rw [step_delivered hd]; simp [record, hd]
    | none => rw [(step_undelivered_fst hd hr).1]; simp [hd]

/-- while nothing clears it the active list only grows, by the delivered entries, in order -/
theorem run_active (nid : Nat) (evs : List Ev) (c : Consumer) (h : ∀ ev ∈ evs, clears nid ev = false) :
    (run nid c evs).active = c.active ++ evs.filterMap (delivered nid) := by
  induction evs generalizing c with
  | nil => simp [run_nil]
  | cons e evs ih =>
    have he : clears nid e = false := h e (by simp)
    have h' : ∀ ev ∈ evs, clears nid ev = false := fun ev hev => h ev (by simp [hev])
    rw [run_cons, ih _ h']
    cases hd : delivered nid e with
    | some x =>
      have hx : isResetCode x.code = false := by
        cases e <;> simp_all [clears]
      rw [step_delivered hd]; simp [record, hd, hx]
    | none =>
      have hr : e ≠ .reset := by
        intro hr; subst hr; simp [clears] at he
      rw [(step_undelivered_fst hd hr).1]; simp [hd]

theorem step_clears {nid : Nat} {c : Consumer} {ev : Ev} (h : clears nid ev = true) :
    (step nid c ev).1.active = [] := by
  cases hd : delivered nid ev with
  | some x =>
    have hx : isResetCode x.code = true := by
      cases ev <;> simp_all [clears, delivered]
    rw [step_delivered hd]; simp [record, hx]
  | none =>
    cases ev <;> simp_all [clears, step]

/-! ### traces -/

theorem trace_length (nid : Nat) (evs : List Ev) (c : Consumer) : (trace nid c evs).length = evs.length := by
  induction evs generalizing c with
  | nil => rfl
  | cons e evs ih => simp [trace, ih]

theorem trace_append (nid : Nat) (a b : List Ev) (c : Consumer) :
    trace nid c (a ++ b) = trace nid c a ++ trace nid (run nid c a) b := by
  induction a generalizing c with
  | nil => rfl
  | cons e a ih => simp [trace, run_cons, ih]

/-! ### masks that live in the high byte -/

theorem highbyte_testBit (x i : Nat) (h8 : 8 ≤ i) (h16 : i < 16) :
    (x / 256 % 256 * 256).testBit i = x.testBit i := by
  have e : x / 256 % 256 * 256 = ((x >>> 8) % 2 ^ 8) <<< 8 := by
    rw [Nat.shiftRight_eq_div_pow, Nat.shiftLeft_eq]
  rw [e, Nat.testBit_shiftLeft, Nat.testBit_mod_two_pow, Nat.testBit_shiftRight]
  have : 8 + (i - 8) = i := by omega
  rw [this]
  have h1 : decide (i ≥ 8) = true := by simpa using h8
  have h2 : decide (i - 8 < 8) = true := by simp; omega
  simp [h1, h2]

theorem mask_testBit_false (m i : Nat) (hm : m % 256 = 0) (hlt : m < 65536) (h : i < 8 ∨ 16 ≤ i) :
    m.testBit i = false := by
  rcases h with h | h
  · have := Nat.testBit_mod_two_pow m 8 i
    have hm' : m % 2 ^ 8 = 0 := hm
    rw [hm'] at this
    simp [h] at this
    exact this.symm ▸ rfl
  · apply Nat.testBit_lt_two_pow
    have : 2 ^ 16 ≤ 2 ^ i := Nat.pow_le_pow_right (by decide) h
    omega

/-- a mask that lives in bits 8..15 sees only the high byte of a code -/
theorem and_mask_highbyte (x m : Nat) (hm : m % 256 = 0) (hlt : m < 65536) :
    x &&& m = (x / 256 % 256 * 256) &&& m := by
  apply Nat.eq_of_testBit_eq
  intro i
  simp only [Nat.testBit_and]
  by_cases h : 8 ≤ i ∧ i < 16
  · rw [highbyte_testBit x i h.1 h.2]
  · rw [mask_testBit_false m i hm hlt (by omega)]; simp

/-! ### descriptions -/

theorem rowMatches_highbyte (code : Nat) (r : DescRow) (h : r.mask % 256 = 0 ∧ r.mask < 65536) :
    rowMatches code r = rowMatches (code / 256 % 256 * 256) r := by
  unfold rowMatches
  rw [and_mask_highbyte code r.mask h.1 h.2]

theorem find_highbyte (rows : List DescRow) (code : Nat)
    (h : ∀ r ∈ rows, r.mask % 256 = 0 ∧ r.mask < 65536) :
    rows.find? (rowMatches code) = rows.find? (rowMatches (code / 256 % 256 * 256)) := by
  induction rows with
  | nil => rfl
  | cons r rows ih =>
    simp only [List.find?_cons]
    rw [rowMatches_highbyte code r (h r (by simp)), ih (fun r' hr' => h r' (by simp [hr']))]

/-- `get_desc` over a table whose masks live in bits 8..15 depends on the high byte only -/
theorem descIn_highbyte (rows : List DescRow) (code : Nat)
    (h : ∀ r ∈ rows, r.mask % 256 = 0 ∧ r.mask < 65536) :
    descIn rows code = descIn rows (code / 256 % 256 * 256) := by
  unfold descIn
  rw [find_highbyte rows code h]

theorem descriptions_masks : ∀ r ∈ DESCRIPTIONS, r.mask % 256 = 0 ∧ r.mask < 65536 := by decide

theorem descriptions_highbytes :
    ∀ h : Fin 256, getDesc (h.val * 256) = className (classOfHighByte h.val) := by decide +kernel

theorem isResetCode_highbyte (code : Nat) : isResetCode code = decide (code / 256 % 256 = 0) := by
  have h := and_mask_highbyte code 0xFF00 (by decide) (by decide)
  have key : ∀ k : Fin 256, ((k.val * 256 &&& 0xFF00) == 0) = decide (k.val = 0) := by decide +kernel
  unfold isResetCode
  rw [h]
  exact key ⟨code / 256 % 256, Nat.mod_lt _ (by decide)⟩

/-! ### `wait`: vocabulary and unfolding -/

/-- the entries that arrive during one wake-up, in order -/
def arrivals (nid : Nat) (w : Wake) : List Entry := w.evs.filterMap (delivered nid)

/-- nobody calls `reset()` while the caller waits -/
def NoApiReset (ws : List Wake) : Prop := ∀ w ∈ ws, Ev.reset ∉ w.evs

instance (ws : List Wake) : Decidable (NoApiReset ws) := by unfold NoApiReset; infer_instance

/-- what the property asks for: the next matching entry, or nothing on time-out (a wake-up with
    no arrival is a time-out of the condition variable; arrivals after the deadline are late) -/
def waitSpec (filter : Option Nat) (deadline : Nat) : List (Nat × List Entry) → WaitRes
  | [] => .nothing
  | (now, es) :: rest =>
    if es.isEmpty then .nothing
    else if now > deadline then .nothing
    else match es.find? (matchesFilter filter) with
      | some e => .entry e
      | none => waitSpec filter deadline rest

theorem waitLoop_cons (nid : Nat) (filter : Option Nat) (deadline : Nat) (c : Consumer) (w : Wake)
    (ws : List Wake) (h : Ev.reset ∉ w.evs) :
    waitLoop nid filter deadline c (w :: ws) =
      if (arrivals nid w).isEmpty then ⟨run nid c w.evs, .nothing, 1⟩
      else if w.now > deadline then ⟨run nid c w.evs, .nothing, 1⟩
      else match (arrivals nid w).find? (matchesFilter filter) with
        | some e => ⟨run nid c w.evs, .entry e, 1⟩
        | none =>
          ⟨(waitLoop nid filter deadline (run nid c w.evs) ws).state,
           (waitLoop nid filter deadline (run nid c w.evs) ws).res,
           (waitLoop nid filter deadline (run nid c w.evs) ws).waits + 1⟩ := by
  have hlog := run_log nid w.evs c h
  rw [waitLoop]
  simp only [hlog, List.drop_left]
  cases ha : w.evs.filterMap (delivered nid) with
  | nil => simp [arrivals, ha]
  | cons x xs =>
    have hlen : ¬ (c.log ++ x :: xs).length = c.log.length := by
      simp only [List.length_append, List.length_cons]; omega
    simp only [hlen, if_false, arrivals, ha, List.isEmpty_cons, Bool.false_eq_true]
    by_cases hl : w.now > deadline
    · simp only [hl, if_true]
    · simp only [hl, if_false]
      cases List.find? (matchesFilter filter) (x :: xs) <;> rfl


/-! ### long histories: run-length frames and the linear runner -/

/-- the entry that frame `i` of a run denotes -/
def repEntry (code0 cstep reg0 ts0 i : Nat) : Entry :=
  ⟨(code0 + i * cstep) % 65536, (reg0 + i) % 256,
   [i % 256, i / 256 % 256, i / 65536 % 256, i / 16777216 % 256, (7 * i + 3) % 256], ts0 + i⟩

theorem entryOfFrame_repFrame (code0 cstep reg0 i ts : Nat) :
    entryOfFrame (repFrame code0 cstep reg0 i) ts =
      some ⟨(code0 + i * cstep) % 65536, (reg0 + i) % 256,
        [i % 256, i / 256 % 256, i / 65536 % 256, i / 16777216 % 256, (7 * i + 3) % 256], ts⟩ := by
  simp only [entryOfFrame, repFrame, decode_eight]
  have : (code0 + i * cstep) % 256 + 256 * ((code0 + i * cstep) / 256 % 256) =
      (code0 + i * cstep) % 65536 := by omega
  rw [this]

theorem repEvs_no_reset (n code0 cstep reg0 ts0 : Nat) : Ev.reset ∉ repEvs n code0 cstep reg0 ts0 := by
  simp [repEvs]

theorem repEvs_delivered (nid n code0 cstep reg0 ts0 : Nat) :
    (repEvs n code0 cstep reg0 ts0).filterMap (delivered nid) =
      (List.range n).map (repEntry code0 cstep reg0 ts0) := by
  unfold repEvs
  rw [List.filterMap_map]
  have : (delivered nid ∘ fun i => Ev.frame (repFrame code0 cstep reg0 i) (ts0 + i)) =
      fun i => some (repEntry code0 cstep reg0 ts0 i) := by
    funext i
    simp [delivered, entryOfFrame_repFrame, repEntry]
  rw [this, show (fun i => some (repEntry code0 cstep reg0 ts0 i)) = some ∘ repEntry code0 cstep reg0 ts0 from rfl,
    List.filterMap_eq_map]

/-- the counter of the linear runner is the length of its active list -/
def Fast.WF (s : Fast) : Prop := s.nactive = s.ractive.length

theorem fast_consumer_ofConsumer (c : Consumer) : (Fast.ofConsumer c).consumer = c := by
  cases c
  simp [Fast.ofConsumer, Fast.consumer]

theorem fast_ofConsumer_WF (c : Consumer) : (Fast.ofConsumer c).WF := by
  simp [Fast.ofConsumer, Fast.WF]

theorem fast_onEmcy_spec (s : Fast) (d : Bytes) (ts : Nat) (h : s.WF) :
    (s.onEmcy d ts).consumer = (onEmcy s.consumer d ts).1 ∧ (s.onEmcy d ts).WF ∧
    (s.onEmcy d ts).rinv = (onEmcy s.consumer d ts).2.invoked.reverse ++ s.rinv ∧
    (s.onEmcy d ts).nraised = s.nraised + (if (onEmcy s.consumer d ts).2.raised then 1 else 0) ∧
    (s.onEmcy d ts).ralens = (onEmcy s.consumer d ts).1.active.length :: s.ralens := by
  unfold Fast.WF at *
  unfold Fast.onEmcy Emcy.onEmcy
  cases he : entryOfFrame d ts with
  | none => simp [Fast.consumer, h]
  | some e =>
    by_cases hr : isResetCode e.code = true
    · simp [hr, record, Fast.consumer]
    · simp [hr, record, Fast.consumer, h]

theorem fast_step_spec (nid : Nat) (s : Fast) (ev : Ev) (h : s.WF) :
    (s.step nid ev).consumer = (step nid s.consumer ev).1 ∧ (s.step nid ev).WF ∧
    (s.step nid ev).rinv = (step nid s.consumer ev).2.invoked.reverse ++ s.rinv ∧
    (s.step nid ev).nraised = s.nraised + (if (step nid s.consumer ev).2.raised then 1 else 0) ∧
    (s.step nid ev).ralens = (step nid s.consumer ev).1.active.length :: s.ralens := by
  cases ev with
  | frame d ts => exact fast_onEmcy_spec s d ts h
  | notify id d ts =>
    by_cases hid : id = emcyCobId nid
    · simp only [Fast.step, step, hid, if_true]; exact fast_onEmcy_spec s d ts h
    · unfold Fast.WF at *
      simp [Fast.step, step, hid, Fast.consumer, h]
  | addCb k => unfold Fast.WF at *; simp [Fast.step, step, Fast.consumer, h]
  | reset => unfold Fast.WF at *; simp [Fast.step, step, Fast.consumer]

theorem runFast_cons (nid : Nat) (s : Fast) (e : Ev) (evs : List Ev) :
    runFast nid s (e :: evs) = runFast nid (s.step nid e) evs := rfl

theorem countRaised_cons (o : StepOut) (tr : List StepOut) :
    countRaised (o :: tr) = (if o.raised then 1 else 0) + countRaised tr := by
  unfold countRaised
  by_cases h : o.raised = true <;> simp [h] <;> omega

theorem runFast_spec_aux (nid : Nat) (evs : List Ev) (s : Fast) (h : s.WF) :
    (runFast nid s evs).consumer = run nid s.consumer evs ∧ (runFast nid s evs).WF ∧
    (runFast nid s evs).rinv.reverse = s.rinv.reverse ++ (trace nid s.consumer evs).flatMap (·.invoked) ∧
    (runFast nid s evs).nraised = s.nraised + countRaised (trace nid s.consumer evs) ∧
    (runFast nid s evs).ralens.reverse = s.ralens.reverse ++ activeLens nid s.consumer evs := by
  induction evs generalizing s with
  | nil => simp [runFast, run_nil, trace, activeLens, countRaised, h]
  | cons e evs ih =>
    obtain ⟨h1, h2, h3, h4, h5⟩ := fast_step_spec nid s e h
    obtain ⟨i1, i2, i3, i4, i5⟩ := ih (s.step nid e) h2
    rw [runFast_cons, run_cons, trace, activeLens, countRaised_cons, ← h1]
    refine ⟨i1, i2, ?_, ?_, ?_⟩
    · rw [i3, h3]; simp
    · rw [i4, h4]; omega
    · rw [i5, h5, h1]; simp

/-! ### several waiting threads -/

/-- the events of a schedule that reach the consumer -/
def evsOf : List SEv → List Ev
  | [] => []
  | .ev e :: s => e :: evsOf s
  | .runs _ _ :: s => evsOf s

/-- what a step of the program does to the consumer -/
def cStep (nid : Nat) (c : Consumer) : SEv → Consumer
  | .ev e => (step nid c e).1
  | .runs _ _ => c

/-- … and to one thread, the consumer being in state `c` before the step -/
def wStep (nid : Nat) (c : Consumer) (w : Waiter) : SEv → Waiter
  | .ev e => if notifies nid e then w.mark else w
  | .runs id now => if w.id = id then w.resume c now else w

/-- one thread followed through a schedule, whatever other threads exist -/
def wRun (nid : Nat) : Consumer → Waiter → List SEv → Waiter
  | _, w, [] => w
  | c, w, e :: s => wRun nid (cStep nid c e) (wStep nid c w e) s

/-- a schedule as thread `id` sees it: the events between two of its returns from
    `Condition.wait` are one wake-up; `.2` = what happened since its last return (or since `pend`) -/
def viewFrom (id : Nat) : List Ev → List SEv → List Wake × List Ev
  | pend, [] => ([], pend)
  | pend, .ev e :: s => viewFrom id (pend ++ [e]) s
  | pend, .runs j now :: s =>
    if j = id then (⟨now, pend⟩ :: (viewFrom id [] s).1, (viewFrom id [] s).2) else viewFrom id pend s

/-- every return of the thread from `Condition.wait` was caused by a received frame and came by
    the deadline, and nobody called `reset()` -/
def FairView (nid deadline : Nat) (v : List Wake × List Ev) : Prop :=
  NoApiReset v.1 ∧ ∀ w ∈ v.1, arrivals nid w ≠ [] ∧ w.now ≤ deadline

theorem sysStep_eq (nid : Nat) (c : Consumer) (ws : List Waiter) (e : SEv) :
    sysStep nid (c, ws) e = (cStep nid c e, ws.map fun w => wStep nid c w e) := by
  cases e with
  | ev e =>
    by_cases hn : notifies nid e = true
    · simp [sysStep, cStep, wStep, hn, notifyAll]
    · simp [sysStep, cStep, wStep, hn]
  | runs id now => simp [sysStep, cStep, wStep]

theorem run_evsOf_cons (nid : Nat) (c : Consumer) (e : SEv) (s : List SEv) :
    run nid c (evsOf (e :: s)) = run nid (cStep nid c e) (evsOf s) := by
  cases e <;> simp [evsOf, cStep, run_cons]

theorem sysRun_eq (nid : Nat) (sched : List SEv) (c : Consumer) (ws : List Waiter) :
    sysRun nid (c, ws) sched = (run nid c (evsOf sched), ws.map fun w => wRun nid c w sched) := by
  induction sched generalizing c ws with
  | nil => simp [sysRun, evsOf, wRun, run_nil]
  | cons e s ih =>
    have : sysRun nid (c, ws) (e :: s) = sysRun nid (sysStep nid (c, ws) e) s := rfl
    rw [this, sysStep_eq, ih, run_evsOf_cons]
    simp [wRun]

theorem wStep_done {nid : Nat} {c : Consumer} {w : Waiter} {r : WaitRes} (h : w.res = some r) (e : SEv) :
    wStep nid c w e = w := by
  cases e with
  | ev e => simp [wStep, Waiter.mark, h]
  | runs id now => simp [wStep, Waiter.resume, h]

theorem wRun_done {nid : Nat} {w : Waiter} {r : WaitRes} (h : w.res = some r) (sched : List SEv) (c : Consumer) :
    wRun nid c w sched = w := by
  induction sched generalizing c with
  | nil => rfl
  | cons e s ih => rw [wRun, wStep_done h, ih]

theorem step_run_snoc (nid : Nat) (cp : Consumer) (pend : List Ev) (e : Ev) :
    (step nid (run nid cp pend) e).1 = run nid cp (pend ++ [e]) := by
  rw [run_append, run_cons, run_nil]

/-- a blocked thread in the program behaves like the single-waiter model on its own view -/
theorem wRun_blocked (nid id : Nat) (f : Option Nat) (d : Nat) (sched : List SEv) :
    ∀ (cp : Consumer) (pend : List Ev) (nt : Bool),
    (wRun nid (run nid cp pend) ⟨id, f, d, cp.log.length, nt, none⟩ sched).res =
      if (waitLoop nid f d cp (viewFrom id pend sched).1).waits ≤ (viewFrom id pend sched).1.length
      then some (waitLoop nid f d cp (viewFrom id pend sched).1).res else none := by
  induction sched with
  | nil => intro cp pend nt; simp [wRun, viewFrom, waitLoop]
  | cons e s ih =>
    intro cp pend nt
    cases e with
    | ev e =>
      simp only [wRun, cStep, wStep, viewFrom, step_run_snoc]
      by_cases hn : notifies nid e = true
      · simp only [hn, if_true, Waiter.mark, Option.isNone_none]
        exact ih cp (pend ++ [e]) true
      · simp only [hn, if_false, Bool.false_eq_true]
        exact ih cp (pend ++ [e]) nt
    | runs j now =>
      by_cases hj : j = id
      · subst hj
        simp only [wRun, cStep, wStep, viewFrom, if_true]
        rw [waitLoop]
        simp only [Waiter.resume, Option.isSome_none, Bool.false_eq_true, if_false, List.length_cons]
        by_cases h1 : (run nid cp pend).log.length = cp.log.length
        · simp only [h1, if_true]
          rw [wRun_done (r := .nothing) rfl]
          simp
        · simp only [h1, if_false]
          by_cases h2 : now > d
          · simp only [h2, if_true]
            rw [wRun_done (r := .nothing) rfl]
            simp
          · simp only [h2, if_false]
            cases hf : ((run nid cp pend).log.drop cp.log.length).find? (matchesFilter f) with
            | some x =>
              simp only [Waiter.look]
              rw [wRun_done (r := .entry x) rfl]
              simp
            | none =>
              simp only [Waiter.look]
              have := ih (run nid cp pend) [] false
              rw [run_nil] at this
              rw [this]
              simp only [Nat.add_le_add_iff_right]
      · have hj' : ¬ id = j := fun h => hj h.symm
        simp only [wRun, cStep, wStep, viewFrom, hj, hj', if_false]
        exact ih cp pend nt

/-- no lost wake-up: a thread that is still blocked is marked runnable exactly when a frame was
    received since it last looked -/
theorem wRun_notified (nid id : Nat) (f : Option Nat) (d : Nat) (sched : List SEv) :
    ∀ (cp : Consumer) (pend : List Ev),
    (wRun nid (run nid cp pend) ⟨id, f, d, cp.log.length, pend.any (notifies nid), none⟩ sched).res = none →
    (wRun nid (run nid cp pend) ⟨id, f, d, cp.log.length, pend.any (notifies nid), none⟩ sched).notified =
      (viewFrom id pend sched).2.any (notifies nid) := by
  induction sched with
  | nil => intro cp pend _; simp [wRun, viewFrom]
  | cons e s ih =>
    intro cp pend
    cases e with
    | ev e =>
      simp only [wRun, cStep, wStep, viewFrom, step_run_snoc]
      have hany : (pend ++ [e]).any (notifies nid) = (pend.any (notifies nid) || notifies nid e) := by simp
      by_cases hn : notifies nid e = true
      · simp only [hn, if_true, Waiter.mark, Option.isNone_none]
        have := ih cp (pend ++ [e])
        rw [hany, hn, Bool.or_true] at this
        exact this
      · simp only [hn, if_false, Bool.false_eq_true]
        have := ih cp (pend ++ [e])
        have hn' : notifies nid e = false := by simpa using hn
        rw [hany, hn', Bool.or_false] at this
        exact this
    | runs j now =>
      by_cases hj : j = id
      · subst hj
        simp only [wRun, cStep, wStep, viewFrom, if_true]
        simp only [Waiter.resume, Option.isSome_none, Bool.false_eq_true, if_false]
        by_cases h1 : (run nid cp pend).log.length = cp.log.length
        · simp only [h1, if_true]
          rw [wRun_done (r := .nothing) rfl]
          intro h; cases h
        · simp only [h1, if_false]
          by_cases h2 : now > d
          · simp only [h2, if_true]
            rw [wRun_done (r := .nothing) rfl]
            intro h; cases h
          · simp only [h2, if_false]
            cases hf : ((run nid cp pend).log.drop cp.log.length).find? (matchesFilter f) with
            | some x =>
              simp only [Waiter.look]
              rw [wRun_done (r := .entry x) rfl]
              intro h; cases h
            | none =>
              simp only [Waiter.look]
              have := ih (run nid cp pend) []
              rw [run_nil] at this
              simpa using this
      · have hj' : ¬ id = j := fun h => hj h.symm
        simp only [wRun, cStep, wStep, viewFrom, hj, hj', if_false]
        exact ih cp pend

/-- the view cuts the schedule's events into pieces and loses none -/
theorem viewFrom_evs (id : Nat) (sched : List SEv) : ∀ pend : List Ev,
    (viewFrom id pend sched).1.flatMap (·.evs) ++ (viewFrom id pend sched).2 = pend ++ evsOf sched := by
  induction sched with
  | nil => intro pend; simp [viewFrom, evsOf]
  | cons e s ih =>
    intro pend
    cases e with
    | ev e => simp only [viewFrom, evsOf]; rw [ih]; simp
    | runs j now =>
      by_cases hj : j = id
      · simp only [viewFrom, hj, if_true, evsOf, List.flatMap_cons, List.append_assoc]
        rw [ih []]; simp
      · simp only [viewFrom, hj, if_false, evsOf]; exact ih pend

theorem arrivals_flatMap (nid : Nat) (ws : List Wake) :
    ws.flatMap (arrivals nid) = (ws.flatMap (·.evs)).filterMap (delivered nid) := by
  induction ws with
  | nil => rfl
  | cons w ws ih => simp [List.flatMap_cons, List.filterMap_append, arrivals, ih]

/-- under a fair view the single-waiter loop returns exactly when a matching entry has arrived,
    and then with the first one -/
theorem waitLoop_fair (nid : Nat) (f : Option Nat) (d : Nat) (ws : List Wake) :
    ∀ c : Consumer, NoApiReset ws → (∀ w ∈ ws, arrivals nid w ≠ [] ∧ w.now ≤ d) →
    (if (waitLoop nid f d c ws).waits ≤ ws.length then some (waitLoop nid f d c ws).res else none) =
      ((ws.flatMap (arrivals nid)).find? (matchesFilter f)).map WaitRes.entry := by
  induction ws with
  | nil => intro c _ _; simp [waitLoop]
  | cons w ws ih =>
    intro c hr hf
    have hw : Ev.reset ∉ w.evs := hr w (by simp)
    obtain ⟨hne, hnow⟩ := hf w (by simp)
    have ih' := ih (run nid c w.evs) (fun w' hw' => hr w' (by simp [hw']))
      (fun w' hw' => hf w' (by simp [hw']))
    rw [waitLoop_cons nid f d c w ws hw]
    have he : (arrivals nid w).isEmpty = false := by
      cases h : arrivals nid w with
      | nil => exact absurd h hne
      | cons _ _ => rfl
    have hl : ¬ w.now > d := by omega
    simp only [he, hl, if_false, Bool.false_eq_true, List.flatMap_cons, List.find?_append,
      List.length_cons]
    cases hfind : (arrivals nid w).find? (matchesFilter f) with
    | some e => simp
    | none =>
      simp only [Option.none_or, Nat.add_le_add_iff_right]
      exact ih'

end Canopen.Emcy
