/-
Helper lemmas about the EMCY model (CanopenModel/Emcy.lean).  Property theorems live in
CanopenProofs/C16.lean, never here.
-/
import CanopenModel.Emcy
import CanopenModel.Spec.Cia301Emcy
import CanopenProofs.Lemmas.Bytes

namespace Canopen.Emcy
open Canopen Canopen.Gen.Emcy Canopen.Spec

/-! ### the generated format -/

theorem emcyFields_eq : emcyFields = some [.uint 2, .uint 1, .bytes 5] := by decide

theorem length_eight {α : Type} {l : List α} (h : l.length = 8) :
    ∃ a b c d e f g k, l = [a, b, c, d, e, f, g, k] := by
  match l, h with
  | [a, b, c, d, e, f, g, k], _ => exact ⟨a, b, c, d, e, f, g, k, rfl⟩

theorem decode_eight (a b c d e f g k : Nat) :
    decode [a, b, c, d, e, f, g, k] = some (a + 256 * b, c, [d, e, f, g, k]) := by
  simp [decode, emcyFields_eq, structUnpack, structSize, fieldSize, unpackFields, unpackField,
    emcyTriple, leVal]

theorem decode_wrong_length (data : Bytes) (h : data.length ≠ 8) : decode data = none := by
  simp [decode, emcyFields_eq, structUnpack, structSize, fieldSize, h]

theorem decode_some_length {data : Bytes} {t : Nat × Nat × Bytes} (h : decode data = some t) :
    data.length = 8 := by
  by_cases h8 : data.length = 8
  · exact h8
  · rw [decode_wrong_length data h8] at h; cases h


/-! ### `EMCY_STRUCT.pack` -/

theorem encode_eq (code reg : Int) (data : Bytes) :
    encode code reg data =
      if 0 ≤ code ∧ code < 65536 then
        (if 0 ≤ reg ∧ reg < 256 then
          some (leBytes 2 code.toNat ++ (leBytes 1 reg.toNat ++ (padTo 5 (data.take 5) ++ [])))
         else none)
      else none := by
  simp only [encode, emcyFields_eq, structPack, packField]
  have e2 : ((256 ^ 2 : Nat) : Int) = 65536 := by decide
  have e1 : ((256 ^ 1 : Nat) : Int) = 256 := by decide
  rw [e2, e1]
  by_cases h1 : 0 ≤ code ∧ code < 65536 <;> by_cases h2 : 0 ≤ reg ∧ reg < 256 <;> simp [h1, h2]

theorem encode_in_range (code reg : Nat) (data : Bytes) (hc : code < 65536) (hr : reg < 256) :
    encode code reg data = some (emcyFrame code reg (padTo 5 (data.take 5))) := by
  rw [encode_eq]
  have h1 : (0 : Int) ≤ (code : Int) ∧ (code : Int) < 65536 := by omega
  have h2 : (0 : Int) ≤ (reg : Int) ∧ (reg : Int) < 256 := by omega
  rw [if_pos h1, if_pos h2]
  have : reg % 256 = reg := Nat.mod_eq_of_lt hr
  simp [leBytes, emcyFrame, this]

/-! ### vocabulary of the C16 statements -/

/-- the entry that an event of a history hands to the consumer of node `nid`, if any: a frame
    given to `on_emcy`, or a frame on the bus with the node's EMCY COB-ID, provided it unpacks -/
def delivered (nid : Nat) : Ev → Option Entry
  | .frame d ts => entryOfFrame d ts
  | .notify id d ts => if id = emcyCobId nid then entryOfFrame d ts else none
  | .addCb _ => none
  | .reset => none

/-- the callbacks registered by a history, in registration order -/
def registered : List Ev → List Nat
  | [] => []
  | .addCb k :: evs => k :: registered evs
  | _ :: evs => registered evs

/-- events that empty the active list: `reset()` and a delivered frame of class 00xx -/
def clears (nid : Nat) (ev : Ev) : Bool :=
  match ev, delivered nid ev with
  | .reset, _ => true
  | _, some e => isResetCode e.code
  | _, none => false

/-! ### one step -/

theorem step_delivered {nid : Nat} {c : Consumer} {ev : Ev} {e : Entry} (h : delivered nid ev = some e) :
    step nid c ev = (record c e, ⟨false, c.callbacks.map fun k => (k, e)⟩) := by
  cases ev with
  | frame d ts => simp only [delivered] at h; simp [step, onEmcy, h]
  | notify id d ts =>
    simp only [delivered] at h
    split at h
    · rename_i hid; simp [step, onEmcy, h, hid]
    · cases h
  | addCb k => cases h
  | reset => cases h

theorem step_undelivered_fst {nid : Nat} {c : Consumer} {ev : Ev} (h : delivered nid ev = none)
    (hr : ev ≠ .reset) : (step nid c ev).1 = { c with callbacks := c.callbacks ++ registered [ev] } ∧
      (step nid c ev).2.invoked = [] := by
  cases ev with
  | frame d ts => simp only [delivered] at h; simp [step, onEmcy, h, registered]
  | notify id d ts =>
    simp only [delivered] at h
    by_cases hid : id = emcyCobId nid
    · simp only [hid, if_true] at h; simp [step, onEmcy, h, hid, registered]
    · simp [step, hid, registered]
  | addCb k => simp [step, registered]
  | reset => exact absurd rfl hr

theorem run_nil (nid : Nat) (c : Consumer) : run nid c [] = c := rfl

theorem run_cons (nid : Nat) (c : Consumer) (e : Ev) (evs : List Ev) :
    run nid c (e :: evs) = run nid (step nid c e).1 evs := rfl

theorem run_append (nid : Nat) (c : Consumer) (a b : List Ev) :
    run nid c (a ++ b) = run nid (run nid c a) b := by
  simp [run, List.foldl_append]

theorem registered_append (a b : List Ev) : registered (a ++ b) = registered a ++ registered b := by
  induction a with
  | nil => rfl
  | cons e a ih => cases e <;> simp [registered, ih]

/-! ### histories -/

theorem run_callbacks (nid : Nat) (evs : List Ev) (c : Consumer) :
    (run nid c evs).callbacks = c.callbacks ++ registered evs := by
  induction evs generalizing c with
  | nil => simp [run_nil, registered]
  | cons e evs ih =>
    rw [run_cons, ih]
    cases hd : delivered nid e with
    | some x => rw [step_delivered hd]; cases e <;> simp_all [record, registered, delivered]
    | none =>
      by_cases hr : e = .reset
      · subst hr; simp [step, registered]
      · rw [(step_undelivered_fst hd hr).1]
        cases e <;> simp [registered]

/-- without `reset()` the log only grows, by the delivered entries, in order -/
theorem run_log (nid : Nat) (evs : List Ev) (c : Consumer) (h : Ev.reset ∉ evs) :
    (run nid c evs).log = c.log ++ evs.filterMap (delivered nid) := by
  induction evs generalizing c with
  | nil => simp [run_nil]
  | cons e evs ih =>
    have hr : e ≠ .reset := fun he => h (by simp [he])
    have h' : Ev.reset ∉ evs := fun he => h (by simp [he])
    rw [run_cons, ih _ h']
    cases hd : delivered nid e with
    | some x => rw [step_delivered hd]; simp [record, hd]
    | none => rw [(step_undelivered_fst hd hr).1]; simp [hd]

/-- while nothing clears it the active list only grows, by the delivered entries, in order -/
theorem run_active (nid : Nat) (evs : List Ev) (c : Consumer) (h : ∀ ev ∈ evs, clears nid ev = false) :
    (run nid c evs).active = c.active ++ evs.filterMap (delivered nid) := by
  induction evs generalizing c with
  | nil => simp [run_nil]
  | cons e evs ih =>
    have he : clears nid e = false := h e (by simp)
    have h' : ∀ ev ∈ evs, clears nid ev = false := fun ev hev => h ev (by simp [hev])
    rw [run_cons, ih _ h']
    cases hd : delivered nid e with
    | some x =>
      have hx : isResetCode x.code = false := by
        cases e <;> simp_all [clears]
      rw [step_delivered hd]; simp [record, hd, hx]
    | none =>
      have hr : e ≠ .reset := by
        intro hr; subst hr; simp [clears] at he
      rw [(step_undelivered_fst hd hr).1]; simp [hd]

theorem step_clears {nid : Nat} {c : Consumer} {ev : Ev} (h : clears nid ev = true) :
    (step nid c ev).1.active = [] := by
  cases hd : delivered nid ev with
  | some x =>
    have hx : isResetCode x.code = true := by
      cases ev <;> simp_all [clears, delivered]
    rw [step_delivered hd]; simp [record, hx]
  | none =>
    cases ev <;> simp_all [clears, step]

/-! ### traces -/

theorem trace_length (nid : Nat) (evs : List Ev) (c : Consumer) : (trace nid c evs).length = evs.length := by
  induction evs generalizing c with
  | nil => rfl
  | cons e evs ih => simp [trace, ih]

theorem trace_append (nid : Nat) (a b : List Ev) (c : Consumer) :
    trace nid c (a ++ b) = trace nid c a ++ trace nid (run nid c a) b := by
  induction a generalizing c with
  | nil => rfl
  | cons e a ih => simp [trace, run_cons, ih]

/-! ### masks that live in the high byte -/

theorem highbyte_testBit (x i : Nat) (h8 : 8 ≤ i) (h16 : i < 16) :
    (x / 256 % 256 * 256).testBit i = x.testBit i := by
  have e : x / 256 % 256 * 256 = ((x >>> 8) % 2 ^ 8) <<< 8 := by
    rw [Nat.shiftRight_eq_div_pow, Nat.shiftLeft_eq]
  rw [e, Nat.testBit_shiftLeft, Nat.testBit_mod_two_pow, Nat.testBit_shiftRight]
  have : 8 + (i - 8) = i := by omega
  rw [this]
  have h1 : decide (i ≥ 8) = true := by simpa using h8
  have h2 : decide (i - 8 < 8) = true := by simp; omega
  simp [h1, h2]

theorem mask_testBit_false (m i : Nat) (hm : m % 256 = 0) (hlt : m < 65536) (h : i < 8 ∨ 16 ≤ i) :
    m.testBit i = false := by
  rcases h with h | h
  · have := Nat.testBit_mod_two_pow m 8 i
    have hm' : m % 2 ^ 8 = 0 := hm
    rw [hm'] at this
    simp [h] at this
    exact this.symm ▸ rfl
  · apply Nat.testBit_lt_two_pow
    have : 2 ^ 16 ≤ 2 ^ i := Nat.pow_le_pow_right (by decide) h
    omega

/-- a mask that lives in bits 8..15 sees only the high byte of a code -/
theorem and_mask_highbyte (x m : Nat) (hm : m % 256 = 0) (hlt : m < 65536) :
    x &&& m = (x / 256 % 256 * 256) &&& m := by
  apply Nat.eq_of_testBit_eq
  intro i
  simp only [Nat.testBit_and]
  by_cases h : 8 ≤ i ∧ i < 16
  · rw [highbyte_testBit x i h.1 h.2]
  · rw [mask_testBit_false m i hm hlt (by omega)]; simp

/-! ### descriptions -/

theorem rowMatches_highbyte (code : Nat) (r : DescRow) (h : r.mask % 256 = 0 ∧ r.mask < 65536) :
    rowMatches code r = rowMatches (code / 256 % 256 * 256) r := by
  unfold rowMatches
  rw [and_mask_highbyte code r.mask h.1 h.2]

theorem find_highbyte (rows : List DescRow) (code : Nat)
    (h : ∀ r ∈ rows, r.mask % 256 = 0 ∧ r.mask < 65536) :
    rows.find? (rowMatches code) = rows.find? (rowMatches (code / 256 % 256 * 256)) := by
  induction rows with
  | nil => rfl
  | cons r rows ih =>
    simp only [List.find?_cons]
    rw [rowMatches_highbyte code r (h r (by simp)), ih (fun r' hr' => h r' (by simp [hr']))]

/-- `get_desc` over a table whose masks live in bits 8..15 depends on the high byte only -/
theorem descIn_highbyte (rows : List DescRow) (code : Nat)
    (h : ∀ r ∈ rows, r.mask % 256 = 0 ∧ r.mask < 65536) :
    descIn rows code = descIn rows (code / 256 % 256 * 256) := by
  unfold descIn
  rw [find_highbyte rows code h]

theorem descriptions_masks : ∀ r ∈ DESCRIPTIONS, r.mask % 256 = 0 ∧ r.mask < 65536 := by decide

theorem descriptions_highbytes :
    ∀ h : Fin 256, getDesc (h.val * 256) = className (classOfHighByte h.val) := by decide +kernel

theorem isResetCode_highbyte (code : Nat) : isResetCode code = decide (code / 256 % 256 = 0) := by
  have h := and_mask_highbyte code 0xFF00 (by decide) (by decide)
  have key : ∀ k : Fin 256, ((k.val * 256 &&& 0xFF00) == 0) = decide (k.val = 0) := by decide +kernel
  unfold isResetCode
  rw [h]
  exact key ⟨code / 256 % 256, Nat.mod_lt _ (by decide)⟩

/-! ### `wait`: vocabulary and unfolding -/

/-- the entries that arrive during one wake-up, in order -/
def arrivals (nid : Nat) (w : Wake) : List Entry := w.evs.filterMap (delivered nid)

/-- nobody calls `reset()` while the caller waits -/
def NoApiReset (ws : List Wake) : Prop := ∀ w ∈ ws, Ev.reset ∉ w.evs

instance (ws : List Wake) : Decidable (NoApiReset ws) := by unfold NoApiReset; infer_instance

/-- what the property asks for: the next matching entry, or nothing on time-out (a wake-up with
    no arrival is a time-out of the condition variable; arrivals after the deadline are late) -/
def waitSpec (filter : Option Nat) (deadline : Nat) : List (Nat × List Entry) → WaitRes
  | [] => .nothing
  | (now, es) :: rest =>
    if es.isEmpty then .nothing
    else if now > deadline then .nothing
    else match es.find? (matchesFilter filter) with
      | some e => .entry e
      | none => waitSpec filter deadline rest

theorem waitLoop_cons (nid : Nat) (filter : Option Nat) (deadline : Nat) (c : Consumer) (w : Wake)
    (ws : List Wake) (h : Ev.reset ∉ w.evs) :
    waitLoop nid filter deadline c (w :: ws) =
      if (arrivals nid w).isEmpty then ⟨run nid c w.evs, .nothing, 1⟩
      else if w.now > deadline then ⟨run nid c w.evs, .nothing, 1⟩
      else match (arrivals nid w).find? (matchesFilter filter) with
        | some e => ⟨run nid c w.evs, .entry e, 1⟩
        | none =>
          ⟨(waitLoop nid filter deadline (run nid c w.evs) ws).state,
           (waitLoop nid filter deadline (run nid c w.evs) ws).res,
           (waitLoop nid filter deadline (run nid c w.evs) ws).waits + 1⟩ := by
  have hlog := run_log nid w.evs c h
  rw [waitLoop]
  simp only [hlog, List.drop_left]
  cases ha : w.evs.filterMap (delivered nid) with
  | nil => simp [arrivals, ha]
  | cons x xs =>
    have hlen : ¬ (c.log ++ x :: xs).length = c.log.length := by
      simp only [List.length_append, List.length_cons]; omega
    simp only [hlen, if_false, arrivals, ha, List.isEmpty_cons, Bool.false_eq_true]
    by_cases hl : w.now > deadline
    · simp only [hl, if_true]
    · simp only [hl, if_false]
      cases List.find? (matchesFilter filter) (x :: xs) <;> rfl

end Canopen.Emcy
