/-
Helper lemmas for C09 (PDO configuration): the COB-ID word and the mapping word as sums, the
error monad of `CanopenModel/Pdo/Config.lean`, and the "script" calculus used to describe the
write attempts of a client program against an arbitrary device.
Property theorems live in CanopenProofs/C09.lean, never here.
-/
import CanopenModel.Pdo.Config

namespace Canopen.Pdo
open Canopen.Gen.PdoConfig

/-! ### bit fields as arithmetic -/

theorem and_two_pow_eq (w k : Nat) : w &&& 2 ^ k = if w.testBit k then 2 ^ k else 0 := by
  apply Nat.eq_of_testBit_eq; intro i
  rw [Nat.testBit_and, Nat.testBit_two_pow]
  by_cases h : k = i
  · subst h; cases hb : w.testBit k <;> simp [Nat.testBit_two_pow_self]
  · cases hb : w.testBit k <;> simp [h]

theorem testBit_arith (w k : Nat) : w.testBit k = decide (w / 2 ^ k % 2 = 1) :=
  Nat.testBit_eq_decide_div_mod_eq

theorem notValid_eq : PDO_NOT_VALID = 2 ^ 31 := by decide
theorem noRtr_eq : RTR_NOT_ALLOWED = 2 ^ 30 := by decide

/-- the COB-ID word written by `save` is the sum of its three fields -/
theorem cobWord_add (cob : Nat) (h : cob < 2 ^ 29) (nv : Bool) (rtr : Bool) :
    cob ||| (if nv then PDO_NOT_VALID else 0) ||| rtrBit rtr
      = cob + (if nv then 2 ^ 31 else 0) + (if rtr then 0 else 2 ^ 30) := by
  unfold rtrBit
  rw [notValid_eq, noRtr_eq]
  cases nv <;> cases rtr <;>
    simp only [if_true, if_false, Bool.false_eq_true, Nat.or_zero, Nat.add_zero]
  · exact Nat.or_two_pow_eq_add_of_lt (by omega)
  · have h1 : cob ||| 2 ^ 30 = cob + 2 ^ 30 := Nat.or_two_pow_eq_add_of_lt (by omega)
    have h2 : (cob + 2 ^ 30) ||| 2 ^ 31 = cob + 2 ^ 30 + 2 ^ 31 :=
      Nat.or_two_pow_eq_add_of_lt (by omega)
    have h3 : cob ||| 2 ^ 31 ||| 2 ^ 30 = (cob ||| 2 ^ 30) ||| 2 ^ 31 := by
      rw [Nat.or_assoc, Nat.or_comm (2 ^ 31), ← Nat.or_assoc]
    exact h3.trans ((congrArg (· ||| 2 ^ 31) h1).trans (h2.trans (by omega)))
  · exact Nat.or_two_pow_eq_add_of_lt (by omega)

theorem cobWord_invalid (cob : Nat) (h : cob < 2 ^ 29) (rtr : Bool) :
    cob ||| PDO_NOT_VALID ||| rtrBit rtr = cob + 2 ^ 31 + (if rtr then 0 else 2 ^ 30) := by
  simpa using cobWord_add cob h true rtr

theorem cobWord_valid (cob : Nat) (h : cob < 2 ^ 29) (rtr : Bool) :
    cob ||| rtrBit rtr = cob + (if rtr then 0 else 2 ^ 30) := by
  simpa using cobWord_add cob h false rtr

/-- decoding of the COB-ID word as done by `read` -/
theorem decode_cobWord (cob : Nat) (h : cob < 2 ^ 29) (nv rtr : Bool) (w : Nat)
    (hw : w = cob + (if nv then 2 ^ 31 else 0) + (if rtr then 0 else 2 ^ 30)) :
    w &&& 0x1FFFFFFF = cob ∧ (w &&& PDO_NOT_VALID == 0) = !nv ∧ (w &&& RTR_NOT_ALLOWED == 0) = rtr := by
  have e29 : (0x1FFFFFFF : Nat) = 2 ^ 29 - 1 := by decide
  rw [e29, Nat.and_two_pow_sub_one_eq_mod, notValid_eq, noRtr_eq, and_two_pow_eq, and_two_pow_eq,
    testBit_arith, testBit_arith]
  subst hw
  cases nv <;> cases rtr <;> simp only [if_true, if_false, Bool.false_eq_true] <;>
    refine ⟨by omega, ?_, ?_⟩ <;> simp <;> omega

/-- the mapping word is `index * 2^16 + sub * 2^8 + length` -/
theorem entryWord_add (e : MapEntry) (hs : e.sub < 256) (hl : e.len < 256) :
    entryWord false e = e.idx * 65536 + e.sub * 256 + e.len := by
  simp only [entryWord, Bool.false_eq_true, if_false]
  have h1 : e.idx <<< 16 ||| e.sub <<< 8 = (e.idx * 256 + e.sub) <<< 8 := by
    rw [← Nat.shiftLeft_add_eq_or_of_lt (i := 16) (by rw [Nat.shiftLeft_eq]; omega)]
    simp only [Nat.shiftLeft_eq]; omega
  rw [h1, ← Nat.shiftLeft_add_eq_or_of_lt (by omega), Nat.shiftLeft_eq]; omega

theorem entryWord_lt (e : MapEntry) (hi : e.idx < 65536) (hs : e.sub < 256) (hl : e.len < 256) :
    entryWord false e < 2 ^ 32 := by
  rw [entryWord_add e hs hl]; omega

/-- decoding of a mapping word as done by `read` (no curtis hack) -/
theorem decode_entryWord (v : Nat) :
    v >>> 16 = v / 65536 ∧ (v >>> 8) &&& 0xFF = v / 256 % 256 ∧ v &&& 0x7F = v % 128 := by
  have e8 : (0xFF : Nat) = 2 ^ 8 - 1 := by decide
  have e7 : (0x7F : Nat) = 2 ^ 7 - 1 := by decide
  rw [e8, e7, Nat.and_two_pow_sub_one_eq_mod, Nat.and_two_pow_sub_one_eq_mod,
    Nat.shiftRight_eq_div_pow, Nat.shiftRight_eq_div_pow]
  exact ⟨rfl, rfl, rfl⟩

/-! ### the error monad -/

theorem bind_ok {σ α β} {m : M σ α} {f : α → M σ β} {st st' : Run σ} {a : α}
    (h : m st = (st', .ok a)) : M.bind m f st = f a st' := by
  simp [M.bind, h]

theorem bind_err {σ α β} {m : M σ α} {f : α → M σ β} {st st' : Run σ} {e : Err}
    (h : m st = (st', .error e)) : M.bind m f st = (st', .error e) := by
  simp [M.bind, h]

theorem writeAll_append {σ} (D : Dev σ) (od : Od) (l1 l2 : List (Bool × Nat × Nat)) :
    writeAll D od (l1 ++ l2) = M.bind (writeAll D od l1) fun _ => writeAll D od l2 := by
  induction l1 with
  | nil => funext st; simp [writeAll, M.bind, M.pure]
  | cons w l1 ih =>
    obtain ⟨c, s, v⟩ := w
    funext st
    simp only [List.cons_append, writeAll, ih, M.bind]
    cases h : sdoWrite D od c s v st with
    | mk st' r => cases r <;> simp

/-! ### write attempts seen by the device -/

/-- `(index, sub-index, byte count, value)` -/
abbrev W := Nat × Nat × Nat × Nat

def attempted : List Ev → List W
  | [] => []
  | .w i s n v _ :: r => (i, s, n, v) :: attempted r
  | .r _ _ _ :: r => attempted r

theorem attempted_append (a b : List Ev) : attempted (a ++ b) = attempted a ++ attempted b := by
  induction a with
  | nil => rfl
  | cons e a ih => cases e <;> simp [attempted, ih]

/-- the write a client-side step `(isCom, sub, value)` puts on the bus -/
def toW (od : Od) (t : Bool × Nat × Nat) : W := (od.index t.1, t.2.1, width t.1 t.2.1, t.2.2)

/-- Running `m` from any state appends events whose write attempts are a prefix of `l`, and all
    of `l` whenever `m` returns normally (then also `Q` holds of the result). -/
def Script {σ α} (m : M σ α) (l : List W) (Q : α → Prop) : Prop :=
  ∀ st, ∃ evs, (m st).1.log = st.log ++ evs ∧ attempted evs <+: l ∧
    ∀ a, (m st).2 = .ok a → attempted evs = l ∧ Q a

theorem Script_pure {σ α} (a : α) (Q : α → Prop) (h : Q a) : Script (M.pure a : M σ α) [] Q := by
  intro st
  refine ⟨[], by simp [M.pure], by simp [attempted], ?_⟩
  intro b hb
  have : a = b := by simpa [M.pure] using hb
  subst this
  exact ⟨by simp [attempted], h⟩

theorem Script_bind {σ α β} {m : M σ α} {f : α → M σ β} {l1 l2 : List W} {Q : α → Prop}
    {R : β → Prop} (h1 : Script m l1 Q) (h2 : ∀ a, Q a → Script (f a) l2 R) :
    Script (M.bind m f) (l1 ++ l2) R := by
  intro st
  obtain ⟨e1, hl1, hp1, hok1⟩ := h1 st
  cases hm : m st with
  | mk st' r =>
    rw [hm] at hl1 hok1
    cases r with
    | error e =>
      refine ⟨e1, ?_, ?_, ?_⟩
      · rw [bind_err hm]; exact hl1
      · exact List.IsPrefix.trans hp1 (List.prefix_append _ _)
      · intro b hb; rw [bind_err hm] at hb; cases hb
    | ok a =>
      obtain ⟨ha, hq⟩ := hok1 a rfl
      obtain ⟨e2, hl2, hp2, hok2⟩ := h2 a hq st'
      refine ⟨e1 ++ e2, ?_, ?_, ?_⟩
      · rw [bind_ok hm, hl2]; simp only [] at hl1; rw [hl1, List.append_assoc]
      · rw [attempted_append, ha]; exact (List.prefix_append_right_inj l1).mpr hp2
      · intro b hb
        rw [bind_ok hm] at hb
        obtain ⟨hb1, hb2⟩ := hok2 b hb
        exact ⟨by rw [attempted_append, ha, hb1], hb2⟩

/-- what `sdoWrite` does to the log, for every device -/
theorem sdoWrite_cases {σ} (D : Dev σ) (od : Od) (c : Bool) (s v : Nat) (st : Run σ) :
    ((sdoWrite D od c s v st).1.log = st.log ∧ ∃ e, (sdoWrite D od c s v st).2 = .error e ∧
        ∀ code, e ≠ .abort code) ∨
    (∃ rep, (sdoWrite D od c s v st).1.log
        = st.log ++ [Ev.w (od.index c) s (width c s) v rep] ∧
      (sdoWrite D od c s v st).2
        = match rep with | none => .ok () | some code => .error (.abort code)) := by
  unfold sdoWrite
  cases od.lookup c s with
  | none => left; exact ⟨rfl, .key, rfl, by intro c h; cases h⟩
  | some e =>
    simp only []
    by_cases hv : v ≥ 256 ^ width c s
    · left; rw [if_pos hv]; exact ⟨rfl, .value, rfl, by intro c h; cases h⟩
    · right; rw [if_neg hv]; exact ⟨_, rfl, rfl⟩

theorem Script_sdoWrite {σ} (D : Dev σ) (od : Od) (c : Bool) (s v : Nat) :
    Script (sdoWrite D od c s v) [toW od (c, s, v)] (fun _ => True) := by
  intro st
  rcases sdoWrite_cases D od c s v st with ⟨hl, e, he, _⟩ | ⟨rep, hl, hr⟩
  · exact ⟨[], by simp [hl], by simp [attempted], by intro a ha; rw [he] at ha; cases ha⟩
  · exact ⟨_, hl, by simp [attempted, toW], by intro a _; simp [attempted, toW]⟩

theorem Script_writeAll {σ} (D : Dev σ) (od : Od) (ws : List (Bool × Nat × Nat)) :
    Script (writeAll D od ws) (ws.map (toW od)) (fun _ => True) := by
  induction ws with
  | nil => exact Script_pure () _ trivial
  | cons w ws ih =>
    obtain ⟨c, s, v⟩ := w
    simp only [writeAll, List.map_cons]
    exact Script_bind (l1 := [toW od (c, s, v)]) (Script_sdoWrite D od c s v) (fun _ _ => ih)

theorem Script_countStep {σ} (D : Dev σ) (od : Od) (n : Nat) :
    Script (countStep D od n) [toW od (false, 0, n)] (fun _ => True) := by
  intro st
  unfold countStep
  rcases sdoWrite_cases D od false 0 n st with ⟨hl, e, he, hne⟩ | ⟨rep, hl, hr⟩
  · refine ⟨[], ?_, by simp [attempted], ?_⟩
    · cases hs : sdoWrite D od false 0 n st with
      | mk st' r =>
        rw [hs] at hl he; simp only [] at he hl; subst he
        cases e <;> first | exact absurd rfl (hne _) | (simp; exact hl)
    · intro a ha
      cases hs : sdoWrite D od false 0 n st with
      | mk st' r =>
        rw [hs] at he ha; simp only [] at he; subst he
        cases e <;> first | exact absurd rfl (hne _) | (simp at ha)
  · refine ⟨[Ev.w (od.index false) 0 (width false 0) n rep], ?_, by simp [attempted, toW],
      by intro a _; simp [attempted, toW]⟩
    cases hs : sdoWrite D od false 0 n st with
    | mk st' r =>
      rw [hs] at hl hr; simp only [] at hl hr
      cases rep with
      | none => subst hr; simpa using hl
      | some code => subst hr; simp only []; split <;> exact hl

theorem Script_validateStep {σ} (D : Dev σ) (od : Od) (cfg : Cfg) (cob : Nat) :
    Script (validateStep D od cfg cob)
      (if cfg.enabled then [toW od (true, 1, cob ||| rtrBit cfg.rtr)] else []) (fun _ => True) := by
  unfold validateStep
  cases cfg.enabled
  · exact Script_pure () _ trivial
  · exact Script_sdoWrite D od true 1 _

/-! ## The safe procedure as a list of writes -/

/-- the writes after the zeroing of the number of entries -/
def tailPlan (od : Od) (cfg : Cfg) (cob : Nat) (map' : List MapEntry) : List W :=
  (entryWrites od.curtis 1 map').map (toW od) ++
    ([toW od (false, 0, map'.length)] ++
      ((if cfg.enabled then [toW od (true, 1, cob ||| rtrBit cfg.rtr)] else []) ++ []))

/-- the complete write sequence of `save` for the mapping `map'` -/
def plan (od : Od) (cfg : Cfg) (cob : Nat) (map' : List MapEntry) : List W :=
  (comWrites cfg cob).map (toW od) ++ ([toW od (false, 0, 0)] ++ tailPlan od cfg cob map')

/-- the abort of the zeroing write, as an event -/
def zeroRefused (od : Od) (c : Nat) : Ev := Ev.w od.mapIdx 0 1 0 (some c)

theorem fillMap_zero (map : List MapEntry) : fillMap map 0 = map := by
  simp [fillMap]

theorem sdoRead_cases {σ} (D : Dev σ) (od : Od) (c : Bool) (s : Nat) (st : Run σ) :
    ∃ evs, (sdoRead D od c s st).1.log = st.log ++ evs ∧ attempted evs = [] := by
  unfold sdoRead
  cases od.lookup c s with
  | none => exact ⟨[], by simp, rfl⟩
  | some e => exact ⟨[Ev.r (od.index c) s (D.read st.dev (od.index c) s).2], rfl, rfl⟩

theorem zeroStep_spec {σ} (D : Dev σ) (od : Od) (map : List MapEntry) (st : Run σ) :
    ∃ evs, (zeroStep D od map st).1.log = st.log ++ evs ∧
      attempted evs <+: [toW od (false, 0, 0)] ∧
      ∀ map', (zeroStep D od map st).2 = .ok map' →
        attempted evs = [toW od (false, 0, 0)] ∧
        ∃ n, map' = fillMap map n ∧ ((∀ c, zeroRefused od c ∉ evs) → n = 0) := by
  unfold zeroStep
  rcases sdoWrite_cases D od false 0 0 st with ⟨hl, e, he, hne⟩ | ⟨rep, hl, hr⟩
  · cases hs : sdoWrite D od false 0 0 st with
    | mk st' r =>
      rw [hs] at hl he; simp only [] at hl he; subst he
      refine ⟨[], ?_, by simp [attempted], ?_⟩
      · cases e <;> first | exact absurd rfl (hne _) | (simpa using hl)
      · intro map' hm
        cases e <;> first | exact absurd rfl (hne _) | (simp at hm)
  · cases hs : sdoWrite D od false 0 0 st with
    | mk st' r =>
      rw [hs] at hl hr; simp only [] at hl hr
      cases rep with
      | none =>
        subst hr
        refine ⟨[Ev.w (od.index false) 0 (width false 0) 0 none], by simpa using hl,
          by simp [attempted, toW], ?_⟩
        intro map' hm
        refine ⟨by simp [attempted, toW], 0, ?_, fun _ => rfl⟩
        simp only [Except.ok.injEq] at hm
        rw [fillMap_zero]; exact hm.symm
      | some code =>
        subst hr
        simp only []
        obtain ⟨e2, hl2, ha2⟩ := sdoRead_cases D od false 0 st'
        cases hrd : sdoRead D od false 0 st' with
        | mk st'' r2 =>
          rw [hrd] at hl2; simp only [] at hl2
          refine ⟨Ev.w (od.index false) 0 (width false 0) 0 (some code) :: e2, ?_, ?_, ?_⟩
          · cases r2 <;> simp only [] <;> rw [hl2, hl] <;> simp
          · have : attempted (Ev.w (od.index false) 0 (width false 0) 0 (some code) :: e2)
                = [toW od (false, 0, 0)] := by simp [attempted, ha2, toW]
            rw [this]; exact List.prefix_refl _
          · intro map' hm
            refine ⟨by simp [attempted, ha2, toW], ?_⟩
            cases r2 with
            | error e => simp at hm
            | ok n =>
              refine ⟨n, ?_, ?_⟩
              · simp only [Except.ok.injEq] at hm; exact hm.symm
              · intro hno
                have hmem : zeroRefused od code ∈
                    Ev.w (od.index false) 0 (width false 0) 0 (some code) :: e2 := by
                  have : zeroRefused od code
                      = Ev.w (od.index false) 0 (width false 0) 0 (some code) := rfl
                  rw [this]; exact List.mem_cons_self
                exact absurd hmem (hno code)

/-! ### shape of the entry writes -/


theorem entryWrites_getElem? (od : Od) (m : List MapEntry) (k i : Nat) (hk : 0 < k) :
    ((entryWrites od.curtis k m).map (toW od))[i]?
      = m[i]?.map fun e => (od.mapIdx, k + i, 4, entryWord od.curtis e) := by
  induction m generalizing k i with
  | nil => simp [entryWrites]
  | cons e m ih =>
    cases i with
    | zero =>
      have : k ≠ 0 := by omega
      simp [entryWrites, toW, Od.index, width, this]
    | succ i =>
      simp only [entryWrites, List.map_cons, List.getElem?_cons_succ, ih (k + 1) i (by omega)]
      have : k + 1 + i = k + (i + 1) := by omega
      rw [this]

theorem entryWrites_length (od : Od) (m : List MapEntry) (k : Nat) :
    ((entryWrites od.curtis k m).map (toW od)).length = m.length := by
  induction m generalizing k with
  | nil => rfl
  | cons e m ih => simp [entryWrites, ih]

theorem optW_mem (sub : Nat) (o : Option Nat) (od : Od) :
    ∀ w ∈ (optW sub o).map (toW od), w.1 = od.comIdx ∧ w.2.1 = sub := by
  intro w hw
  cases o <;> simp [optW, toW, Od.index] at hw
  subst hw; exact ⟨rfl, rfl⟩

end Canopen.Pdo
