/-
Lemmas about the export model (CanopenModel/Eds/Export.lean): what `_revert_variable` writes is a
spelling the importer reads back; option lookup in exported sections; one exported variable
section through `build_variable`.
-/
import CanopenModel.Eds.Export
import CanopenProofs.Lemmas.EdsHeader
import CanopenProofs.Lemmas.EdsLookup

namespace Canopen.Spec.EdsWriter
open Canopen.Eds Canopen.Gen.Datatypes Canopen.Gen.EdsTables

/-! ### the exporter's spellings are spellings of the independent writer -/

def spHex2 : NumSp := { base := .hex, upDigits := true, pad := 2 }
def spHex4 : NumSp := { base := .hex, upDigits := true, pad := 4 }

theorem revertInt_eq (i : Int) : revertInt i = spellInt spHex2 i := by
  unfold revertInt spellInt spellNat spHex2
  split <;> rfl

theorem intStr_eq (i : Int) : intStr i = spellInt {} i := by
  unfold intStr spellInt spellNat
  split <;> rfl

theorem hex04_eq (n : Nat) : hex04 (n : Int) = spellNat spHex4 n := by
  unfold hex04 fmtHexPad spellNat spHex4
  have : ¬ ((n : Int) < 0) := by omega
  simp only [this, if_false, Int.toNat_natCast]
  rfl

theorem toHexStr_eq (bs : List Nat) : toHexStr bs = spellBytes false false bs := by
  induction bs with
  | nil => rfl
  | cons b r ih =>
    cases r with
    | nil => simp [toHexStr, spellBytes]
    | cons c r' =>
      simp only [toHexStr, List.flatMap_cons] at ih ⊢
      simp only [spellBytes, Bool.false_eq_true, if_false, List.nil_append]
      rw [← ih]; rfl

/-! ### `f"{index:04X}"` is the writer's four-digit section name -/

theorem natDigitsF_fuel (b : Nat) (hb2 : 2 ≤ b) : ∀ (f1 f2 n : Nat), n < f1 → n < f2 →
    natDigitsF b f1 n = natDigitsF b f2 n := by
  intro f1
  induction f1 with
  | zero => intro f2 n h; omega
  | succ f1 ih =>
    intro f2 n h1 h2
    cases f2 with
    | zero => omega
    | succ f2 =>
      simp only [natDigitsF]
      split
      · rfl
      · rename_i hb
        have hlt : n / b < n := Nat.div_lt_self (by omega) (by omega)
        rw [ih f2 (n / b) (by omega) (by omega)]

theorem natDigits_rec (b : Nat) (n : Nat) (h : b ≤ n) (hb : 2 ≤ b) :
    natDigits b n = natDigits b (n / b) ++ [n % b] := by
  unfold natDigits
  have hlt : n / b < n := Nat.div_lt_self (by omega) (by omega)
  rw [show natDigitsF b (n + 1) n = natDigitsF b n (n / b) ++ [n % b] from by
    simp only [natDigitsF]; rw [if_neg (by omega)]]
  rw [natDigitsF_fuel b hb n (n / b + 1) (n / b) hlt (by omega)]

theorem natDigits_small (b n : Nat) (h : n < b) : natDigits b n = [n] := by
  simp [natDigits, natDigitsF, h]

theorem fmtHexPad4_eq_hex4 (i : Nat) (hi : i < 65536) : fmtHexPad 4 (i : Int) = hex4 true i := by
  have hneg : ¬ ((i : Int) < 0) := by omega
  simp only [fmtHexPad, hneg, if_false, Int.toNat_natCast, zpad, natStr, hex4]
  by_cases h1 : i < 16
  · rw [natDigits_small 16 i h1]
    have e1 : i / 4096 % 16 = 0 := by omega
    have e2 : i / 256 % 16 = 0 := by omega
    have e3 : i / 16 % 16 = 0 := by omega
    have e4 : i % 16 = i := by omega
    simp [e1, e2, e3, e4, digitChar_zero, List.replicate]
  · by_cases h2 : i < 256
    · rw [natDigits_rec 16 i (by omega) (by omega), natDigits_small 16 (i / 16) (by omega)]
      have e1 : i / 4096 % 16 = 0 := by omega
      have e2 : i / 256 % 16 = 0 := by omega
      have e3 : i / 16 % 16 = i / 16 := by omega
      simp [e1, e2, e3, digitChar_zero, List.replicate]
    · by_cases h3 : i < 4096
      · rw [natDigits_rec 16 i (by omega) (by omega), natDigits_rec 16 (i / 16) (by omega) (by omega),
          natDigits_small 16 (i / 16 / 16) (by omega)]
        have e1 : i / 4096 % 16 = 0 := by omega
        have e2 : i / 256 % 16 = i / 16 / 16 := by omega
        have e3 : i / 16 % 16 = i / 16 % 16 := rfl
        simp [e1, e2, digitChar_zero, List.replicate]
      · rw [natDigits_rec 16 i (by omega) (by omega), natDigits_rec 16 (i / 16) (by omega) (by omega),
          natDigits_rec 16 (i / 16 / 16) (by omega) (by omega),
          natDigits_small 16 (i / 16 / 16 / 16) (by omega)]
        have e1 : i / 4096 % 16 = i / 16 / 16 / 16 := by omega
        have e2 : i / 256 % 16 = i / 16 / 16 % 16 := by omega
        simp [e1, e2]

/-! ### dictionaries -/

theorem dictGet_dictSet {κ β : Type} [DecidableEq κ] (k k' : κ) (v : β) (d : List (κ × β)) :
    dictGet k (dictSet k' v d) = if k' = k then some v else dictGet k d := by
  split
  · rename_i h; subst h; exact dictGet_dictSet_same _ _ _
  · rename_i h; exact dictGet_dictSet_ne _ _ _ _ h

theorem dictGet_setOpt (k k' : Str) (o : Option Str) (d : List (Str × Str)) :
    dictGet k (setOpt k' o d) = if k' = k then (match o with | some v => some v | none => dictGet k d)
      else dictGet k d := by
  cases o with
  | none => simp [setOpt]
  | some v => simp only [setOpt, dictGet_dictSet]

/-! ### option lookup in an exported variable section -/

section
variable (v : Var) (hdt : v.dataType ≠ 0) (dflt pval : Option Str)
include hdt

set_option maxRecDepth 4000 in
theorem get_varSec_ParameterName : dictGet kParameterName (varSecOpts v dflt pval) = some v.name := by
  simp [varSecOpts, hdt, dictGet_dictSet, dictGet_setOpt, dictGet, kParameterName, kStorageLocation, kObjectType,
    kDataType, kAccessType, kDefaultValue, kParameterValue, kPDOMapping, kLowLimit, kHighLimit,
    kDescription, kFactor, kUnit, kCompactSubObj]

set_option maxRecDepth 4000 in
theorem get_varSec_StorageLocation : dictGet kStorageLocation (varSecOpts v dflt pval) = truthyStr v.storage := by
  simp [varSecOpts, hdt, dictGet_dictSet, dictGet_setOpt, dictGet, kParameterName, kStorageLocation, kObjectType,
    kDataType, kAccessType, kDefaultValue, kParameterValue, kPDOMapping, kLowLimit, kHighLimit,
    kDescription, kFactor, kUnit, kCompactSubObj]
  try (cases h : (truthyStr v.storage) <;> rfl)

set_option maxRecDepth 4000 in
theorem get_varSec_ObjectType : dictGet kObjectType (varSecOpts v dflt pval) = some c!"0x7" := by
  simp [varSecOpts, hdt, dictGet_dictSet, dictGet_setOpt, dictGet, kParameterName, kStorageLocation, kObjectType,
    kDataType, kAccessType, kDefaultValue, kParameterValue, kPDOMapping, kLowLimit, kHighLimit,
    kDescription, kFactor, kUnit, kCompactSubObj]

set_option maxRecDepth 4000 in
theorem get_varSec_DataType : dictGet kDataType (varSecOpts v dflt pval) = some (hex04 v.dataType) := by
  simp [varSecOpts, hdt, dictGet_dictSet, dictGet_setOpt, dictGet, kParameterName, kStorageLocation, kObjectType,
    kDataType, kAccessType, kDefaultValue, kParameterValue, kPDOMapping, kLowLimit, kHighLimit,
    kDescription, kFactor, kUnit, kCompactSubObj]

set_option maxRecDepth 4000 in
theorem get_varSec_AccessType : dictGet kAccessType (varSecOpts v dflt pval) = nonEmpty v.accessType := by
  simp [varSecOpts, hdt, dictGet_dictSet, dictGet_setOpt, dictGet, kParameterName, kStorageLocation, kObjectType,
    kDataType, kAccessType, kDefaultValue, kParameterValue, kPDOMapping, kLowLimit, kHighLimit,
    kDescription, kFactor, kUnit, kCompactSubObj]
  try (cases h : (nonEmpty v.accessType) <;> rfl)

set_option maxRecDepth 4000 in
theorem get_varSec_DefaultValue : dictGet kDefaultValue (varSecOpts v dflt pval) = dflt := by
  simp [varSecOpts, hdt, dictGet_dictSet, dictGet_setOpt, dictGet, kParameterName, kStorageLocation, kObjectType,
    kDataType, kAccessType, kDefaultValue, kParameterValue, kPDOMapping, kLowLimit, kHighLimit,
    kDescription, kFactor, kUnit, kCompactSubObj]
  try (cases h : (dflt) <;> rfl)

set_option maxRecDepth 4000 in
theorem get_varSec_ParameterValue : dictGet kParameterValue (varSecOpts v dflt pval) = pval := by
  simp [varSecOpts, hdt, dictGet_dictSet, dictGet_setOpt, dictGet, kParameterName, kStorageLocation, kObjectType,
    kDataType, kAccessType, kDefaultValue, kParameterValue, kPDOMapping, kLowLimit, kHighLimit,
    kDescription, kFactor, kUnit, kCompactSubObj]
  try (cases h : (pval) <;> rfl)

set_option maxRecDepth 4000 in
theorem get_varSec_PDOMapping : dictGet kPDOMapping (varSecOpts v dflt pval) = some (if v.pdoMappable then c!"0x1" else c!"0x0") := by
  simp [varSecOpts, hdt, dictGet_dictSet, dictGet_setOpt, dictGet, kParameterName, kStorageLocation, kObjectType,
    kDataType, kAccessType, kDefaultValue, kParameterValue, kPDOMapping, kLowLimit, kHighLimit,
    kDescription, kFactor, kUnit, kCompactSubObj]

set_option maxRecDepth 4000 in
theorem get_varSec_LowLimit : dictGet kLowLimit (varSecOpts v dflt pval) = v.min.map intStr := by
  simp [varSecOpts, hdt, dictGet_dictSet, dictGet_setOpt, dictGet, kParameterName, kStorageLocation, kObjectType,
    kDataType, kAccessType, kDefaultValue, kParameterValue, kPDOMapping, kLowLimit, kHighLimit,
    kDescription, kFactor, kUnit, kCompactSubObj]
  try (cases h : (v.min.map intStr) <;> rfl)

set_option maxRecDepth 4000 in
theorem get_varSec_HighLimit : dictGet kHighLimit (varSecOpts v dflt pval) = v.max.map intStr := by
  simp [varSecOpts, hdt, dictGet_dictSet, dictGet_setOpt, dictGet, kParameterName, kStorageLocation, kObjectType,
    kDataType, kAccessType, kDefaultValue, kParameterValue, kPDOMapping, kLowLimit, kHighLimit,
    kDescription, kFactor, kUnit, kCompactSubObj]
  try (cases h : (v.max.map intStr) <;> rfl)

set_option maxRecDepth 4000 in
theorem get_varSec_Description : dictGet kDescription (varSecOpts v dflt pval) = nonEmpty v.description := by
  simp [varSecOpts, hdt, dictGet_dictSet, dictGet_setOpt, dictGet, kParameterName, kStorageLocation, kObjectType,
    kDataType, kAccessType, kDefaultValue, kParameterValue, kPDOMapping, kLowLimit, kHighLimit,
    kDescription, kFactor, kUnit, kCompactSubObj]
  try (cases h : (nonEmpty v.description) <;> rfl)

set_option maxRecDepth 4000 in
theorem get_varSec_Factor : dictGet kFactor (varSecOpts v dflt pval) = v.factor := by
  simp [varSecOpts, hdt, dictGet_dictSet, dictGet_setOpt, dictGet, kParameterName, kStorageLocation, kObjectType,
    kDataType, kAccessType, kDefaultValue, kParameterValue, kPDOMapping, kLowLimit, kHighLimit,
    kDescription, kFactor, kUnit, kCompactSubObj]
  try (cases h : (v.factor) <;> rfl)

set_option maxRecDepth 4000 in
theorem get_varSec_Unit : dictGet kUnit (varSecOpts v dflt pval) = nonEmpty v.unit := by
  simp [varSecOpts, hdt, dictGet_dictSet, dictGet_setOpt, dictGet, kParameterName, kStorageLocation, kObjectType,
    kDataType, kAccessType, kDefaultValue, kParameterValue, kPDOMapping, kLowLimit, kHighLimit,
    kDescription, kFactor, kUnit, kCompactSubObj]
  try (cases h : (nonEmpty v.unit) <;> rfl)

set_option maxRecDepth 4000 in
theorem get_varSec_CompactSubObj : dictGet kCompactSubObj (varSecOpts v dflt pval) = none := by
  simp [varSecOpts, hdt, dictGet_dictSet, dictGet_setOpt, dictGet, kParameterName, kStorageLocation, kObjectType,
    kDataType, kAccessType, kDefaultValue, kParameterValue, kPDOMapping, kLowLimit, kHighLimit,
    kDescription, kFactor, kUnit, kCompactSubObj]

end

end Canopen.Spec.EdsWriter
