/-
Helper lemmas for C12, third part: the fuel of `run` never runs out when only finitely many
client frames are lost — each retransmission is paid for by a lost frame.
Property theorems live in CanopenProofs/C12.lean.
-/
import CanopenProofs.Lemmas.BlockDownLoss

namespace Canopen.C12
open Canopen Canopen.Crc Canopen.Gen.SdoBlock Canopen.Sdo.BlockDown
open Canopen.Spec.BlockDown (Srv Phase)

/-- number of lost frames among the `k` frames numbered `a, a+1, …` -/
def lostCount (E : Env) (a k : Nat) : Nat := ((List.range' a k).filter E.lost).length

theorem lostCount_succ (E : Env) (a k : Nat) :
    lostCount E a (k + 1) = (if E.lost a then 1 else 0) + lostCount E (a + 1) k := by
  simp only [lostCount, List.range'_succ, List.filter_cons]
  split <;> simp; omega

/-- at most `N` frames are lost from frame `a` on -/
def AtMost (E : Env) (a N : Nat) : Prop := ∀ k, lostCount E a k ≤ N

theorem atMost_next {E : Env} {a N : Nat} (h : AtMost E a N) : AtMost E (a + 1) N := by
  intro k; have := h (k + 1); rw [lostCount_succ] at this; omega

theorem atMost_lost {E : Env} {a N : Nat} (h : AtMost E a N) (hl : E.lost a = true) :
    1 ≤ N ∧ AtMost E (a + 1) (N - 1) := by
  have h1 := h 1
  rw [lostCount_succ] at h1
  simp only [hl, if_true] at h1
  refine ⟨by omega, ?_⟩
  intro k; have := h (k + 1); rw [lostCount_succ] at this; simp only [hl, if_true] at this; omega

theorem run_done_ok (E : Env) (payload : Bytes) : ∀ (fuel : Nat) (s : Sys) (t : List Item),
    itemsData t = [] → TodoOK t → t.length + 1 ≤ fuel → (run E fuel s t).2 = .ok := by
  intro fuel
  induction fuel with
  | zero => intro s t _ _ hf; omega
  | succ f ih =>
    intro s t ht hok hf
    cases t with
    | nil => simp [run]
    | cons x t =>
      cases x with
      | endRetx =>
        simp only [run]
        exact ih _ t ht hok (by simp at hf; omega)
      | write b r =>
        exfalso
        obtain ⟨h1, -⟩ := hok
        simp only [itemsData, List.append_eq_nil_iff] at ht
        rw [ht.1] at h1; simp at h1
      | feed rem offs => exact absurd hok (by simp [TodoOK])

theorem run_doomed_err (E : Env) (fuel : Nat) (s : Sys) (todo : List Item) (h : Doomed s todo) (hf : 1 ≤ fuel) :
    (run E fuel s todo).2 = .err := by
  obtain ⟨hd, b, r, t, rfl⟩ := h
  obtain ⟨f, rfl⟩ : ∃ f, fuel = f + 1 := ⟨fuel - 1, by omega⟩
  simp [run, writeStep, hd]

/-- **The write phase never runs out of fuel** when at most `N` frames are lost from now on and the
    fuel covers the pending work plus 130 steps per possible retransmission. -/
theorem run_no_fuel (E : Env) (hE : Plain E) (payload : Bytes) :
    ∀ (fuel : Nat) (s : Sys) (todo : List Item) (N : Nat), Inv payload s todo → AtMost E s.nreq N →
    todo.length + 130 * (N + (if s.srv.sseq < s.cl.seqno then 1 else 0)) + 2 ≤ fuel →
    (run E fuel s todo).2 ≠ .fuel := by
  intro fuel
  induction fuel with
  | zero => intro s todo N _ _ hf; omega
  | succ f ih =>
    intro s todo N hinv hN hf
    cases todo with
    | nil => exact absurd rfl hinv.nonempty
    | cons x t =>
      cases x with
      | endRetx =>
        simp only [run]
        exact ih _ t N (inv_endRetx hinv) hN (by simp only [List.length_cons] at hf; simpa using (by omega))
      | write b r =>
        simp only [run]
        rw [writeStep_eq E payload s b r t hinv]
        simp only [List.length_cons] at hf
        by_cases ht : itemsData t = []
        · -- the last segment
          rw [if_pos ht]
          have hp := send_last E hE payload s b r t hinv ht
          generalize send E s b true = res at hp ⊢
          obtain ⟨s1, w⟩ := res
          cases w with
          | err => simp
          | cont items =>
            simp only
            rcases hp with ⟨hd, hi, -⟩ | hp
            · subst hi
              rw [List.nil_append, run_done_ok E payload f s1 t ht hinv.todoOK.2.2.2 (by omega)]; simp
            · rw [run_doomed_err E f s1 _ hp (by omega)]; simp
        · rw [if_neg ht]
          have hb7 := hinv.todoOK.2.2.1 ht
          by_cases hacc : E.lost s.nreq = false ∧ s.srv.sseq = s.cl.seqno
          · obtain ⟨s', he, hinv', hs', hk, -, -⟩ := send_sync_nonlast E hE payload s b r t hinv hb7 ht hacc.2 hacc.1
            rw [he]
            simp only [List.nil_append]
            have hng : ¬ s'.srv.sseq < s'.cl.seqno := by omega
            refine ih s' t N hinv' (by rw [hk.nreq]; exact atMost_next hN) ?_
            rw [if_neg hng]
            split at hf <;> omega
          · have hna : E.lost s.nreq = true ∨ s.srv.sseq < s.cl.seqno := by
              have := hinv.sseqLe
              by_cases hl : E.lost s.nreq = true
              · exact Or.inl hl
              · right
                have hl' : E.lost s.nreq = false := by simpa using hl
                have : ¬ s.srv.sseq = s.cl.seqno := fun h => hacc ⟨hl', h⟩
                omega
            -- what the loss budget looks like after this frame
            have hbud : ∃ N', AtMost E (s.nreq + 1) N' ∧
                N' + 1 ≤ N + (if s.srv.sseq < s.cl.seqno then 1 else 0) := by
              by_cases hl : E.lost s.nreq = true
              · obtain ⟨h1, h2⟩ := atMost_lost hN hl
                exact ⟨N - 1, h2, by split <;> omega⟩
              · have hg : s.srv.sseq < s.cl.seqno := by
                  rcases hna with h | h
                  · exact absurd h hl
                  · exact h
                exact ⟨N, atMost_next hN, by rw [if_pos hg]; exact Nat.le_refl _⟩
            obtain ⟨N', hN', hle⟩ := hbud
            have hstep := send_noacc_nonlast E hE payload s b r t hinv hb7 ht hna
            by_cases hlt : s.cl.seqno + 1 < s.cl.blksize
            · rw [if_pos hlt] at hstep
              obtain ⟨s', he, hinv', hk, e1, e2, -⟩ := hstep
              rw [he]
              simp only [List.nil_append]
              refine ih s' t N' hinv' (by rw [hk.nreq]; exact hN') ?_
              have : s'.srv.sseq < s'.cl.seqno := by have := hinv.sseqLe; omega
              rw [if_pos this]
              have h130 : 130 * (N' + 1) ≤ 130 * (N + (if s.srv.sseq < s.cl.seqno then 1 else 0)) :=
                Nat.mul_le_mul_left _ hle
              omega
            · rw [if_neg hlt] at hstep
              obtain ⟨s', he, hinv', hk, e1, e2, -⟩ := hstep
              rw [he]
              refine ih s' _ N' hinv' (by rw [hk.nreq]; exact hN') ?_
              have hng : ¬ s'.srv.sseq < s'.cl.seqno := by omega
              rw [if_neg hng]
              have hbl : ((s.cl.currentBlock ++ [b]).drop s.srv.sseq).length ≤ 127 := by
                have := hinv.seqLen; have := hinv.seqLt; have := hinv.blkLe
                simp only [List.length_drop, List.length_append, List.length_cons, List.length_nil]; omega
              have h130 : 130 * (N' + 1) ≤ 130 * (N + (if s.srv.sseq < s.cl.seqno then 1 else 0)) :=
                Nat.mul_le_mul_left _ hle
              simp only [List.length_append, retxItems_length]
              omega
      | feed rem offs => exact absurd hinv.todoOK (by simp [TodoOK])

theorem filter_or_le (R : List Nat) (p q : Nat → Bool) :
    (R.filter fun n => p n || q n).length ≤ (R.filter p).length + (R.filter q).length := by
  induction R with
  | nil => simp
  | cons x R ih =>
    simp only [List.filter_cons]
    cases p x <;> cases q x <;> simp <;> omega

theorem filter_mem_le (L : List Nat) : ∀ (R : List Nat), R.Nodup →
    (R.filter fun n => L.contains n).length ≤ L.length := by
  induction L with
  | nil => intro R _; simp
  | cons a L ih =>
    intro R hR
    have h1 : (R.filter fun n => n == a).length ≤ 1 := by
      have := (List.nodup_iff_count.mp hR) a
      rw [List.count_eq_length_filter] at this
      exact this
    have h2 := ih R hR
    have h3 := filter_or_le R (fun n => n == a) (fun n => L.contains n)
    have h4 : (R.filter fun n => (a :: L).contains n) = R.filter fun n => (n == a || L.contains n) := by
      congr 1
    rw [h4]; simp only [List.length_cons]; omega

theorem atMost_of_list (blkOf : Nat → Nat) (L : List Nat) (a : Nat) :
    AtMost { blkOf := blkOf, lost := fun n => L.contains n } a L.length := by
  intro k
  exact filter_mem_le L _ (List.nodup_range')

end Canopen.C12
