/-
C17 helper lemmas, third layer: what runs is current.  `Wanted c s o …` is the frame the API state
of producer `o` says it transmits; `Current` says every handle that drives a live bus task carries
that frame.  Preserved by every API call except an `NmtSlave.send_command` that raises after it has
changed the NMT state, and an assignment to the `period` attribute of a producer whose task is
running (`Clean` excludes exactly those).
-/
import CanopenProofs.Lemmas.PeriodicOps

namespace Canopen.Periodic

/-- the frame (id, payload, remote flag, period) the API state says producer `o` transmits -/
def Wanted (c : Cfg) (s : State) (o : Owner) (id : Nat) (d : Bytes) (r : Bool) (p : Nat) : Prop :=
  match o with
  | .sync => id = c.syncCob ∧ d = [] ∧ r = false ∧ s.syncPeriod = some p
  | .pdo n k => (s.pdo n k).cob = some id ∧ d = (s.pdo n k).data ∧ r = false ∧ (s.pdo n k).period = some p
  | .hb n => id = hbId n ∧ d = [(s.slave n).st] ∧ r = false ∧ (p : Int) = (s.slave n).hbTime * 1000
  | .guard n => id = hbId n ∧ d = [] ∧ r = true

/-- every handle other than `x`'s that drives a live task carries its producer's current frame -/
def CurrentBut (c : Cfg) (s : State) (x : Option Owner) : Prop :=
  ∀ o t, some o ≠ x → s.slots o = some t → (s.bus.task t.idx).live = true →
    Wanted c s o t.canId t.data t.remote t.period

abbrev Current (c : Cfg) (s : State) : Prop := CurrentBut c s none

variable {c : Cfg} {s : State}

theorem Wanted.congr {s' : State} (hsp : s'.syncPeriod = s.syncPeriod) (hp : s'.pdo = s.pdo)
    (hs : s'.slave = s.slave) (o id d r p) : Wanted c s' o id d r p ↔ Wanted c s o id d r p := by
  cases o <;> simp [Wanted, hsp, hp, hs]

theorem Wanted.setPdo_ne {o : Owner} {n k : Nat} (h : o ≠ .pdo n k) (q id d r p) :
    Wanted c (setPdo s n k q) o id d r p ↔ Wanted c s o id d r p := by
  cases o with
  | pdo n' k' =>
    have : ¬(n' = n ∧ k' = k) := by rintro ⟨rfl, rfl⟩; exact h rfl
    simp [Wanted, Canopen.Periodic.setPdo_ne _ _ this]
  | _ => simp [Wanted]

theorem Wanted.setSlave_ne {o : Owner} {n : Nat} (h : o ≠ .hb n) (q id d r p) :
    Wanted c (setSlave s n q) o id d r p ↔ Wanted c s o id d r p := by
  cases o with
  | hb n' =>
    have : n' ≠ n := by rintro rfl; exact h rfl
    simp [Wanted, Canopen.Periodic.setSlave_ne _ _ this]
  | _ => simp [Wanted]

theorem Wanted.setSlave_same {n : Nat} {q : SlaveF} (h1 : q.st = (s.slave n).st)
    (h2 : q.hbTime = (s.slave n).hbTime) (o id d r p) :
    Wanted c (setSlave s n q) o id d r p ↔ Wanted c s o id d r p := by
  by_cases ho : o = .hb n
  · subst ho; simp [Wanted, h1, h2]
  · exact Wanted.setSlave_ne ho _ _ _ _ _

theorem Wanted.syncPeriod_ne {o : Owner} (h : o ≠ .sync) (q id d r p) :
    Wanted c { s with syncPeriod := q } o id d r p ↔ Wanted c s o id d r p := by
  cases o with
  | sync => exact absurd rfl h
  | _ => simp [Wanted]

theorem CurrentBut.weaken {x : Option Owner} (h : Current c s) : CurrentBut c s x :=
  fun o t _ ht hl => h o t (by simp) ht hl

theorem CurrentBut.of_none {o : Owner} (h : CurrentBut c s (some o)) (hs : s.slots o = none) :
    Current c s := by
  intro o' t _ ht hl
  by_cases ho : o' = o
  · subst ho; rw [hs] at ht; cases ht
  · exact h o' t (by simpa using ho) ht hl

theorem CurrentBut.of_dead {o : Owner} (h : CurrentBut c s (some o))
    (hs : ∀ t, s.slots o = some t → (s.bus.task t.idx).live = false) : Current c s := by
  intro o' t _ ht hl
  by_cases ho : o' = o
  · subst ho; rw [hs t ht] at hl; cases hl
  · exact h o' t (by simpa using ho) ht hl

/-- a change of attributes that leaves bus and handles alone -/
theorem CurrentBut.congr {s' : State} {x x' : Option Owner} (h : CurrentBut c s x)
    (hb : s'.bus = s.bus) (hs : s'.slots = s.slots)
    (hw : ∀ o, some o ≠ x' → some o ≠ x ∧ ∀ id d r p, Wanted c s o id d r p → Wanted c s' o id d r p) :
    CurrentBut c s' x' := by
  intro o t hx ht hl
  rw [hs] at ht; rw [hb] at hl
  exact (hw o hx).2 _ _ _ _ (h o t (hw o hx).1 ht hl)

theorem cur_stopClear {x : Option Owner} (h : CurrentBut c s x) (o : Owner) :
    CurrentBut c (stopClear s o) x := by
  intro o' t hx ht hl
  by_cases ho : o' = o
  · subst ho; rw [stopClear_slot_none] at ht; cases ht
  · rw [stopClear_slot_ne _ ho] at ht
    have := h o' t hx ht ((stopClear_task s o t.idx).2.2.2.2.2 hl)
    exact (Wanted.congr (by simp) (by simp) (by simp) _ _ _ _ _).2 this

theorem cur_stopClear_self {o : Owner} (h : CurrentBut c s (some o)) : Current c (stopClear s o) :=
  (cur_stopClear h o).of_none (stopClear_slot_none s o)

theorem stopKeep_dead (s : State) (o : Owner) (t : PTask) (ht : (stopKeep s o).slots o = some t) :
    ((stopKeep s o).bus.task t.idx).live = false := by
  simp only [stopKeep_slots] at ht
  unfold stopKeep
  rw [ht]
  simp [Bus.stop_task]

theorem cur_stopKeep {x : Option Owner} (h : CurrentBut c s x) (o : Owner) :
    CurrentBut c (stopKeep s o) x := by
  intro o' t hx ht hl
  simp only [stopKeep_slots] at ht
  have := h o' t hx ht (stopKeep_live s o t.idx hl)
  exact (Wanted.congr (by simp) (by simp) (by simp) _ _ _ _ _).2 this

theorem cur_stopAll (h : Current c s) (l : List (Nat × Nat)) : Current c (stopAll s l) := by
  induction l generalizing s with
  | nil => exact h
  | cons e r ih => obtain ⟨n, k⟩ := e; exact ih (cur_stopClear h _)

theorem cur_send (hi : Inv c s) (h : Current c s) (o : Owner) (id : Nat) (d : Bytes) (p : Nat) (r : Bool)
    (hw : Wanted c s o id d r p) :
    Current c (setSlot { s with bus := s.bus.send ⟨id, d, r, p, o, true⟩ } o (some ⟨id, d, r, p, s.bus.n⟩)) := by
  intro o' t _ ht hl
  by_cases ho : o' = o
  · subst ho
    simp only [setSlot_same, Option.some.injEq] at ht
    subst ht
    exact (Wanted.congr rfl rfl rfl _ _ _ _ _).2 hw
  · rw [setSlot_ne _ _ ho] at ht
    have a := hi.slotBus o' t ht
    have hlt : t.idx ≠ s.bus.n := by have := a.1; omega
    simp only [setSlot_bus, Bus.send_task, hlt, if_false] at hl
    exact (Wanted.congr rfl rfl rfl _ _ _ _ _).2 (h o' t (by simp) ht hl)

theorem cur_startSlot (hi : Inv c s) (h : Current c s) (o : Owner) (id : Option Nat) (d : Bytes) (p : Nat)
    (r : Bool) (hw : ∀ v, id = some v → Wanted c s o v d r p) : Current c (startSlot s o id d p r).1 := by
  rcases startSlot_cases s o id d p r with he | ⟨v, hv, _, he⟩
  · rw [he]; exact h
  · rw [he]; exact cur_send hi h o v d p r (hw v hv)

theorem cur_updateSlot (hi : Inv c s) {o : Owner} (ho : o ≠ .sync) (h : CurrentBut c s (some o)) (d : Bytes)
    (hw : ∀ t, s.slots o = some t → (s.bus.task t.idx).live = true →
      Wanted c s o t.canId d t.remote t.period) : Current c (updateSlot c s o d) := by
  unfold updateSlot
  cases hs : s.slots o with
  | none => simpa [hs] using h.of_none hs
  | some t =>
    simp only []
    have hlive := hi.slotLive o t ho hs
    have hwt := hw t hs hlive
    unfold ptUpdate
    by_cases hm : c.modify = true
    · simp only [hm, if_true]
      intro o' t' _ ht' hl
      by_cases hoo : o' = o
      · subst hoo
        simp only [setSlot_same, Option.some.injEq] at ht'
        subst ht'
        exact (Wanted.congr rfl rfl rfl _ _ _ _ _).2 hwt
      · rw [setSlot_ne _ _ hoo] at ht'
        have hit : t'.idx ≠ t.idx := fun e => hoo (hi.idx_inj hs ht' e)
        simp only [setSlot_bus, Bus.modifyData_task, hit, if_false] at hl
        exact (Wanted.congr rfl rfl rfl _ _ _ _ _).2 (h o' t' (by simpa using hoo) ht' hl)
    · simp only [hm, Bool.false_eq_true, if_false]
      by_cases hd : d = t.data
      · simp only [hd, ne_eq, not_true_eq_false, if_false]
        intro o' t' _ ht' hl
        by_cases hoo : o' = o
        · subst hoo
          simp only [setSlot_same, Option.some.injEq] at ht'
          subst ht'
          rw [hd] at hwt
          exact (Wanted.congr rfl rfl rfl _ _ _ _ _).2 hwt
        · rw [setSlot_ne _ _ hoo] at ht'
          exact (Wanted.congr rfl rfl rfl _ _ _ _ _).2 (h o' t' (by simpa using hoo) ht' hl)
      · simp only [ne_eq, hd, not_false_eq_true, if_true]
        intro o' t' _ ht' hl
        by_cases hoo : o' = o
        · subst hoo
          simp only [setSlot_same, Option.some.injEq] at ht'
          subst ht'
          exact (Wanted.congr rfl rfl rfl _ _ _ _ _).2 hwt
        · rw [setSlot_ne _ _ hoo] at ht'
          have a := hi.slotBus o' t' ht'
          have hlt : t'.idx ≠ s.bus.n := by have := a.1; omega
          have hit : t'.idx ≠ t.idx := fun e => hoo (hi.idx_inj hs ht' e)
          simp only [setSlot_bus, Bus.send_task, Bus.stop_n, Bus.stop_task, hlt, hit, if_false] at hl
          exact (Wanted.congr rfl rfl rfl _ _ _ _ _).2 (h o' t' (by simpa using hoo) ht' hl)

/-! ### the API calls -/

theorem cur_startIfValid (hi : Inv c s) (h : Current c s) (o : Owner) (period id : Option Nat) (d : Bytes)
    (hw : ∀ v i, period = some v → id = some i → Wanted c s o i d false v) :
    Current c (startIfValid s o period id d).1 := by
  unfold startIfValid
  split
  · exact h
  · rename_i v hv
    exact cur_startSlot hi h _ _ _ _ _ (fun i hi' => hw v i (validPeriod_some hv) hi')

theorem cur_syncStart (hi : Inv c s) (h : Current c s) (p : Option Nat) : Current c (syncStart c s p).1 := by
  have i1 := inv_stopKeep_sync hi
  have c1 : Current c (stopKeep s .sync) := cur_stopKeep h .sync
  unfold syncStart
  cases p with
  | none =>
    refine cur_startIfValid i1 c1 _ _ _ _ ?_
    intro v i hv hi'; cases hi'
    exact ⟨rfl, rfl, rfl, hv⟩
  | some v0 =>
    simp only []
    have i2 : Inv c { stopKeep s .sync with syncPeriod := some v0 } := i1.congr rfl rfl
    have c2 : Current c { stopKeep s .sync with syncPeriod := some v0 } := by
      have cb : CurrentBut c { stopKeep s .sync with syncPeriod := some v0 } (some .sync) := by
        refine c1.congr rfl rfl ?_
        intro o ho
        have ho' : o ≠ .sync := by simpa using ho
        exact ⟨by simp, fun id d r p => (Wanted.syncPeriod_ne ho' _ _ _ _ _).2⟩
      exact cb.of_dead (fun t ht => stopKeep_dead s .sync t ht)
    refine cur_startIfValid i2 c2 _ _ _ _ ?_
    intro v i hv hi'; cases hi'
    exact ⟨rfl, rfl, rfl, hv⟩

theorem cur_pdoStart (hi : Inv c s) (h : Current c s) (n k : Nat) (p : Option Nat) :
    Current c (pdoStart s n k p).1 := by
  have i1 := inv_stopClear hi (.pdo n k)
  have c1 : Current c (stopClear s (.pdo n k)) := cur_stopClear h _
  unfold pdoStart
  cases p with
  | none =>
    refine cur_startIfValid i1 c1 _ _ _ _ ?_
    intro v i hv hi'
    exact ⟨hi', rfl, rfl, hv⟩
  | some v0 =>
    simp only []
    generalize hs2 : setPdo (stopClear s (.pdo n k)) n k _ = s2
    have i2 : Inv c s2 := by subst hs2; exact i1.congr rfl rfl
    have c2 : Current c s2 := by
      subst hs2
      have cb : CurrentBut c (setPdo (stopClear s (.pdo n k)) n k
          { (stopClear s (.pdo n k)).pdo n k with period := some v0 }) (some (.pdo n k)) := by
        refine c1.congr rfl rfl ?_
        intro o ho
        have ho' : o ≠ .pdo n k := by simpa using ho
        exact ⟨by simp, fun id d r p => (Wanted.setPdo_ne ho' _ _ _ _ _).2⟩
      exact cb.of_none (by simpa using stopClear_slot_none s (.pdo n k))
    refine cur_startIfValid i2 c2 _ _ _ _ ?_
    intro v i hv hi'
    exact ⟨hi', rfl, rfl, hv⟩

/-- the handle of `o`, if any, drives no live task (for all producers but SYNC: there is no handle) -/
def Idle (s : State) (o : Owner) : Prop := ∀ t, s.slots o = some t → (s.bus.task t.idx).live = false

theorem Idle.of_none {o : Owner} (h : s.slots o = none) : Idle s o := by
  intro t ht; rw [h] at ht; cases ht

theorem cur_syncSetPeriod (h : Current c s) (p : Option Nat) (hid : Idle s .sync) :
    Current c (syncSetPeriod s p) := by
  unfold syncSetPeriod
  have cb : CurrentBut c { s with syncPeriod := p } (some .sync) := by
    refine h.congr rfl rfl ?_
    intro o ho
    have ho' : o ≠ .sync := by simpa using ho
    exact ⟨by simp, fun id d r p => (Wanted.syncPeriod_ne ho' _ _ _ _ _).2⟩
  exact cb.of_dead hid

theorem cur_pdoSetPeriod (h : Current c s) (n k : Nat) (p : Option Nat) (hid : Idle s (.pdo n k)) :
    Current c (pdoSetPeriod s n k p) := by
  unfold pdoSetPeriod
  have cb : CurrentBut c (setPdo s n k { s.pdo n k with period := p }) (some (.pdo n k)) := by
    refine h.congr rfl rfl ?_
    intro o ho
    have ho' : o ≠ .pdo n k := by simpa using ho
    exact ⟨by simp, fun id d r p => (Wanted.setPdo_ne ho' _ _ _ _ _).2⟩
  exact cb.of_dead hid

/-- a received frame changes `data`/`period` only while the map does not transmit -/
theorem cur_pdoReceive (h : Current c s) (n k dt : Nat) (d : Bytes) : Current c (pdoReceive s n k dt d) := by
  unfold pdoReceive
  simp only []
  split
  · exact h.congr rfl rfl (fun o ho => ⟨ho, fun id d r p => (Wanted.congr rfl rfl rfl _ _ _ _ _).2⟩)
  · rename_i hs
    have cb : CurrentBut c (setPdo { s with now := s.now + dt } n k
        (received (s.pdo n k) (s.now + dt) d)) (some (.pdo n k)) := by
      refine h.congr rfl rfl ?_
      intro o ho
      have ho' : o ≠ .pdo n k := by simpa using ho
      refine ⟨by simp, fun id d r p hw => (Wanted.setPdo_ne ho' _ _ _ _ _).2 ?_⟩
      exact (Wanted.congr rfl rfl rfl _ _ _ _ _).2 hw
    exact cb.of_none hs

theorem cur_pdoUpdate (hi : Inv c s) (h : Current c s) (n k : Nat) (d : Bytes) :
    Current c (pdoUpdate c s n k d) := by
  unfold pdoUpdate
  simp only []
  have i1 : Inv c (setPdo s n k { s.pdo n k with data := d }) := hi.congr rfl rfl
  refine cur_updateSlot i1 (by simp) ?_ d ?_
  · refine h.congr rfl rfl ?_
    intro o ho
    have ho' : o ≠ .pdo n k := by simpa using ho
    exact ⟨by simp, fun id d r p => (Wanted.setPdo_ne ho' _ _ _ _ _).2⟩
  · intro t ht hl
    have w := h (.pdo n k) t (by simp) ht hl
    simp only [Wanted] at w ⊢
    simp only [setPdo_same]
    exact ⟨w.1, trivial, w.2.2.1, w.2.2.2⟩

theorem cur_pdoSetByte (hi : Inv c s) (h : Current c s) (n k i v : Nat) :
    Current c (pdoSetByte c s n k i v).1 := by
  unfold pdoSetByte
  split
  · exact cur_pdoUpdate hi h _ _ _
  · exact h

/-- `start_heartbeat` restores currentness of the heartbeat whatever its task carried before -/
theorem cur_hbStart (hi : Inv c s) {n : Nat} (h : CurrentBut c s (some (.hb n))) (ms : Int) :
    Current c (hbStart s n ms).1 := by
  unfold hbStart hbStop
  simp only []
  generalize hs1 : setSlave s n _ = s1
  have i1 : Inv c s1 := by subst hs1; exact hi.congr rfl rfl
  have c1 : CurrentBut c s1 (some (.hb n)) := by
    subst hs1
    refine h.congr rfl rfl ?_
    intro o ho
    have ho' : o ≠ .hb n := by simpa using ho
    exact ⟨ho, fun id d r p => (Wanted.setSlave_ne ho' _ _ _ _ _).2⟩
  have ht1 : (s1.slave n).hbTime = ms := by subst hs1; simp
  have i2 := inv_stopClear i1 (.hb n)
  have c2 : Current c (stopClear s1 (.hb n)) := cur_stopClear_self c1
  split
  · rename_i hpos
    refine cur_startSlot i2 c2 _ _ _ _ _ ?_
    intro v' hv'; cases hv'
    refine ⟨rfl, rfl, rfl, ?_⟩
    simp only [stopClear_slave, ht1]
    omega
  · exact c2

theorem cur_hbStop {x : Option Owner} (h : CurrentBut c s x) (n : Nat) : CurrentBut c (hbStop s n) x :=
  cur_stopClear h _

theorem cur_hbUpdate (hi : Inv c s) (h : Current c s) (n : Nat) : Current c (hbUpdate c s n) := by
  unfold hbUpdate
  refine cur_updateSlot hi (by simp) h.weaken _ ?_
  intro t ht hl
  have w := h (.hb n) t (by simp) ht hl
  simp only [Wanted] at w ⊢
  exact ⟨w.1, trivial, w.2.2.1, w.2.2.2⟩

theorem cur_onWrite (hi : Inv c s) (h : Current c s) (n idx : Nat) (d : Bytes) :
    Current c (onWrite s n idx d).1 := by
  unfold onWrite
  split
  · split
    · simp only []
      split
      · exact cur_hbStop h n
      · exact cur_hbStart hi h.weaken _
    · exact h
  · exact h

theorem cur_writeHbTime (hi : Inv c s) (h : Current c s) (n v : Nat) : Current c (writeHbTime s n v).1 := by
  unfold writeHbTime
  have h1 := cur_onWrite hi h n 0x1017 (leBytes 2 v)
  split
  · simp only []
    split
    · refine h1.congr rfl rfl ?_
      intro o ho
      refine ⟨ho, fun id d r p hw => ?_⟩
      refine (Wanted.setSlave_same ?_ ?_ _ _ _ _ _).2 hw <;> rfl
    · exact h1
  · exact h

/-- after `self._state = new_state` only the heartbeat of that node can be stale -/
theorem cur_but_applyCmd (h : Current c s) (n code : Nat) : CurrentBut c (applyCmd s n code) (some (.hb n)) := by
  unfold applyCmd
  split
  · refine h.congr rfl rfl ?_
    intro o ho
    have ho' : o ≠ .hb n := by simpa using ho
    exact ⟨by simp, fun id d r p => (Wanted.setSlave_ne ho' _ _ _ _ _).2⟩
  · exact h.weaken

theorem applyCmd_bus (s : State) (n code : Nat) : (applyCmd s n code).bus = s.bus := by
  unfold applyCmd; split <;> rfl
theorem applyCmd_slots (s : State) (n code : Nat) : (applyCmd s n code).slots = s.slots := by
  unfold applyCmd; split <;> rfl
theorem applyCmd_hbTime (s : State) (n code : Nat) :
    ((applyCmd s n code).slave n).hbTime = (s.slave n).hbTime := by
  unfold applyCmd; split <;> simp

/-- `self._state = new_state; self.update_heartbeat()` -/
theorem cur_applyCmd_hbUpdate (hi : Inv c s) (h : Current c s) (n code : Nat) :
    Current c (hbUpdate c (applyCmd s n code) n) := by
  have i1 := inv_applyCmd hi n code
  unfold hbUpdate
  refine cur_updateSlot i1 (by simp) (cur_but_applyCmd h n code) _ ?_
  intro t ht hl
  rw [applyCmd_slots] at ht
  rw [applyCmd_bus] at hl
  have w := h (.hb n) t (by simp) ht hl
  simp only [Wanted] at w ⊢
  rw [applyCmd_hbTime]
  exact ⟨w.1, trivial, w.2.2.1, w.2.2.2⟩

/-- a command that leaves the NMT state as it was leaves everything current -/
theorem cur_applyCmd_same (h : Current c s) (n code : Nat)
    (hst : ((applyCmd s n code).slave n).st = (s.slave n).st) : Current c (applyCmd s n code) := by
  unfold applyCmd at hst ⊢
  split
  · rename_i ns hns
    simp only [hns, setSlave_same] at hst
    refine h.congr rfl rfl ?_
    intro o ho
    refine ⟨ho, fun id d r p hw => ?_⟩
    refine (Wanted.setSlave_same ?_ ?_ _ _ _ _ _).2 hw
    · exact hst
    · rfl
  · exact h

/-- `NmtSlave.send_command` keeps everything current when it returns normally, and also when it
    raises without having changed the NMT state -/
theorem cur_sendCommand (hi : Inv c s) (h : Current c s) (n code : Nat)
    (hc : (sendCommand c s n code).2 = true ∨
          ((sendCommand c s n code).1.slave n).st = (s.slave n).st) :
    Current c (sendCommand c s n code).1 := by
  have i1 := inv_applyCmd hi n code
  unfold sendCommand at hc ⊢
  simp only [] at hc ⊢
  split
  · rename_i hbr
    rw [if_pos hbr] at hc
    rcases hc with hc | hc
    · cases hc
    · exact cur_applyCmd_same h n code hc
  · rename_i hbr
    rw [if_neg hbr] at hc
    unfold sendCommandTail at hc ⊢
    split
    · rename_i hboot
      rw [if_pos hboot] at hc
      cases hod : ((applyCmd s n code).slave n).od1017 with
      | none =>
        simp only [hod] at hc ⊢
        rcases hc with hc | hc
        · cases hc
        · rw [hboot.1, hboot.2] at hc; cases hc
      | some v =>
        simp only []
        exact cur_hbStart i1 (cur_but_applyCmd h n code) _
    · exact cur_applyCmd_hbUpdate hi h n code

theorem cur_onCommand (hi : Inv c s) (h : Current c s) (cmd nid n : Nat) :
    Current c (onCommand c s cmd nid n) := by
  unfold onCommand
  simp only []
  split
  · exact cur_applyCmd_hbUpdate hi h n cmd
  · exact cur_hbUpdate hi h n

theorem cur_onCommandAll (hi : Inv c s) (h : Current c s) (cmd nid : Nat) (l : List Nat) :
    Current c (onCommandAll c s cmd nid l) := by
  induction l generalizing s with
  | nil => exact h
  | cons n r ih => exact ih (inv_onCommand hi cmd nid n) (cur_onCommand hi h cmd nid n)

theorem cur_nmtFrame (hi : Inv c s) (h : Current c s) (d : Bytes) : Current c (nmtFrame c s d).1 := by
  unfold nmtFrame
  split
  · exact cur_onCommandAll hi h _ _ _
  · exact h

theorem cur_guardStart (hi : Inv c s) (h : Current c s) (n p : Nat) : Current c (guardStart s n p).1 := by
  unfold guardStart guardStop
  simp only []
  cases hs : s.slots (.guard n) with
  | none =>
    refine cur_startSlot hi h _ _ _ _ _ ?_
    intro v hv; cases hv; exact ⟨rfl, rfl, rfl⟩
  | some t =>
    refine cur_startSlot (inv_stopClear hi _) (cur_stopClear h _) _ _ _ _ _ ?_
    intro v hv; cases hv; exact ⟨rfl, rfl, rfl⟩

theorem cur_disconnect (h : Current c s) : Current c (disconnect c s) := by
  unfold disconnect
  refine (cur_stopAll h c.pdos).congr rfl rfl ?_
  intro o ho
  exact ⟨ho, fun id d r p => (Wanted.congr rfl rfl rfl _ _ _ _ _).2⟩

/-- the NMT node a state-change call addresses -/
def Op.nmtNode : Op → Option Nat
  | .sendCommand n _ => some n
  | .setState n _ => some n
  | _ => none

/-- the producer whose `period` attribute a call assigns by hand -/
def Op.assigns : Op → Option Owner
  | .syncSetPeriod _ => some .sync
  | .pdoSetPeriod n k _ => some (.pdo n k)
  | _ => none

/-- the call is neither a state change of an `NmtSlave` that raised after changing the state nor an
    assignment to the `period` attribute of a producer whose task is running -/
def Clean (c : Cfg) (s : State) (op : Op) : Prop :=
  (∀ n, op.nmtNode = some n →
    (step c s op).2 = true ∨ ((step c s op).1.slave n).st = (s.slave n).st) ∧
  (∀ o, op.assigns = some o → Idle s o)

theorem cur_exec (hi : Inv c s) (h : Current c s) (op : Op)
    (hcl : ∀ n, op.nmtNode = some n →
      (exec c s op).2 = true ∨ ((exec c s op).1.slave n).st = (s.slave n).st)
    (hid : ∀ o, op.assigns = some o → Idle s o) :
    Current c (exec c s op).1 := by
  cases op with
  | syncStart p => exact cur_syncStart hi h p
  | syncStop => exact cur_stopKeep h .sync
  | syncSetPeriod p => exact cur_syncSetPeriod h p (hid _ rfl)
  | pdoSetPeriod n k p => exact cur_pdoSetPeriod h n k p (hid _ rfl)
  | pdoReceive n k dt d => exact cur_pdoReceive h n k dt d
  | pdoStart n k p => exact cur_pdoStart hi h n k p
  | pdoStop n k => exact cur_stopClear h _
  | pdoUpdate n k d => exact cur_pdoUpdate hi h n k d
  | pdoSetByte n k i v => exact cur_pdoSetByte hi h n k i v
  | pdoStopNode n => exact cur_stopAll h _
  | hbStart n ms => exact cur_hbStart hi h.weaken ms
  | hbStop n => exact cur_hbStop h n
  | hbUpdate n => exact cur_hbUpdate hi h n
  | hbWrite n v => exact cur_writeHbTime hi h n v
  | hbSdoWrite n v => exact cur_writeHbTime hi h n v
  | onWrite n idx d => exact cur_onWrite hi h n idx d
  | sendCommand n code => exact cur_sendCommand hi h n code (hcl n rfl)
  | setState n name =>
    have hcl' := hcl n rfl
    simp only [exec] at hcl' ⊢
    unfold setState at hcl' ⊢
    split
    · rename_i e he
      simp only [he] at hcl'
      exact cur_sendCommand hi h n _ hcl'
    · exact h
  | nmtFrame d => exact cur_nmtFrame hi h d
  | guardStart n p => exact cur_guardStart hi h n p
  | guardStop n => exact cur_stopClear h _
  | disconnect => exact cur_disconnect h
  | exitWith w => exact cur_disconnect h
  | connect =>
    exact h.congr rfl rfl (fun o ho => ⟨ho, fun id d r p => (Wanted.congr rfl rfl rfl _ _ _ _ _).2⟩)

theorem cur_step (hi : Inv c s) (h : Current c s) (op : Op) (hcl : Clean c s op) :
    Current c (step c s op).1 := by
  obtain ⟨hcl, hid⟩ := hcl
  unfold step at *
  split
  · rename_i hw
    simp only [hw, if_true] at hcl
    exact cur_exec hi h op hcl hid
  · exact h

/-- no state change of an `NmtSlave` in the history raised after changing the state -/
def CleanRun (c : Cfg) : State → List Op → Prop
  | _, [] => True
  | s, op :: r => Clean c s op ∧ CleanRun c (step c s op).1 r

theorem cur_run (hi : Inv c s) (h : Current c s) (ops : List Op) (hcl : CleanRun c s ops) :
    Current c (run c s ops) := by
  induction ops generalizing s with
  | nil => exact h
  | cons op r ih => exact ih (inv_step hi op) (cur_step hi h op hcl.1) hcl.2

end Canopen.Periodic
