/-
Helper lemmas for the SDO client model against the strict server specification: command-byte
arithmetic (finite facts by `decide`), evaluated single exchanges.
-/
import CanopenModel.Sdo.Client
import CanopenModel.Spec.SdoServer
import CanopenProofs.Lemmas.Bytes

namespace Canopen.Sdo
open Canopen Canopen.Spec Canopen.Gen.SdoConst

/-- the peer used throughout: the strict server, logging its responses -/
abbrev PS := SS × List Bytes

def specPeer : Peer PS := fun (s, log) req =>
  let (s', rs) := ssStep s req
  ((s', log ++ rs), rs)

/-! ### command bytes -/

/-- a download segment request, as the strict server decodes it -/
theorem segDownCmd_fields : ∀ t : Bool, ∀ l ∈ [0, 1, 2, 3, 4, 5, 6, 7], ∀ last : Bool,
    let c := segDownCmd (tb t) l last
    c >>> 5 = 0 ∧ (c &&& 0x10 != 0) = t ∧ (c >>> 1) &&& 7 = 7 - l ∧ (c &&& 0x01 != 0) = last := by
  decide

/-- the closing empty segment of `close()` -/
theorem closeCmd_fields : ∀ t : Bool,
    let c := REQUEST_SEGMENT_DOWNLOAD ||| NO_MORE_DATA ||| tb t ||| (7 <<< 1)
    c >>> 5 = 0 ∧ (c &&& 0x10 != 0) = t ∧ (c >>> 1) &&& 7 = 7 ∧ (c &&& 0x01 != 0) = true := by
  decide

/-- segmented download initiate command, size declared or not -/
theorem downInitCmd_fields : ∀ sized : Bool,
    let c := REQUEST_DOWNLOAD ||| (if sized then SIZE_SPECIFIED else 0)
    c >>> 5 = 1 ∧ (c &&& 0x10 != 0) = false ∧ (c &&& 0x02 != 0) = false ∧ (c &&& 0x01 != 0) = sized ∧
      (c >>> 2) &&& 3 = 0 := by decide

/-- expedited download command for 1..4 bytes -/
theorem expDownCmd_fields : ∀ l ∈ [1, 2, 3, 4],
    let c := REQUEST_DOWNLOAD ||| EXPEDITED ||| SIZE_SPECIFIED ||| ((4 - l) <<< 2)
    c >>> 5 = 1 ∧ (c &&& 0x10 != 0) = false ∧ (c &&& 0x02 != 0) = true ∧ (c &&& 0x01 != 0) = true ∧
      (c >>> 2) &&& 3 = 4 - l := by decide

/-- responses of the strict server, as the client decodes them -/
theorem resp_fields :
    (0x60 ≠ RESPONSE_ABORTED ∧ (0x60 : Nat) = RESPONSE_DOWNLOAD ∧ 0x60 &&& 0xE0 = RESPONSE_DOWNLOAD) ∧
    (∀ t : Bool, 0x20 + tb t ≠ RESPONSE_ABORTED ∧ (0x20 + tb t) &&& 0xE0 = RESPONSE_SEGMENT_DOWNLOAD) := by
  decide

/-- upload: request commands as the server decodes them -/
theorem upReq_fields :
    (REQUEST_UPLOAD >>> 5 = 2 ∧ (REQUEST_UPLOAD &&& 0x1F != 0) = false) ∧
    (∀ t : Bool, (REQUEST_SEGMENT_UPLOAD ||| tb t) >>> 5 = 3 ∧
      (((REQUEST_SEGMENT_UPLOAD ||| tb t) &&& 0x10) != 0) = t ∧
      (((REQUEST_SEGMENT_UPLOAD ||| tb t) &&& 0x0F) != 0) = false) := by decide

/-- upload: initiate responses as the client decodes them -/
theorem upInitResp_fields :
    (∀ l ∈ [1, 2, 3, 4], let c := 0x43 + (4 - l) * 4
      c ≠ RESPONSE_ABORTED ∧ c &&& 0xE0 = RESPONSE_UPLOAD ∧ c &&& EXPEDITED ≠ 0 ∧ c &&& SIZE_SPECIFIED ≠ 0 ∧
        4 - ((c >>> 2) &&& 3) = l) ∧
    ((0x42 : Nat) ≠ RESPONSE_ABORTED ∧ 0x42 &&& 0xE0 = RESPONSE_UPLOAD ∧ 0x42 &&& EXPEDITED ≠ 0 ∧
      0x42 &&& SIZE_SPECIFIED = 0) ∧
    ((0x41 : Nat) ≠ RESPONSE_ABORTED ∧ 0x41 &&& 0xE0 = RESPONSE_UPLOAD ∧ 0x41 &&& EXPEDITED = 0 ∧
      0x41 &&& SIZE_SPECIFIED ≠ 0) ∧
    ((0x40 : Nat) ≠ RESPONSE_ABORTED ∧ 0x40 &&& 0xE0 = RESPONSE_UPLOAD ∧ 0x40 &&& EXPEDITED = 0 ∧
      0x40 &&& SIZE_SPECIFIED = 0) := by decide

/-- upload: segment responses as the client decodes them -/
theorem upSegResp_fields : ∀ t : Bool, ∀ l ∈ [0, 1, 2, 3, 4, 5, 6, 7], ∀ last : Bool,
    let c := 0x00 + tb t + (7 - l) * 2 + (if last then 1 else 0)
    c ≠ RESPONSE_ABORTED ∧ c &&& 0xE0 = RESPONSE_SEGMENT_UPLOAD ∧ c &&& TOGGLE_BIT = tb t ∧
      7 - ((c >>> 1) &&& 7) = l ∧ (decide (c &&& NO_MORE_DATA ≠ 0)) = last := by decide

theorem tb_xor (t : Bool) : tb t ^^^ TOGGLE_BIT = tb (!t) := by cases t <;> decide

theorem mem07 (l : Nat) (h : l ≤ 7) : l ∈ [0, 1, 2, 3, 4, 5, 6, 7] := by
  simp only [List.mem_cons, List.not_mem_nil, or_false]; omega

theorem mem14 (l : Nat) (h1 : 1 ≤ l) (h4 : l ≤ 4) : l ∈ [1, 2, 3, 4] := by
  simp only [List.mem_cons, List.not_mem_nil, or_false]; omega

/-! ### frames -/

theorem muxB_length (idx sub : Nat) : (muxB idx sub).length = 3 := by simp [muxB]

theorem padTo_len (k : Nat) (bs : Bytes) (h : bs.length ≤ k) : (padTo k bs).length = k := by
  simp [padTo]; omega

theorem padTo_take' (k : Nat) (bs : Bytes) : (padTo k bs).take bs.length = bs := by simp [padTo]

theorem padTo_drop_zero (k : Nat) (bs : Bytes) : allZeroB ((padTo k bs).drop bs.length) = true := by
  simp [padTo, allZeroB]

theorem allZeroB_replicate (k : Nat) : allZeroB (List.replicate k 0) = true := by
  simp [allZeroB]

theorem flagIf_false (s : SS) (w : String) : flagIf s false w = s := rfl

theorem flagIf_illegal (s : SS) (c : Bool) (w : String) (h : (flagIf s c w).illegal = none) :
    c = false ∧ s.illegal = none := by
  cases c
  · exact ⟨rfl, h⟩
  · simp only [flagIf, if_true, flag] at h
    cases hs : s.illegal <;> simp [hs] at h

end Canopen.Sdo
