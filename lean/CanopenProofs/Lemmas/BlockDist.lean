/-
Helper lemmas for C07 on block downloads: response disturbances that are fatal at the wait that
reads them (lost, replaced by an abort frame, wrong command specifier), and the C12 write-phase
invariant carried through a run in which one response is hit by such a disturbance.
Property theorems live in CanopenProofs/C07Block.lean.
-/
import CanopenProofs.Lemmas.BlockDownLoss
namespace Canopen.C07.BD
open Canopen Canopen.Crc Canopen.Gen.SdoBlock Canopen.Sdo.BlockDown Canopen.C12
open Canopen.Sdo (CErr Kind)
open Canopen.Spec.BlockDown (Srv Phase)

def abortFrame (a b d code : Nat) : Bytes := [0x80, a, b, d] ++ leBytes 4 code

/-- disturbances of a response after which the client either cannot go on at the wait that reads the
    frame, or takes the same decision as for the genuine frame: the response is lost, replaced by
    an abort frame, or carries a wrong command specifier -/
inductive Fatal : Kind → Prop
  | lost : Fatal .lost
  | abort (a b d code : Nat) (hc : code < 2 ^ 32) : Fatal (.replace (abortFrame a b d code))
  | scs (n : Nat) (h1 : n < 8) (h2 : n ≠ 5) : Fatal (.setScs n)

/-- the C07 setting for block downloads: no request is lost, the server's own time-out never fires
    before the client's, and the server's `at_`-th response is hit by a fatal disturbance -/
structure Tame (E : Env) (at_ : Nat) (k : Kind) : Prop where
  blk : ∀ j, 1 ≤ E.blkOf j ∧ E.blkOf j ≤ 127
  lost : ∀ n, E.lost n = false
  dist : E.dist = some (at_, k)
  tmo : E.srvTimeout = false
  fatal : Fatal k

theorem fatal_later {k : Kind} (h : Fatal k) (r : Bytes) : (distort k r).2 = [] := by
  cases h <;> rfl

theorem sendReq_dist (E : Env) (at_ : Nat) (k : Kind) (hT : Tame E at_ k) (s : Sys) (f : Bytes) (hp : s.pending = []) :
    sendReq E s f =
      { s with nreq := s.nreq + 1, srv := (Spec.BlockDown.step E.blkOf s.srv f).1,
               nresp := s.nresp + (Spec.BlockDown.step E.blkOf s.srv f).2.length,
               queue := s.queue ++ (distFrames at_ k s.nresp (Spec.BlockDown.step E.blkOf s.srv f).2).1,
               pending := (distFrames at_ k s.nresp (Spec.BlockDown.step E.blkOf s.srv f).2).2,
               log := ((distFrames at_ k s.nresp (Spec.BlockDown.step E.blkOf s.srv f).2).1.map (Ev.mk 5)).reverse
                        ++ ⟨0, f⟩ :: s.log } := by
  simp [sendReq, hT.lost, hT.dist, hp]

theorem scs_bits : ∀ n : Fin 8, n.val ≠ 5 →
    ((0xA2 &&& 0x1F) ||| (n.val <<< 5)) ≠ 0x80 ∧ ((0xA2 &&& 0x1F) ||| (n.val <<< 5)) &&& 0xE0 ≠ 0xA0 ∧
    ((0xA0 &&& 0x1F) ||| (n.val <<< 5)) &&& 0xE0 ≠ 0xA0 ∧ ((0xA4 &&& 0x1F) ||| (n.val <<< 5)) &&& 0xE0 ≠ 0xA0 ∧
    ((0xA1 &&& 0x1F) ||| (n.val <<< 5)) ≠ 0x80 ∧ ((0xA1 &&& 0x1F) ||| (n.val <<< 5)) &&& 1 = 1 ∧
    ((0x80 &&& 0x1F) ||| (n.val <<< 5)) &&& 1 = 0 := by decide

theorem classify_abortFrame (a b d code : Nat) (hc : code < 2 ^ 32) :
    classify (abortFrame a b d code) = .aborted code := by
  have hv : leVal (leBytes 4 code) = code := by
    rw [leVal_leBytes]; exact Nat.mod_eq_of_lt (by simpa using hc)
  have : List.take 4 (leBytes 4 code) = leBytes 4 code := by simp [leBytes]
  simp [classify, abortFrame, RESPONSE_ABORTED, this, hv]

/-- a disturbed acknowledge stops `_block_ack` -/
theorem blockAck_fatal (E : Env) (k : Kind) (hk : Fatal k) (ht : E.srvTimeout = false) (s : Sys) (a nb : Nat)
    (hq : s.queue = (distort k (ackFrame a nb)).1) : (blockAck E s).2 = .err := by
  cases hk with
  | lost => simp [blockAck, readResponse, hq, distort, ht]
  | abort x y z code hc =>
    simp only [distort] at hq
    simp [blockAck, readResponse, hq, classify_abortFrame x y z code hc]
  | scs n h1 h2 =>
    obtain ⟨b1, b2, -⟩ := scs_bits ⟨n, h1⟩ h2
    simp only [distort, Canopen.Sdo.setScsFrame, ackFrame] at hq
    simp only [blockAck, readResponse, hq, classify, List.getD_cons_zero, RESPONSE_ABORTED]
    rw [if_neg b1]
    simp only [ackResponse, List.getD_cons_zero, RESPONSE_BLOCK_DOWNLOAD]
    rw [if_pos b2]


theorem distFrames_nil (at_ : Nat) (k : Kind) (n : Nat) : distFrames at_ k n [] = ([], []) := rfl

theorem distFrames_one (at_ : Nat) (k : Kind) (hk : Fatal k) (n : Nat) (r : Bytes) :
    distFrames at_ k n [r] = (if n = at_ then (distort k r).1 else [r], []) := by
  simp only [distFrames, List.append_nil, fatal_later hk]
  split <;> rfl

/-- what one `send` of a non-final segment leads to when client and server are in step -/
def StepOut (payload : Bytes) (t : List Item) (r : Sys × WRes) : Prop :=
  r.2 = .err ∨ (r.2 = .cont [] ∧ Inv payload r.1 t ∧ r.1.srv.sseq = r.1.cl.seqno ∧ r.1.pending = [])

theorem send_dist_nonlast (E : Env) (at_ : Nat) (k : Kind) (hT : Tame E at_ k) (payload : Bytes) (s : Sys)
    (b : Bytes) (r : Bool) (t : List Item) (h : Inv payload s (.write b r :: t)) (hb : b.length = 7)
    (ht : itemsData t ≠ []) (hs : s.srv.sseq = s.cl.seqno) (hp : s.pending = []) :
    StepOut payload t (send E s b false) := by
  have hq1 : 1 ≤ s.cl.seqno + 1 := by omega
  have hq2 : s.cl.seqno + 1 ≤ 127 := by have := h.seqLt; have := h.blkLe; omega
  have hrecv := recv_seg E.blkOf s.srv (s.cl.seqno + 1) false b hq1 hq2 (by omega) h.phase
  have hpad := padTo_full b hb
  have hnb := hT.blk s.srv.k
  have hQ := h.queue
  have hD := h.notDone
  have hP := h.phase
  have hB := h.blk
  have hslt := h.seqLt
  have hs' : s.cl.seqno + 1 = s.srv.sseq + 1 := by omega
  unfold send
  rw [sendReq_dist E at_ k hT s _ hp]
  by_cases hlast : s.srv.sseq + 1 = s.srv.blk
  · rw [if_pos hs', if_neg (by simp), if_pos hlast, ack_eq, hpad] at hrecv
    rw [hrecv]
    simp only [afterSend, Bool.false_eq_true, if_false, Bool.or_false, hQ, List.nil_append,
      distFrames_one at_ k hT.fatal]
    rw [if_pos (by simp; omega)]
    by_cases hat : s.nresp = at_
    · left
      simp only [hat, if_true]
      exact blockAck_fatal E k hT.fatal hT.tmo _ _ _ rfl
    · right
      simp only [hat, if_false]
      rw [blockAck_queued _ _ (s.srv.sseq + 1) (E.blkOf s.srv.k) (by rfl), ackResponse_ack]
      have he : s.srv.sseq + 1 = s.cl.blksize := by omega
      simp only [ne_eq, he, not_true_eq_false, if_false]
      exact ⟨by simp, inv_acked h ht (E.blkOf s.srv.k) hnb hs (by simp [hP]) (by simp [hD]) rfl rfl rfl rfl
          rfl rfl rfl rfl rfl rfl, by simp, by simp⟩
  · rw [if_pos hs', if_neg (by simp), if_neg hlast, hpad] at hrecv
    rw [hrecv]
    simp only [afterSend, Bool.false_eq_true, if_false, Bool.or_false, hQ, List.nil_append, distFrames_nil]
    rw [if_neg (by simp; omega)]
    right
    exact ⟨by simp, inv_advance h hb ht true (by intro; omega) (by omega) (by simp [hP]) (by simp [hD]) rfl rfl
          rfl rfl (by simp) (by simp) (by simp [hb]) rfl rfl (by simp), by simp [hs], by simp⟩

/-- the last segment: acknowledged in full (everything is at the server) or an error -/
theorem send_dist_last (E : Env) (at_ : Nat) (k : Kind) (hT : Tame E at_ k) (payload : Bytes) (s : Sys)
    (b : Bytes) (r : Bool) (t : List Item) (h : Inv payload s (.write b r :: t))
    (ht : itemsData t = []) (hs : s.srv.sseq = s.cl.seqno) (hp : s.pending = []) :
    (send E s b true).2 = .err ∨
      ((send E s b true).2 = .cont [] ∧ DoneInv payload (send E s b true).1 ∧ (send E s b true).1.pending = []) := by
  obtain ⟨tk1, tk2, -, -⟩ := h.todoOK
  have hq1 : 1 ≤ s.cl.seqno + 1 := by omega
  have hq2 : s.cl.seqno + 1 ≤ 127 := by have := h.seqLt; have := h.blkLe; omega
  have hrecv := recv_seg E.blkOf s.srv (s.cl.seqno + 1) true b hq1 hq2 tk2 h.phase
  have hQ := h.queue
  have hsq := h.seqLen
  have hs' : s.cl.seqno + 1 = s.srv.sseq + 1 := by omega
  unfold send
  rw [sendReq_dist E at_ k hT s _ hp]
  rw [if_pos hs', if_pos rfl, ack_eq] at hrecv
  rw [hrecv]
  simp only [afterSend, if_true, Bool.or_true, hQ, List.nil_append, distFrames_one at_ k hT.fatal]
  rw [if_pos (by simp)]
  by_cases hat : s.nresp = at_
  · left
    simp only [hat, if_true]
    exact blockAck_fatal E k hT.fatal hT.tmo _ _ _ rfl
  · right
    simp only [hat, if_false]
    rw [blockAck_queued _ _ (s.srv.sseq + 1) (E.blkOf s.srv.k) (by rfl), ackResponse_ack]
    have he : s.srv.sseq + 1 = s.cl.seqno + 1 := by omega
    simp only [ne_eq, he, not_true_eq_false, if_false]
    refine ⟨by simp, ⟨by simp, ?_, ⟨tk1, tk2⟩, h.srvSize, by simp, by simp⟩, by simp⟩
    have hdata := h.data
    have h0 : List.drop s.srv.sseq s.cl.currentBlock = [] := List.drop_eq_nil_of_le (by omega)
    simp only [itemsData, ht, h0, List.flatten_nil, List.append_nil] at hdata
    simp only [padTo, ← hdata, List.append_assoc]


theorem run_done_pending (E : Env) (payload : Bytes) : ∀ (fuel : Nat) (s : Sys) (t : List Item),
    DoneInv payload s → s.pending = [] → itemsData t = [] → TodoOK t → (run E fuel s t).2 = .ok →
    DoneInv payload (run E fuel s t).1 ∧ (run E fuel s t).1.pending = [] := by
  intro fuel
  induction fuel with
  | zero => intro s t _ _ _ _ h; simp [run] at h
  | succ f ih =>
    intro s t hd hp ht hok h
    cases t with
    | nil => simpa [run] using And.intro hd hp
    | cons x t =>
      cases x with
      | endRetx =>
        simp only [run] at h ⊢
        exact ih _ t ⟨hd.phase, hd.buf, hd.last, hd.srvSize, hd.queue, hd.done⟩ hp ht hok h
      | write b r =>
        exfalso
        obtain ⟨h1, -⟩ := hok
        simp only [itemsData, List.append_eq_nil_iff] at ht
        rw [ht.1] at h1; simp at h1
      | feed rem offs => exact absurd hok (by simp [TodoOK])

/-- the write phase under a fatal response disturbance: a normal return still means that every byte
    is at the server and acknowledged -/
theorem run_safe_dist (E : Env) (at_ : Nat) (k : Kind) (hT : Tame E at_ k) (payload : Bytes) :
    ∀ (fuel : Nat) (s : Sys) (todo : List Item), Inv payload s todo → s.srv.sseq = s.cl.seqno →
    s.pending = [] → (run E fuel s todo).2 = .ok →
    DoneInv payload (run E fuel s todo).1 ∧ (run E fuel s todo).1.pending = [] := by
  intro fuel
  induction fuel with
  | zero => intro s t _ _ _ h; simp [run] at h
  | succ f ih =>
    intro s todo hinv hs hp h
    cases todo with
    | nil => exact absurd rfl hinv.nonempty
    | cons x t =>
      cases x with
      | endRetx =>
        simp only [run] at h ⊢
        exact ih _ t (inv_endRetx hinv) hs hp h
      | write b r =>
        simp only [run] at h ⊢
        rw [writeStep_eq E payload s b r t hinv] at h ⊢
        by_cases ht : itemsData t = []
        · rw [if_pos ht] at h ⊢
          have hl := send_dist_last E at_ k hT payload s b r t hinv ht hs hp
          generalize send E s b true = res at hl h ⊢
          obtain ⟨s1, w⟩ := res
          rcases hl with he | ⟨he, hd, hp1⟩
          · simp only at he; subst he; simp at h
          · simp only at he hd hp1; subst he
            simp only [List.nil_append] at h ⊢
            exact run_done_pending E payload f s1 t hd hp1 ht hinv.todoOK.2.2.2 h
        · rw [if_neg ht] at h ⊢
          have hb7 := hinv.todoOK.2.2.1 ht
          have hl := send_dist_nonlast E at_ k hT payload s b r t hinv hb7 ht hs hp
          generalize send E s b false = res at hl h ⊢
          obtain ⟨s1, w⟩ := res
          rcases hl with he | ⟨he, hi, hs1, hp1⟩
          · simp only at he; subst he; simp at h
          · simp only at he hi hs1 hp1; subst he
            simp only [List.nil_append] at h ⊢
            exact ih s1 t hi hs1 hp1 h
      | feed rem offs => exact absurd hinv.todoOK (by simp [TodoOK])


theorem scs_mask : ∀ (y : Fin 32) (n : Fin 8), (y.val ||| (n.val <<< 5)) &&& 0xE0 = n.val <<< 5 ∧
    (y.val ||| (n.val <<< 5)) &&& 1 = y.val &&& 1 := by decide

theorem scs_frame_bits (x n : Nat) (hn : n < 8) :
    ((x &&& 0x1F) ||| (n <<< 5)) &&& 0xE0 = n <<< 5 ∧ ((x &&& 0x1F) ||| (n <<< 5)) &&& 1 = x &&& 1 := by
  have hy : x &&& 0x1F < 32 := Nat.lt_of_le_of_lt Nat.and_le_right (by decide)
  have := scs_mask ⟨x &&& 0x1F, hy⟩ ⟨n, hn⟩
  refine ⟨this.1, this.2.trans ?_⟩
  show x &&& 31 &&& 1 = x &&& 1
  rw [Nat.and_assoc]; rfl

theorem scs_ne_A0 : ∀ n : Fin 8, n.val ≠ 5 → n.val <<< 5 ≠ 0xA0 := by decide

/-- reading a response that a fatal disturbance has hit never yields a frame with the
    block-download specifier -/
theorem fatal_read (E : Env) (k : Kind) (hk : Fatal k) (ht : E.srvTimeout = false) (s : Sys) (c : Nat) (tl : Bytes)
    (r' : Bytes) (hres : (readResponse E s).2 = .resp r') (h0 : r'.getD 0 0 &&& 0xE0 = 0xA0)
    (hq : s.queue = (distort k (c :: tl)).1) : False := by
  cases hk with
  | lost => simp [readResponse, hq, distort, ht] at hres
  | abort x y z code hc =>
    simp only [distort] at hq
    simp [readResponse, hq, classify_abortFrame x y z code hc] at hres
  | scs n h1 h2 =>
    simp only [distort, Canopen.Sdo.setScsFrame] at hq
    simp only [readResponse, hq, classify, List.getD_cons_zero] at hres
    by_cases h80 : (c &&& 0x1F ||| n <<< 5) = RESPONSE_ABORTED
    · simp [h80] at hres
    · simp only [h80, if_false, RR.resp.injEq] at hres
      subst hres
      simp only [List.getD_cons_zero] at h0
      rw [(scs_frame_bits c n h1).1] at h0
      exact scs_ne_A0 ⟨n, h1⟩ h2 h0

/-- `__init__` returns only after a response with the block-download specifier -/
theorem init_true (E : Env) (s : Sys) (idx sub : Nat) (size : Option Nat) (crcReq : Bool) (s' : Sys)
    (h : init E s idx sub size crcReq = (s', true)) :
    ∃ s1 r, requestResponse E { s with cl := { size := size } }
        ([REQUEST_BLOCK_DOWNLOAD ||| INITIATE_BLOCK_TRANSFER ||| (if crcReq then CRC_SUPPORTED else 0)
          ||| (if size.isSome then BLOCK_SIZE_SPECIFIED else 0), idx % 256, idx / 256, sub] ++ leBytes 4 (size.getD 0))
        = (s1, .resp r) ∧ r.getD 0 0 &&& 0xE0 = 0xA0 := by
  simp only [init] at h
  generalize requestResponse E _ _ = x at h ⊢
  obtain ⟨s1, rr⟩ := x
  cases rr with
  | resp r =>
    refine ⟨s1, r, rfl, ?_⟩
    simp only at h
    split at h
    · simp at h
    · rename_i hc; simpa [RESPONSE_BLOCK_DOWNLOAD] using hc
  | timeout => simp at h
  | aborted c => simp at h

/-- the start state of an op: fresh stream and server, stale frames `q` already in the client's queue -/
def startSys (cap : Bool) (q : List Bytes) : Sys := { sys0 cap with queue := q }

/-- the initiate response read by `__init__`, whatever the disturbance did to it -/
theorem init_dist (E : Env) (at_ : Nat) (k : Kind) (hT : Tame E at_ k) (payload : Bytes)
    (h1 : 1 ≤ payload.length) (h2 : payload.length < 2 ^ 32) (cap crcReq : Bool) (idx sub : Nat) (q : List Bytes)
    (s : Sys) (h : init E (startSys cap q) idx sub (some payload.length) crcReq = (s, true)) :
    Inv payload s ((chunks payload).map fun b => Item.write b false) ∧ s.srv.sseq = s.cl.seqno ∧ s.pending = [] := by
  have hck := chunks7_props payload.length payload (Nat.le_refl _)
  have hmux : idx % 256 + 256 * (idx / 256) = idx := by omega
  obtain ⟨ill, hstep⟩ := idle_initiate E.blkOf cap crcReq (idx % 256) (idx / 256) sub payload.length h2
  have hb := hT.blk 0
  by_cases hat : at_ = 0
  · -- the initiate response itself is hit: `__init__` raises
    exfalso
    subst hat
    obtain ⟨s1, r, hrr, hr0⟩ := init_true E _ idx sub _ crcReq s h
    simp only [requestResponse, MAX_RETRIES, rrLoop] at hrr
    rw [sendReq_dist E 0 k hT _ _ rfl] at hrr
    simp only [startSys, sys0, Option.isSome_some, if_true, Option.getD_some] at hrr hstep
    rw [hstep] at hrr
    simp only [distFrames_one 0 k hT.fatal, List.nil_append, if_true] at hrr
    generalize hx : readResponse E _ = x at hrr
    obtain ⟨s2, rr⟩ := x
    cases rr with
    | resp r' =>
      simp only at hrr
      obtain ⟨-, hr⟩ := Prod.mk.inj hrr
      have hr' : r' = r := by simpa using hr
      subst hr'
      exact fatal_read E k hT.fatal hT.tmo _ _ _ r' (by rw [hx]) hr0 rfl
    | timeout => simp at hrr
    | aborted c => simp at hrr
  · unfold init at h
    simp only [requestResponse, MAX_RETRIES, rrLoop] at h
    rw [sendReq_dist E at_ k hT _ _ rfl] at h
    simp only [startSys, sys0, Option.isSome_some, if_true, Option.getD_some] at h hstep
    rw [hstep] at h
    have hat' : ¬ (0 = at_) := fun h0 => hat h0.symm
    simp only [distFrames_one at_ k hT.fatal, List.nil_append, hat', if_false] at h
    cases crcReq <;> cases cap <;>
      simp [readResponse, classify, RESPONSE_ABORTED, RESPONSE_BLOCK_DOWNLOAD, hmux, CRC_SUPPORTED] at h <;>
      (subst h
       refine ⟨⟨rfl, rfl, rfl, rfl, by simp; omega, by simp; omega, by simp, ?_, ?_, rfl, Or.inl rfl, by simp, hck.2, rfl, ?_, rfl⟩, rfl, rfl⟩
       · simp [chunks, hck.1]
       · simp [chunks, hck.1]
       · simp only [chunks, hck.1]; intro h0; rw [h0] at h1; simp at h1)


/-- a frame whose bit 0 is clear is never read as one with bit 0 set, disturbed or not -/
theorem read_bit0 (E : Env) (k : Kind) (hk : Fatal k) (ht : E.srvTimeout = false) (s : Sys) (c : Nat) (tl : Bytes)
    (hc0 : c &&& 1 = 0) (r' : Bytes) (hres : (readResponse E s).2 = .resp r') (h0 : r'.getD 0 0 &&& 1 ≠ 0)
    (hq : s.queue = (distort k (c :: tl)).1 ∨ s.queue = [c :: tl]) : False := by
  rcases hq with hq | hq
  · cases hk with
    | lost => simp [readResponse, hq, distort, ht] at hres
    | abort x y z code hc =>
      simp only [distort] at hq
      simp [readResponse, hq, classify_abortFrame x y z code hc] at hres
    | scs n h1 h2 =>
      simp only [distort, Canopen.Sdo.setScsFrame] at hq
      simp only [readResponse, hq, classify, List.getD_cons_zero] at hres
      by_cases h80 : (c &&& 0x1F ||| n <<< 5) = RESPONSE_ABORTED
      · simp [h80] at hres
      · simp only [h80, if_false, RR.resp.injEq] at hres
        subst hres
        simp only [List.getD_cons_zero] at h0
        rw [(scs_frame_bits c n h1).2] at h0
        exact h0 hc0
  · simp only [readResponse, hq, classify, List.getD_cons_zero] at hres
    by_cases h80 : c = RESPONSE_ABORTED
    · simp [h80] at hres
    · simp only [h80, if_false, RR.resp.injEq] at hres
      subst hres
      exact h0 (by simpa using hc0)

/-- `close()` under a fatal disturbance of the end response: a normal return means the server
    committed exactly the payload -/
theorem close_dist (E : Env) (at_ : Nat) (k : Kind) (hT : Tame E at_ k) (payload : Bytes) (s : Sys)
    (hd : DoneInv payload s) (hp : s.pending = []) (h : (close E s).2 = .ok) :
    (close E s).1.srv.committed = some payload := by
  rw [close_done E s hd.done] at h ⊢
  unfold closeEnd at h ⊢
  simp only [requestResponse, MAX_RETRIES, rrLoop] at h ⊢
  rw [sendReq_dist E at_ k hT _ _ (by simpa using hp), close_req,
    fin_end E.blkOf s.srv hd.phase s.cl.lastBytesSent hd.last _ _ payload hd.buf hd.srvSize] at h ⊢
  by_cases hcrc : s.srv.crc = true ∧ crcHqx payload 0 ≠ (crcField s.cl).1 + 256 * (crcField s.cl).2
  · -- the server refused (CRC): whatever reaches the client has bit 0 clear
    exfalso
    rw [if_pos hcrc] at h
    simp only [distFrames_one at_ k hT.fatal, List.nil_append, Spec.abortFrame] at h
    generalize hx : readResponse E _ = x at h
    obtain ⟨s2, rr⟩ := x
    cases rr with
    | resp r' =>
      simp only at h
      split at h
      · simp at h
      · rename_i hb0
        refine read_bit0 E k hT.fatal hT.tmo _ 0x80
          ([s.srv.idx % 256, s.srv.idx / 256 % 256, s.srv.sub] ++ leBytes 4 84148228) (by decide) r'
          (by rw [hx]) hb0 ?_
        simp only
        split
        · left; rfl
        · right; rfl
    | timeout => simp at h
    | aborted c => simp at h
  · rw [if_neg hcrc] at h ⊢
    generalize hx : readResponse E _ = x at h ⊢
    obtain ⟨s2, rr⟩ := x
    have hsrv : s2.srv.committed = some payload := by
      have := congrArg (fun p => p.1.srv) hx
      simp only [readResponse, hT.tmo] at this
      split at this <;> simp at this <;> rw [← this]
    cases rr with
    | resp r' =>
      simp only at h ⊢
      split at h
      · simp at h
      · rw [if_neg (by assumption)]; exact hsrv
    | timeout => simp at h
    | aborted c => simp at h

end Canopen.C07.BD
