/-
Helper lemmas for C12 (block download): command-byte arithmetic, characterisation of the
specification server's reaction to the frames the client model emits, the write-phase invariant.
Property theorems live in CanopenProofs/C12.lean.
-/
import CanopenModel.Sdo.BlockDown
import CanopenProofs.Lemmas.Bytes
import CanopenProofs.Lemmas.Crc

namespace Canopen.C12
open Canopen Canopen.Crc Canopen.Gen.SdoBlock Canopen.Sdo.BlockDown
open Canopen.Spec.BlockDown (Srv Phase)

/-- the C12 setting: block sizes 1..127, no response disturbance, and — when requests can get lost —
    a server whose own time-out fires before the client's (the two C07 knobs of `Env` at their
    defaults) -/
structure Plain (E : Env) : Prop where
  blk : ∀ k, 1 ≤ E.blkOf k ∧ E.blkOf k ≤ 127
  dist : E.dist = none
  tmo : E.srvTimeout = true ∨ ∀ n, E.lost n = false

theorem Plain.tmo' {E : Env} (hE : Plain E) {n : Nat} (hl : E.lost n = true) : E.srvTimeout = true := by
  rcases hE.tmo with h | h
  · exact h
  · rw [h n] at hl; simp at hl

/-! ### command bytes -/

theorem seq_bits : ∀ q : Fin 128, 1 ≤ q.val →
    q.val &&& 0x7F = q.val ∧ q.val &&& 0x80 = 0 ∧ q.val ≠ 0x80 ∧
    (q.val ||| 128) &&& 0x7F = q.val ∧ (q.val ||| 128) &&& 0x80 ≠ 0 ∧ (q.val ||| 128) ≠ 0x80 := by
  decide

theorem seq_bits' (q : Nat) (h1 : 1 ≤ q) (h2 : q ≤ 127) :
    q &&& 0x7F = q ∧ q &&& 0x80 = 0 ∧ q ≠ 0x80 ∧
    (q ||| 128) &&& 0x7F = q ∧ (q ||| 128) &&& 0x80 ≠ 0 ∧ (q ||| 128) ≠ 0x80 :=
  seq_bits ⟨q, by omega⟩ h1

theorem end_bits : ∀ l : Fin 8,
    (192 ||| 1 ||| ((7 - l.val) <<< 2)) &&& 0xE0 = 0xC0 ∧ (192 ||| 1 ||| ((7 - l.val) <<< 2)) &&& 1 = 1 ∧
    ((192 ||| 1 ||| ((7 - l.val) <<< 2)) >>> 2) &&& 7 = 7 - l.val ∧ (192 ||| 1 ||| ((7 - l.val) <<< 2)) ≠ 0x80 ∧
    (192 ||| 1 ||| ((7 - l.val) <<< 2)) &&& 2 = 0 := by
  decide

theorem padTo_full (b : Bytes) (h : b.length = 7) : padTo 7 b = b := by
  simp [padTo, h]

theorem padTo_length (b : Bytes) (h : b.length ≤ 7) : (padTo 7 b).length = 7 := by
  simp [padTo]; omega

/-! ### the server inside a sub-block -/

/-- reaction to a data segment, by cases -/
theorem recv_seg (blkOf : Nat → Nat) (s : Srv) (q : Nat) (last : Bool) (b : Bytes)
    (hq1 : 1 ≤ q) (hq2 : q ≤ 127) (hb : b.length ≤ 7) (hp : s.phase = .recv) :
    Spec.BlockDown.step blkOf s (segFrame q last b) =
      if q = s.sseq + 1 then
        if last then Spec.BlockDown.ack blkOf { s with buf := s.buf ++ padTo 7 b, sseq := s.sseq + 1, phase := .fin }
        else if s.sseq + 1 = s.blk then Spec.BlockDown.ack blkOf { s with buf := s.buf ++ padTo 7 b, sseq := s.sseq + 1 }
        else ({ s with buf := s.buf ++ padTo 7 b, sseq := s.sseq + 1 }, [])
      else if last = true ∨ q = s.blk then Spec.BlockDown.ack blkOf s else (s, []) := by
  obtain ⟨a1, a2, a3, a4, a5, a6⟩ := seq_bits' q hq1 hq2
  have hl := padTo_length b hb
  cases last
  · simp [Spec.BlockDown.step, hl, hp, Spec.BlockDown.recvStep, segFrame, a1, a2, a3]
  · simp [Spec.BlockDown.step, hl, hp, Spec.BlockDown.recvStep, segFrame, a4, a5, a6, NO_MORE_BLOCKS]


/-! ### client/bus plumbing -/

def ackFrame (a nb : Nat) : Bytes := [0xA2, a, nb, 0, 0, 0, 0, 0]

theorem ack_eq (blkOf : Nat → Nat) (s : Srv) :
    Spec.BlockDown.ack blkOf s = ({ s with k := s.k + 1, sseq := 0, blk := blkOf s.k }, [ackFrame s.sseq (blkOf s.k)]) := rfl

theorem sendReq_lost (E : Env) (s : Sys) (f : Bytes) (h : E.lost s.nreq = true) :
    sendReq E s f = { s with nreq := s.nreq + 1, log := ⟨1, f⟩ :: s.log } := by
  simp [sendReq, h]

theorem sendReq_deliv (E : Env) (s : Sys) (f : Bytes) (h : E.lost s.nreq = false) (hd : E.dist = none) :
    sendReq E s f =
      { s with nreq := s.nreq + 1, srv := (Spec.BlockDown.step E.blkOf s.srv f).1,
               queue := s.queue ++ (Spec.BlockDown.step E.blkOf s.srv f).2,
               log := ((Spec.BlockDown.step E.blkOf s.srv f).2.map (Ev.mk 2)).reverse ++ ⟨0, f⟩ :: s.log } := by
  simp [sendReq, h, hd]

theorem classify_ack (a nb : Nat) : classify (ackFrame a nb) = .resp (ackFrame a nb) := by
  simp [classify, ackFrame, RESPONSE_ABORTED]

/-- `_block_ack` when the acknowledge is already queued -/
theorem blockAck_queued (E : Env) (s : Sys) (a nb : Nat) (hq : s.queue = [ackFrame a nb]) :
    blockAck E s = ackResponse E { s with queue := [] } (ackFrame a nb) := by
  simp [blockAck, readResponse, hq, classify_ack]

/-- `_block_ack` when nothing is queued and the server is inside a sub-block: its time-out fires -/
theorem blockAck_timeout (E : Env) (s : Sys) (hq : s.queue = []) (hp : s.srv.phase = .recv)
    (ht : E.srvTimeout = true) :
    blockAck E s = ackResponse E
      { s with srv := { s.srv with k := s.srv.k + 1, sseq := 0, blk := E.blkOf s.srv.k }, queue := [],
               log := [Ev.mk 2 (ackFrame s.srv.sseq (E.blkOf s.srv.k))] ++ s.log }
      (ackFrame s.srv.sseq (E.blkOf s.srv.k)) := by
  simp [blockAck, readResponse, hq, Spec.BlockDown.timeout, hp, ack_eq, classify_ack, ht]

/-- `_block_ack` on a well-formed acknowledge -/
theorem ackResponse_ack (E : Env) (s : Sys) (a nb : Nat) :
    ackResponse E s (ackFrame a nb) =
      if a ≠ s.cl.blksize then
        ({ s with cl := { s.cl with
              pos := s.cl.pos - (s.cl.currentBlock.drop a).length * 7,
              currentBlock := [], seqno := 0, blksize := nb, retransmitting := true } },
         .cont (((s.cl.currentBlock.drop a).map fun b => Item.write b true) ++ [Item.endRetx]))
      else ({ s with cl := { s.cl with currentBlock := [], blksize := nb, seqno := 0 } }, .cont []) := by
  simp [ackResponse, ackFrame, RESPONSE_BLOCK_DOWNLOAD, BLOCK_TRANSFER_RESPONSE]


/-! ### the write-phase invariant -/

def itemsData : List Item → Bytes
  | [] => []
  | .endRetx :: t => itemsData t
  | .write b _ :: t => b ++ itemsData t
  | .feed rem _ :: t => rem ++ itemsData t

/-- the pending calls are `write` calls with the 7-byte pieces of the rest of the payload (the
    caller item `feed` does not occur: the caller has been unfolded into these pieces) -/
def TodoOK : List Item → Prop
  | [] => True
  | .endRetx :: t => TodoOK t
  | .write b _ :: t => 1 ≤ b.length ∧ b.length ≤ 7 ∧ (itemsData t ≠ [] → b.length = 7) ∧ TodoOK t
  | .feed _ _ :: _ => False

theorem itemsData_append (a b : List Item) : itemsData (a ++ b) = itemsData a ++ itemsData b := by
  induction a with
  | nil => rfl
  | cons x a ih => cases x <;> simp [itemsData, ih]

theorem itemsData_retx (block : List Bytes) :
    itemsData ((block.map fun b => Item.write b true) ++ [Item.endRetx]) = block.flatten := by
  induction block with
  | nil => rfl
  | cons x a ih => simp [itemsData, ih]

theorem todoOK_retx (block : List Bytes) (t : List Item) (h7 : ∀ b ∈ block, b.length = 7) (ht : TodoOK t) :
    TodoOK ((block.map fun b => Item.write b true) ++ [Item.endRetx] ++ t) := by
  induction block with
  | nil => simpa [TodoOK] using ht
  | cons x a ih =>
    have hx := h7 x (by simp)
    simp only [List.map_cons, List.cons_append, TodoOK]
    refine ⟨by omega, by omega, fun _ => hx, ?_⟩
    exact ih (fun b hb => h7 b (by simp [hb]))

/-- the write phase between two `write` calls, client not yet done -/
structure Inv (payload : Bytes) (s : Sys) (todo : List Item) : Prop where
  phase : s.srv.phase = .recv
  notDone : s.cl.done = false
  blk : s.cl.blksize = s.srv.blk
  seqLen : s.cl.seqno = s.cl.currentBlock.length
  seqLt : s.cl.seqno < s.cl.blksize
  blkLe : s.cl.blksize ≤ 127
  sseqLe : s.srv.sseq ≤ s.cl.seqno
  data : s.srv.buf ++ (s.cl.currentBlock.drop s.srv.sseq).flatten ++ itemsData todo = payload
  pos : s.cl.pos + (itemsData todo).length = payload.length
  size : s.cl.size = some payload.length
  srvSize : s.srv.size = some payload.length ∨ s.srv.size = none
  cb7 : ∀ b ∈ s.cl.currentBlock, b.length = 7
  todoOK : TodoOK todo
  queue : s.queue = []
  nonempty : itemsData todo ≠ []
  pend : s.cl.pend = []

/-- after the last segment has been sent and acknowledged -/
structure DoneInv (payload : Bytes) (s : Sys) : Prop where
  phase : s.srv.phase = .fin
  buf : s.srv.buf = payload ++ List.replicate (7 - s.cl.lastBytesSent) 0
  last : 1 ≤ s.cl.lastBytesSent ∧ s.cl.lastBytesSent ≤ 7
  srvSize : s.srv.size = some payload.length ∨ s.srv.size = none
  queue : s.queue = []
  done : s.cl.done = true

/-- the last segment went out but was not acknowledged in full: `_retransmit` will call `write`
    on a stream that is already `_done` -/
def Doomed (s : Sys) (todo : List Item) : Prop :=
  s.cl.done = true ∧ ∃ b r t, todo = Item.write b r :: t

theorem flatten_len7 (l : List Bytes) (h : ∀ b ∈ l, b.length = 7) : l.flatten.length = l.length * 7 := by
  induction l with
  | nil => rfl
  | cons x a ih =>
    have := h x (by simp)
    have := ih (fun b hb => h b (by simp [hb]))
    simp only [List.flatten_cons, List.length_append, List.length_cons]; omega


theorem inv_lengths {payload : Bytes} {s : Sys} {b : Bytes} {r : Bool} {t : List Item}
    (h : Inv payload s (.write b r :: t)) :
    s.cl.pos = s.srv.buf.length + (s.cl.currentBlock.drop s.srv.sseq).length * 7 := by
  have h8 := congrArg List.length h.data
  have h9 := h.pos
  have hf := flatten_len7 (s.cl.currentBlock.drop s.srv.sseq) (fun x hx => h.cb7 x (List.mem_of_mem_drop hx))
  simp only [itemsData, List.length_append] at h8 h9
  omega

/-- after a retransmission request: everything not acknowledged is pending again -/
theorem inv_retx {payload : Bytes} {s s' : Sys} {b : Bytes} {r : Bool} {t : List Item}
    (h : Inv payload s (.write b r :: t)) (hb7 : b.length = 7) (ht : itemsData t ≠ []) (nb : Nat)
    (hnb : 1 ≤ nb ∧ nb ≤ 127)
    (e1 : s'.srv.phase = .recv) (e2 : s'.cl.done = false) (e3 : s'.cl.blksize = nb) (e4 : s'.srv.blk = nb)
    (e5 : s'.cl.seqno = 0) (e6 : s'.cl.currentBlock = []) (e7 : s'.srv.sseq = 0) (e8 : s'.srv.buf = s.srv.buf)
    (e9 : s'.cl.pos = s.cl.pos + 7 - ((s.cl.currentBlock ++ [b]).drop s.srv.sseq).length * 7)
    (e10 : s'.cl.size = s.cl.size) (e11 : s'.srv.size = s.srv.size) (e12 : s'.queue = [])
    (e13 : s'.cl.pend = s.cl.pend := by rfl) :
    Inv payload s' ((((s.cl.currentBlock ++ [b]).drop s.srv.sseq).map fun b => Item.write b true)
      ++ [Item.endRetx] ++ t) := by
  have hlen := inv_lengths h
  have hdrop : List.drop s.srv.sseq (s.cl.currentBlock ++ [b]) = List.drop s.srv.sseq s.cl.currentBlock ++ [b] :=
    List.drop_append_of_le_length (by have := h.sseqLe; have := h.seqLen; omega)
  have hc7 : ∀ x ∈ List.drop s.srv.sseq s.cl.currentBlock ++ [b], x.length = 7 := by
    intro x hx
    rcases List.mem_append.mp hx with hx | hx
    · exact h.cb7 x (List.mem_of_mem_drop hx)
    · simp at hx; rw [hx]; exact hb7
  have hf := flatten_len7 _ hc7
  have hdata := h.data
  have hpos := h.pos
  simp only [itemsData, List.length_append] at hdata hpos
  refine ⟨e1, e2, by rw [e3, e4], by rw [e5, e6]; rfl, by rw [e5, e3]; omega, by rw [e3]; omega,
    by rw [e7]; omega, ?_, ?_, by rw [e10]; exact h.size, by rw [e11]; exact h.srvSize,
    by rw [e6]; intro x hx; simp at hx, ?_, e12, ?_, by rw [e13]; exact h.pend⟩
  · rw [e8, e6, e7, itemsData_append, itemsData_retx, hdrop]
    simp only [List.drop_nil, List.flatten_nil, List.append_nil, List.flatten_append, List.flatten_cons]
    rw [← hdata]; simp
  · rw [e9, itemsData_append, itemsData_retx, hdrop]
    simp only [List.length_append, List.length_cons, List.length_nil] at hf ⊢
    omega
  · rw [hdrop]; exact todoOK_retx _ _ hc7 h.todoOK.2.2.2
  · rw [itemsData_append]; simp [ht]

/-- a segment went out inside a sub-block (no acknowledge due yet) -/
theorem inv_advance {payload : Bytes} {s s' : Sys} {b : Bytes} {r : Bool} {t : List Item}
    (h : Inv payload s (.write b r :: t)) (hb7 : b.length = 7) (ht : itemsData t ≠ []) (acc : Bool)
    (hacc : acc = true → s.srv.sseq = s.cl.seqno) (hlt : s.cl.seqno + 1 < s.cl.blksize)
    (e1 : s'.srv.phase = .recv) (e2 : s'.cl.done = false) (e3 : s'.cl.blksize = s.cl.blksize)
    (e4 : s'.srv.blk = s.srv.blk) (e5 : s'.cl.seqno = s.cl.seqno + 1)
    (e6 : s'.cl.currentBlock = s.cl.currentBlock ++ [b])
    (e7 : s'.srv.sseq = if acc then s.srv.sseq + 1 else s.srv.sseq)
    (e8 : s'.srv.buf = if acc then s.srv.buf ++ b else s.srv.buf)
    (e9 : s'.cl.pos = s.cl.pos + 7) (e10 : s'.cl.size = s.cl.size) (e11 : s'.srv.size = s.srv.size)
    (e12 : s'.queue = []) (e13 : s'.cl.pend = s.cl.pend := by rfl) : Inv payload s' t := by
  have hdata := h.data
  have hpos := h.pos
  have hsl := h.seqLen
  have hle := h.sseqLe
  simp only [itemsData, List.length_append] at hdata hpos
  refine ⟨e1, e2, by rw [e3, e4]; exact h.blk, by rw [e5, e6, hsl]; simp, by rw [e5, e3]; exact hlt,
    by rw [e3]; exact h.blkLe, ?_, ?_, by rw [e9]; omega, by rw [e10]; exact h.size,
    by rw [e11]; exact h.srvSize, ?_, h.todoOK.2.2.2, e12, ht, by rw [e13]; exact h.pend⟩
  · rw [e7, e5]; split <;> omega
  · rw [e7, e8, e6]
    cases acc
    · have hdrop : List.drop s.srv.sseq (s.cl.currentBlock ++ [b]) = List.drop s.srv.sseq s.cl.currentBlock ++ [b] :=
        List.drop_append_of_le_length (by omega)
      simp only [Bool.false_eq_true, if_false, hdrop, List.flatten_append, List.flatten_cons, List.flatten_nil,
        List.append_nil]
      rw [← hdata]; simp
    · have hs := hacc rfl
      have h0 : List.drop s.srv.sseq s.cl.currentBlock = [] := List.drop_eq_nil_of_le (by omega)
      have h1 : List.drop (s.srv.sseq + 1) (s.cl.currentBlock ++ [b]) = [] :=
        List.drop_eq_nil_of_le (by simp; omega)
      rw [h0] at hdata
      simp only [if_true, h1, List.flatten_nil, List.append_nil]
      rw [← hdata]; simp
  · rw [e6]; intro x hx
    rcases List.mem_append.mp hx with hx | hx
    · exact h.cb7 x hx
    · simp at hx; rw [hx]; exact hb7

/-- a whole sub-block was acknowledged -/
theorem inv_acked {payload : Bytes} {s s' : Sys} {b : Bytes} {r : Bool} {t : List Item}
    (h : Inv payload s (.write b r :: t)) (ht : itemsData t ≠ []) (nb : Nat)
    (hnb : 1 ≤ nb ∧ nb ≤ 127) (hsync : s.srv.sseq = s.cl.seqno)
    (e1 : s'.srv.phase = .recv) (e2 : s'.cl.done = false) (e3 : s'.cl.blksize = nb) (e4 : s'.srv.blk = nb)
    (e5 : s'.cl.seqno = 0) (e6 : s'.cl.currentBlock = []) (e7 : s'.srv.sseq = 0)
    (e8 : s'.srv.buf = s.srv.buf ++ b)
    (e9 : s'.cl.pos = s.cl.pos + b.length) (e10 : s'.cl.size = s.cl.size) (e11 : s'.srv.size = s.srv.size)
    (e12 : s'.queue = []) (e13 : s'.cl.pend = s.cl.pend := by rfl) : Inv payload s' t := by
  have hdata := h.data
  have hpos := h.pos
  have hsl := h.seqLen
  have h0 : List.drop s.srv.sseq s.cl.currentBlock = [] := List.drop_eq_nil_of_le (by omega)
  simp only [itemsData, List.length_append, h0, List.flatten_nil, List.append_nil] at hdata hpos
  refine ⟨e1, e2, by rw [e3, e4], by rw [e5, e6]; rfl, by rw [e5, e3]; omega, by rw [e3]; omega,
    by rw [e7]; omega, ?_, by rw [e9]; omega, by rw [e10]; exact h.size, by rw [e11]; exact h.srvSize,
    by rw [e6]; intro x hx; simp at hx, h.todoOK.2.2.2, e12, ht, by rw [e13]; exact h.pend⟩
  rw [e8, e6, e7]; simp only [List.drop_nil, List.flatten_nil, List.append_nil]
  rw [← hdata]; simp


def Post (payload : Bytes) (t : List Item) (r : Sys × WRes) : Prop :=
  match r.2 with
  | .err => True
  | .cont items => Inv payload r.1 (items ++ t) ∨ (DoneInv payload r.1 ∧ items = [] ∧ itemsData t = [])
      ∨ Doomed r.1 (items ++ t)

theorem post_inv {payload : Bytes} {t : List Item} {s' : Sys} {items : List Item}
    (h : Inv payload s' (items ++ t)) : Post payload t (s', .cont items) := Or.inl h

theorem send_nonlast (E : Env) (hE : Plain E) (payload : Bytes) (s : Sys)
    (b : Bytes) (r : Bool) (t : List Item) (h : Inv payload s (.write b r :: t)) (hb : b.length = 7)
    (ht : itemsData t ≠ []) : Post payload t (send E s b false) := by
  have hq1 : 1 ≤ s.cl.seqno + 1 := by omega
  have hq2 : s.cl.seqno + 1 ≤ 127 := by have := h.seqLt; have := h.blkLe; omega
  have hrecv := recv_seg E.blkOf s.srv (s.cl.seqno + 1) false b hq1 hq2 (by omega) h.phase
  have hpad := padTo_full b hb
  have hnb := hE.blk s.srv.k
  have hQ := h.queue
  have hD := h.notDone
  have hP := h.phase
  have hB := h.blk
  have hsl := h.sseqLe
  have hslt := h.seqLt
  unfold send
  by_cases hl : E.lost s.nreq = true
  · -- the frame never arrives
    rw [sendReq_lost E s _ hl]
    simp only [afterSend, Bool.false_eq_true, if_false, Bool.or_false]
    by_cases hlast : s.cl.seqno + 1 ≥ s.cl.blksize
    · rw [if_pos hlast, blockAck_timeout _ _ (by simp [hQ]) (by simp [hP]) (hE.tmo' hl), ackResponse_ack]
      have hne : s.srv.sseq ≠ s.cl.blksize := by omega
      simp only [ne_eq, hne, not_false_eq_true, if_true]
      exact post_inv (inv_retx h hb ht (E.blkOf s.srv.k) hnb (by simp [hP]) (by simp [hD]) rfl rfl rfl rfl rfl rfl
        (by simp [hb]) rfl rfl rfl)
    · rw [if_neg hlast]
      exact post_inv (inv_advance h hb ht false (by simp) (by omega) (by simp [hP]) (by simp [hD]) rfl rfl rfl rfl
        (by simp) (by simp) (by simp [hb]) rfl rfl (by simp [hQ]))
  · have hl' : E.lost s.nreq = false := by simpa using hl
    rw [sendReq_deliv E s _ hl' hE.dist]
    by_cases hs : s.cl.seqno = s.srv.sseq
    · have hs' : s.cl.seqno + 1 = s.srv.sseq + 1 := by omega
      by_cases hlast : s.srv.sseq + 1 = s.srv.blk
      · -- in sequence, sub-block complete: acknowledged in full
        rw [if_pos hs', if_neg (by simp), if_pos hlast, ack_eq, hpad] at hrecv
        rw [hrecv]
        simp only [afterSend, Bool.false_eq_true, if_false, Bool.or_false, hQ, List.nil_append]
        rw [if_pos (by simp; omega), blockAck_queued _ _ (s.srv.sseq + 1) (E.blkOf s.srv.k) (by rfl), ackResponse_ack]
        have he : s.srv.sseq + 1 = s.cl.blksize := by omega
        simp only [ne_eq, he, not_true_eq_false, if_false]
        exact post_inv (inv_acked h ht (E.blkOf s.srv.k) hnb hs.symm (by simp [hP]) (by simp [hD]) rfl rfl rfl rfl
          rfl rfl rfl rfl rfl rfl)
      · -- in sequence, inside the sub-block
        rw [if_pos hs', if_neg (by simp), if_neg hlast, hpad] at hrecv
        rw [hrecv]
        simp only [afterSend, Bool.false_eq_true, if_false, Bool.or_false, hQ, List.nil_append]
        rw [if_neg (by simp; omega)]
        exact post_inv (inv_advance h hb ht true (by intro; omega) (by omega) (by simp [hP]) (by simp [hD]) rfl rfl
          rfl rfl (by simp) (by simp) (by simp [hb]) rfl rfl (by simp))
    · have hs' : ¬ (s.cl.seqno + 1 = s.srv.sseq + 1) := by omega
      by_cases hlast : s.cl.seqno + 1 = s.srv.blk
      · -- out of sequence at the end of the sub-block: partial acknowledge
        rw [if_neg hs', if_pos (Or.inr hlast), ack_eq] at hrecv
        rw [hrecv]
        simp only [afterSend, Bool.false_eq_true, if_false, Bool.or_false, hQ, List.nil_append]
        rw [if_pos (by simp; omega), blockAck_queued _ _ s.srv.sseq (E.blkOf s.srv.k) (by rfl), ackResponse_ack]
        have hne : s.srv.sseq ≠ s.cl.blksize := by omega
        simp only [ne_eq, hne, not_false_eq_true, if_true]
        exact post_inv (inv_retx h hb ht (E.blkOf s.srv.k) hnb (by simp [hP]) (by simp [hD]) rfl rfl rfl rfl rfl rfl
          (by simp [hb]) rfl rfl rfl)
      · rw [if_neg hs', if_neg (by simp [hlast])] at hrecv
        rw [hrecv]
        simp only [afterSend, Bool.false_eq_true, if_false, Bool.or_false, hQ, List.nil_append]
        rw [if_neg (by simp; omega)]
        exact post_inv (inv_advance h hb ht false (by simp) (by omega) (by simp [hP]) (by simp [hD]) rfl rfl rfl rfl
          (by simp) (by simp) (by simp [hb]) rfl rfl (by simp))

/-- outcome of sending the last segment: acknowledged in full, or doomed -/
def PostLast (payload : Bytes) (t : List Item) (r : Sys × WRes) : Prop :=
  match r.2 with
  | .err => True
  | .cont items => (DoneInv payload r.1 ∧ items = [] ∧ itemsData t = []) ∨ Doomed r.1 (items ++ t)

theorem post_of_last {payload : Bytes} {t : List Item} {r : Sys × WRes} (h : PostLast payload t r) :
    Post payload t r := by
  unfold PostLast at h
  unfold Post
  split at h
  · trivial
  · exact Or.inr h

theorem doomed_retx (l : List Bytes) (t : List Item) (hl : l ≠ []) :
    ∃ b r t', (l.map fun b => Item.write b true) ++ [Item.endRetx] ++ t = Item.write b r :: t' := by
  cases l with
  | nil => exact absurd rfl hl
  | cons x xs => exact ⟨x, true, _, rfl⟩

theorem send_last (E : Env) (hE : Plain E) (payload : Bytes) (s : Sys)
    (b : Bytes) (r : Bool) (t : List Item) (h : Inv payload s (.write b r :: t))
    (ht : itemsData t = []) : PostLast payload t (send E s b true) := by
  obtain ⟨tk1, tk2, -, -⟩ := h.todoOK
  have hq1 : 1 ≤ s.cl.seqno + 1 := by omega
  have hq2 : s.cl.seqno + 1 ≤ 127 := by have := h.seqLt; have := h.blkLe; omega
  have hrecv := recv_seg E.blkOf s.srv (s.cl.seqno + 1) true b hq1 hq2 tk2 h.phase
  have hnb := hE.blk s.srv.k
  have hQ := h.queue
  have hP := h.phase
  have hsl := h.sseqLe
  have hsq := h.seqLen
  have hdrop : List.drop s.srv.sseq (s.cl.currentBlock ++ [b]) = List.drop s.srv.sseq s.cl.currentBlock ++ [b] :=
    List.drop_append_of_le_length (by omega)
  unfold send
  by_cases hl : E.lost s.nreq = true
  · rw [sendReq_lost E s _ hl]
    simp only [afterSend, if_true, Bool.or_true]
    rw [if_pos (by simp), blockAck_timeout _ _ (by simp [hQ]) (by simp [hP]) (hE.tmo' hl), ackResponse_ack]
    have hne : s.srv.sseq ≠ s.cl.seqno + 1 := by omega
    simp only [ne_eq, hne, not_false_eq_true, if_true]
    refine Or.inr ⟨rfl, ?_⟩
    simp only [hdrop]
    exact doomed_retx _ t (by simp)
  · have hl' : E.lost s.nreq = false := by simpa using hl
    rw [sendReq_deliv E s _ hl' hE.dist]
    by_cases hs : s.cl.seqno = s.srv.sseq
    · have hs' : s.cl.seqno + 1 = s.srv.sseq + 1 := by omega
      rw [if_pos hs', if_pos rfl, ack_eq] at hrecv
      rw [hrecv]
      simp only [afterSend, if_true, Bool.or_true, hQ, List.nil_append]
      rw [if_pos (by simp), blockAck_queued _ _ (s.srv.sseq + 1) (E.blkOf s.srv.k) (by rfl), ackResponse_ack]
      have he : s.srv.sseq + 1 = s.cl.seqno + 1 := by omega
      simp only [ne_eq, he, not_true_eq_false, if_false]
      refine Or.inl ⟨⟨rfl, ?_, ⟨tk1, tk2⟩, h.srvSize, rfl, by simp⟩, rfl, ht⟩
      have hdata := h.data
      have h0 : List.drop s.srv.sseq s.cl.currentBlock = [] := List.drop_eq_nil_of_le (by omega)
      simp only [itemsData, ht, h0, List.flatten_nil, List.append_nil] at hdata
      simp only [padTo, ← hdata, List.append_assoc]
    · have hs' : ¬ (s.cl.seqno + 1 = s.srv.sseq + 1) := by omega
      rw [if_neg hs', if_pos (Or.inl rfl), ack_eq] at hrecv
      rw [hrecv]
      simp only [afterSend, if_true, Bool.or_true, hQ, List.nil_append]
      rw [if_pos (by simp), blockAck_queued _ _ s.srv.sseq (E.blkOf s.srv.k) (by rfl), ackResponse_ack]
      have hne : s.srv.sseq ≠ s.cl.seqno + 1 := by omega
      simp only [ne_eq, hne, not_false_eq_true, if_true]
      refine Or.inr ⟨rfl, ?_⟩
      simp only [hdrop]
      exact doomed_retx _ t (by simp)

theorem clearPend_eq (s : Sys) (hp : s.cl.pend = []) :
    ({ s with cl := { s.cl with pend := [] } } : Sys) = s := by
  cases s with
  | mk cl _ _ _ _ _ _ _ => cases cl; simp_all

/-- `write` when nothing is kept back from earlier calls: the first seven bytes offered go out, or
    are kept if they are fewer and the declared size is not reached -/
theorem writeStep_nopend (E : Env) (s : Sys) (b : Bytes) (r : Bool) (hp : s.cl.pend = []) :
    writeStep E s b r =
      if s.cl.done then (fail s .runtime, .err)
      else if s.cl.size.isSome ∧ s.cl.pos + (b.take 7).length ≥ s.cl.size.getD 0 then send E s (b.take 7) true
      else if (b.take 7).length < 7 then ({ s with cl := { s.cl with pend := b.take 7 } }, .cont [])
      else send E s (b.take 7) false := by
  unfold writeStep
  simp only [hp, List.length_nil, Nat.sub_zero, List.nil_append]
  rw [clearPend_eq s hp]

theorem writeStep_post (E : Env) (hE : Plain E) (payload : Bytes) (s : Sys)
    (b : Bytes) (r : Bool) (t : List Item) (h : Inv payload s (.write b r :: t)) :
    Post payload t (writeStep E s b r) := by
  obtain ⟨tk1, tk2, tk3, -⟩ := h.todoOK
  have hpos := h.pos
  have htake : b.take 7 = b := List.take_of_length_le tk2
  simp only [itemsData, List.length_append] at hpos
  rw [writeStep_nopend E s b r h.pend]
  simp only [h.notDone, Bool.false_eq_true, if_false, htake, h.size, Option.isSome_some, Option.getD_some, true_and]
  by_cases ht : itemsData t = []
  · rw [if_pos (by simp [ht] at hpos; omega)]
    exact post_of_last (send_last E hE payload s b r t h ht)
  · have : (itemsData t).length ≠ 0 := by simpa using ht
    rw [if_neg (by omega), if_neg (by have := tk3 ht; omega)]
    exact send_nonlast E hE payload s b r t h (tk3 ht) ht


theorem run_doomed (E : Env) (fuel : Nat) (s : Sys) (todo : List Item) (h : Doomed s todo) :
    (run E fuel s todo).2 ≠ .ok := by
  obtain ⟨hd, b, r, t, rfl⟩ := h
  cases fuel with
  | zero => simp [run]
  | succ f => simp [run, writeStep, hd]

theorem run_done (E : Env) (payload : Bytes) : ∀ (fuel : Nat) (s : Sys) (t : List Item),
    DoneInv payload s → itemsData t = [] → TodoOK t → (run E fuel s t).2 = .ok →
    DoneInv payload (run E fuel s t).1 := by
  intro fuel
  induction fuel with
  | zero => intro s t _ _ _ h; simp [run] at h
  | succ f ih =>
    intro s t hd ht hok h
    cases t with
    | nil => simpa [run] using hd
    | cons x t =>
      cases x with
      | endRetx =>
        simp only [run] at h ⊢
        exact ih _ t ⟨hd.phase, hd.buf, hd.last, hd.srvSize, hd.queue, hd.done⟩ ht hok h
      | write b r =>
        exfalso
        obtain ⟨h1, -⟩ := hok
        simp only [itemsData, List.append_eq_nil_iff] at ht
        rw [ht.1] at h1; simp at h1
      | feed rem offs => exact absurd hok (by simp [TodoOK])

theorem inv_endRetx {payload : Bytes} {s : Sys} {t : List Item} (h : Inv payload s (.endRetx :: t)) :
    Inv payload { s with cl := { s.cl with retransmitting := false } } t :=
  ⟨h.phase, h.notDone, h.blk, h.seqLen, h.seqLt, h.blkLe, h.sseqLe, h.data, h.pos, h.size, h.srvSize, h.cb7,
    h.todoOK, h.queue, h.nonempty, h.pend⟩

/-- the write phase, if it returns normally, ends with every byte at the server and acknowledged -/
theorem run_safe (E : Env) (hE : Plain E) (payload : Bytes) :
    ∀ (fuel : Nat) (s : Sys) (todo : List Item), Inv payload s todo → (run E fuel s todo).2 = .ok →
    DoneInv payload (run E fuel s todo).1 := by
  intro fuel
  induction fuel with
  | zero => intro s t _ h; simp [run] at h
  | succ f ih =>
    intro s todo hinv h
    cases todo with
    | nil => exact absurd rfl hinv.nonempty
    | cons x t =>
      cases x with
      | endRetx =>
        simp only [run] at h ⊢
        exact ih _ t (inv_endRetx hinv) h
      | write b r =>
        have hp := writeStep_post E hE payload s b r t hinv
        simp only [run] at h ⊢
        generalize writeStep E s b r = res at hp h ⊢
        obtain ⟨s1, w⟩ := res
        cases w with
        | err => simp at h
        | cont items =>
          simp only at h ⊢
          rcases hp with hp | ⟨hd, hi, ht⟩ | hp
          · exact ih s1 _ hp h
          · subst hi
            exact run_done E payload f s1 _ hd ht hinv.todoOK.2.2.2 h
          · exact absurd h (run_doomed E f s1 _ hp)
      | feed rem offs => exact absurd hinv.todoOK (by simp [TodoOK])


theorem chunks7_props : ∀ (f : Nat) (bs : Bytes), bs.length ≤ f →
    itemsData ((chunks7 f bs).map fun b => Item.write b false) = bs ∧
    TodoOK ((chunks7 f bs).map fun b => Item.write b false) := by
  intro f
  induction f with
  | zero => intro bs h; have : bs = [] := List.length_eq_zero_iff.mp (by omega); subst this; simp [chunks7, itemsData, TodoOK]
  | succ f ih =>
    intro bs h
    cases bs with
    | nil => simp [chunks7, itemsData, TodoOK]
    | cons x xs =>
      have ih' := ih (List.drop 7 (x :: xs)) (by simp only [List.length_drop, List.length_cons] at h ⊢; omega)
      simp only [chunks7, List.isEmpty_cons, Bool.false_eq_true, if_false, List.map_cons, itemsData, TodoOK, ih'.1,
        List.take_append_drop, true_and, ih'.2, and_true]
      refine ⟨by simp, by simp; omega, ?_⟩
      intro hne
      have : (List.drop 7 (x :: xs)).length ≠ 0 := by
        intro h0; exact hne (List.length_eq_zero_iff.mp h0)
      simp only [List.length_drop, List.length_cons, List.length_take] at this ⊢; omega

/-- the idle server's answer to the client's initiate request -/
theorem idle_initiate (blkOf : Nat → Nat) (cap crcReq : Bool) (m1 m2 m3 n : Nat) (hn : n < 2 ^ 32) :
    ∃ ill, Spec.BlockDown.step blkOf { crcCapable := cap }
      ([REQUEST_BLOCK_DOWNLOAD ||| INITIATE_BLOCK_TRANSFER ||| (if crcReq then CRC_SUPPORTED else 0)
          ||| (if (some n).isSome then BLOCK_SIZE_SPECIFIED else 0), m1, m2, m3] ++ leBytes 4 n) =
      ({ crcCapable := cap, k := 1, phase := .recv, illegal := ill, idx := m1 + 256 * m2, sub := m3,
         size := some n, crc := crcReq && cap, blk := blkOf 0, sseq := 0, buf := [] },
       [[0xA0 ||| (if cap then 4 else 0), m1, m2, m3, blkOf 0, 0, 0, 0]]) := by
  have hv : leVal (leBytes 4 n) = n := by
    rw [leVal_leBytes]; exact Nat.mod_eq_of_lt (by simpa using hn)
  cases crcReq <;> cases cap <;>
    simp [Spec.BlockDown.step, Spec.BlockDown.idleStep, REQUEST_BLOCK_DOWNLOAD, INITIATE_BLOCK_TRANSFER,
      CRC_SUPPORTED, BLOCK_SIZE_SPECIFIED, hv, Spec.BlockDown.flagIf]


theorem init_lost (E : Env) (hE : Plain E) (cap crcReq : Bool) (idx sub : Nat) (size : Option Nat) (hl : E.lost 0 = true) :
    (init E (sys0 cap) idx sub size crcReq).2 = false := by
  simp [init, requestResponse, rrLoop, MAX_RETRIES, sendReq, hl, hE.tmo' hl, sys0, readResponse, Spec.BlockDown.timeout, abort, fail]

theorem init_deliv (E : Env) (hE : Plain E) (cap crcReq : Bool) (idx sub n : Nat) (hn : n < 2 ^ 32) (hl : E.lost 0 = false) :
    ∃ ill log, init E (sys0 cap) idx sub (some n) crcReq =
      ({ cl := { size := some n, blksize := E.blkOf 0, crcSupported := cap },
         srv := { crcCapable := cap, k := 1, phase := .recv, illegal := ill, idx := idx, sub := sub,
                  size := some n, crc := crcReq && cap, blk := E.blkOf 0, sseq := 0, buf := [] },
         queue := [], nreq := 1, log := log }, true) := by
  have hv : leVal (leBytes 4 n) = n := by
    rw [leVal_leBytes]; exact Nat.mod_eq_of_lt (by simpa using hn)
  have hmux : idx % 256 + 256 * (idx / 256) = idx := by omega
  cases crcReq <;> cases cap <;>
    simp [init, requestResponse, rrLoop, MAX_RETRIES, sendReq, hl, hE.dist, hE.tmo, sys0, readResponse, classify,
      Spec.BlockDown.step, Spec.BlockDown.idleStep, REQUEST_BLOCK_DOWNLOAD, INITIATE_BLOCK_TRANSFER,
      CRC_SUPPORTED, BLOCK_SIZE_SPECIFIED, RESPONSE_ABORTED, RESPONSE_BLOCK_DOWNLOAD, hv, hmux,
      Spec.BlockDown.flagIf]

theorem init_inv (E : Env) (hE : Plain E) (payload : Bytes)
    (h1 : 1 ≤ payload.length) (h2 : payload.length < 2 ^ 32) (cap crcReq : Bool) (idx sub : Nat) (s : Sys)
    (h : init E (sys0 cap) idx sub (some payload.length) crcReq = (s, true)) :
    Inv payload s ((chunks payload).map fun b => Item.write b false) := by
  have hck := chunks7_props payload.length payload (Nat.le_refl _)
  by_cases hl : E.lost 0 = true
  · have := init_lost E hE cap crcReq idx sub (some payload.length) hl
    rw [h] at this; simp at this
  · obtain ⟨ill, log, he⟩ := init_deliv E hE cap crcReq idx sub payload.length h2 (by simpa using hl)
    rw [he] at h
    have hs : s = _ := (Prod.mk.inj h).1.symm
    subst hs
    have hb := hE.blk 0
    refine ⟨rfl, rfl, rfl, rfl, by simp; omega, by simp; omega, by simp, ?_, ?_, rfl, Or.inl rfl, by simp, hck.2, rfl, ?_, rfl⟩
    · simp [chunks, hck.1]
    · simp [chunks, hck.1]
    · simp only [chunks, hck.1]; intro h0; rw [h0] at h1; simp at h1

theorem any_replicate_zero (k : Nat) : (List.replicate k 0).any (fun x => decide (x ≠ 0)) = false := by
  induction k with
  | zero => rfl
  | succ k ih => simp [List.replicate_succ]

/-- the server's answer to the end request once every segment is in -/
theorem fin_end (blkOf : Nat → Nat) (s : Srv) (hp : s.phase = .fin) (l : Nat) (hl : 1 ≤ l ∧ l ≤ 7) (c1 c2 : Nat)
    (payload : Bytes) (hbuf : s.buf = payload ++ List.replicate (7 - l) 0)
    (hsz : s.size = some payload.length ∨ s.size = none) :
    Spec.BlockDown.step blkOf s [192 ||| 1 ||| ((7 - l) <<< 2), c1, c2, 0, 0, 0, 0, 0] =
      if s.crc = true ∧ crcHqx payload 0 ≠ c1 + 256 * c2 then
        ({ s with phase := .idle }, [Spec.abortFrame s.idx s.sub 0x05040004])
      else ({ s with phase := .idle, committed := some payload }, [[0xA1, 0, 0, 0, 0, 0, 0, 0]]) := by
  have hz := any_replicate_zero (7 - l)
  have htake : List.take (payload.length + (7 - l) - (7 - l)) (payload ++ List.replicate (7 - l) 0) = payload := by
    rw [Nat.add_sub_cancel]; exact List.take_left' rfl
  have hdrop : List.drop (payload.length + (7 - l) - (7 - l)) (payload ++ List.replicate (7 - l) 0)
      = List.replicate (7 - l) 0 := by
    rw [Nat.add_sub_cancel]; exact List.drop_left' rfl
  obtain ⟨h1, h2⟩ := hl
  have : l = 1 ∨ l = 2 ∨ l = 3 ∨ l = 4 ∨ l = 5 ∨ l = 6 ∨ l = 7 := by omega
  rcases hsz with hsz | hsz <;>
  rcases this with rfl | rfl | rfl | rfl | rfl | rfl | rfl <;>
    simp [Spec.BlockDown.step, Spec.BlockDown.finStep, hp, hbuf, hsz, Spec.BlockDown.flagIf] at htake hdrop hz ⊢ <;>
    simp [htake, hdrop, hz]

/-- the two CRC bytes `close()` puts into the end request -/
def crcField (c : Cl) : Nat × Nat := if c.crcSupported then (c.crc % 256, c.crc / 256 % 256) else (0, 0)

theorem close_req (s : Sys) :
    (REQUEST_BLOCK_DOWNLOAD ||| END_BLOCK_TRANSFER ||| ((7 - s.cl.lastBytesSent) <<< 2)) ::
      (if s.cl.crcSupported then leBytes 2 s.cl.crc else [0, 0]) ++ [0, 0, 0, 0, 0] =
    [192 ||| 1 ||| ((7 - s.cl.lastBytesSent) <<< 2), (crcField s.cl).1, (crcField s.cl).2, 0, 0, 0, 0, 0] := by
  unfold crcField
  cases s.cl.crcSupported <;> simp [leBytes, REQUEST_BLOCK_DOWNLOAD, END_BLOCK_TRANSFER]

/-- once the last segment is out `close()` is the end request alone -/
theorem close_done (E : Env) (s : Sys) (h : s.cl.done = true) : close E s = closeEnd E s := by
  simp [close, h]

/-- the same when nothing is kept back -/
theorem close_nokeep (E : Env) (s : Sys) (h : s.cl.done = true ∨ s.cl.pend = []) : close E s = closeEnd E s := by
  rcases h with h | h <;> simp [close, h]

theorem sendReq_cl (E : Env) (s : Sys) (f : Bytes) : (sendReq E s f).cl = s.cl := by
  unfold sendReq
  split
  · rfl
  · split <;> rfl

theorem readResponse_cl (E : Env) (s : Sys) : (readResponse E s).1.cl = s.cl := by
  unfold readResponse
  split
  · rfl
  · split
    · split <;> rfl
    · rfl

/-- after `send(…, end=True)` the stream is done, whatever the acknowledge says -/
theorem send_last_done (E : Env) (s : Sys) (b : Bytes) (s1 : Sys) (items : List Item)
    (h : send E s b true = (s1, .cont items)) : s1.cl.done = true := by
  unfold send at h
  simp only at h
  split at h
  · unfold blockAck at h
    have hr := readResponse_cl E { sendReq E s (segFrame (s.cl.seqno + 1) true b) with
      cl := afterSend (sendReq E s (segFrame (s.cl.seqno + 1) true b)).cl b true }
    generalize readResponse E _ = rr at h hr
    obtain ⟨s3, r⟩ := rr
    have hd3 : s3.cl.done = true := by
      simp only at hr
      rw [hr]; simp [afterSend]
    cases r with
    | resp f =>
      simp only at h
      unfold ackResponse at h
      split at h
      · simp at h
      · split at h
        · simp at h
        · split at h
          · rw [← (Prod.mk.inj h).1]; exact hd3
          · rw [← (Prod.mk.inj h).1]; exact hd3
    | timeout => simp at h
    | aborted c => simp at h
  · rw [← (Prod.mk.inj h).1]; simp [afterSend]

/-- a stream that is done refuses every further `write`: what is left on the stack is worked off
    in as many steps as it has entries -/
theorem run_done_nofuel (E : Env) : ∀ (l : List Item) (s : Sys), s.cl.done = true →
    (run E (l.length + 1) s l).2 ≠ .fuel := by
  intro l
  induction l with
  | nil => intro s _; simp [run]
  | cons x l ih =>
    intro s hd
    cases x with
    | endRetx => simp only [List.length_cons, run]; exact ih _ hd
    | write b r => simp [run, writeStep, hd]
    | feed rem offs =>
      simp only [List.length_cons, run]
      split
      · exact ih _ hd
      · simp [writeStep, hd]

theorem close_lost (E : Env) (hE : Plain E) (payload : Bytes) (s : Sys) (hd : DoneInv payload s) (hl : E.lost s.nreq = true) :
    (close E s).2 = .err := by
  rw [close_done E s hd.done]
  unfold closeEnd
  simp only [requestResponse, MAX_RETRIES, rrLoop]
  rw [sendReq_lost E _ _ (by simpa using hl)]
  simp [readResponse, Spec.BlockDown.timeout, hd.phase, hE.tmo' hl, fail]

theorem close_deliv (E : Env) (hE : Plain E) (payload : Bytes) (s : Sys) (hd : DoneInv payload s) (hl : E.lost s.nreq = false) :
    if s.srv.crc = true ∧ crcHqx payload 0 ≠ (crcField s.cl).1 + 256 * (crcField s.cl).2 then
      (close E s).2 = .err
    else (close E s).2 = .ok ∧ (close E s).1.srv.committed = some payload := by
  rw [close_done E s hd.done]
  unfold closeEnd
  simp only [requestResponse, MAX_RETRIES, rrLoop]
  rw [sendReq_deliv E _ _ (by simpa using hl) hE.dist, close_req,
    fin_end E.blkOf s.srv hd.phase s.cl.lastBytesSent hd.last _ _ payload hd.buf hd.srvSize]
  split
  · simp [readResponse, classify, Spec.abortFrame, RESPONSE_ABORTED]
  · simp [readResponse, classify, RESPONSE_ABORTED, END_BLOCK_TRANSFER]

theorem close_safe (E : Env) (hE : Plain E) (payload : Bytes) (s : Sys) (hd : DoneInv payload s) (h : (close E s).2 = .ok) :
    (close E s).1.srv.committed = some payload := by
  by_cases hl : E.lost s.nreq = true
  · rw [close_lost E hE payload s hd hl] at h; simp at h
  · have := close_deliv E hE payload s hd (by simpa using hl)
    split at this
    · rw [this] at h; simp at h
    · exact this.2


/-! ### liveness: runs without loss -/

/-- the client's frames in the log, newest first -/
def reqFrames (s : Sys) : List Bytes := (s.log.filter fun e => e.kind != 2).map (·.frame)

/-- what every `send` leaves alone / accounts for -/
structure Keep (s s' : Sys) (f : Bytes) (b : Bytes) : Prop where
  nreq : s'.nreq = s.nreq + 1
  crcSup : s'.cl.crcSupported = s.cl.crcSupported
  crc : s'.cl.crc = if s.cl.crcSupported && !s.cl.retransmitting then crcHqx b s.cl.crc else s.cl.crc
  ill : s'.srv.illegal = s.srv.illegal
  srvCrc : s'.srv.crc = s.srv.crc
  reqs : reqFrames s' = f :: reqFrames s

/-- in sequence and delivered, not the last segment: no retransmission, still in sequence -/
theorem send_sync_nonlast (E : Env) (hE : Plain E) (payload : Bytes) (s : Sys)
    (b : Bytes) (r : Bool) (t : List Item) (h : Inv payload s (.write b r :: t)) (hb : b.length = 7)
    (ht : itemsData t ≠ []) (hs : s.srv.sseq = s.cl.seqno) (hl : E.lost s.nreq = false) :
    ∃ s', send E s b false = (s', .cont []) ∧ Inv payload s' t ∧ s'.srv.sseq = s'.cl.seqno ∧
      Keep s s' (segFrame (s.cl.seqno + 1) false b) b ∧ s'.cl.retransmitting = s.cl.retransmitting ∧
      (s'.srv.k, s'.cl.seqno, s'.cl.blksize) =
        if s.cl.seqno + 1 = s.cl.blksize then (s.srv.k + 1, 0, E.blkOf s.srv.k)
        else (s.srv.k, s.cl.seqno + 1, s.cl.blksize) := by
  have hq1 : 1 ≤ s.cl.seqno + 1 := by omega
  have hq2 : s.cl.seqno + 1 ≤ 127 := by have := h.seqLt; have := h.blkLe; omega
  have hrecv := recv_seg E.blkOf s.srv (s.cl.seqno + 1) false b hq1 hq2 (by omega) h.phase
  have hpad := padTo_full b hb
  have hnb := hE.blk s.srv.k
  have hQ := h.queue
  have hD := h.notDone
  have hP := h.phase
  have hB := h.blk
  have hslt := h.seqLt
  have hs' : s.cl.seqno + 1 = s.srv.sseq + 1 := by omega
  unfold send
  rw [sendReq_deliv E s _ hl hE.dist]
  by_cases hlast : s.srv.sseq + 1 = s.srv.blk
  · rw [if_pos hs', if_neg (by simp), if_pos hlast, ack_eq, hpad] at hrecv
    rw [hrecv]
    simp only [afterSend, Bool.false_eq_true, if_false, Bool.or_false, hQ, List.nil_append]
    rw [if_pos (by simp; omega), blockAck_queued _ _ (s.srv.sseq + 1) (E.blkOf s.srv.k) (by rfl), ackResponse_ack]
    have he : s.srv.sseq + 1 = s.cl.blksize := by omega
    have he2 : s.cl.seqno + 1 = s.cl.blksize := by omega
    simp only [ne_eq, he, not_true_eq_false, if_false]
    refine ⟨_, rfl, inv_acked h ht (E.blkOf s.srv.k) hnb hs (by simp [hP]) (by simp [hD]) rfl rfl rfl rfl
          rfl rfl rfl rfl rfl rfl, rfl, ⟨rfl, rfl, rfl, rfl, rfl, ?_⟩, rfl, by simp [he2]⟩
    simp [reqFrames, ackFrame, List.filter_cons]
  · rw [if_pos hs', if_neg (by simp), if_neg hlast, hpad] at hrecv
    rw [hrecv]
    simp only [afterSend, Bool.false_eq_true, if_false, Bool.or_false, hQ, List.nil_append]
    rw [if_neg (by simp; omega)]
    have he2 : ¬ s.cl.seqno + 1 = s.cl.blksize := by omega
    refine ⟨_, rfl, inv_advance h hb ht true (by intro; omega) (by omega) (by simp [hP]) (by simp [hD]) rfl rfl
          rfl rfl (by simp) (by simp) (by simp [hb]) rfl rfl (by simp), by simp [hs],
          ⟨rfl, rfl, rfl, rfl, rfl, ?_⟩, rfl, by simp [he2]⟩
    simp [reqFrames, List.filter_cons]

/-- in sequence and delivered, the last segment: everything is at the server and acknowledged -/
theorem send_sync_last (E : Env) (hE : Plain E) (payload : Bytes) (s : Sys)
    (b : Bytes) (r : Bool) (t : List Item) (h : Inv payload s (.write b r :: t))
    (ht : itemsData t = []) (hs : s.srv.sseq = s.cl.seqno) (hl : E.lost s.nreq = false) :
    ∃ s', send E s b true = (s', .cont []) ∧ DoneInv payload s' ∧
      Keep s s' (segFrame (s.cl.seqno + 1) true b) b ∧ s'.cl.lastBytesSent = b.length := by
  obtain ⟨tk1, tk2, -, -⟩ := h.todoOK
  have hq1 : 1 ≤ s.cl.seqno + 1 := by omega
  have hq2 : s.cl.seqno + 1 ≤ 127 := by have := h.seqLt; have := h.blkLe; omega
  have hrecv := recv_seg E.blkOf s.srv (s.cl.seqno + 1) true b hq1 hq2 tk2 h.phase
  have hQ := h.queue
  have hsq := h.seqLen
  have hs' : s.cl.seqno + 1 = s.srv.sseq + 1 := by omega
  unfold send
  rw [sendReq_deliv E s _ hl hE.dist]
  rw [if_pos hs', if_pos rfl, ack_eq] at hrecv
  rw [hrecv]
  simp only [afterSend, if_true, Bool.or_true, hQ, List.nil_append]
  rw [if_pos (by simp), blockAck_queued _ _ (s.srv.sseq + 1) (E.blkOf s.srv.k) (by rfl), ackResponse_ack]
  have he : s.srv.sseq + 1 = s.cl.seqno + 1 := by omega
  simp only [ne_eq, he, not_true_eq_false, if_false]
  refine ⟨_, rfl, ⟨rfl, ?_, ⟨tk1, tk2⟩, h.srvSize, rfl, by simp⟩, ⟨rfl, rfl, rfl, rfl, rfl, ?_⟩, rfl⟩
  · have hdata := h.data
    have h0 : List.drop s.srv.sseq s.cl.currentBlock = [] := List.drop_eq_nil_of_le (by omega)
    simp only [itemsData, ht, h0, List.flatten_nil, List.append_nil] at hdata
    simp only [padTo, ← hdata, List.append_assoc]
  · simp [reqFrames, ackFrame, List.filter_cons]

/-- `write` under the invariant: the last pending piece goes out with `end=True`, the others as
    plain 7-byte segments -/
theorem writeStep_eq (E : Env) (payload : Bytes) (s : Sys) (b : Bytes) (r : Bool) (t : List Item)
    (h : Inv payload s (.write b r :: t)) :
    writeStep E s b r = if itemsData t = [] then send E s b true else send E s b false := by
  obtain ⟨tk1, tk2, tk3, -⟩ := h.todoOK
  have hpos := h.pos
  have htake : b.take 7 = b := List.take_of_length_le tk2
  simp only [itemsData, List.length_append] at hpos
  rw [writeStep_nopend E s b r h.pend]
  simp only [h.notDone, Bool.false_eq_true, if_false, htake, h.size, Option.isSome_some, Option.getD_some, true_and]
  by_cases ht : itemsData t = []
  · rw [if_pos (by simp [ht] at hpos; omega), if_pos ht]
  · have : (itemsData t).length ≠ 0 := by simpa using ht
    rw [if_neg (by omega), if_neg (by have := tk3 ht; omega), if_neg ht]

/-- CiA 301 in one definition: the segment frames of an undisturbed download of the remaining
    chunks, when `seq` segments of the current sub-block (size `blk`) are out and `k` is the index
    of the next block size the server will announce: sequence numbers count from 1 in every
    sub-block, only the very last segment carries c = 1 (bit 7), data is padded with zeros -/
def idealSegs (blkOf : Nat → Nat) : List Bytes → Nat → Nat → Nat → List Bytes
  | [], _, _, _ => []
  | [c], _, seq, _ => [(seq + 1 + 128) :: (c ++ List.replicate (7 - c.length) 0)]
  | c :: c' :: cs, k, seq, blk =>
    ((seq + 1) :: (c ++ List.replicate (7 - c.length) 0)) ::
      (if seq + 1 = blk then idealSegs blkOf (c' :: cs) (k + 1) 0 (blkOf k)
       else idealSegs blkOf (c' :: cs) k (seq + 1) blk)

theorem or128 : ∀ q : Fin 128, q.val ||| 128 = q.val + 128 := by decide

theorem segFrame_ideal (q : Nat) (hq : q ≤ 127) (last : Bool) (c : Bytes) :
    segFrame q last c = (if last then q + 128 else q) :: (c ++ List.replicate (7 - c.length) 0) := by
  cases last
  · simp [segFrame, padTo]
  · simp [segFrame, padTo, NO_MORE_BLOCKS, or128 ⟨q, by omega⟩]

/-- no loss from here on, client and server in step, nothing being retransmitted: the rest of the
    write phase completes, the frames are the ideal ones, the CRC covers the payload -/
theorem run_fresh (E : Env) (hE : Plain E) (payload : Bytes) :
    ∀ (F : List Bytes) (s : Sys) (fuel : Nat),
    Inv payload s (F.map fun b => Item.write b false) → s.srv.sseq = s.cl.seqno →
    (∀ n, s.nreq ≤ n → E.lost n = false) → s.cl.retransmitting = false →
    (s.cl.crcSupported = true → s.cl.crc = crcHqx s.srv.buf 0) → F.length + 1 ≤ fuel →
    ∃ s', run E fuel s (F.map fun b => Item.write b false) = (s', .ok) ∧ DoneInv payload s' ∧
      (s'.cl.crcSupported = true → s'.cl.crc = crcHqx payload 0) ∧
      s'.cl.crcSupported = s.cl.crcSupported ∧ s'.srv.crc = s.srv.crc ∧ s'.srv.illegal = s.srv.illegal ∧
      s'.nreq = s.nreq + F.length ∧
      reqFrames s' = (idealSegs E.blkOf F s.srv.k s.cl.seqno s.cl.blksize).reverse ++ reqFrames s ∧
      (∀ c, F.getLast? = some c → s'.cl.lastBytesSent = c.length) := by
  intro F
  induction F with
  | nil => intro s fuel h; exact absurd rfl h.nonempty
  | cons c F ih =>
    intro s fuel h hs hnl hrt hcrc hf
    obtain ⟨f, rfl⟩ : ∃ f, fuel = f + 1 := ⟨fuel - 1, by omega⟩
    have hq2 : s.cl.seqno + 1 ≤ 127 := by have := h.seqLt; have := h.blkLe; omega
    have hdata := h.data
    have h0 : List.drop s.srv.sseq s.cl.currentBlock = [] :=
      List.drop_eq_nil_of_le (by have := h.seqLen; omega)
    simp only [List.map_cons, itemsData, h0, List.flatten_nil, List.append_nil] at hdata
    simp only [List.map_cons, run]
    rw [writeStep_eq E payload s c false _ h]
    cases F with
    | nil =>
      simp only [List.map_nil, itemsData, if_true]
      obtain ⟨s', he, hd, hk, hlb⟩ := send_sync_last E hE payload s c false [] h rfl hs (hnl _ (Nat.le_refl _))
      rw [he]
      refine ⟨s', ?_, hd, ?_, hk.crcSup, hk.srvCrc, hk.ill, by simp [hk.nreq], ?_, ?_⟩
      · cases f with
        | zero => simp at hf
        | succ f => simp [run]
      · intro hsup
        rw [hk.crcSup] at hsup
        rw [hk.crc, hcrc hsup, hsup, hrt, ← hdata]
        simp [crcHqx_append, itemsData, crcHqx]
      · simp [idealSegs, hk.reqs, segFrame_ideal _ hq2]
      · intro c' hc'; simp at hc'; rw [← hc']; exact hlb
    | cons c' F' =>
      have htne : itemsData (List.map (fun b => Item.write b false) (c' :: F')) ≠ [] := by
        have := h.todoOK.2.2.2.1
        simp only [List.map_cons, itemsData]
        intro h0; have := congrArg List.length h0
        simp only [List.length_append, List.length_nil] at this; omega
      rw [if_neg htne]
      have hb7 := h.todoOK.2.2.1 htne
      obtain ⟨s', he, hinv', hs', hk, hrt', hnext⟩ :=
        send_sync_nonlast E hE payload s c false _ h hb7 htne hs (hnl _ (Nat.le_refl _))
      rw [he]
      simp only [List.nil_append]
      have hbuf : s'.srv.buf = s.srv.buf ++ c := by
        have hd' := hinv'.data
        have h0' : List.drop s'.srv.sseq s'.cl.currentBlock = [] :=
          List.drop_eq_nil_of_le (by have := hinv'.seqLen; omega)
        simp only [h0', List.flatten_nil, List.append_nil] at hd'
        have := hd'.trans hdata.symm
        simp only [List.map_cons, itemsData] at this
        exact List.append_cancel_right (by simpa using this)
      obtain ⟨s'', hr, hd, hc, hsup, hsc, hill, hn, hreq, hlast⟩ :=
        ih s' f hinv' hs' (fun n hn => hnl n (by rw [hk.nreq] at hn; omega)) (by rw [hrt', hrt])
          (by intro hsup; rw [hk.crcSup] at hsup; rw [hk.crc, hcrc hsup, hsup, hrt, hbuf]; simp [crcHqx_append])
          (by simp at hf ⊢; omega)
      refine ⟨s'', hr, hd, hc, by rw [hsup, hk.crcSup], by rw [hsc, hk.srvCrc], by rw [hill, hk.ill],
        by rw [hn, hk.nreq]; simp; omega, ?_, ?_⟩
      · rw [hreq, hk.reqs]
        have e1 : s'.srv.k = (if s.cl.seqno + 1 = s.cl.blksize then (s.srv.k + 1, 0, E.blkOf s.srv.k)
            else (s.srv.k, s.cl.seqno + 1, s.cl.blksize)).1 := by rw [← hnext]
        have e2 : s'.cl.seqno = (if s.cl.seqno + 1 = s.cl.blksize then (s.srv.k + 1, 0, E.blkOf s.srv.k)
            else (s.srv.k, s.cl.seqno + 1, s.cl.blksize)).2.1 := by rw [← hnext]
        have e3 : s'.cl.blksize = (if s.cl.seqno + 1 = s.cl.blksize then (s.srv.k + 1, 0, E.blkOf s.srv.k)
            else (s.srv.k, s.cl.seqno + 1, s.cl.blksize)).2.2 := by rw [← hnext]
        rw [e1, e2, e3]
        simp only [idealSegs, segFrame_ideal _ hq2, Bool.false_eq_true, if_false]
        split <;> simp
      · intro x hx; exact hlast x (by simpa using hx)

/-- the initiate request as CiA 301 writes it: ccs = 6, cc, s = 1, cs = 0; multiplexer; size -/
def idealInit (crcReq : Bool) (idx sub n : Nat) : Bytes :=
  [0xC0 + (if crcReq then 4 else 0) + 2, idx % 256, idx / 256, sub] ++ leBytes 4 n

/-- the end request: ccs = 6, n = unused bytes of the last segment, cs = 1; CRC; reserved zeros -/
def idealEnd (lastLen crc : Nat) : Bytes :=
  [0xC0 + 4 * (7 - lastLen) + 1, crc % 256, crc / 256, 0, 0, 0, 0, 0]

theorem init_deliv' (E : Env) (hE : Plain E) (cap crcReq : Bool) (idx sub n : Nat) (hn : n < 2 ^ 32) (hl : E.lost 0 = false) :
    ∃ log, init E (sys0 cap) idx sub (some n) crcReq =
      ({ cl := { size := some n, blksize := E.blkOf 0, crcSupported := cap },
         srv := { crcCapable := cap, k := 1, phase := .recv, illegal := none, idx := idx, sub := sub,
                  size := some n, crc := crcReq && cap, blk := E.blkOf 0, sseq := 0, buf := [] },
         queue := [], nreq := 1, log := log }, true) ∧
      (log.filter fun e => e.kind != 2).map (·.frame) = [idealInit crcReq idx sub n] := by
  have hv : leVal (leBytes 4 n) = n := by
    rw [leVal_leBytes]; exact Nat.mod_eq_of_lt (by simpa using hn)
  have hmux : idx % 256 + 256 * (idx / 256) = idx := by omega
  cases crcReq <;> cases cap <;>
    simp [init, requestResponse, rrLoop, MAX_RETRIES, sendReq, hl, hE.dist, hE.tmo, sys0, readResponse, classify,
      Spec.BlockDown.step, Spec.BlockDown.idleStep, REQUEST_BLOCK_DOWNLOAD, INITIATE_BLOCK_TRANSFER,
      CRC_SUPPORTED, BLOCK_SIZE_SPECIFIED, RESPONSE_ABORTED, RESPONSE_BLOCK_DOWNLOAD, hv, hmux,
      Spec.BlockDown.flagIf, idealInit, List.filter_cons]

theorem end_cmd : ∀ l : Fin 8, 192 ||| 1 ||| ((7 - l.val) <<< 2) = 0xC0 + 4 * (7 - l.val) + 1 := by decide

theorem close_ok (E : Env) (hE : Plain E) (payload : Bytes) (s : Sys) (hd : DoneInv payload s) (hl : E.lost s.nreq = false)
    (hcrc : s.srv.crc = true → s.cl.crcSupported = true)
    (hval : s.cl.crcSupported = true → s.cl.crc = crcHqx payload 0) :
    (close E s).2 = .ok ∧ (close E s).1.srv.committed = some payload ∧
      (close E s).1.srv.illegal = s.srv.illegal ∧
      reqFrames (close E s).1 =
        idealEnd s.cl.lastBytesSent (if s.cl.crcSupported then crcHqx payload 0 else 0) :: reqFrames s := by
  have hlt := crcHqx_lt payload 0 (by decide)
  have hcmd := end_cmd ⟨s.cl.lastBytesSent, by have := hd.last; omega⟩
  simp only at hcmd
  have hno : ¬ (s.srv.crc = true ∧ crcHqx payload 0 ≠ (crcField s.cl).1 + 256 * (crcField s.cl).2) := by
    rintro ⟨h1, h2⟩
    apply h2
    have hs := hcrc h1
    simp only [crcField, hs, if_true, hval hs]; omega
  rw [close_done E s hd.done]
  unfold closeEnd
  simp only [requestResponse, MAX_RETRIES, rrLoop]
  rw [sendReq_deliv E _ _ (by simpa using hl) hE.dist, close_req,
    fin_end E.blkOf s.srv hd.phase s.cl.lastBytesSent hd.last _ _ payload hd.buf hd.srvSize, if_neg hno]
  refine ⟨by simp [readResponse, classify, RESPONSE_ABORTED, END_BLOCK_TRANSFER],
    by simp [readResponse, classify, RESPONSE_ABORTED, END_BLOCK_TRANSFER],
    by simp [readResponse, classify, RESPONSE_ABORTED, END_BLOCK_TRANSFER], ?_⟩
  simp only [readResponse, classify, RESPONSE_ABORTED, END_BLOCK_TRANSFER, reqFrames, hcmd, idealEnd, crcField]
  cases hsup : s.cl.crcSupported
  · simp [List.filter_cons]
  · have := hval hsup
    simp [List.filter_cons, this]; omega



end Canopen.C12
