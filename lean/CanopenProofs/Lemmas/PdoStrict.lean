/-
Helper definitions and lemmas for C09 about the strict device (Spec/StrictPdoDevice.lean) behind
the model's SDO client: symbolic execution of `save` write by write (`Runs`), of `read` for any
source of numbers (`Reads`), the dictionary as a source (`Quiet`, `odValue`).

The definitions that occur in the *statements* of the C09 theorems are collected first:
`strictDev`, `AllOk`, `Domain`, `Reader`, `finalDev` (with `ovr`, `putEntries`), `optLive`,
`odValue`, `optOd`.  Property theorems live in CanopenProofs/C09.lean, never here.
-/
import CanopenModel.Pdo.Config
import CanopenModel.Spec.StrictPdoDevice
import CanopenProofs.Lemmas.PdoConfig

namespace Canopen.C09
open Canopen.Pdo Canopen.Spec.StrictPdo Canopen.Gen.PdoConfig

/-! ## The strict device: every write of `save` is accepted -/

/-- the strict device as the peer of the SDO client -/
def strictDev : Dev PdoDev where
  write := write
  read d idx sub := (d, read d idx sub)

/-- every event is a download the device accepted -/
def AllOk (evs : List Ev) : Prop := ∀ e ∈ evs, ∃ i s n v, e = Ev.w i s n v none

theorem AllOk_nil : AllOk [] := by intro e h; cases h

theorem AllOk_append {a b : List Ev} (ha : AllOk a) (hb : AllOk b) : AllOk (a ++ b) := by
  intro e h
  rcases List.mem_append.mp h with h | h
  · exact ha e h
  · exact hb e h

/-- `m`, started on device state `d` with any log, returns `a` normally, leaves the device in
    `d'` and every SDO transaction it made was an accepted download -/
def Runs {α} (m : M PdoDev α) (d d' : PdoDev) (a : α) : Prop :=
  ∀ log, ∃ evs, m ⟨d, log⟩ = (⟨d', log ++ evs⟩, .ok a) ∧ AllOk evs

theorem Runs_pure {α} (a : α) (d : PdoDev) : Runs (M.pure a) d d a := by
  intro log; exact ⟨[], by simp [M.pure], AllOk_nil⟩

theorem Runs_bind {α β} {m : M PdoDev α} {f : α → M PdoDev β} {d d1 d2 : PdoDev} {a : α} {b : β}
    (h1 : Runs m d d1 a) (h2 : Runs (f a) d1 d2 b) : Runs (M.bind m f) d d2 b := by
  intro log
  obtain ⟨e1, he1, ho1⟩ := h1 log
  obtain ⟨e2, he2, ho2⟩ := h2 (log ++ e1)
  exact ⟨e1 ++ e2, by rw [bind_ok he1, he2, List.append_assoc], AllOk_append ho1 ho2⟩

theorem Runs_sdoWrite (od : Od) (c : Bool) (s v : Nat) (d d' : PdoDev)
    (hlk : (od.lookup c s).isSome) (hv : v < 256 ^ width c s)
    (hw : write d (od.index c) s (width c s) v = (d', none)) :
    Runs (sdoWrite strictDev od c s v) d d' () := by
  intro log
  refine ⟨[Ev.w (od.index c) s (width c s) v none], ?_, ?_⟩
  · unfold sdoWrite
    cases hl : od.lookup c s with
    | none => simp [hl] at hlk
    | some e =>
      have : ¬ v ≥ 256 ^ width c s := by omega
      simp only [this, if_false, strictDev, hw]
  · intro e he
    simp only [List.mem_singleton] at he
    exact ⟨_, _, _, _, he⟩


/-! ### the strict device, write by write -/

theorem width_com1 : width true 1 = 4 := rfl
theorem width_com2 : width true 2 = 1 := rfl
theorem width_com3 : width true 3 = 2 := rfl
theorem width_com5 : width true 5 = 2 := rfl
theorem width_com6 : width true 6 = 1 := rfl
theorem width_map0 : width false 0 = 1 := rfl
theorem width_entry (p : Nat) : width false (p + 1) = 4 := by simp [width]

/-- a write of the COB-ID word that sets bit 31 is accepted in every state -/
theorem write_invalidate (d : PdoDev) (v : Nat) (hv : v.testBit 31 = true) :
    write d d.comIdx 1 4 v = ({ d with cobWord := v }, none) := by
  simp [write, writeCom, hv]

/-- any COB-ID word is accepted while the PDO is not valid -/
theorem write_cob_when_invalid (d : PdoDev) (v : Nat) (hd : d.valid = false) :
    write d d.comIdx 1 4 v = ({ d with cobWord := v }, none) := by
  simp [write, writeCom, hd]

theorem write_tt (d : PdoDev) (v : Nat) (hd : d.valid = false) :
    write d d.comIdx 2 1 v = ({ d with tt := v }, none) := by
  simp [write, writeCom, hd]

theorem write_inhibit (d : PdoDev) (v : Nat) (hd : d.valid = false) (hs : d.inhibit.isSome) :
    write d d.comIdx 3 2 v = ({ d with inhibit := some v }, none) := by
  cases hi : d.inhibit with
  | none => simp [hi] at hs
  | some x => simp [write, writeCom, writeOpt, hd, hi]

theorem write_event (d : PdoDev) (v : Nat) (hd : d.valid = false) (hs : d.event.isSome) :
    write d d.comIdx 5 2 v = ({ d with event := some v }, none) := by
  cases hi : d.event with
  | none => simp [hi] at hs
  | some x => simp [write, writeCom, writeOpt, hd, hi]

theorem write_sync (d : PdoDev) (v : Nat) (hd : d.valid = false) (hs : d.sync.isSome) :
    write d d.comIdx 6 1 v = ({ d with sync := some v }, none) := by
  cases hi : d.sync with
  | none => simp [hi] at hs
  | some x => simp [write, writeCom, writeOpt, hd, hi]

theorem write_count (d : PdoDev) (n : Nat) (hne : d.comIdx ≠ d.mapIdx) (hd : d.valid = false)
    (hf : d.fixedCount = false) (hn : n ≤ d.entries.length)
    (hb : mappedBits (d.entries.take n) ≤ 64) :
    write d d.mapIdx 0 1 n = ({ d with count := n }, none) := by
  have h1 : ¬ d.mapIdx = d.comIdx := fun h => hne h.symm
  have h2 : ¬ n > d.entries.length := by omega
  have h3 : ¬ mappedBits (d.entries.take n) > 64 := by omega
  simp [write, writeMap, h1, hd, hf, h2, h3]

theorem write_entry (d : PdoDev) (p v : Nat) (hne : d.comIdx ≠ d.mapIdx) (hd : d.valid = false)
    (hf : d.fixedCount = false) (hc : d.count = 0) (hp : p < d.entries.length)
    (hm : v ∈ d.mappable) :
    write d d.mapIdx (p + 1) 4 v = ({ d with entries := d.entries.set p v }, none) := by
  have h1 : ¬ d.mapIdx = d.comIdx := fun h => hne h.symm
  have h2 : ¬ p + 1 > d.entries.length := by omega
  simp [write, writeMap, h1, hd, hf, hc, h2, hm]


/-! ### the mapping entries after the entry writes -/

/-- `ws` written over `es` from position `p` on -/
def putEntries : List Nat → Nat → List Nat → List Nat
  | es, _, [] => es
  | es, p, w :: ws => putEntries (es.set p w) (p + 1) ws

theorem putEntries_length (es : List Nat) (p : Nat) (ws : List Nat) :
    (putEntries es p ws).length = es.length := by
  induction ws generalizing es p with
  | nil => rfl
  | cons w ws ih => simp [putEntries, ih]

theorem putEntries_below (es : List Nat) (p : Nat) (ws : List Nat) (i : Nat) (hi : i < p) :
    (putEntries es p ws)[i]? = es[i]? := by
  induction ws generalizing es p with
  | nil => rfl
  | cons w ws ih =>
    simp only [putEntries]
    rw [ih _ _ (by omega), List.getElem?_set_ne (by omega)]

theorem putEntries_at (es : List Nat) (p : Nat) (ws : List Nat) (j : Nat)
    (hfit : p + ws.length ≤ es.length) (hj : j < ws.length) :
    (putEntries es p ws)[p + j]? = ws[j]? := by
  induction ws generalizing es p j with
  | nil => simp at hj
  | cons w ws ih =>
    simp only [putEntries]
    cases j with
    | zero =>
      simp only [Nat.add_zero, List.getElem?_cons_zero]
      rw [putEntries_below _ _ _ _ (by omega)]
      simp only [List.length_cons] at hfit
      rw [List.getElem?_set_self (by omega)]
    | succ j =>
      simp only [List.length_cons] at hfit hj
      have := ih (es.set p w) (p + 1) j (by simp; omega) (by omega)
      rw [List.getElem?_cons_succ, ← this]
      congr 1; omega

theorem putEntries_take (es ws : List Nat) (hfit : ws.length ≤ es.length) :
    (putEntries es 0 ws).take ws.length = ws := by
  apply List.ext_getElem?
  intro j
  rw [List.getElem?_take]
  by_cases hj : j < ws.length
  · rw [if_pos hj]
    have := putEntries_at es 0 ws j (by omega) hj
    simpa using this
  · rw [if_neg hj]
    simp at hj
    exact (List.getElem?_eq_none hj).symm


/-! ### the hypotheses of the property -/

/-- a parameter that is set replaces the device's value, one that is `None` is not written -/
def ovr (o cur : Option Nat) : Option Nat :=
  match o with
  | some v => some v
  | none => cur

/-- The property's domain: a well-formed configuration `cfg` with COB-ID `cob`, a dictionary `od`
    that describes the device, and a strict device `d` (in **any** prior state: enabled or not,
    any COB-ID, any count, any entries) that is able to hold the mapping. -/
structure Domain (od : Od) (d : PdoDev) (cfg : Cfg) (cob : Nat) : Prop where
  cob_eq : cfg.cob = some cob
  cob_lt : cob < 2 ^ 29
  strict : d.fixedCount = false
  noCurtis : od.curtis = false
  comIdx : od.comIdx = d.comIdx
  mapIdx : od.mapIdx = d.mapIdx
  distinct : d.comIdx ≠ d.mapIdx
  od1 : (od.lookup true 1).isSome
  tt : ∀ t, cfg.tt = some t → (od.lookup true 2).isSome ∧ t < 256
  inhibit : ∀ v, cfg.inhibit = some v → (od.lookup true 3).isSome ∧ d.inhibit.isSome ∧ v < 65536
  event : ∀ v, cfg.event = some v → (od.lookup true 5).isSome ∧ d.event.isSome ∧ v < 65536
  sync : ∀ v, cfg.sync = some v → (od.lookup true 6).isSome ∧ d.sync.isSome ∧ v < 256
  od0 : (od.lookup false 0).isSome
  odEntries : ∀ j, j < cfg.map.length → (od.lookup false (j + 1)).isSome
  fits : cfg.map.length ≤ d.entries.length
  entries : ∀ e ∈ cfg.map, e.idx < 65536 ∧ e.sub < 256 ∧ 1 ≤ e.len ∧ e.len < 256 ∧
    entryWord false e ∈ d.mappable
  total : (cfg.map.map (·.len)).sum ≤ 64

theorem w1_bit31 (cob : Nat) (h : cob < 2 ^ 29) (rtr : Bool) :
    (cob ||| PDO_NOT_VALID ||| rtrBit rtr).testBit 31 = true := by
  rw [cobWord_invalid cob h, testBit_arith]
  cases rtr <;> simp <;> omega

theorem w1_lt (cob : Nat) (h : cob < 2 ^ 29) (rtr : Bool) :
    cob ||| PDO_NOT_VALID ||| rtrBit rtr < 256 ^ 4 := by
  rw [cobWord_invalid cob h]
  cases rtr <;> simp <;> omega

theorem w2_lt (cob : Nat) (h : cob < 2 ^ 29) (rtr : Bool) : cob ||| rtrBit rtr < 256 ^ 4 := by
  rw [cobWord_valid cob h]
  cases rtr <;> simp <;> omega

theorem Runs_optW (od : Od) (s : Nat) (o : Option Nat) (d d' : PdoDev)
    (hnone : o = none → d' = d)
    (hsome : ∀ v, o = some v → (od.lookup true s).isSome ∧ v < 256 ^ width true s ∧
      write d (od.index true) s (width true s) v = (d', none)) :
    Runs (writeAll strictDev od (optW s o)) d d' () := by
  cases o with
  | none => rw [hnone rfl]; exact Runs_pure () d
  | some v =>
    obtain ⟨h1, h2, h3⟩ := hsome v rfl
    simp only [optW, writeAll]
    exact Runs_bind (a := ()) (Runs_sdoWrite od true s v d d' h1 h2 h3) (Runs_pure () d')

/-- the device after the writes to the communication record -/
def afterCom (d : PdoDev) (cfg : Cfg) (cob : Nat) : PdoDev :=
  { d with cobWord := cob ||| PDO_NOT_VALID ||| rtrBit cfg.rtr, tt := cfg.tt.getD d.tt,
           inhibit := ovr cfg.inhibit d.inhibit, event := ovr cfg.event d.event,
           sync := ovr cfg.sync d.sync }

theorem Runs_comWrites (od : Od) (d : PdoDev) (cfg : Cfg) (cob : Nat) (h : Domain od d cfg cob) :
    Runs (writeAll strictDev od (comWrites cfg cob)) d (afterCom d cfg cob) () := by
  have hb := w1_bit31 cob h.cob_lt cfg.rtr
  have hci : od.index true = d.comIdx := h.comIdx
  unfold comWrites
  simp only [writeAll]
  rw [writeAll_append, writeAll_append, writeAll_append]
  let W := cob ||| PDO_NOT_VALID ||| rtrBit cfg.rtr
  let d1 : PdoDev := { d with cobWord := W }
  let d2 : PdoDev := { d with cobWord := W, tt := cfg.tt.getD d.tt }
  let d3 : PdoDev := { d with cobWord := W, tt := cfg.tt.getD d.tt, inhibit := ovr cfg.inhibit d.inhibit }
  let d4 : PdoDev := { d with cobWord := W, tt := cfg.tt.getD d.tt, inhibit := ovr cfg.inhibit d.inhibit,
                              event := ovr cfg.event d.event }
  have v1 : d1.valid = false := by simp [PdoDev.valid, d1, W, hb]
  have v2 : d2.valid = false := by simp [PdoDev.valid, d2, W, hb]
  have v3 : d3.valid = false := by simp [PdoDev.valid, d3, W, hb]
  have v4 : d4.valid = false := by simp [PdoDev.valid, d4, W, hb]
  refine Runs_bind (a := ()) (d1 := d1) (Runs_sdoWrite od true 1 _ d d1 h.od1 (w1_lt cob h.cob_lt cfg.rtr)
    (by rw [hci]; exact write_invalidate d _ hb)) ?_
  refine Runs_bind (a := ()) (d1 := d4) (Runs_bind (a := ()) (d1 := d3) (Runs_bind (a := ()) (d1 := d2) ?_ ?_) ?_) ?_
  · refine Runs_optW od 2 cfg.tt d1 d2 (fun hn => by simp [d1, d2, hn]) (fun v hv => ?_)
    obtain ⟨hl, hlt⟩ := h.tt v hv
    refine ⟨hl, by rw [width_com2]; omega, ?_⟩
    rw [hci, width_com2]; simpa [d1, d2, hv] using write_tt d1 v v1
  · refine Runs_optW od 3 cfg.inhibit d2 d3 (fun hn => by simp [d2, d3, hn, ovr]) (fun v hv => ?_)
    obtain ⟨hl, hs, hlt⟩ := h.inhibit v hv
    refine ⟨hl, by rw [width_com3]; omega, ?_⟩
    rw [hci, width_com3]; simpa [d2, d3, hv, ovr] using write_inhibit d2 v v2 hs
  · refine Runs_optW od 5 cfg.event d3 d4 (fun hn => by simp [d3, d4, hn, ovr]) (fun v hv => ?_)
    obtain ⟨hl, hs, hlt⟩ := h.event v hv
    refine ⟨hl, by rw [width_com5]; omega, ?_⟩
    rw [hci, width_com5]; simpa [d3, d4, hv, ovr] using write_event d3 v v3 hs
  · refine Runs_optW od 6 cfg.sync d4 (afterCom d cfg cob) (fun hn => by simp [d4, afterCom, hn, ovr, W])
      (fun v hv => ?_)
    obtain ⟨hl, hs, hlt⟩ := h.sync v hv
    refine ⟨hl, by rw [width_com6]; omega, ?_⟩
    rw [hci, width_com6]; simpa [d4, afterCom, hv, ovr, W] using write_sync d4 v v4 hs


theorem mappedBits_nil : mappedBits [] = 0 := rfl

theorem Runs_zeroStep (od : Od) (d : PdoDev) (map : List MapEntry) (hlk : (od.lookup false 0).isSome)
    (hidx : od.mapIdx = d.mapIdx) (hne : d.comIdx ≠ d.mapIdx) (hd : d.valid = false)
    (hf : d.fixedCount = false) :
    Runs (zeroStep strictDev od map) d { d with count := 0 } map := by
  intro log
  have hw : write d (od.index false) 0 (width false 0) 0 = ({ d with count := 0 }, none) := by
    show write d od.mapIdx 0 1 0 = _
    rw [hidx]
    exact write_count d 0 hne hd hf (Nat.zero_le _) (by simp [mappedBits_nil])
  obtain ⟨evs, he, hok⟩ := Runs_sdoWrite od false 0 0 d _ hlk (by decide) hw log
  refine ⟨evs, ?_, hok⟩
  unfold zeroStep
  rw [he]

theorem Runs_countStep (od : Od) (d : PdoDev) (n : Nat) (hlk : (od.lookup false 0).isSome)
    (hidx : od.mapIdx = d.mapIdx) (hne : d.comIdx ≠ d.mapIdx) (hd : d.valid = false)
    (hf : d.fixedCount = false) (hn : n ≤ d.entries.length) (hn8 : n < 256)
    (hb : mappedBits (d.entries.take n) ≤ 64) :
    Runs (countStep strictDev od n) d { d with count := n } () := by
  intro log
  have hw : write d (od.index false) 0 (width false 0) n = ({ d with count := n }, none) := by
    show write d od.mapIdx 0 1 n = _
    rw [hidx]
    exact write_count d n hne hd hf hn hb
  obtain ⟨evs, he, hok⟩ := Runs_sdoWrite od false 0 n d _ hlk (by rw [width_map0]; omega) hw log
  refine ⟨evs, ?_, hok⟩
  unfold countStep
  rw [he]

theorem Runs_entries (od : Od) (hc : od.curtis = false) (es : List MapEntry) :
    ∀ (p : Nat) (d : PdoDev), od.mapIdx = d.mapIdx → d.comIdx ≠ d.mapIdx → d.valid = false →
      d.fixedCount = false → d.count = 0 → p + es.length ≤ d.entries.length →
      (∀ j, j < es.length → (od.lookup false (p + j + 1)).isSome) →
      (∀ e ∈ es, entryWord false e < 2 ^ 32 ∧ entryWord false e ∈ d.mappable) →
      Runs (writeAll strictDev od (entryWrites od.curtis (p + 1) es)) d
        { d with entries := putEntries d.entries p (es.map (entryWord false)) } () := by
  rw [hc]
  induction es with
  | nil => intro p d _ _ _ _ _ _ _ _; exact Runs_pure () d
  | cons e es ih =>
    intro p d hidx hne hd hf hcnt hfit hlk hes
    simp only [List.length_cons] at hfit
    obtain ⟨he32, hem⟩ := hes e (by simp)
    let d' : PdoDev := { d with entries := d.entries.set p (entryWord false e) }
    have hw : write d (od.index false) (p + 1) (width false (p + 1)) (entryWord false e)
        = (d', none) := by
      rw [width_entry]
      show write d od.mapIdx (p + 1) 4 _ = _
      rw [hidx]
      exact write_entry d p _ hne hd hf hcnt (by omega) hem
    have h1 := Runs_sdoWrite od false (p + 1) (entryWord false e) d d' (hlk 0 (by simp))
      (by rw [width_entry]; omega) hw
    have h2 := ih (p + 1) d' hidx hne hd hf hcnt (by simp [d']; omega)
      (fun j hj => by
        have := hlk (j + 1) (by simp; omega)
        have e : p + (j + 1) + 1 = p + 1 + j + 1 := by omega
        rw [e] at this; exact this)
      (fun x hx => hes x (by simp [hx]))
    simp only [entryWrites, writeAll]
    exact Runs_bind (a := ()) h1 h2

/-- the device after a successful `save` -/
def finalDev (d : PdoDev) (cfg : Cfg) (cob : Nat) : PdoDev :=
  { d with
    cobWord := if cfg.enabled then cob ||| rtrBit cfg.rtr
               else cob ||| PDO_NOT_VALID ||| rtrBit cfg.rtr
    tt := cfg.tt.getD d.tt
    inhibit := ovr cfg.inhibit d.inhibit
    event := ovr cfg.event d.event
    sync := ovr cfg.sync d.sync
    count := cfg.map.length
    entries := putEntries d.entries 0 (cfg.map.map (entryWord false)) }

theorem sum_len_ge_length (m : List MapEntry) (h : ∀ e ∈ m, 1 ≤ e.len) :
    m.length ≤ (m.map (·.len)).sum := by
  induction m with
  | nil => simp
  | cons e m ih =>
    have h1 := h e (by simp)
    have h2 := ih (fun x hx => h x (by simp [hx]))
    simp only [List.length_cons, List.map_cons, List.sum_cons]
    omega

theorem mappedBits_words (m : List MapEntry) (h : ∀ e ∈ m, e.sub < 256 ∧ e.len < 256) :
    mappedBits (m.map (entryWord false)) = (m.map (·.len)).sum := by
  induction m with
  | nil => rfl
  | cons e m ih =>
    obtain ⟨hs, hl⟩ := h e (by simp)
    have := ih (fun x hx => h x (by simp [hx]))
    simp only [mappedBits, List.map_cons, List.sum_cons, entryBits] at this ⊢
    rw [this, entryWord_add e hs hl]
    omega

theorem Runs_save (od : Od) (d : PdoDev) (cfg : Cfg) (cob : Nat) (h : Domain od d cfg cob) :
    Runs (save strictDev od cfg) d (finalDev d cfg cob)
      { map := cfg.map, subs := if cfg.enabled then [cob] else [] } := by
  simp only [save, h.cob_eq]
  unfold saveBody
  let dA := afterCom d cfg cob
  have vA : dA.valid = false := by
    simp [PdoDev.valid, dA, afterCom, w1_bit31 cob h.cob_lt cfg.rtr]
  let dZ : PdoDev := { dA with count := 0 }
  let words := cfg.map.map (entryWord false)
  let dE : PdoDev := { dZ with entries := putEntries dZ.entries 0 words }
  let dC : PdoDev := { dE with count := cfg.map.length }
  have hwords : ∀ e ∈ cfg.map, entryWord false e < 2 ^ 32 ∧ entryWord false e ∈ d.mappable := by
    intro e he
    obtain ⟨h1, h2, h3, h4, h5⟩ := h.entries e he
    exact ⟨entryWord_lt e h1 h2 h4, h5⟩
  have hlen : cfg.map.length ≤ 64 :=
    Nat.le_trans (sum_len_ge_length cfg.map fun e he => (h.entries e he).2.2.1) h.total
  have hbits : mappedBits (dE.entries.take cfg.map.length) ≤ 64 := by
    have : dE.entries.take cfg.map.length = words := by
      have := putEntries_take d.entries words (by simp [words]; exact h.fits)
      simpa [dE, dZ, dA, afterCom, words] using this
    rw [this, mappedBits_words cfg.map fun e he =>
      ⟨(h.entries e he).2.1, (h.entries e he).2.2.2.1⟩]
    exact h.total
  refine Runs_bind (a := ()) (Runs_comWrites od d cfg cob h) ?_
  refine Runs_bind (a := cfg.map) (d1 := dZ)
    (Runs_zeroStep od dA cfg.map h.od0 h.mapIdx h.distinct vA h.strict) ?_
  refine Runs_bind (a := ()) (d1 := dE) ?_ ?_
  · have := Runs_entries od h.noCurtis cfg.map 0 dZ h.mapIdx h.distinct vA h.strict rfl
      (by simp [dZ, dA, afterCom]; exact h.fits)
      (fun j hj => by simpa using h.odEntries j hj) hwords
    simpa using this
  refine Runs_bind (a := ()) (d1 := dC) ?_ ?_
  · exact Runs_countStep od dE cfg.map.length h.od0 h.mapIdx h.distinct vA h.strict
      (by simp [dE, dZ, dA, afterCom, putEntries_length]; exact h.fits) (by omega) hbits
  · unfold validateStep
    cases hen : cfg.enabled with
    | false =>
      simp only [Bool.false_eq_true, if_false]
      refine Runs_bind (a := ()) (Runs_pure () dC) ?_
      have : finalDev d cfg cob = dC := by simp [finalDev, hen, dC, dE, dZ, dA, afterCom, words]
      rw [this]; exact Runs_pure _ dC
    | true =>
      simp only [if_true]
      have vC : dC.valid = false := vA
      have hw : write dC (od.index true) 1 (width true 1) (cob ||| rtrBit cfg.rtr)
          = (finalDev d cfg cob, none) := by
        show write dC od.comIdx 1 4 _ = _
        rw [h.comIdx]
        have := write_cob_when_invalid dC (cob ||| rtrBit cfg.rtr) vC
        simpa [finalDev, hen, dC, dE, dZ, dA, afterCom, words] using this
      exact Runs_bind (a := ()) (Runs_sdoWrite od true 1 _ dC _ h.od1 (w2_lt cob h.cob_lt cfg.rtr) hw)
        (Runs_pure _ _)

/-! ## Reading the configuration -/

/-- `m` returns `a` normally from device state `d` (any log) and leaves the device as it was -/
def Reads {σ α} (m : M σ α) (d : σ) (a : α) : Prop :=
  ∀ log, ∃ log', m ⟨d, log⟩ = (⟨d, log'⟩, .ok a)

theorem Reads_pure {σ α} (a : α) (d : σ) : Reads (M.pure a : M σ α) d a := by
  intro log; exact ⟨log, rfl⟩

theorem Reads_bind {σ α β} {m : M σ α} {f : α → M σ β} {d : σ} {a : α} {b : β}
    (h1 : Reads m d a) (h2 : Reads (f a) d b) : Reads (M.bind m f) d b := by
  intro log
  obtain ⟨l1, e1⟩ := h1 log
  obtain ⟨l2, e2⟩ := h2 l1
  exact ⟨l2, by rw [bind_ok e1, e2]⟩

theorem Reads_readEntries {σ} (D : Dev σ) (od : Od) (src : Src) (d : σ) (es : List MapEntry) :
    ∀ p, (∀ j (hj : j < es.length),
        Reads (rawFrom D od src false (p + j + 1)) d (some (entryWord false es[j]))) →
      (∀ e ∈ es, decodeEntry od (entryWord false e) = [e]) →
      Reads (readEntries D od src (p + 1) es.length) d es := by
  induction es with
  | nil => intro p _ _; exact Reads_pure _ d
  | cons e es ih =>
    intro p hr hdec
    simp only [List.length_cons, readEntries]
    refine Reads_bind (a := some (entryWord false e)) (hr 0 (by simp)) ?_
    refine Reads_bind (a := entryWord false e) (Reads_pure _ d) ?_
    refine Reads_bind (a := es) (ih (p + 1) (fun j hj => ?_) (fun x hx => hdec x (by simp [hx]))) ?_
    · have := hr (j + 1) (by simp; omega)
      have e' : p + (j + 1) + 1 = p + 1 + j + 1 := by omega
      rw [e'] at this
      simpa using this
    · rw [hdec e (by simp)]
      exact Reads_pure _ d

/-- The decoding done by `read`, for any source of numbers (`live` or `from_od`) and any device:
    if the source yields the COB-ID word `w`, the transmission type `tt`, the optional
    parameters, the count and the mapping words of `es`, then `read` returns exactly the decoded
    configuration and asks to subscribe iff bit 31 is clear. -/
theorem Reads_read {σ} (D : Dev σ) (od : Od) (src : Src) (old : Cfg) (d : σ)
    (w tt : Nat) (i3 i5 i6 : Option Nat) (es : List MapEntry)
    (h1 : Reads (rawFrom D od src true 1) d (some w))
    (h2 : Reads (rawFrom D od src true 2) d (some tt))
    (h3 : tt ≥ 254 → Reads (optParam D od src 3 old.inhibit) d i3)
    (h5 : tt ≥ 254 → Reads (optParam D od src 5 old.event) d i5)
    (h6 : tt ≥ 254 → Reads (optParam D od src 6 old.sync) d i6)
    (h0 : Reads (rawFrom D od src false 0) d (some es.length))
    (he : ∀ j (hj : j < es.length),
      Reads (rawFrom D od src false (0 + j + 1)) d (some (entryWord false es[j])))
    (hdec : ∀ e ∈ es, decodeEntry od (entryWord false e) = [e]) :
    Reads (read D od src old) d
      { cfg := { cob := some (w &&& 0x1FFFFFFF), enabled := w &&& PDO_NOT_VALID == 0,
                 rtr := w &&& RTR_NOT_ALLOWED == 0, tt := some tt,
                 inhibit := if tt ≥ 254 then i3 else old.inhibit,
                 event := if tt ≥ 254 then i5 else old.event,
                 sync := if tt ≥ 254 then i6 else old.sync, map := es },
        subs := if (w &&& PDO_NOT_VALID == 0) = true then [w &&& 0x1FFFFFFF] else [] } := by
  unfold Pdo.read
  refine Reads_bind h1 (Reads_bind (Reads_pure w d) (Reads_bind h2 (Reads_bind (Reads_pure tt d) ?_)))
  have hopt : Reads (readOptional D od src old tt) d
      (if tt ≥ 254 then i3 else old.inhibit, if tt ≥ 254 then i5 else old.event,
        if tt ≥ 254 then i6 else old.sync) := by
    unfold readOptional
    by_cases ht : tt ≥ 254
    · simp only [ht, if_true]
      exact Reads_bind (h3 ht) (Reads_bind (h5 ht) (Reads_bind (h6 ht) (Reads_pure _ d)))
    · simp only [ht, if_false]
      exact Reads_pure _ d
  refine Reads_bind hopt (Reads_bind h0 (Reads_bind (Reads_pure es.length d) ?_))
  refine Reads_bind (Reads_readEntries D od src d es 0 he hdec) ?_
  exact Reads_pure _ d


/-! ### live reads from the strict device -/

theorem Reads_live (od : Od) (c : Bool) (s : Nat) (d : PdoDev) (v : Nat)
    (hlk : (od.lookup c s).isSome) (hr : Spec.StrictPdo.read d (od.index c) s = .ok v) :
    Reads (rawFrom strictDev od .live c s) d (some v) := by
  intro log
  refine ⟨log ++ [Ev.r (od.index c) s (.ok v)], ?_⟩
  cases hl : od.lookup c s with
  | none => simp [hl] at hlk
  | some e => simp [rawFrom, M.bind, sdoRead, hl, strictDev, hr, M.pure]

/-- what `try: x = com[sub].raw except (KeyError, SdoAbortedError)` yields on a strict device -/
def optLive (od : Od) (d : PdoDev) (s : Nat) (old : Option Nat) : Option Nat :=
  match od.lookup true s with
  | none => old
  | some _ =>
    match Spec.StrictPdo.read d (od.index true) s with
    | .ok v => some v
    | .error _ => old

theorem Reads_optParam_live (od : Od) (d : PdoDev) (s : Nat) (old : Option Nat) :
    Reads (optParam strictDev od .live s old) d (optLive od d s old) := by
  intro log
  unfold Pdo.optParam optLive
  cases hl : od.lookup true s with
  | none => exact ⟨log, by simp [rawFrom, M.bind, sdoRead, hl]⟩
  | some e =>
    cases hr : Spec.StrictPdo.read d (od.index true) s with
    | ok v =>
      exact ⟨log ++ [Ev.r (od.index true) s (.ok v)],
        by simp [rawFrom, M.bind, sdoRead, hl, strictDev, hr, M.pure]⟩
    | error c =>
      exact ⟨log ++ [Ev.r (od.index true) s (.error c)],
        by simp [rawFrom, M.bind, sdoRead, hl, strictDev, hr]⟩

/-- a well-formed mapping word of an object the dictionary knows decodes to the entry -/
theorem decodeEntry_word (od : Od) (e : MapEntry) (hc : od.curtis = false) (hi : e.idx ≠ 0)
    (hs : e.sub < 256) (hl1 : 1 ≤ e.len) (hl : e.len < 128) (hk : od.knows e.idx e.sub = true) :
    decodeEntry od (entryWord false e) = [e] := by
  obtain ⟨h1, h2, h3⟩ := decode_entryWord (entryWord false e)
  have hw := entryWord_add e hs (by omega)
  have a1 : entryWord false e / 65536 = e.idx := by omega
  have a2 : entryWord false e / 256 % 256 = e.sub := by omega
  have a3 : entryWord false e % 128 = e.len := by omega
  unfold decodeEntry
  simp only [hc, Bool.false_eq_true, if_false, h1, h2, h3, a1, a2, a3]
  have : e.len ≠ 0 := by omega
  simp [hi, this, hk]

/-- what the second node's dictionary must provide to read the configuration back -/
structure Reader (odB : Od) (d : PdoDev) (cfg : Cfg) : Prop where
  noCurtis : odB.curtis = false
  comIdx : odB.comIdx = d.comIdx
  mapIdx : odB.mapIdx = d.mapIdx
  od1 : (odB.lookup true 1).isSome
  od2 : (odB.lookup true 2).isSome
  opt3 : cfg.inhibit.isSome → (odB.lookup true 3).isSome
  opt5 : cfg.event.isSome → (odB.lookup true 5).isSome
  opt6 : cfg.sync.isSome → (odB.lookup true 6).isSome
  od0 : (odB.lookup false 0).isSome
  odEntries : ∀ j, j < cfg.map.length → (odB.lookup false (j + 1)).isSome
  knows : ∀ e ∈ cfg.map, odB.knows e.idx e.sub = true ∧ e.idx ≠ 0 ∧ e.len < 128

theorem optLive_some (od : Od) (d : PdoDev) (s v : Nat) (old : Option Nat)
    (hlk : (od.lookup true s).isSome) (hr : Spec.StrictPdo.read d (od.index true) s = .ok v) :
    optLive od d s old = some v := by
  unfold optLive
  cases hl : od.lookup true s with
  | none => simp [hl] at hlk
  | some e => simp [hr]

theorem ovr_some (o cur : Option Nat) (v : Nat) (h : o = some v) : ovr o cur = some v := by
  subst h; rfl

/-! ## The dictionary as the source of the configuration -/


/-- `value`, else `default`, of a dictionary entry; the outer `none` is a missing entry
    (`KeyError`), the inner `none` is Python's `None` (neither value nor default) -/
def odValue (od : Od) (c : Bool) (s : Nat) : Option (Option Nat) :=
  (od.lookup c s).map fun e => match e.value with | some v => some v | none => e.dflt

theorem rawFrom_od {σ} (D : Dev σ) (od : Od) (c : Bool) (s : Nat) (st : Run σ) :
    rawFrom D od .od c s st
      = (st, match odValue od c s with | some ov => .ok ov | none => .error .key) := by
  unfold rawFrom odValue
  cases od.lookup c s <;> rfl

/-- `m` makes no SDO transaction and does not touch the device, whatever it returns -/
def Quiet {σ α} (m : M σ α) : Prop := ∀ st, (m st).1 = st

theorem Quiet_pure {σ α} (a : α) : Quiet (M.pure a : M σ α) := fun _ => rfl

theorem Quiet_bind {σ α β} {m : M σ α} {f : α → M σ β} (h1 : Quiet m) (h2 : ∀ a, Quiet (f a)) :
    Quiet (M.bind m f) := by
  intro st
  have := h1 st
  cases hm : m st with
  | mk st' r =>
    rw [hm] at this; simp only [] at this; subst this
    cases r with
    | error e => rw [bind_err hm]
    | ok a => rw [bind_ok hm]; exact h2 a st'

theorem Quiet_rawFrom_od {σ} (D : Dev σ) (od : Od) (c : Bool) (s : Nat) :
    Quiet (rawFrom D od .od c s) := by
  intro st; rw [rawFrom_od]

theorem Quiet_need {σ} (o : Option Nat) : Quiet (need o : M σ Nat) := by
  intro st; cases o <;> rfl

theorem Quiet_optParam_od {σ} (D : Dev σ) (od : Od) (s : Nat) (old : Option Nat) :
    Quiet (optParam D od .od s old) := by
  intro st
  unfold Pdo.optParam
  rw [rawFrom_od]
  cases odValue od true s <;> rfl

theorem Quiet_readEntries_od {σ} (D : Dev σ) (od : Od) (n : Nat) :
    ∀ k, Quiet (readEntries D od .od k n) := by
  induction n with
  | zero => intro k; exact Quiet_pure _
  | succ n ih =>
    intro k
    simp only [readEntries]
    exact Quiet_bind (Quiet_rawFrom_od D od false k) fun _ =>
      Quiet_bind (Quiet_need _) fun _ => Quiet_bind (ih (k + 1)) fun _ => Quiet_pure _

theorem Quiet_read_od {σ} (D : Dev σ) (od : Od) (old : Cfg) : Quiet (Pdo.read D od .od old) := by
  unfold Pdo.read
  refine Quiet_bind (Quiet_rawFrom_od D od true 1) fun _ => Quiet_bind (Quiet_need _) fun _ =>
    Quiet_bind (Quiet_rawFrom_od D od true 2) fun _ => Quiet_bind (Quiet_need _) fun tt =>
    Quiet_bind ?_ fun _ => Quiet_bind (Quiet_rawFrom_od D od false 0) fun _ =>
    Quiet_bind (Quiet_need _) fun _ => Quiet_bind (Quiet_readEntries_od D od _ 1) fun _ =>
    Quiet_pure _
  unfold readOptional
  split
  · exact Quiet_bind (Quiet_optParam_od D od 3 _) fun _ =>
      Quiet_bind (Quiet_optParam_od D od 5 _) fun _ =>
      Quiet_bind (Quiet_optParam_od D od 6 _) fun _ => Quiet_pure _
  · exact Quiet_pure _

/-- the optional parameter as `read(from_od=True)` sees it -/
def optOd (od : Od) (s : Nat) (old : Option Nat) : Option Nat :=
  match odValue od true s with
  | none => old
  | some ov => ov

theorem Reads_od {σ} (D : Dev σ) (od : Od) (c : Bool) (s : Nat) (d : σ) (ov : Option Nat)
    (h : odValue od c s = some ov) : Reads (rawFrom D od .od c s) d ov := by
  intro log; exact ⟨log, by rw [rawFrom_od, h]⟩

theorem Reads_optParam_od {σ} (D : Dev σ) (od : Od) (s : Nat) (old : Option Nat) (d : σ) :
    Reads (optParam D od .od s old) d (optOd od s old) := by
  intro log
  refine ⟨log, ?_⟩
  unfold Pdo.optParam optOd
  rw [rawFrom_od]
  cases odValue od true s <;> rfl

end Canopen.C09
