/-
Helper lemmas for the SDO server model: command-byte arithmetic (finite facts, by `decide`),
frame shapes, the state well-formedness invariant.
-/
import CanopenModel.Sdo.Server
import CanopenModel.Spec.SdoClient
import CanopenProofs.Lemmas.Bytes

namespace Canopen.Sdo
open Canopen Canopen.Gen.SdoConst

/-- the server's toggle is one of the two values the code ever assigns -/
def SrvWF (s : Srv) : Prop := s.toggle = 0 ∨ s.toggle = TOGGLE_BIT

theorem srvInit_wf : SrvWF srvInit := Or.inl rfl

/-! ### command bytes (finite facts, by `decide`) -/
open Canopen.Spec in
/-- an upload segment response command, as the reference client decodes it -/
theorem segUpCmd_fields : ∀ t : Bool, ∀ l ∈ [0, 1, 2, 3, 4, 5, 6, 7], ∀ last : Bool,
    segUpCmd (tbit t) l last ≠ 0x80 ∧ scs (segUpCmd (tbit t) l last) = 0 ∧
    segToggle (segUpCmd (tbit t) l last) = t ∧ segUnused (segUpCmd (tbit t) l last) = 7 - l ∧
    segLast (segUpCmd (tbit t) l last) = last := by decide

open Canopen.Spec in
/-- an expedited upload response command for 1..4 data bytes -/
theorem expUpCmd_fields : ∀ l ∈ [1, 2, 3, 4],
    expUpCmd l ≠ 0x80 ∧ scs (expUpCmd l) = 0x40 ∧ iniExpedited (expUpCmd l) = true ∧
    iniReserved4 (expUpCmd l) = false ∧ iniSized (expUpCmd l) = true ∧ iniUnused (expUpCmd l) = 4 - l := by
  decide

open Canopen.Spec in
theorem segUpInit_fields :
    let cmd := RESPONSE_UPLOAD ||| SIZE_SPECIFIED
    cmd ≠ 0x80 ∧ scs cmd = 0x40 ∧ iniExpedited cmd = false ∧ iniReserved4 cmd = false ∧
      iniReservedN cmd = false ∧ iniSized cmd = true := by decide

open Canopen.Spec in
/-- what the reference client sends, as the server decodes it -/
theorem req_cmds :
    (0x40 &&& 0xE0 = REQUEST_UPLOAD) ∧
    (∀ t : Bool, segUpReq t &&& 0xE0 = REQUEST_SEGMENT_UPLOAD ∧ segUpReq t &&& TOGGLE_BIT = tbit t) ∧
    (0x21 &&& 0xE0 = REQUEST_DOWNLOAD ∧ 0x21 &&& EXPEDITED = 0 ∧ 0x21 &&& SIZE_SPECIFIED ≠ 0) ∧
    (∀ l ∈ [1, 2, 3, 4], expDownReq l &&& 0xE0 = REQUEST_DOWNLOAD ∧
      expDownReq l &&& EXPEDITED ≠ 0 ∧ expDownReq l &&& SIZE_SPECIFIED ≠ 0 ∧
      4 - ((expDownReq l >>> 2) &&& 3) = l) ∧
    (∀ t : Bool, ∀ l ∈ [0, 1, 2, 3, 4, 5, 6, 7], ∀ last : Bool,
      segDownReq t l last &&& 0xE0 = REQUEST_SEGMENT_DOWNLOAD ∧ segDownReq t l last &&& TOGGLE_BIT = tbit t ∧
        8 - ((segDownReq t l last >>> 1) &&& 7) = l + 1 ∧
        (decide (segDownReq t l last &&& NO_MORE_DATA ≠ 0) = last)) := by decide

theorem le7_mem (l : Nat) (h : l ≤ 7) : l ∈ [0, 1, 2, 3, 4, 5, 6, 7] := by
  simp only [List.mem_cons, List.not_mem_nil, or_false]; omega

theorem in14_mem (l : Nat) (h1 : 1 ≤ l) (h4 : l ≤ 4) : l ∈ [1, 2, 3, 4] := by
  simp only [List.mem_cons, List.not_mem_nil, or_false]; omega

theorem wf_tbit (s : Srv) (h : SrvWF s) : ∃ t : Bool, s.toggle = Spec.tbit t := by
  rcases h with h | h
  · exact ⟨false, by rw [h]; rfl⟩
  · exact ⟨true, by rw [h]; rfl⟩

theorem wf_of_tbit (s : Srv) (t : Bool) (h : s.toggle = Spec.tbit t) : SrvWF s := by
  cases t
  · exact Or.inl h
  · exact Or.inr h

theorem tbit_xor (t : Bool) : Spec.tbit t ^^^ TOGGLE_BIT = Spec.tbit (!t) := by
  cases t <;> decide

/-! ### frames -/

theorem muxBytes_eq (idx sub : Nat) : muxBytes idx sub = Spec.mux idx sub := by
  simp [muxBytes, Spec.mux, leBytes]

theorem muxBytes_length (idx sub : Nat) : (muxBytes idx sub).length = 3 := by
  simp [muxBytes]

theorem abortFrame_length (s : Srv) (code : Nat) : (abortFrame s code).length = 8 := by
  simp [abortFrame]

theorem abortFrame_head (s : Srv) (code : Nat) : (abortFrame s code).head? = some 0x80 := by
  simp [abortFrame, RESPONSE_ABORTED]

theorem padTo_length (k : Nat) (bs : Bytes) (h : bs.length ≤ k) : (padTo k bs).length = k := by
  simp [padTo]; omega

theorem padTo_take (k : Nat) (bs : Bytes) : (padTo k bs).take bs.length = bs := by
  simp [padTo]

theorem padTo_drop_allZero (k : Nat) (bs : Bytes) : Spec.allZero ((padTo k bs).drop bs.length) = true := by
  simp [padTo, Spec.allZero]

/-- the multiplexer of a request survives the byte split -/
theorem mux_roundtrip (idx : Nat) (h : idx < 65536) : idx % 256 + 256 * (idx / 256 % 256) = idx := by
  omega

end Canopen.Sdo
