/-
Lemmas about the section loop of `import_eds` on documents made by the independent writer: which
regular expression a written section name matches, what one loop iteration does to the dictionary
for each kind of written section, and the fold over all sections of one object.
-/
import CanopenProofs.Lemmas.EdsVar

namespace Canopen.Spec.EdsWriter
open Canopen.Eds Canopen.Gen.Datatypes Canopen.Gen.EdsTables

/-! ### section names -/

theorem hexVal_digits (up : Bool) : ∀ (ds : List Nat) (acc : Nat), (∀ d ∈ ds, d < 16) →
    List.foldl (fun a c => a * 16 + (digitVal c).getD 0) acc (ds.map (digitChar up)) = digitsVal 16 acc ds := by
  intro ds
  induction ds with
  | nil => intro acc _; rfl
  | cons d r ih =>
    intro acc h
    simp only [List.map_cons, List.foldl_cons, digitVal_digitChar up d (h d (by simp)), Option.getD_some]
    rw [ih _ (fun x hx => h x (by simp [hx]))]
    rfl

theorem paddedDigits16_lt (k n : Nat) : ∀ d ∈ List.replicate k 0 ++ natDigits 16 n, d < 16 := by
  intro d hd
  rcases List.mem_append.mp hd with h | h
  · have := List.eq_of_mem_replicate h; omega
  · exact natDigits_lt 16 (by omega) n d h

theorem hexVal_padded (up : Bool) (k n : Nat) : hexVal (paddedDigits 16 up k n) = n := by
  unfold hexVal paddedDigits
  rw [hexVal_digits up _ 0 (paddedDigits16_lt k n), digitsVal_append, digitsVal_zeros,
    digitsVal_natDigits 16 (by omega)]

theorem allHex_padded (up : Bool) (k n : Nat) : (paddedDigits 16 up k n).all isHexDigit = true := by
  simp only [paddedDigits, List.all_eq_true, List.mem_map]
  rintro c ⟨d, hd, rfl⟩
  exact digitChar_isHex up d (paddedDigits16_lt k n d hd)

theorem padded_ne_nil (up : Bool) (k n : Nat) : paddedDigits 16 up k n ≠ [] := by
  obtain ⟨c, r, h, _⟩ := paddedDigits_cons 16 (by omega) (by omega) up k n
  rw [h]; simp

section
variable (up : Bool) (i : Nat) (hi : i < 65536)
include hi

theorem hex4_allHex : (hex4 up i).all isHexDigit = true := by
  simp [hex4, List.all, digitChar_isHex, Nat.mod_lt]

theorem hexVal_hex4 : hexVal (hex4 up i) = i := by
  simp [hexVal, hex4, digitVal_digitChar, Nat.mod_lt]
  omega

theorem matchIndex_hex4 : matchIndex (hex4 up i) = some i := by
  unfold matchIndex
  rw [if_pos ⟨rfl, hex4_allHex up i hi⟩, hexVal_hex4 up i hi]

theorem hex4_second_ne_u (a b c d : Char) (r : Str) (h : hex4 up i ++ r = a :: b :: c :: d :: r) : b ≠ 'u' := by
  simp only [hex4, List.cons_append, List.nil_append, List.cons.injEq] at h
  obtain ⟨_, rfl, _⟩ := h
  exact (digitChar_props16 ⟨i / 256 % 16, Nat.mod_lt _ (by omega)⟩ up).2.2.2.2.2.2.2.1

theorem isDummy_hex4_append (r : Str) : isDummySection (hex4 up i ++ r) = false := by
  have hu : digitChar up (i / 256 % 16) ≠ 'u' :=
    (digitChar_props16 ⟨i / 256 % 16, Nat.mod_lt _ (by omega)⟩ up).2.2.2.2.2.2.2.1
  simp only [hex4, List.cons_append, List.nil_append]
  unfold isDummySection
  split
  · rename_i heq
    simp only [List.cons.injEq] at heq
    obtain ⟨_, h2, _⟩ := heq
    simp [← h2, hu]
  · rfl

theorem matchSub_hex4 : matchSub (hex4 up i) = none := by
  simp [matchSub, hex4]

theorem matchName_hex4 : matchName (hex4 up i) = none := by
  simp [matchName, hex4, List.isPrefixOf]

theorem matchIndex_hex4_append (c : Char) (r : Str) : matchIndex (hex4 up i ++ c :: r) = none := by
  simp [matchIndex, hex4]

theorem matchSub_subSection (m : SMember) : matchSub (subSectionName up i m) = some (i, m.sub) := by
  have h4 := hex4_allHex up i hi
  have hv := hexVal_hex4 up i hi
  unfold subSectionName
  rw [zpad_natStr]
  generalize hk : m.pad - (natStr 16 m.upHex m.sub).length = k
  have ha := allHex_padded m.upHex k m.sub
  have hn := padded_ne_nil m.upHex k m.sub
  have hx := hexVal_padded m.upHex k m.sub
  simp only [hex4] at h4 hv ⊢
  simp only [matchSub, List.cons_append, List.nil_append, List.take, List.drop]
  cases m.capital <;> simp [h4, hv, ha, hn, hx]

theorem matchName_subSection (m : SMember) : matchName (subSectionName up i m) = none := by
  unfold subSectionName
  cases m.capital <;> simp [matchName, hex4, List.isPrefixOf]

theorem matchSub_nameSection : matchSub (hex4 up i ++ c!"Name") = none := by
  simp [matchSub, hex4]

theorem matchName_nameSection : matchName (hex4 up i ++ c!"Name") = some i := by
  have h4 := hex4_allHex up i hi
  have hv := hexVal_hex4 up i hi
  simp only [hex4] at h4 hv ⊢
  simp [matchName, List.isPrefixOf, h4, hv]

end

/-! ### dictionaries and the heap -/

theorem dictGet_dictSet_self {κ β : Type} [DecidableEq κ] (k : κ) (v : β) (d : List (κ × β)) :
    dictGet k (dictSet k v d) = some v := by
  induction d with
  | nil => simp [dictSet, dictGet]
  | cons p r ih =>
    obtain ⟨k', v'⟩ := p
    simp only [dictSet]
    split
    · simp [dictGet]
    · rename_i h; simp [dictGet, h, ih]

theorem deref_addObject (od : OD) (o : Obj) : (od.addObject o).deref od.heap.length = some o := by
  simp [OD.addObject, OD.deref]

theorem indices_addObject (od : OD) (o : Obj) :
    dictGet o.index (od.addObject o).indices = some od.heap.length := by
  simp [OD.addObject, dictGet_dictSet_self]

theorem setHeap_addObject (od : OD) (o o' : Obj) (hi : o'.index = o.index) (hn : o'.name = o.name) :
    (od.addObject o).setHeap od.heap.length o' = od.addObject o' := by
  simp [OD.addObject, OD.setHeap, hi, hn]

/-! ### one loop iteration, by class of section name -/

theorem processSection_ignored (doc : Doc) (nid : Option Int) (od : OD) (s : Sec)
    (h1 : isDummySection s.name = false) (h2 : matchIndex s.name = none) (h3 : matchSub s.name = none)
    (h4 : matchName s.name = none) : processSection doc nid od s = some od := by
  simp [processSection, h1, h2, h3, h4]

theorem processSection_index (doc : Doc) (nid : Option Int) (od : OD) (s : Sec) (i : Nat)
    (h1 : isDummySection s.name = false) (h2 : matchIndex s.name = some i) :
    processSection doc nid od s = processIndex doc nid od s i := by
  simp [processSection, h1, h2]

theorem processSection_sub (doc : Doc) (nid : Option Int) (od : OD) (s : Sec) (i sub : Nat)
    (h1 : isDummySection s.name = false) (h2 : matchIndex s.name = none)
    (h3 : matchSub s.name = some (i, sub)) (h4 : matchName s.name = none) :
    processSection doc nid od s = processSub doc nid od s i sub := by
  simp only [processSection, h1, h2, h3, h4, Bool.false_eq_true, if_false]
  cases processSub doc nid od s i sub <;> rfl

theorem processSection_name (doc : Doc) (nid : Option Int) (od : OD) (s : Sec) (i : Nat)
    (h1 : isDummySection s.name = false) (h2 : matchIndex s.name = none) (h3 : matchSub s.name = none)
    (h4 : matchName s.name = some i) : processSection doc nid od s = processName od s i := by
  simp [processSection, h1, h2, h3, h4]

/-! ### variables -/

theorem varKeys_optLine_ObjectType (o : Option Str) : ∀ k ∈ varKeys, dictGet k (optLine kObjectType o) = none := by
  intro k hk
  simp only [varKeys, List.mem_cons, List.not_mem_nil, or_false] at hk
  rcases hk with rfl | rfl | rfl | rfl | rfl | rfl | rfl | rfl | rfl | rfl | rfl | rfl <;>
    (rw [dictGet_optLine]; rw [if_neg (by decide)])

theorem pyInt0_varObjectType (ot : Option NumSp) (domain : Bool) :
    objectTypeOf (varObjectType ot domain) = some (if domain then (OT_DOMAIN : Int) else (OT_VAR : Int)) := by
  unfold varObjectType objectTypeOf
  cases domain
  · cases ot <;> simp [pyInt0_spellNat, OT_VAR]
  · simp [pyInt0_spellNat, OT_DOMAIN]

theorem processSection_var (doc : Doc) (nid : Option Int) (od : OD) (i : Nat) (hi : i < 65536) (up : Bool)
    (v : SVar) (hv : v.WF) (ot : Option NumSp) (domain : Bool) :
    processSection doc nid od
        { name := hex4 up i, opts := optLine kObjectType (varObjectType ot domain) ++ varOpts v }
      = some (od.addObject (.var (denoteVar v nid i 0))) := by
  rw [processSection_index doc nid od _ i (by simpa using isDummy_hex4_append up i hi [])
    (matchIndex_hex4 up i hi)]
  unfold processIndex
  have hname : Sec.get { name := hex4 up i, opts := optLine kObjectType (varObjectType ot domain) ++ varOpts v }
      kParameterName = some v.name := by
    simp only [Sec.get, dictGet_append, varKeys_optLine_ObjectType _ kParameterName (by simp [varKeys]),
      get_varOpts_ParameterName]
  have hot : Sec.get { name := hex4 up i, opts := optLine kObjectType (varObjectType ot domain) ++ varOpts v }
      kObjectType = varObjectType ot domain := by
    simp only [Sec.get, dictGet_append, dictGet_optLine, if_true, get_varOpts_ObjectType]
    cases varObjectType ot domain <;> rfl
  simp only [hname, hot, pyInt0_varObjectType]
  have hb := buildVariable_written doc (hex4 up i) _ (varKeys_optLine_ObjectType (varObjectType ot domain))
    v hv nid i 0
  cases domain <;> simp [hb, OT_VAR, OT_DOMAIN]

/-! ### records and arrays, one section per sub-index -/

def collMainOpts (isArray : Bool) (name : Str) (storage : Option Str) (otSp : NumSp)
    (subNumber : Option NumSp) (n : Nat) : List (Str × Str) :=
  [(kParameterName, name), (kObjectType, spellNat otSp (if isArray then 8 else 9))] ++
    optLine kSubNumber (subNumber.map fun sp => spellNat sp n) ++ optLine kStorageLocation storage

theorem processSection_collMain (doc : Doc) (nid : Option Int) (od : OD) (i : Nat) (hi : i < 65536)
    (up isArray : Bool) (name : Str) (storage : Option Str) (otSp : NumSp) (subNumber : Option NumSp)
    (n : Nat) :
    processSection doc nid od
        { name := hex4 up i, opts := collMainOpts isArray name storage otSp subNumber n }
      = some (od.addObject (.coll { isArray := isArray, name := name, index := i, storage := storage })) := by
  rw [processSection_index doc nid od _ i (by simpa using isDummy_hex4_append up i hi [])
    (matchIndex_hex4 up i hi)]
  unfold processIndex
  have hname : Sec.get { name := hex4 up i, opts := collMainOpts isArray name storage otSp subNumber n }
      kParameterName = some name := by
    simp [Sec.get, collMainOpts, dictGet]
  have hot : Sec.get { name := hex4 up i, opts := collMainOpts isArray name storage otSp subNumber n }
      kObjectType = some (spellNat otSp (if isArray then 8 else 9)) := by
    simp [Sec.get, collMainOpts, dictGet, kParameterName, kObjectType]
  have hst : Sec.get { name := hex4 up i, opts := collMainOpts isArray name storage otSp subNumber n }
      kStorageLocation = storage := by
    simp [Sec.get, collMainOpts, dictGet, dictGet_append, dictGet_optLine, kParameterName, kObjectType,
      kStorageLocation, kSubNumber]
  have hco : Sec.has { name := hex4 up i, opts := collMainOpts isArray name storage otSp subNumber n }
      kCompactSubObj = false := by
    simp [Sec.has, dictHas, collMainOpts, dictGet, dictGet_append, dictGet_optLine, kParameterName,
      kObjectType, kStorageLocation, kSubNumber, kCompactSubObj]
  simp only [hname, hot, hst, hco, objectTypeOf, pyInt0_spellNat]
  cases isArray <;> simp [OT_VAR, OT_DOMAIN, OT_ARR, OT_RECORD]

theorem varKeys_nil : ∀ k ∈ varKeys, dictGet k ([] : List (Str × Str)) = none := by
  intro k _; rfl

theorem processSection_member (doc : Doc) (nid : Option Int) (od : OD) (c : Coll) (hi : c.index < 65536)
    (up : Bool) (m : SMember) (hv : m.v.WF) :
    processSection doc nid (od.addObject (.coll c))
        { name := subSectionName up c.index m, opts := varOpts m.v }
      = some (od.addObject (.coll (c.addMember (denoteVar m.v nid c.index m.sub)))) := by
  have hd : isDummySection (subSectionName up c.index m) = false := by
    unfold subSectionName; exact isDummy_hex4_append up c.index hi _
  have hmi : matchIndex (subSectionName up c.index m) = none := by
    unfold subSectionName; exact matchIndex_hex4_append up c.index hi _ _
  rw [processSection_sub doc nid _ _ c.index m.sub hd hmi (matchSub_subSection up c.index hi m)
    (matchName_subSection up c.index hi m)]
  unfold processSub
  have h1 := indices_addObject od (.coll c)
  simp only [Obj.index] at h1
  have hb := buildVariable_written doc (subSectionName up c.index m) [] varKeys_nil m.v hv nid c.index m.sub
  simp only [List.nil_append] at hb
  simp only [h1, deref_addObject, hb, Option.map_some]
  rw [setHeap_addObject od (.coll c) (.coll (c.addMember (denoteVar m.v nid c.index m.sub))) rfl rfl]

/-- all member sections of one record/array, in any order and with any repetition -/
theorem foldlM_members (doc : Doc) (nid : Option Int) (od : OD) (up : Bool) :
    ∀ (ms : List SMember) (c : Coll), c.index < 65536 → (∀ m ∈ ms, m.v.WF) →
      (ms.map fun m => ({ name := subSectionName up c.index m, opts := varOpts m.v } : Sec)).foldlM
          (processSection doc nid) (od.addObject (.coll c))
        = some (od.addObject (.coll
            (ms.foldl (fun c' m => c'.addMember (denoteVar m.v nid c.index m.sub)) c))) := by
  intro ms
  induction ms with
  | nil => intro c _ _; rfl
  | cons m r ih =>
    intro c hi hv
    simp only [List.map_cons, List.foldlM_cons, List.foldl_cons]
    rw [processSection_member doc nid od c hi up m (hv m (by simp))]
    simp only [Option.bind_eq_bind, Option.bind_some]
    have := ih (c.addMember (denoteVar m.v nid c.index m.sub)) (by simpa [Coll.addMember] using hi)
      (fun x hx => hv x (by simp [hx]))
    simpa [Coll.addMember] using this

/-! ### compact arrays -/

theorem varKeys_compactPre (a b : Str) :
    ∀ k ∈ varKeys, dictGet k [(kObjectType, a), (kCompactSubObj, b)] = none := by
  intro k hk
  simp only [varKeys, List.mem_cons, List.not_mem_nil, or_false] at hk
  rcases hk with rfl | rfl | rfl | rfl | rfl | rfl | rfl | rfl | rfl | rfl | rfl | rfl <;>
    (simp only [dictGet]; rw [if_neg (by decide), if_neg (by decide)])

/-- the array the importer makes from the main section of a compact description -/
def compactBase (nid : Option Int) (i : Nat) (t : SVar) : Coll :=
  (({ isArray := true, name := t.name, index := i, storage := t.storage } : Coll).addMember
    (numberOfEntriesVar i)).addMember (denoteVar t nid i 1)

def compactMainOpts (n : Nat) (nSp : NumSp) (t : SVar) (otSp : NumSp) : List (Str × Str) :=
  (kObjectType, spellNat otSp 8) :: (kCompactSubObj, spellNat nSp n) :: varOpts t

theorem processSection_compactMain (doc : Doc) (nid : Option Int) (od : OD) (i : Nat) (hi : i < 65536)
    (up : Bool) (n : Nat) (nSp : NumSp) (t : SVar) (hv : t.WF) (otSp : NumSp) :
    processSection doc nid od { name := hex4 up i, opts := compactMainOpts n nSp t otSp }
      = some (od.addObject (.coll (compactBase nid i t))) := by
  rw [processSection_index doc nid od _ i (by simpa using isDummy_hex4_append up i hi [])
    (matchIndex_hex4 up i hi)]
  unfold processIndex
  have hb := buildVariable_written doc (hex4 up i) _
    (varKeys_compactPre (spellNat otSp 8) (spellNat nSp n)) t hv nid i 1
  simp only [List.cons_append, List.nil_append] at hb
  have hname : Sec.get { name := hex4 up i, opts := compactMainOpts n nSp t otSp } kParameterName
      = some t.name := by
    simp only [Sec.get, compactMainOpts, dictGet]
    rw [if_neg (by decide), if_neg (by decide), get_varOpts_ParameterName]
  have hot : Sec.get { name := hex4 up i, opts := compactMainOpts n nSp t otSp } kObjectType
      = some (spellNat otSp 8) := by
    simp [Sec.get, compactMainOpts, dictGet]
  have hst : Sec.get { name := hex4 up i, opts := compactMainOpts n nSp t otSp } kStorageLocation
      = t.storage := by
    simp only [Sec.get, compactMainOpts, dictGet]
    rw [if_neg (by decide), if_neg (by decide), get_varOpts_StorageLocation]
  have hco : Sec.has { name := hex4 up i, opts := compactMainOpts n nSp t otSp } kCompactSubObj = true := by
    simp only [Sec.has, dictHas, compactMainOpts, dictGet]
    rw [if_neg (by decide)]; simp
  simp only [hname, hot, hst, hco, objectTypeOf, pyInt0_spellNat]
  simp only [compactMainOpts] at hb ⊢
  simp only [hb]
  simp [OT_VAR, OT_DOMAIN, OT_ARR, compactBase, Coll.addMember, numberOfEntriesVar, UNSIGNED8]

theorem addNamed_index (tv : Var) : ∀ (ns : List Str) (k : Nat) (c : Coll),
    (addNamed tv k ns c).index = c.index := by
  intro ns
  induction ns with
  | nil => intro k c; rfl
  | cons n r ih => intro k c; simp only [addNamed]; rw [ih]; rfl

theorem addNamed_name (tv : Var) : ∀ (ns : List Str) (k : Nat) (c : Coll),
    (addNamed tv k ns c).name = c.name := by
  intro ns
  induction ns with
  | nil => intro k c; rfl
  | cons n r ih => intro k c; simp only [addNamed]; rw [ih]; rfl

theorem natStr10_inj (a b : Nat) (h : natStr 10 false a = natStr 10 false b) : a = b := by
  have := congrArg pyInt10 h
  rw [pyInt10_natStr, pyInt10_natStr] at this
  simp only [Option.some.injEq] at this
  omega

theorem natStr10_head (n : Nat) : ∃ d r, natStr 10 false n = digitChar false d :: r ∧ d < 10 := by
  have hne := natDigits_ne_nil 10 n
  cases hds : natDigits 10 n with
  | nil => exact absurd hds hne
  | cons d r =>
    exact ⟨d, r.map (digitChar false), by simp [natStr, hds],
      natDigits_lt 10 (by omega) n d (by simp [hds])⟩

/-- looking a numbered line up -/
theorem dictGet_numbered (pre : Str) : ∀ (ts : List Str) (k j : Nat) (h : j < ts.length),
    dictGet (pre ++ natStr 10 false (k + j)) (numbered pre k ts) = some ts[j] := by
  intro ts
  induction ts with
  | nil => intro k j h; simp at h
  | cons t r ih =>
    intro k j h
    simp only [numbered, dictGet]
    cases j with
    | zero => simp
    | succ j =>
      have hne : ¬ (pre ++ natStr 10 false k = pre ++ natStr 10 false (k + (j + 1))) := by
        intro he
        have := natStr10_inj _ _ (List.append_cancel_left he)
        omega
      rw [if_neg hne]
      have := ih (k + 1) j (by simpa using h)
      rw [show k + 1 + j = k + (j + 1) by omega] at this
      simpa using this

theorem copyNames_eq (s : Sec) (src : Var) : ∀ (rest : List Str) (k : Nat) (c : Coll),
    (∀ j (h : j < rest.length), s.get (natStr 10 false (k + j)) = some rest[j]) →
    copyNames s src rest.length k c = some (addNamed src k rest c) := by
  intro rest
  induction rest with
  | nil => intro k c _; rfl
  | cons t r ih =>
    intro k c h
    have h0 := h 0 (by simp)
    simp only [Nat.add_zero, List.getElem_cons_zero] at h0
    simp only [List.length_cons, copyNames, h0, addNamed]
    apply ih
    intro j hj
    have := h (j + 1) (by simpa using hj)
    rw [show k + 1 + j = k + (j + 1) by omega]
    simpa using this

theorem get_nameList (nm : Str) (ns : List Str) (j : Nat) (h : j < ns.length) :
    Sec.get { name := nm, opts := nameListOpts ns } (natStr 10 false (1 + j)) = some ns[j] := by
  obtain ⟨d, r, hr, hd⟩ := natStr10_head (1 + j)
  have hN : digitChar false d ≠ 'N' := (digitChar_props16 ⟨d, by omega⟩ false).2.2.2.2.2.2.2.2.1
  have hne : ¬ (kNrOfEntries = natStr 10 false (1 + j)) := by
    rw [hr, kNrOfEntries]
    intro he
    simp only [List.cons.injEq] at he
    exact hN he.1.symm
  simp only [Sec.get, nameListOpts, dictGet]
  rw [if_neg hne]
  have := dictGet_numbered [] ns 1 j h
  simpa using this

theorem processSection_nameList (doc : Doc) (nid : Option Int) (od : OD) (i : Nat) (hi : i < 65536)
    (up : Bool) (t : SVar) (ns : List Str) :
    processSection doc nid (od.addObject (.coll (compactBase nid i t)))
        { name := hex4 up i ++ c!"Name", opts := nameListOpts ns }
      = some (od.addObject (.coll (addNamed (denoteVar t nid i 1) 1 ns (compactBase nid i t)))) := by
  rw [processSection_name doc nid _ _ i (isDummy_hex4_append up i hi _)
    (matchIndex_hex4_append up i hi _ _) (matchSub_nameSection up i hi) (matchName_nameSection up i hi)]
  unfold processName
  have hn : Sec.get { name := hex4 up i ++ c!"Name", opts := nameListOpts ns } kNrOfEntries
      = some (natStr 10 false ns.length) := by
    simp [Sec.get, nameListOpts, dictGet]
  have h1 := indices_addObject od (.coll (compactBase nid i t))
  have hidx : (Obj.coll (compactBase nid i t)).index = i := rfl
  rw [hidx] at h1
  have hsub : dictGet 1 (compactBase nid i t).subs = some (denoteVar t nid i 1) := by
    simp [compactBase, Coll.addMember, numberOfEntriesVar, denoteVar, dictSet, dictGet]
  have hcopy := copyNames_eq { name := hex4 up i ++ c!"Name", opts := nameListOpts ns }
    (denoteVar t nid i 1) ns 1 (compactBase nid i t) (fun j h => get_nameList _ ns j h)
  simp only [hn, Option.bind_some, pyInt10_natStr, h1, deref_addObject, hsub, Int.toNat_natCast, hcopy,
    Option.map_some]
  rw [setHeap_addObject od (.coll (compactBase nid i t))
    (.coll (addNamed (denoteVar t nid i 1) 1 ns (compactBase nid i t)))
    (addNamed_index _ ns 1 _) (addNamed_name _ ns 1 _)]

/-! ### all sections of one object -/

theorem foldlM_objSections (doc : Doc) (nid : Option Int) (od : OD) (o : SObj) (ho : o.WF) :
    (objSections o).foldlM (processSection doc nid) od = some (od.addObject (buildObj nid o)) := by
  cases o with
  | var i up v ot domain =>
    obtain ⟨hi, hv⟩ := ho
    simp only [objSections, List.foldlM_cons, List.foldlM_nil, processSection_var doc nid od i hi up v hv]
    rfl
  | coll isArray i up name storage otSp subNumber members =>
    obtain ⟨hi, hv⟩ := ho
    simp only [objSections, List.foldlM_cons]
    have hm := processSection_collMain doc nid od i hi up isArray name storage otSp subNumber members.length
    simp only [collMainOpts] at hm
    rw [hm]
    simp only [Option.bind_eq_bind, Option.bind_some]
    exact foldlM_members doc nid od up members
      { isArray := isArray, name := name, index := i, storage := storage } hi hv
  | compact i up n nSp t otSp names =>
    obtain ⟨hi, hv⟩ := ho
    simp only [objSections, List.foldlM_cons]
    have hm := processSection_compactMain doc nid od i hi up n nSp t hv otSp
    simp only [compactMainOpts] at hm
    rw [hm]
    simp only [Option.bind_eq_bind, Option.bind_some]
    cases names with
    | none => rfl
    | some ns =>
      simp only [List.foldlM_cons, List.foldlM_nil]
      rw [processSection_nameList doc nid od i hi up t ns]
      rfl

end Canopen.Spec.EdsWriter
