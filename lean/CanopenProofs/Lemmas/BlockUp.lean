/-
Helper lemmas for C13 (block upload), first part: statements about the client model alone, valid
against every peer and every channel — the bus plumbing leaves the stream attributes alone, and
the read loop keeps "running CRC = CRC of the bytes handed out".
Property theorems live in CanopenProofs/C13.lean.
-/
import CanopenModel.Sdo.BlockUp
import CanopenProofs.Lemmas.Crc

namespace Canopen.C13
open Canopen Canopen.Crc Canopen.Gen.SdoBlock Canopen.Sdo.BlockUp

/-! ### what the bus plumbing leaves alone -/

theorem deliver_cl (E : Env) (rs : List Bytes) : ∀ s, (deliver E s rs).cl = s.cl := by
  induction rs with
  | nil => intro s; rfl
  | cons r rs ih =>
    intro s
    simp only [deliver, ih]
    unfold deliver1
    split
    · split <;> rfl
    · split <;> rfl

@[simp] theorem fail_cl (s : Sys) (e : Canopen.Sdo.CErr) : (fail s e).cl = s.cl := rfl

@[simp] theorem sendReq_cl (E : Env) (s : Sys) (f : Bytes) : (sendReq E s f).cl = s.cl := by
  unfold sendReq
  split <;> simp [deliver_cl]

@[simp] theorem abort_cl (E : Env) (s : Sys) (c : Nat) : (abort E s c).cl = s.cl := by simp [abort]

theorem readResponse_cl (s : Sys) : (readResponse s).1.cl = s.cl := by
  unfold readResponse; split <;> rfl

theorem rrLoop_cl (E : Env) (req : Bytes) : ∀ k s, (rrLoop E k s req).1.cl = s.cl := by
  intro k
  induction k with
  | zero => intro s; rfl
  | succ k ih =>
    intro s
    simp only [rrLoop]
    have h := readResponse_cl (sendReq E s req)
    generalize readResponse (sendReq E s req) = x at h ⊢
    obtain ⟨s1, r⟩ := x
    cases r with
    | timeout => simp only; split <;> simp_all
    | resp f => simpa using h
    | aborted code => simpa using h

/-- the part of the client state the CRC guard is about -/
structure SameCrc (s s' : Sys) : Prop where
  crc : s'.cl.crc = s.cl.crc
  sup : s'.cl.crcSupported = s.cl.crcSupported
  done : s'.cl.done = s.cl.done
  scrc : s'.cl.serverCrc = s.cl.serverCrc

theorem SameCrc.refl (s : Sys) : SameCrc s s := ⟨rfl, rfl, rfl, rfl⟩

theorem SameCrc.trans {a b c : Sys} (h1 : SameCrc a b) (h2 : SameCrc b c) : SameCrc a c :=
  ⟨h2.crc.trans h1.crc, h2.sup.trans h1.sup, h2.done.trans h1.done, h2.scrc.trans h1.scrc⟩

theorem sameCrc_of_cl {s s' : Sys} (h : s'.cl = s.cl) : SameCrc s s' := by
  constructor <;> rw [h]

theorem ackBlock_same (E : Env) (s : Sys) : SameCrc s (ackBlock E s) := by
  unfold ackBlock
  exact ⟨by simp, by simp, by simp, by simp⟩

theorem retransmit_same (E : Env) (s : Sys) : SameCrc s (retransmit E s).1 := by
  have h := ackBlock_same E s
  unfold retransmit
  simp only
  split
  · exact ⟨h.crc, h.sup, h.done, h.scrc⟩
  · exact ⟨by simpa [setError] using h.crc, by simpa [setError] using h.sup, by simpa [setError] using h.done,
      by simpa [setError] using h.scrc⟩
  · exact ⟨h.crc, h.sup, h.done, h.scrc⟩

theorem seqCheck_same (E : Env) (s : Sys) (r : Bytes) : SameCrc s (seqCheck E s r).1 := by
  unfold seqCheck
  split
  · exact ⟨rfl, rfl, rfl, rfl⟩
  · exact retransmit_same E s


/-- invariant of the read loop: the running CRC covers exactly the bytes handed out so far, and
    once the stream is done the announced checksum equals it -/
structure CI (s : Sys) (acc : Bytes) : Prop where
  run : s.cl.crcSupported = true → s.cl.crc = crcHqx acc 0
  fin : s.cl.done = true → s.cl.crcSupported = true → s.cl.serverCrc = some s.cl.crc

theorem endUpload_spec (E : Env) (s : Sys) :
    (endUpload E s).1.cl.crc = s.cl.crc ∧ (endUpload E s).1.cl.crcSupported = s.cl.crcSupported ∧
    (endUpload E s).1.cl.done = s.cl.done := by
  unfold endUpload
  have h := readResponse_cl s
  generalize readResponse s = x at h ⊢
  obtain ⟨s1, r⟩ := x
  cases r with
  | resp e =>
    simp only at h ⊢
    split
    · simp [setError, h]
    · split <;> simp [setError, h]
  | timeout => simp only at h ⊢; simp [setError, h]
  | aborted code => simp only at h ⊢; simp [h]

theorem finishLast_spec (E : Env) (s : Sys) (data d : Bytes) (s' : Sys)
    (h : finishLast E s data = (s', some d)) :
    d = data ∧ s'.cl.crcSupported = s.cl.crcSupported ∧ s'.cl.done = true ∧
    (s.cl.crcSupported = true → s'.cl.crc = crcHqx data s.cl.crc ∧ s'.cl.serverCrc = some s'.cl.crc) := by
  unfold finishLast at h
  simp only at h
  split at h
  · rename_i hsup
    split at h
    · simp at h
    · rename_i heq
      simp only [Prod.mk.injEq, Option.some.injEq] at h
      obtain ⟨rfl, rfl⟩ := h
      simp only [ne_eq, Decidable.not_not] at heq
      exact ⟨rfl, rfl, rfl, fun _ => ⟨rfl, heq⟩⟩
  · rename_i hsup
    simp only [Prod.mk.injEq, Option.some.injEq] at h
    obtain ⟨rfl, rfl⟩ := h
    exact ⟨rfl, rfl, rfl, fun hs => absurd hs hsup⟩

theorem afterSeq_spec (E : Env) (s : Sys) (r d : Bytes) (s' : Sys) (acc : Bytes) (hci : CI s acc)
    (hnd : s.cl.done = false) (h : afterSeq E s r = (s', some d)) :
    CI s' (acc ++ d) ∧ s'.cl.crcSupported = s.cl.crcSupported := by
  unfold afterSeq at h
  simp only at h
  have hack : SameCrc s (if s.cl.ackseq ≥ UPLOAD_BLKSIZE ∨ r.getD 0 0 &&& NO_MORE_BLOCKS ≠ 0 then ackBlock E s else s) := by
    split
    · exact ackBlock_same E s
    · exact SameCrc.refl s
  generalize (if s.cl.ackseq ≥ UPLOAD_BLKSIZE ∨ r.getD 0 0 &&& NO_MORE_BLOCKS ≠ 0 then ackBlock E s else s) = s1
    at hack h
  split at h
  · have he := endUpload_spec E s1
    generalize endUpload E s1 = x at he h
    obtain ⟨s2, o⟩ := x
    cases o with
    | none => simp at h
    | some n =>
      simp only at h he
      obtain ⟨e1, e2, e3, e4⟩ := finishLast_spec E s2 _ d s' h
      refine ⟨⟨?_, ?_⟩, by rw [e2, he.2.1, hack.sup]⟩
      · intro hs
        have hs2 : s2.cl.crcSupported = true := by rw [← e2]; exact hs
        have hs0 : s.cl.crcSupported = true := by rw [← hack.sup, ← he.2.1]; exact hs2
        rw [(e4 hs2).1, he.1, hack.crc, hci.run hs0, e1, crcHqx_append]
      · intro _ hs
        have hs2 : s2.cl.crcSupported = true := by rw [← e2]; exact hs
        exact (e4 hs2).2
  · simp only [Prod.mk.injEq, Option.some.injEq] at h
    obtain ⟨rfl, rfl⟩ := h
    refine ⟨⟨?_, ?_⟩, by simp [hack.sup]⟩
    · intro hs
      simp only at hs
      have hs0 : s.cl.crcSupported = true := by rw [← hack.sup]; exact hs
      simp only [hs, if_true, hack.crc, hci.run hs0, crcHqx_append]
    · intro hd
      simp only at hd
      rw [hack.done, hnd] at hd; simp at hd

theorem ci_of_same {s s' : Sys} {acc : Bytes} (h : SameCrc s s') (hci : CI s acc) : CI s' acc :=
  ⟨fun hs => by rw [h.crc]; exact hci.run (by rw [← h.sup]; exact hs),
   fun hd hs => by rw [h.scrc, h.crc]; exact hci.fin (by rw [← h.done]; exact hd) (by rw [← h.sup]; exact hs)⟩

theorem readStep_spec (E : Env) (s : Sys) (d : Bytes) (s' : Sys) (acc : Bytes) (hci : CI s acc)
    (hnd : s.cl.done = false) (h : readStep E s = (s', some d)) :
    CI s' (acc ++ d) ∧ s'.cl.crcSupported = s.cl.crcSupported := by
  unfold readStep at h
  have hrr := readResponse_cl s
  generalize readResponse s = x at hrr h
  obtain ⟨s1, r⟩ := x
  have h1 : SameCrc s s1 := sameCrc_of_cl hrr
  cases r with
  | aborted => simp at h
  | timeout =>
    simp only [andThen] at h
    have h2 := retransmit_same E s1
    generalize retransmit E s1 = y at h2 h
    obtain ⟨s2, o⟩ := y
    cases o with
    | none => simp at h
    | some r2 =>
      simp only at h h2
      have hs := h1.trans h2
      have := afterSeq_spec E s2 r2 d s' acc (ci_of_same hs hci) (by rw [hs.done]; exact hnd) h
      exact ⟨this.1, by rw [this.2, hs.sup]⟩
  | resp r1 =>
    simp only [andThen] at h
    have h3 := seqCheck_same E s1 r1
    generalize seqCheck E s1 r1 = z at h3 h
    obtain ⟨s3, o3⟩ := z
    cases o3 with
    | none => simp at h
    | some r3 =>
      simp only at h h3
      have hs := h1.trans h3
      have := afterSeq_spec E s3 r3 d s' acc (ci_of_same hs hci) (by rw [hs.done]; exact hnd) h
      exact ⟨this.1, by rw [this.2, hs.sup]⟩

theorem readAll_spec (E : Env) : ∀ (fuel : Nat) (s : Sys) (acc v : Bytes) (s' : Sys), CI s acc →
    readAll E fuel s acc = (s', .ok v) → CI s' v ∧ s'.cl.crcSupported = s.cl.crcSupported := by
  intro fuel
  induction fuel with
  | zero => intro s acc v s' _ h; simp [readAll] at h
  | succ f ih =>
    intro s acc v s' hci h
    simp only [readAll] at h
    split at h
    · simp only [Prod.mk.injEq, Res.ok.injEq] at h
      obtain ⟨rfl, rfl⟩ := h
      exact ⟨hci, rfl⟩
    · rename_i hnd
      have hsp := readStep_spec E s
      generalize readStep E s = x at hsp h
      obtain ⟨s1, o⟩ := x
      cases o with
      | none => simp at h
      | some d =>
        have := hsp d s1 acc hci (by simpa using hnd) rfl
        simp only at h
        split at h
        · rename_i hde
          simp only [Prod.mk.injEq, Res.ok.injEq] at h
          obtain ⟨rfl, rfl⟩ := h
          have hd0 : d = [] := by simpa using hde
          subst hd0
          exact ⟨by simpa using this.1, this.2⟩
        · have := ih s1 (acc ++ d) v s' this.1 h
          exact ⟨this.1, by rw [this.2]; exact ‹CI s1 (acc ++ d) ∧ _›.2⟩

theorem requestResponse_cl (E : Env) (s : Sys) (req : Bytes) : (requestResponse E s req).1.cl = s.cl := by
  unfold requestResponse; rw [rrLoop_cl]

theorem init_ci (E : Env) (idx sub : Nat) (crcReq : Bool) (s : Sys)
    (h : init E {} idx sub crcReq = (s, true)) : CI s [] ∧ s.cl.done = false := by
  unfold init at h
  simp only at h
  have hcl := requestResponse_cl E {} [REQUEST_BLOCK_UPLOAD ||| INITIATE_BLOCK_TRANSFER |||
    (if crcReq then CRC_SUPPORTED else 0), idx % 256, idx / 256, sub, UPLOAD_BLKSIZE, 0, 0, 0]
  generalize requestResponse E {} _ = x at hcl h
  obtain ⟨s1, r⟩ := x
  cases r with
  | resp r =>
    simp only at h hcl
    split at h
    · simp at h
    · split at h
      · simp at h
      · simp only [Prod.mk.injEq, and_true] at h
        subst h
        refine ⟨⟨fun _ => ?_, fun hd => ?_⟩, ?_⟩
        · simp [hcl, crcHqx]
        · simp [hcl] at hd
        · simp [hcl]
  | timeout => simp at h
  | aborted => simp at h

theorem close_cl (E : Env) (s : Sys) : (close E s).cl = s.cl := by
  unfold close; split <;> simp

theorem init_sup (E : Env) (idx sub : Nat) (s : Sys)
    (h : init E {} idx sub false = (s, true)) : s.cl.crcSupported = false := by
  unfold init at h
  simp only at h
  generalize requestResponse E {} _ = x at h
  obtain ⟨s1, r⟩ := x
  cases r with
  | resp r =>
    simp only at h
    split at h
    · simp at h
    · split at h
      · simp at h
      · simp only [Prod.mk.injEq, and_true] at h
        subst h
        simp
  | timeout => simp at h
  | aborted => simp at h

end Canopen.C13
