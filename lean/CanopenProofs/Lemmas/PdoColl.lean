/-
Helper lemmas for the collection part of C09 (`PdoBase.save` / `PdoBase.read` over several PDOs of
one node): a device with several PDOs behaves, for the client code of one PDO, exactly like that
PDO's strict device alone (`Sim`, a simulation through the embedding `s ↦ pre ++ s :: post`), so
that every single-PDO theorem of CanopenProofs/C09.lean carries over to the collection.
Property theorems live in CanopenProofs/C09Coll.lean, never here.
-/
import CanopenModel.Pdo.Config
import CanopenModel.Pdo.Collection
import CanopenModel.Spec.StrictPdoDevice
import CanopenProofs.Lemmas.PdoConfig
import CanopenProofs.Lemmas.PdoStrict
import CanopenProofs.Lemmas.Network

namespace Canopen.C09
open Canopen.Pdo Canopen.Spec.StrictPdo Canopen.Gen.PdoConfig

/-! ### the device with several PDOs, seen from one of them -/

/-- a write never changes which objects a PDO owns -/
theorem write_idx (d : PdoDev) (idx sub size v : Nat) :
    (write d idx sub size v).1.comIdx = d.comIdx ∧ (write d idx sub size v).1.mapIdx = d.mapIdx := by
  unfold write writeCom writeMap
  repeat' split
  all_goals exact ⟨rfl, rfl⟩

theorem writeMulti_focus (pre post : List PdoDev) (s : PdoDev) (idx sub size v : Nat)
    (hpre : ∀ p ∈ pre, p.owns idx = false) (hs : s.owns idx = true) :
    writeMulti (pre ++ s :: post) idx sub size v
      = (pre ++ (write s idx sub size v).1 :: post, (write s idx sub size v).2) := by
  induction pre with
  | nil => simp [writeMulti, hs]
  | cons p pre ih =>
    have hp := hpre p (by simp)
    simp only [List.cons_append, writeMulti, hp]
    rw [ih (fun q hq => hpre q (by simp [hq]))]
    simp

theorem readMulti_focus (pre post : List PdoDev) (s : PdoDev) (idx sub : Nat)
    (hpre : ∀ p ∈ pre, p.owns idx = false) (hs : s.owns idx = true) :
    readMulti (pre ++ s :: post) idx sub = read s idx sub := by
  induction pre with
  | nil => simp [readMulti, hs]
  | cons p pre ih =>
    have hp := hpre p (by simp)
    simp only [List.cons_append, readMulti, hp]
    rw [ih (fun q hq => hpre q (by simp [hq]))]
    simp

/-- none of the PDOs in `pre` owns the two objects `ci`, `mi` -/
def Free (pre : List PdoDev) (ci mi : Nat) : Prop :=
  ∀ p ∈ pre, p.owns ci = false ∧ p.owns mi = false

/-- `mτ` against the device `pre ++ s :: post` does what `mσ` does against `s` alone (same result,
    same log, `s` replaced by its successor, the other PDOs untouched), for every PDO `s` owning
    the objects `ci`, `mi` -/
def Sim {α} (ci mi : Nat) (pre post : List PdoDev) (mτ : M (List PdoDev) α) (mσ : M PdoDev α) :
    Prop :=
  ∀ s log, s.comIdx = ci → s.mapIdx = mi →
    mτ ⟨pre ++ s :: post, log⟩
      = (⟨pre ++ (mσ ⟨s, log⟩).1.dev :: post, (mσ ⟨s, log⟩).1.log⟩, (mσ ⟨s, log⟩).2) ∧
    (mσ ⟨s, log⟩).1.dev.comIdx = ci ∧ (mσ ⟨s, log⟩).1.dev.mapIdx = mi

theorem Sim_pure {α} (ci mi : Nat) (pre post : List PdoDev) (a : α) :
    Sim ci mi pre post (M.pure a) (M.pure a) := by
  intro s log hc hm
  exact ⟨rfl, hc, hm⟩

theorem Sim_throw {α} (ci mi : Nat) (pre post : List PdoDev) (e : Err) :
    Sim ci mi pre post (M.throw e : M _ α) (M.throw e) := by
  intro s log hc hm
  exact ⟨rfl, hc, hm⟩

theorem Sim_bind {α β} {ci mi : Nat} {pre post : List PdoDev} {mτ : M (List PdoDev) α}
    {mσ : M PdoDev α} {fτ : α → M (List PdoDev) β} {fσ : α → M PdoDev β}
    (h1 : Sim ci mi pre post mτ mσ) (h2 : ∀ a, Sim ci mi pre post (fτ a) (fσ a)) :
    Sim ci mi pre post (M.bind mτ fτ) (M.bind mσ fσ) := by
  intro s log hc hm
  obtain ⟨e1, c1, m1⟩ := h1 s log hc hm
  cases hσ : mσ ⟨s, log⟩ with
  | mk st' r =>
    obtain ⟨d', l'⟩ := st'
    rw [hσ] at e1 c1 m1
    simp only [] at e1 c1 m1
    cases r with
    | error e =>
      rw [bind_err hσ, bind_err e1]
      exact ⟨rfl, c1, m1⟩
    | ok a =>
      rw [bind_ok hσ, bind_ok e1]
      exact h2 a d' l' c1 m1

theorem Sim_sdoWrite (od : Od) (pre post : List PdoDev) (hfree : Free pre od.comIdx od.mapIdx)
    (c : Bool) (s v : Nat) :
    Sim od.comIdx od.mapIdx pre post (sdoWrite multiDev od c s v) (sdoWrite strictDev od c s v) := by
  intro d log hc hm
  have hown : d.owns (od.index c) = true := by
    cases c <;> simp [PdoDev.owns, Od.index, hc, hm]
  have hpre : ∀ p ∈ pre, p.owns (od.index c) = false := by
    intro p hp
    cases c
    · simpa [Od.index] using (hfree p hp).2
    · simpa [Od.index] using (hfree p hp).1
  unfold sdoWrite
  cases od.lookup c s with
  | none => exact ⟨rfl, hc, hm⟩
  | some e =>
    simp only []
    by_cases hv : v ≥ 256 ^ width c s
    · rw [if_pos hv, if_pos hv]; exact ⟨rfl, hc, hm⟩
    · rw [if_neg hv, if_neg hv]
      obtain ⟨w1, w2⟩ := write_idx d (od.index c) s (width c s) v
      simp only [multiDev, strictDev, writeMulti_focus pre post d _ _ _ _ hpre hown]
      exact ⟨trivial, by rw [w1]; exact hc, by rw [w2]; exact hm⟩

theorem Sim_sdoRead (od : Od) (pre post : List PdoDev) (hfree : Free pre od.comIdx od.mapIdx)
    (c : Bool) (s : Nat) :
    Sim od.comIdx od.mapIdx pre post (sdoRead multiDev od c s) (sdoRead strictDev od c s) := by
  intro d log hc hm
  have hown : d.owns (od.index c) = true := by
    cases c <;> simp [PdoDev.owns, Od.index, hc, hm]
  have hpre : ∀ p ∈ pre, p.owns (od.index c) = false := by
    intro p hp
    cases c
    · simpa [Od.index] using (hfree p hp).2
    · simpa [Od.index] using (hfree p hp).1
  unfold sdoRead
  cases od.lookup c s with
  | none => exact ⟨rfl, hc, hm⟩
  | some e =>
    simp only [multiDev, strictDev, readMulti_focus pre post d _ _ hpre hown]
    exact ⟨trivial, hc, hm⟩

/-! ### the client code of one PDO, combinator by combinator -/

theorem Sim_writeAll (od : Od) (pre post : List PdoDev) (hfree : Free pre od.comIdx od.mapIdx)
    (ws : List (Bool × Nat × Nat)) :
    Sim od.comIdx od.mapIdx pre post (writeAll multiDev od ws) (writeAll strictDev od ws) := by
  induction ws with
  | nil => exact Sim_pure _ _ _ _ ()
  | cons w ws ih =>
    obtain ⟨c, s, v⟩ := w
    simp only [writeAll]
    exact Sim_bind (Sim_sdoWrite od pre post hfree c s v) fun _ => ih

theorem Sim_zeroStep (od : Od) (pre post : List PdoDev) (hfree : Free pre od.comIdx od.mapIdx)
    (map : List MapEntry) :
    Sim od.comIdx od.mapIdx pre post (zeroStep multiDev od map) (zeroStep strictDev od map) := by
  intro d log hc hm
  obtain ⟨e1, c1, m1⟩ := Sim_sdoWrite od pre post hfree false 0 0 d log hc hm
  unfold zeroStep
  rw [e1]
  generalize sdoWrite strictDev od false 0 0 ⟨d, log⟩ = X at c1 m1 ⊢
  obtain ⟨⟨d', l'⟩, r⟩ := X
  simp only [] at c1 m1 ⊢
  cases r with
  | ok u => exact ⟨rfl, c1, m1⟩
  | error e =>
    cases e with
    | abort code =>
      simp only []
      obtain ⟨e2, c2, m2⟩ := Sim_sdoRead od pre post hfree false 0 d' l' c1 m1
      rw [e2]
      generalize sdoRead strictDev od false 0 ⟨d', l'⟩ = Y at c2 m2 ⊢
      obtain ⟨⟨d'', l''⟩, r2⟩ := Y
      simp only [] at c2 m2 ⊢
      cases r2 <;> exact ⟨rfl, c2, m2⟩
    | key => exact ⟨rfl, c1, m1⟩
    | value => exact ⟨rfl, c1, m1⟩
    | type => exact ⟨rfl, c1, m1⟩

theorem Sim_countStep (od : Od) (pre post : List PdoDev) (hfree : Free pre od.comIdx od.mapIdx)
    (n : Nat) :
    Sim od.comIdx od.mapIdx pre post (countStep multiDev od n) (countStep strictDev od n) := by
  intro d log hc hm
  obtain ⟨e1, c1, m1⟩ := Sim_sdoWrite od pre post hfree false 0 n d log hc hm
  unfold countStep
  rw [e1]
  generalize sdoWrite strictDev od false 0 n ⟨d, log⟩ = X at c1 m1 ⊢
  obtain ⟨⟨d', l'⟩, r⟩ := X
  simp only [] at c1 m1 ⊢
  cases r with
  | ok u => exact ⟨rfl, c1, m1⟩
  | error e =>
    cases e with
    | abort code =>
      simp only []
      split <;> exact ⟨rfl, c1, m1⟩
    | key => exact ⟨rfl, c1, m1⟩
    | value => exact ⟨rfl, c1, m1⟩
    | type => exact ⟨rfl, c1, m1⟩

theorem Sim_validateStep (od : Od) (pre post : List PdoDev) (hfree : Free pre od.comIdx od.mapIdx)
    (cfg : Cfg) (cob : Nat) :
    Sim od.comIdx od.mapIdx pre post (validateStep multiDev od cfg cob)
      (validateStep strictDev od cfg cob) := by
  unfold validateStep
  cases cfg.enabled
  · exact Sim_pure _ _ _ _ ()
  · exact Sim_sdoWrite od pre post hfree true 1 _

theorem Sim_save (od : Od) (pre post : List PdoDev) (hfree : Free pre od.comIdx od.mapIdx)
    (cfg : Cfg) :
    Sim od.comIdx od.mapIdx pre post (save multiDev od cfg) (save strictDev od cfg) := by
  unfold save
  cases cfg.cob with
  | none => exact Sim_pure _ _ _ _ _
  | some cob =>
    simp only []
    unfold saveBody
    exact Sim_bind (Sim_writeAll od pre post hfree _) fun _ =>
      Sim_bind (Sim_zeroStep od pre post hfree _) fun _ =>
      Sim_bind (Sim_writeAll od pre post hfree _) fun _ =>
      Sim_bind (Sim_countStep od pre post hfree _) fun _ =>
      Sim_bind (Sim_validateStep od pre post hfree cfg cob) fun _ => Sim_pure _ _ _ _ _

theorem Sim_rawFrom (od : Od) (pre post : List PdoDev) (hfree : Free pre od.comIdx od.mapIdx)
    (src : Src) (c : Bool) (s : Nat) :
    Sim od.comIdx od.mapIdx pre post (rawFrom multiDev od src c s) (rawFrom strictDev od src c s) := by
  cases src with
  | live =>
    simp only [rawFrom]
    exact Sim_bind (Sim_sdoRead od pre post hfree c s) fun _ => Sim_pure _ _ _ _ _
  | od =>
    intro d log hc hm
    simp only [rawFrom]
    cases od.lookup c s <;> exact ⟨rfl, hc, hm⟩

theorem Sim_need (ci mi : Nat) (pre post : List PdoDev) (o : Option Nat) :
    Sim ci mi pre post (need o) (need o) := by
  cases o
  · exact Sim_throw _ _ _ _ _
  · exact Sim_pure _ _ _ _ _

theorem Sim_optParam (od : Od) (pre post : List PdoDev) (hfree : Free pre od.comIdx od.mapIdx)
    (src : Src) (s : Nat) (old : Option Nat) :
    Sim od.comIdx od.mapIdx pre post (optParam multiDev od src s old)
      (optParam strictDev od src s old) := by
  intro d log hc hm
  obtain ⟨e1, c1, m1⟩ := Sim_rawFrom od pre post hfree src true s d log hc hm
  unfold Pdo.optParam
  rw [e1]
  generalize rawFrom strictDev od src true s ⟨d, log⟩ = X at c1 m1 ⊢
  obtain ⟨⟨d', l'⟩, r⟩ := X
  simp only [] at c1 m1 ⊢
  cases r with
  | ok u => exact ⟨rfl, c1, m1⟩
  | error e => cases e <;> exact ⟨rfl, c1, m1⟩

theorem Sim_readEntries (od : Od) (pre post : List PdoDev) (hfree : Free pre od.comIdx od.mapIdx)
    (src : Src) (n : Nat) :
    ∀ k, Sim od.comIdx od.mapIdx pre post (readEntries multiDev od src k n)
      (readEntries strictDev od src k n) := by
  induction n with
  | zero => intro k; exact Sim_pure _ _ _ _ _
  | succ n ih =>
    intro k
    simp only [readEntries]
    exact Sim_bind (Sim_rawFrom od pre post hfree src false k) fun _ =>
      Sim_bind (Sim_need _ _ _ _ _) fun _ => Sim_bind (ih (k + 1)) fun _ => Sim_pure _ _ _ _ _

theorem Sim_readOptional (od : Od) (pre post : List PdoDev) (hfree : Free pre od.comIdx od.mapIdx)
    (src : Src) (old : Cfg) (tt : Nat) :
    Sim od.comIdx od.mapIdx pre post (readOptional multiDev od src old tt)
      (readOptional strictDev od src old tt) := by
  unfold readOptional
  split
  · exact Sim_bind (Sim_optParam od pre post hfree src 3 _) fun _ =>
      Sim_bind (Sim_optParam od pre post hfree src 5 _) fun _ =>
      Sim_bind (Sim_optParam od pre post hfree src 6 _) fun _ => Sim_pure _ _ _ _ _
  · exact Sim_pure _ _ _ _ _

theorem Sim_read (od : Od) (pre post : List PdoDev) (hfree : Free pre od.comIdx od.mapIdx)
    (src : Src) (old : Cfg) :
    Sim od.comIdx od.mapIdx pre post (Pdo.read multiDev od src old) (Pdo.read strictDev od src old) := by
  unfold Pdo.read
  exact Sim_bind (Sim_rawFrom od pre post hfree src true 1) fun _ =>
    Sim_bind (Sim_need _ _ _ _ _) fun _ =>
    Sim_bind (Sim_rawFrom od pre post hfree src true 2) fun _ =>
    Sim_bind (Sim_need _ _ _ _ _) fun _ =>
    Sim_bind (Sim_readOptional od pre post hfree src old _) fun _ =>
    Sim_bind (Sim_rawFrom od pre post hfree src false 0) fun _ =>
    Sim_bind (Sim_need _ _ _ _ _) fun _ =>
    Sim_bind (Sim_readEntries od pre post hfree src _ 1) fun _ => Sim_pure _ _ _ _ _

/-! ### vocabulary of the collection theorems -/

/-- one PDO of the node: what its objects look like in the node's dictionary, the attributes of
    its `PdoMap` object, and the device's PDO (in its prior state) -/
structure Item where
  od : Od
  cfg : Cfg
  dev : PdoDev

def finalOf (d : PdoDev) (cfg : Cfg) : Option Nat → PdoDev
  | none => d
  | some cob => finalDev d cfg cob

/-- the device's PDO after the collection was saved: untouched if the COB-ID was never set -/
def Item.final (it : Item) : PdoDev := finalOf it.dev it.cfg it.cfg.cob

def planOf (od : Od) (cfg : Cfg) (n : Nat) : Option Nat → List W
  | none => []
  | some cob => plan od cfg cob (fillMap cfg.map n)

/-- the writes this PDO receives: none if the COB-ID was never set, else the safe procedure -/
def Item.plan (it : Item) : List W := planOf it.od it.cfg 0 it.cfg.cob

def subsOf (cfg : Cfg) : Option Nat → List Nat
  | none => []
  | some cob => if cfg.enabled then [cob] else []

def Item.out (it : Item) : SaveOut := { map := it.cfg.map, subs := subsOf it.cfg it.cfg.cob }

/-- never read nor set up, or a well-formed configuration for a strict PDO in any prior state -/
def Item.Ok (it : Item) : Prop := ∀ cob, it.cfg.cob = some cob → Domain it.od it.dev it.cfg cob

/-- the PDOs of a device are different objects: no PDO owns an object of a later one -/
def Apart (ds : List PdoDev) : Prop :=
  ds.Pairwise fun a b => a.owns b.comIdx = false ∧ a.owns b.mapIdx = false

/-- the write sequence of `saveAll` for the mappings extended by `ns` dummy entries (see
    `save_order_any_device`; `ns` is all zero unless a device refuses to zero a count) -/
def planAll : List (Od × Cfg) → List Nat → List W
  | [], _ => []
  | (od, cfg) :: rest, ns => planOf od cfg (ns.headD 0) cfg.cob ++ planAll rest ns.tail

theorem finalOf_idx (d : PdoDev) (cfg : Cfg) (o : Option Nat) :
    (finalOf d cfg o).comIdx = d.comIdx ∧ (finalOf d cfg o).mapIdx = d.mapIdx := by
  cases o <;> exact ⟨rfl, rfl⟩

theorem Item.final_owns (it : Item) (idx : Nat) : it.final.owns idx = it.dev.owns idx := by
  obtain ⟨h1, h2⟩ := finalOf_idx it.dev it.cfg it.cfg.cob
  simp [PdoDev.owns, Item.final, h1, h2]

theorem planAll_nil (ms : List (Od × Cfg)) : ∀ ns, (∀ n ∈ ns, n = 0) → planAll ms ns = planAll ms [] := by
  induction ms with
  | nil => intro ns _; rfl
  | cons m ms ih =>
    intro ns h
    obtain ⟨od, cfg⟩ := m
    cases ns with
    | nil => rfl
    | cons n ns =>
      have h0 : n = 0 := h n (by simp)
      subst h0
      simp only [planAll, List.headD_cons, List.tail_cons, List.headD_nil, List.tail_nil]
      rw [ih ns (fun x hx => h x (by simp [hx]))]

/-! ### unfolding `saveAll` / `readAll` one map at a time -/

theorem saveAll_cons_err {σ} (D : Dev σ) (od : Od) (cfg : Cfg) (rest : List (Od × Cfg))
    {st st1 : Run σ} {e : Err} (h : save D od cfg st = (st1, .error e)) :
    saveAll D ((od, cfg) :: rest) st = (st1, .error e) := by
  simp only [saveAll]; rw [bind_err h]

theorem saveAll_cons_ok {σ} (D : Dev σ) (od : Od) (cfg : Cfg) (rest : List (Od × Cfg))
    {st st1 st2 : Run σ} {o : SaveOut} {r : Except Err (List SaveOut)}
    (h : save D od cfg st = (st1, .ok o)) (h2 : saveAll D rest st1 = (st2, r)) :
    saveAll D ((od, cfg) :: rest) st = (st2, r.map (o :: ·)) := by
  simp only [saveAll]; rw [bind_ok h]
  cases r with
  | error e => rw [bind_err h2]; rfl
  | ok os => rw [bind_ok h2]; rfl

theorem readAll_cons_ok {σ} (D : Dev σ) (src : Src) (od : Od) (old : Cfg) (rest : List (Od × Cfg))
    {st st1 st2 : Run σ} {o : ReadOut} {r : Except Err (List ReadOut)}
    (h : Pdo.read D od src old st = (st1, .ok o)) (h2 : readAll D src rest st1 = (st2, r)) :
    readAll D src ((od, old) :: rest) st = (st2, r.map (o :: ·)) := by
  simp only [readAll]; rw [bind_ok h]
  cases r with
  | error e => rw [bind_err h2]; rfl
  | ok os => rw [bind_ok h2]; rfl

/-! ### the subscriber table (`Network.subscribers`, model and lemmas of C10) under subscribe calls -/

section subs
open Canopen.Net (Subs Cb subscribe subscribeMany)
open Canopen.Spec.Multimap (MM)
open Canopen.C10 (abs NodupAll abs_subscribe mem_subscribe)

theorem mm_subscribe_count (m : MM Cb) (id : Nat) (cb : Cb) (j : Nat) (x : Cb) :
    (Spec.Multimap.subscribe m id cb j).count x
      = if j = id ∧ x = cb ∧ cb ∉ m id then (m j).count x + 1 else (m j).count x := by
  simp only [Spec.Multimap.subscribe]
  by_cases hj : j = id
  · subst hj
    by_cases hc : cb ∈ m j
    · simp [hc]
    · by_cases hx : x = cb
      · subst hx; simp [hc]
      · have : ¬ (cb = x) := fun h => hx h.symm
        simp [hc, hx, List.count_append, this]
  · simp [hj]

/-- **Independent of what was in the table**: after any sequence of `Network.subscribe` calls the
    number of times a callback `x` is in the list of id `j` is what it was if it was there already,
    and otherwise 1 or 0 according to whether one of the calls was `(j, x)` — whatever else (other
    callbacks, an empty list, no entry at all) the table held for `j` or any other id. -/
theorem subscribeMany_count (s : Subs) (calls : List (Nat × Cb)) (j : Nat) (x : Cb) :
    (abs (subscribeMany s calls) j).count x
      = if x ∈ abs s j then (abs s j).count x else if (j, x) ∈ calls then 1 else 0 := by
  induction calls generalizing s with
  | nil =>
    simp only [subscribeMany, List.not_mem_nil, if_false]
    split
    · rfl
    · exact List.count_eq_zero.mpr ‹_›
  | cons p r ih =>
    obtain ⟨id, cb⟩ := p
    simp only [subscribeMany]
    rw [ih, abs_subscribe]
    have hmem := mem_subscribe (abs s) id cb j x
    have hcnt := mm_subscribe_count (abs s) id cb j x
    by_cases hx : x ∈ abs s j
    · have h1 : x ∈ Spec.Multimap.subscribe (abs s) id cb j := hmem.mpr (Or.inl hx)
      rw [if_pos h1, if_pos hx, hcnt]
      have : ¬ (j = id ∧ x = cb ∧ cb ∉ abs s id) := by
        rintro ⟨rfl, rfl, h⟩; exact h hx
      rw [if_neg this]
    · rw [if_neg hx]
      by_cases hp : j = id ∧ x = cb
      · obtain ⟨rfl, rfl⟩ := hp
        have h1 : x ∈ Spec.Multimap.subscribe (abs s) j x j := hmem.mpr (Or.inr ⟨rfl, rfl⟩)
        rw [if_pos h1, hcnt, if_pos ⟨rfl, rfl, hx⟩, List.count_eq_zero.mpr hx]
        simp
      · have h1 : ¬ x ∈ Spec.Multimap.subscribe (abs s) id cb j := by
          intro h; rcases hmem.mp h with h | h
          · exact hx h
          · exact hp h
        rw [if_neg h1]
        have : (j, x) ∈ (id, cb) :: r ↔ (j, x) ∈ r := by
          simp only [List.mem_cons, Prod.mk.injEq]
          constructor
          · rintro (h | h)
            · exact absurd h hp
            · exact h
          · exact Or.inr
        simp only [this]

/-- what was subscribed before stays, in the same order, at the front of every list -/
theorem subscribeMany_prefix (s : Subs) (calls : List (Nat × Cb)) (j : Nat) :
    abs s j <+: abs (subscribeMany s calls) j := by
  induction calls generalizing s with
  | nil => exact List.prefix_refl _
  | cons p r ih =>
    obtain ⟨id, cb⟩ := p
    simp only [subscribeMany]
    refine List.IsPrefix.trans ?_ (ih _)
    rw [abs_subscribe]
    simp only [Spec.Multimap.subscribe]
    by_cases hj : j = id
    · subst hj
      rw [if_pos rfl]
      split
      · exact List.prefix_refl _
      · exact List.prefix_append _ _
    · rw [if_neg hj]
      exact List.prefix_refl _

/-- different maps of a node object have different `on_message` callbacks -/
theorem mapCb_inj (o : Nat) (t t' : Bool) (n n' : Nat) (h : mapCb o t n = mapCb o t' n') :
    t = t' ∧ n = n' := by
  simp only [mapCb, Cb.node.injEq, Net.Handler.other.injEq, true_and] at h
  cases t <;> cases t' <;> simp at h ⊢ <;> omega

end subs

end Canopen.C09
