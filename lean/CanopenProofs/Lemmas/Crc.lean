/-
Helper lemmas about the CRC-16/XMODEM model (CanopenModel/Crc.lean), shared by C12 and C13.
Property theorems live in CanopenProofs/Cxx.lean.
-/
import CanopenModel.Crc
import CanopenProofs.Lemmas.Bytes
namespace Canopen.Crc
open Canopen

theorem crcHqx_append (a b : Bytes) (i : Nat) : crcHqx (a ++ b) i = crcHqx b (crcHqx a i) := by
  simp [crcHqx, List.foldl_append]

theorem step1_lt (s : Nat) : step1 s < 65536 := by
  unfold step1
  have h1 : (s <<< 1) &&& 0xFFFF < 65536 := by
    have := @Nat.and_le_right (s <<< 1) 0xFFFF; omega
  split
  · exact Nat.xor_lt_two_pow (n := 16) h1 (by decide)
  · exact h1

theorem stepN_lt (n : Nat) (s : Nat) (hs : s < 65536) : stepN n s < 65536 := by
  induction n generalizing s with
  | zero => exact hs
  | succ n ih => exact ih _ (step1_lt s)

theorem crcByte_lt (s b : Nat) : crcByte s b < 65536 := by
  unfold crcByte
  show stepN (7 + 1) _ < 65536
  exact stepN_lt 7 _ (step1_lt _)

theorem crcHqx_lt (l : Bytes) (i : Nat) (hi : i < 65536) : crcHqx l i < 65536 := by
  induction l generalizing i with
  | nil => exact hi
  | cons b l ih => exact ih _ (crcByte_lt i b)

/-! ### the register update is a bijection: single-byte errors are always detected -/

theorem top_bit (s : Nat) (h : s < 65536) : (s &&& 0x8000 ≠ 0) ↔ 32768 ≤ s := by
  have h1 : (s &&& 2 ^ 15) / 2 ^ 15 = s / 2 ^ 15 &&& 2 ^ 15 / 2 ^ 15 := Nat.and_div_two_pow
  have h2 : (s &&& 2 ^ 15) % 2 ^ 15 = (s % 2 ^ 15) &&& (2 ^ 15 % 2 ^ 15) := Nat.and_mod_two_pow
  have h3 : s / 2 ^ 15 &&& 1 = s / 2 ^ 15 % 2 := Nat.and_one_is_mod _
  simp only [Nat.mod_self, Nat.and_zero, Nat.div_self (show 0 < 2 ^ 15 by decide)] at h1 h2
  rw [h3] at h1
  show s &&& 2 ^ 15 ≠ 0 ↔ _
  omega

theorem low16 (s : Nat) : (s <<< 1) &&& 0xFFFF = (2 * s) % 65536 := by
  have := Nat.and_two_pow_sub_one_eq_mod (s <<< 1) 16
  rw [Nat.shiftLeft_eq] at *
  simpa [Nat.mul_comm] using this

theorem step1_eq (s : Nat) (h : s < 65536) :
    step1 s = if 32768 ≤ s then (2 * s - 65536) ^^^ 4129 else 2 * s := by
  unfold step1
  rw [low16]
  by_cases hs : 32768 ≤ s
  · have e : 2 * s % 65536 = 2 * s - 65536 := by omega
    rw [if_pos ((top_bit s h).mpr hs), if_pos hs, e]
  · rw [if_neg (fun hc => hs ((top_bit s h).mp hc)), if_neg hs]; omega

theorem xor_cancel (a b c : Nat) (h : a ^^^ c = b ^^^ c) : a = b := by
  have := congrArg (· ^^^ c) h
  simpa [Nat.xor_assoc] using this

theorem step1_inj (s t : Nat) (hs : s < 65536) (ht : t < 65536) (h : step1 s = step1 t) : s = t := by
  rw [step1_eq s hs, step1_eq t ht] at h
  have odd : ∀ x, ((2 * x - 65536) ^^^ 4129) % 2 = 1 := by
    intro x; rw [Nat.xor_mod_two_eq_one]; omega
  by_cases h1 : 32768 ≤ s <;> by_cases h2 : 32768 ≤ t
  · rw [if_pos h1, if_pos h2] at h; have := xor_cancel _ _ _ h; omega
  · rw [if_pos h1, if_neg h2] at h; have := odd s; omega
  · rw [if_neg h1, if_pos h2] at h; have := odd t; omega
  · rw [if_neg h1, if_neg h2] at h; omega

theorem stepN_inj (n : Nat) (s t : Nat) (hs : s < 65536) (ht : t < 65536) (h : stepN n s = stepN n t) : s = t := by
  induction n generalizing s t with
  | zero => exact h
  | succ n ih => exact step1_inj s t hs ht (ih _ _ (step1_lt s) (step1_lt t) h)

theorem xor_byte_lt (s b : Nat) (hs : s < 65536) (hb : b < 256) : s ^^^ (b <<< 8) < 65536 := by
  apply Nat.xor_lt_two_pow (n := 16) hs
  rw [Nat.shiftLeft_eq]; omega

/-- feeding the same byte keeps different registers different -/
theorem crcByte_inj_state (s t b : Nat) (hs : s < 65536) (ht : t < 65536) (hb : b < 256)
    (h : crcByte s b = crcByte t b) : s = t :=
  xor_cancel _ _ _ (stepN_inj 8 _ _ (xor_byte_lt s b hs hb) (xor_byte_lt t b ht hb) h)

/-- feeding different bytes into the same register gives different registers -/
theorem crcByte_inj_byte (s b c : Nat) (hs : s < 65536) (hb : b < 256) (hc : c < 256)
    (h : crcByte s b = crcByte s c) : b = c := by
  have h1 := stepN_inj 8 _ _ (xor_byte_lt s b hs hb) (xor_byte_lt s c hs hc) h
  have h2 : b <<< 8 = c <<< 8 := by
    have := congrArg (s ^^^ ·) h1
    simpa [← Nat.xor_assoc] using this
  rw [Nat.shiftLeft_eq, Nat.shiftLeft_eq] at h2; omega

theorem crcHqx_inj_state (l : Bytes) (hl : AllBytes l) (s t : Nat) (hs : s < 65536) (ht : t < 65536)
    (h : crcHqx l s = crcHqx l t) : s = t := by
  induction l generalizing s t with
  | nil => exact h
  | cons b l ih =>
    have hb : b < 256 := hl b (by simp)
    exact crcByte_inj_state s t b hs ht hb
      (ih (fun x hx => hl x (by simp [hx])) _ _ (crcByte_lt s b) (crcByte_lt t b) h)

/-- **A 16-bit CRC detects every error confined to one byte** (in particular every single flipped
    bit): two byte strings that differ in exactly one position have different CRC-16/XMODEM. -/
theorem crc_detects_one_byte (pre post : Bytes) (b c : Nat) (hpost : AllBytes post) (hb : b < 256) (hc : c < 256)
    (hne : b ≠ c) (init : Nat) (hi : init < 65536) :
    crcHqx (pre ++ b :: post) init ≠ crcHqx (pre ++ c :: post) init := by
  intro h
  simp only [crcHqx, List.foldl_append, List.foldl_cons] at h
  have hs := crcHqx_lt pre init hi
  simp only [crcHqx] at hs
  have := crcHqx_inj_state post hpost _ _ (crcByte_lt _ b) (crcByte_lt _ c) h
  exact hne (crcByte_inj_byte _ b c hs hb hc this)

end Canopen.Crc
