/-
Helper lemmas for C18 (LSS): the CiA 305 request grammar (`decode ∘ encode`), the master's
fast-scan request against the spec slave, the bit arithmetic of the scan, the two loops.
Property theorems live in CanopenProofs/C18.lean, never here.
-/
import CanopenModel.Lss
import CanopenModel.Spec.LssSlave
import CanopenProofs.Lemmas.Bytes

namespace Canopen.LssProofs
open Canopen Canopen.Lss Canopen.Gen.Lss Canopen.Spec.Lss

theorem leVal4_leBytes (v : Nat) (h : v < 2 ^ 32) :
    leVal [v % 256, v / 256 % 256, v / 256 / 256 % 256, v / 256 / 256 / 256 % 256] = v := by
  simp only [leVal]; omega

theorem leVal2_leBytes (v : Nat) (h : v < 2 ^ 16) :
    leVal [v % 256, v / 256 % 256] = v := by
  simp only [leVal]; omega

theorem decode_encode (r : Req) (h : r.Valid) : decode (encode r) = some r := by
  cases r <;> simp only [Req.Valid] at h <;>
    simp [encode, Req.cs, Req.params, decode, decodeFields, leBytes, leVal4_leBytes, leVal2_leBytes, *] <;>
    repeat (first | rw [if_neg (by omega)] | rw [if_pos (by omega)]) 
  all_goals simp

theorem step_encode (s : Slave) (r : Req) (h : r.Valid) :
    step s (masterCobId, encode r) = ((handle s r).1, (handle s r).2.map fun d => (slaveCobId, d)) := by
  simp [step, decode_encode r h]
theorem msgFastScan_eq (idn bc sub nxt : Nat) (h : (Req.fastScan idn bc sub nxt).Valid) :
    msgFastScan idn bc sub nxt = some (encode (.fastScan idn bc sub nxt)) := by
  simp only [Req.Valid] at h
  simp [msgFastScan, h, encode, Req.cs, Req.params, CS_FAST_SCAN]

theorem received_slave (l : List Bytes) : received (l.map fun d => (slaveCobId, d)) = l := by
  induction l with
  | nil => rfl
  | cons a l ih =>
    simp only [received, slaveCobId, LSS_RX_COBID] at ih ⊢
    simp [ih]

theorem onFastScan_replies (s : Slave) (idn bc sub nxt : Nat) :
    (onFastScan s idn bc sub nxt).2 = [] ∨ (onFastScan s idn bc sub nxt).2 = [resp 0x4F []] := by
  unfold onFastScan
  split
  · simp
  · split
    · simp
    · split <;> simp

/-- one fast-scan request against the CiA 305 slave: the slave's reaction decides the answer; the
    content of the queue before the request does not matter -/
theorem fastScanMessage_slave (st : MSt Slave) (idn bc sub nxt : Nat)
    (h : (Req.fastScan idn bc sub nxt).Valid) :
    fastScanMessage step st idn bc sub nxt =
      ({ peer := (onFastScan st.peer idn bc sub nxt).1, queue := [],
         sent := st.sent ++ [(masterCobId, encode (.fastScan idn bc sub nxt))] },
       .ok (!(onFastScan st.peer idn bc sub nxt).2.isEmpty)) := by
  have hs := step_encode st.peer _ h
  simp only [masterCobId] at hs
  simp only [fastScanMessage, request, msgFastScan_eq _ _ _ _ h, sendCommand, LSS_TX_COBID, hs, handle,
    received_slave, masterCobId]
  have hn : needsResponse ((encode (.fastScan idn bc sub nxt)).headD 0) = true := by
    simp [encode, Req.cs, needsResponse, ListMessageNeedResponse]
  rw [hn]
  rcases onFastScan_replies st.peer idn bc sub nxt with h0 | h1
  · rw [h0]; rfl
  · rw [h1]; rfl
/-- `a` with its low `n` bits cleared: what the master knows before probing bit `n - 1` -/
def known (a n : Nat) : Nat := a >>> n <<< n

theorem known_zero (a : Nat) : known a 0 = a := by simp [known]

theorem known_top (a : Nat) (h : a < 2 ^ 32) : known a 32 = 0 := by
  simp [known, Nat.shiftRight_eq_div_pow, Nat.div_eq_of_lt h]

theorem known_le (a n : Nat) : known a n ≤ a := by
  simp only [known, Nat.shiftRight_eq_div_pow, Nat.shiftLeft_eq]
  exact Nat.div_mul_le_self a (2 ^ n)

theorem known_testBit (a n i : Nat) : (known a n).testBit i = (decide (n ≤ i) && a.testBit i) := by
  simp only [known, Nat.testBit_shiftLeft, Nat.testBit_shiftRight]
  by_cases h : n ≤ i
  · simp [h]
  · simp [h]

theorem one_shl_testBit (b i : Nat) : (1 <<< b).testBit i = decide (b = i) := by
  rw [Nat.one_shiftLeft, Nat.testBit_two_pow]

/-- the slave's comparison on a probe of bit `b` succeeds exactly when that bit of its address is 0 -/
theorem probe_match (a b : Nat) : (known a (b + 1) >>> b = a >>> b) ↔ a.testBit b = false := by
  constructor
  · intro h
    have := congrArg (fun x => x.testBit 0) h
    simp only [Nat.testBit_shiftRight, known_testBit, Nat.add_zero] at this
    cases hb : a.testBit b
    · rfl
    · rw [hb] at this; simp at this; omega
  · intro h
    apply Nat.eq_of_testBit_eq
    intro i
    simp only [Nat.testBit_shiftRight, known_testBit]
    by_cases hi : i = 0
    · subst hi; simp [h]
    · have : b + 1 ≤ b + i := by omega
      simp [this]

/-- after the probe of bit `b` the master knows the bits `≥ b` -/
theorem probe_update (a b : Nat) :
    afterProbe (known a (b + 1)) b (decide (known a (b + 1) >>> b = a >>> b)) = known a b := by
  apply Nat.eq_of_testBit_eq
  intro i
  by_cases hb : a.testBit b = false
  · have hm := (probe_match a b).mpr hb
    simp only [afterProbe, hm, decide_true, if_true, known_testBit]
    by_cases hi : i = b
    · subst hi; simp [hb]
    · congr 1; simp; omega
  · have hm : ¬ (known a (b + 1) >>> b = a >>> b) := fun h => hb ((probe_match a b).mp h)
    have hb' : a.testBit b = true := by simpa using hb
    simp only [afterProbe, hm, decide_false, Bool.false_eq_true, if_false, Nat.testBit_or, known_testBit,
      one_shl_testBit]
    by_cases hi : b = i
    · subst hi; simp [hb']
    · by_cases h2 : b ≤ i
      · have : b + 1 ≤ i := by omega
        simp [h2, this, hi]
      · have : ¬ b + 1 ≤ i := by omega
        simp [h2, this, hi]
structure Scanning (i : Ident) (sub : Nat) (s : Slave) : Prop where
  ident : s.ident = i
  waiting : s.config = false
  unconf : s.unconfigured = true
  pos : s.pos = sub

theorem onFastScan_probe {i : Ident} {sub : Nat} {s : Slave} (h : Scanning i sub s) (hsub : sub < 4)
    (idn b : Nat) (hb : b < 32) :
    onFastScan s idn b sub sub =
      (s, if idn >>> b = i.part sub >>> b then [resp 0x4F []] else []) := by
  obtain ⟨h1, h2, h3, h4⟩ := h
  have hb' : b ≠ 128 := by omega
  cases s
  simp only at h1 h2 h3 h4
  subst h1 h2 h4
  simp only [onFastScan, h3, hb', hb, hsub, Nat.lt_irrefl, and_false, decide_false, not_true_eq_false,
    Bool.false_eq_true, or_self, if_false, true_and]
  split <;> rfl

theorem onFastScan_confirm {i : Ident} {sub : Nat} {s : Slave} (h : Scanning i sub s) (hsub : sub < 4) :
    onFastScan s (i.part sub) 0 sub ((sub + 1) &&& 3) =
      ({ s with pos := (sub + 1) &&& 3, config := decide ((sub + 1) &&& 3 < sub) }, [resp 0x4F []]) := by
  obtain ⟨h1, h2, h3, h4⟩ := h
  have : (sub + 1) &&& 3 < 4 := by
    have : sub = 0 ∨ sub = 1 ∨ sub = 2 ∨ sub = 3 := by omega
    rcases this with rfl | rfl | rfl | rfl <;> decide
  simp [onFastScan, h1, h2, h3, h4, hsub, this]

theorem onFastScan_reset {s : Slave} (h2 : s.config = false) (h3 : s.unconfigured = true)
    (idn sub nxt : Nat) :
    onFastScan s idn 128 sub nxt = ({ s with pos := 0 }, [resp 0x4F []]) := by
  simp [onFastScan, h2, h3]

theorem onFastScan_ignored {s : Slave} (h : s.config = true ∨ s.unconfigured = false)
    (idn bc sub nxt : Nat) : onFastScan s idn bc sub nxt = (s, []) := by
  rcases h with h | h <;> simp [onFastScan, h]

theorem answered_ite (c : Prop) [Decidable c] (x : Bytes) :
    (!(if c then [x] else ([] : List Bytes)).isEmpty) = decide c := by
  split <;> simp [*]

theorem part_valid {i : Ident} {sub : Nat} (ha : i.part sub < 2 ^ 32) (hsub : sub < 4) (n b nxt : Nat)
    (hb : b < 256) (hn : nxt < 256) : (Req.fastScan (known (i.part sub) n) b sub nxt).Valid := by
  have := known_le (i.part sub) n
  simp only [Req.Valid]; omega

/-- the 32 probes of one part against the scanning slave recover that part exactly; the slave does
    not move -/
theorem scanBits_slave {i : Ident} {sub : Nat} (hsub : sub < 4) (ha : i.part sub < 2 ^ 32) :
    ∀ n, n ≤ 32 → ∀ st : MSt Slave, Scanning i sub st.peer →
      ∃ st', scanBits step n st (known (i.part sub) n) sub sub = (st', .ok (i.part sub)) ∧
        st'.peer = st.peer ∧ ∃ l, st'.sent = st.sent ++ l ∧ l.length = n := by
  intro n
  induction n with
  | zero =>
    intro _ st _
    exact ⟨st, by simp [scanBits, known_zero], rfl, [], by simp, rfl⟩
  | succ b ih =>
    intro hb st hs
    have hv := part_valid ha hsub (b + 1) b sub (by omega) (by omega)
    rw [scanBits, fastScanMessage_slave st _ _ _ _ hv, onFastScan_probe hs hsub _ b (by omega)]
    simp only [answered_ite, probe_update]
    obtain ⟨st', h1, h2, l, h3, h4⟩ := ih (by omega)
      { peer := st.peer, queue := [],
        sent := st.sent ++ [(masterCobId, encode (.fastScan (known (i.part sub) (b + 1)) b sub sub))] } hs
    refine ⟨st', h1, h2,
      (masterCobId, encode (.fastScan (known (i.part sub) (b + 1)) b sub sub)) :: l, ?_, by simp [h4]⟩
    rw [h3]; simp

theorem next_lt (sub : Nat) (hsub : sub < 4) : (sub + 1) &&& 3 < 4 := by
  have : sub = 0 ∨ sub = 1 ∨ sub = 2 ∨ sub = 3 := by omega
  rcases this with rfl | rfl | rfl | rfl <;> decide

/-- one iteration of the outer loop against the scanning slave: 32 probes and the confirmation -/
theorem scanParts_step {i : Ident} {sub : Nat} (hsub : sub < 4) (ha : i.part sub < 2 ^ 32)
    (k : Nat) (st : MSt Slave) (hs : Scanning i sub st.peer) (ids : List Nat)
    (h0 : ids.getD sub 0 = 0) :
    ∃ st2, scanParts step (k + 1) st ids sub sub =
        scanParts step k st2 (ids.set sub (i.part sub)) (sub + 1) ((sub + 1) &&& 3) ∧
      st2.peer = { st.peer with pos := (sub + 1) &&& 3, config := decide ((sub + 1) &&& 3 < sub) } ∧
      ∃ l, st2.sent = st.sent ++ l ∧ l.length = 33 := by
  obtain ⟨st1, h1, h2, l, h3, h4⟩ := scanBits_slave hsub ha 32 (Nat.le_refl _) st hs
  rw [known_top _ ha] at h1
  have hs1 : Scanning i sub st1.peer := h2 ▸ hs
  have hn := next_lt sub hsub
  have hv : (Req.fastScan (i.part sub) 0 sub ((sub + 1) &&& 3)).Valid := by
    simp only [Req.Valid]; omega
  rw [scanParts, h0, h1]
  simp only
  rw [fastScanMessage_slave st1 _ _ _ _ hv, onFastScan_confirm hs1 hsub]
  simp only [List.isEmpty_cons, Bool.not_false]
  refine ⟨_, rfl, by simp [h2], l ++ [(masterCobId, encode (.fastScan (i.part sub) 0 sub ((sub + 1) &&& 3)))], ?_, by simp [h4]⟩
  simp [h3]

/-! ### frames sent, for arbitrary peers -/

def frameOf (r : Req) : Frame := (masterCobId, encode r)

/-- from `st` to `st'` the master sent only valid CiA 305 requests satisfying `P` -/
def Sends {σ : Type} (P : Req → Prop) (st st' : MSt σ) : Prop :=
  ∃ reqs : List Req, st'.sent = st.sent ++ reqs.map frameOf ∧ ∀ r ∈ reqs, r.Valid ∧ P r

theorem Sends.refl {σ : Type} (P : Req → Prop) (st : MSt σ) : Sends P st st :=
  ⟨[], by simp, by simp⟩

theorem Sends.trans {σ : Type} {P : Req → Prop} {a b c : MSt σ} (h1 : Sends P a b) (h2 : Sends P b c) :
    Sends P a c := by
  obtain ⟨r1, e1, v1⟩ := h1
  obtain ⟨r2, e2, v2⟩ := h2
  refine ⟨r1 ++ r2, by simp [e2, e1], ?_⟩
  intro r hr
  rcases List.mem_append.mp hr with h | h
  · exact v1 r h
  · exact v2 r h

theorem Sends.mono {σ : Type} {P Q : Req → Prop} {a b : MSt σ} (h : Sends P a b)
    (hpq : ∀ r, P r → Q r) : Sends Q a b := by
  obtain ⟨r1, e1, v1⟩ := h
  exact ⟨r1, e1, fun r hr => ⟨(v1 r hr).1, hpq r (v1 r hr).2⟩⟩

theorem sendCommand_sent {σ : Type} (step : PeerStep σ) (st : MSt σ) (m : Bytes) :
    (sendCommand step st m).1.sent = st.sent ++ [(LSS_TX_COBID, m)] := rfl

theorem request_sends {σ α : Type} (step : PeerStep σ) (st : MSt σ) (msg : Option Bytes)
    (dec : Except Err (Option Bytes) → Except Err α) (P : Req → Prop)
    (h : ∀ m, msg = some m → ∃ r, r.Valid ∧ P r ∧ m = encode r) :
    Sends P st (request step st msg dec).1 := by
  cases msg with
  | none => exact Sends.refl P st
  | some m =>
    obtain ⟨r, hv, hp, rfl⟩ := h m rfl
    refine ⟨[r], ?_, by simpa using ⟨hv, hp⟩⟩
    simp [request, sendCommand_sent, frameOf, masterCobId, LSS_TX_COBID]

theorem msg3_some {cs v1 v2 : Nat} {m : Bytes} (h : msg3 cs v1 v2 = some m) :
    m = [cs, v1, v2, 0, 0, 0, 0, 0] ∧ cs < 256 ∧ v1 < 256 ∧ v2 < 256 := by
  unfold msg3 at h
  split at h
  · simp at h; exact ⟨h.symm, by assumption⟩
  · simp at h

theorem msgAddr_some {cs v : Nat} {m : Bytes} (h : msgAddr cs v = some m) :
    m = cs :: (leBytes 4 v ++ [0, 0, 0]) ∧ cs < 256 ∧ v < 2 ^ 32 := by
  unfold msgAddr at h
  split at h
  · simp at h; exact ⟨h.symm, by assumption⟩
  · simp at h

theorem msgActivate_some {d : Nat} {m : Bytes} (h : msgActivate d = some m) :
    m = encode (.activateBitTiming d) ∧ d < 2 ^ 16 := by
  unfold msgActivate at h
  split at h
  · simp at h; exact ⟨h.symm, by omega⟩
  · simp at h

theorem msgFastScan_some {idn bc sub nxt : Nat} {m : Bytes} (h : msgFastScan idn bc sub nxt = some m) :
    m = encode (.fastScan idn bc sub nxt) ∧ (Req.fastScan idn bc sub nxt).Valid := by
  unfold msgFastScan at h
  split at h
  · simp at h; exact ⟨h.symm, by simp only [Req.Valid]; omega⟩
  · simp at h


/-- the requests a call may put on the bus -/
def Allowed : Call → Req → Prop
  | .switchGlobal m, r => r = .switchGlobal m
  | .selective v p r' s, r =>
      r = .selective 0 v ∨ r = .selective 1 p ∨ r = .selective 2 r' ∨ r = .selective 3 s
  | .inquireNodeId, r => r = .inquire 4
  | .inquireAddress cs, r => r = .inquire (cs - 0x5A)
  | .configureNodeId n, r => r = .configNodeId n
  | .configureBitTiming b, r => r = .configBitTiming 0 b
  | .activateBitTiming d, r => r = .activateBitTiming d
  | .store, r => r = .store
  | .identifyRemote v p rl rh sl sh, r =>
      r = .identifyRemote 0 v ∨ r = .identifyRemote 1 p ∨ r = .identifyRemote 2 rl ∨
      r = .identifyRemote 3 rh ∨ r = .identifyRemote 4 sl ∨ r = .identifyRemote 5 sh
  | .identifyNonConfigured, r => r = .identifyNonConfigured
  | .fastScan, r => ∃ idn bc sub nxt, r = .fastScan idn bc sub nxt ∧ (bc = 128 ∨ bc < 32) ∧ sub < 4 ∧ nxt < 4

/-- `inquire_lss_address` takes the command specifier from its caller: the statement is about the
    five inquire services -/
def InDomain : Call → Prop
  | .inquireAddress cs => 0x5A ≤ cs ∧ cs ≤ 0x5E
  | _ => True

theorem sendLssAddress_sends {σ : Type} (step : PeerStep σ) (st : MSt σ) (cs v : Nat) (P : Req → Prop)
    (r : Req) (hr : v < 2 ^ 32 → r.Valid ∧ P r ∧ cs :: (leBytes 4 v ++ [0, 0, 0]) = encode r) :
    Sends P st (sendLssAddress step st cs v).1 := by
  apply request_sends
  intro m hm
  obtain ⟨rfl, _, hv⟩ := msgAddr_some hm
  exact ⟨r, (hr hv).1, (hr hv).2.1, (hr hv).2.2⟩

theorem andThen_sends {σ α : Type} {P : Req → Prop} {st : MSt σ}
    (r : MSt σ × Except Err (Option Bytes)) (k : MSt σ → MSt σ × Except Err α)
    (h1 : Sends P st r.1) (h2 : ∀ st1, Sends P st1 (k st1).1) : Sends P st (andThen r k).1 := by
  unfold andThen
  split
  · exact h1
  · exact h1.trans (h2 _)

theorem selective_sends {σ : Type} (step : PeerStep σ) (st : MSt σ) (v p r s : Nat) :
    Sends (Allowed (.selective v p r s)) st (sendSwitchStateSelective step st v p r s).1 := by
  unfold sendSwitchStateSelective
  refine andThen_sends _ _ (sendLssAddress_sends _ _ _ _ _ (.selective 0 v) ?_) fun st1 =>
    andThen_sends _ _ (sendLssAddress_sends _ _ _ _ _ (.selective 1 p) ?_) fun st2 =>
    andThen_sends _ _ (sendLssAddress_sends _ _ _ _ _ (.selective 2 r) ?_) fun st3 =>
    request_sends _ _ _ _ _ ?_
  · intro h; simp [Req.Valid, Allowed, h, encode, Req.cs, Req.params, CS_SWITCH_STATE_SELECTIVE_VENDOR_ID]
  · intro h; simp [Req.Valid, Allowed, h, encode, Req.cs, Req.params, CS_SWITCH_STATE_SELECTIVE_PRODUCT_CODE]
  · intro h; simp [Req.Valid, Allowed, h, encode, Req.cs, Req.params, CS_SWITCH_STATE_SELECTIVE_REVISION_NUMBER]
  · intro m hm
    obtain ⟨rfl, _, hv⟩ := msgAddr_some hm
    exact ⟨.selective 3 s, by simp [Req.Valid, hv], by simp [Allowed],
      by simp [encode, Req.cs, Req.params, CS_SWITCH_STATE_SELECTIVE_SERIAL_NUMBER]⟩

theorem identifyRemote_sends {σ : Type} (step : PeerStep σ) (st : MSt σ) (v p rl rh sl sh : Nat) :
    Sends (Allowed (.identifyRemote v p rl rh sl sh)) st
      (sendIdentifyRemoteSlave step st v p rl rh sl sh).1 := by
  unfold sendIdentifyRemoteSlave
  refine andThen_sends _ _ (sendLssAddress_sends _ _ _ _ _ (.identifyRemote 0 v) ?_) fun st1 =>
    andThen_sends _ _ (sendLssAddress_sends _ _ _ _ _ (.identifyRemote 1 p) ?_) fun st2 =>
    andThen_sends _ _ (sendLssAddress_sends _ _ _ _ _ (.identifyRemote 2 rl) ?_) fun st3 =>
    andThen_sends _ _ (sendLssAddress_sends _ _ _ _ _ (.identifyRemote 3 rh) ?_) fun st4 =>
    andThen_sends _ _ (sendLssAddress_sends _ _ _ _ _ (.identifyRemote 4 sl) ?_) fun st5 =>
    request_sends _ _ _ _ _ ?_
  · intro h; simp [Req.Valid, Allowed, h, encode, Req.cs, Req.params, CS_IDENTIFY_REMOTE_SLAVE_VENDOR_ID]
  · intro h; simp [Req.Valid, Allowed, h, encode, Req.cs, Req.params, CS_IDENTIFY_REMOTE_SLAVE_PRODUCT_CODE]
  · intro h; simp [Req.Valid, Allowed, h, encode, Req.cs, Req.params, CS_IDENTIFY_REMOTE_SLAVE_REVISION_NUMBER_LOW]
  · intro h; simp [Req.Valid, Allowed, h, encode, Req.cs, Req.params, CS_IDENTIFY_REMOTE_SLAVE_REVISION_NUMBER_HIGH]
  · intro h; simp [Req.Valid, Allowed, h, encode, Req.cs, Req.params, CS_IDENTIFY_REMOTE_SLAVE_SERIAL_NUMBER_LOW]
  · intro m hm
    obtain ⟨rfl, _, hv⟩ := msgAddr_some hm
    exact ⟨.identifyRemote 5 sh, by simp [Req.Valid, hv], by simp [Allowed],
      by simp [encode, Req.cs, Req.params, CS_IDENTIFY_REMOTE_SLAVE_SERIAL_NUMBER_HIGH]⟩


def FS : Req → Prop := Allowed .fastScan

theorem fastScanMessage_sends {σ : Type} (step : PeerStep σ) (st : MSt σ) (idn bc sub nxt : Nat)
    (hbc : bc = 128 ∨ bc < 32) (hsub : sub < 4) (hn : nxt < 4) :
    Sends FS st (fastScanMessage step st idn bc sub nxt).1 := by
  apply request_sends
  intro m hm
  obtain ⟨rfl, hv⟩ := msgFastScan_some hm
  exact ⟨_, hv, ⟨idn, bc, sub, nxt, rfl, hbc, hsub, hn⟩, rfl⟩

theorem afterProbe_lt (idn b : Nat) (a : Bool) (h : idn < 2 ^ 32) (hb : b < 32) :
    afterProbe idn b a < 2 ^ 32 := by
  unfold afterProbe
  split
  · exact h
  · apply Nat.or_lt_two_pow h
    rw [Nat.one_shiftLeft]
    exact Nat.pow_lt_pow_right (by decide) hb

theorem scanBits_sends {σ : Type} (step : PeerStep σ) (sub nxt : Nat) (hsub : sub < 4) (hn : nxt < 4) :
    ∀ n, n ≤ 32 → ∀ (st : MSt σ) (idn : Nat), idn < 2 ^ 32 →
      Sends FS st (scanBits step n st idn sub nxt).1 ∧
      ∀ v, (scanBits step n st idn sub nxt).2 = .ok v → v < 2 ^ 32 := by
  intro n
  induction n with
  | zero =>
    intro _ st idn h
    simp only [scanBits]
    exact ⟨Sends.refl _ _, fun v hv => by cases hv; exact h⟩
  | succ b ih =>
    intro hb st idn h
    have h1 := fastScanMessage_sends step st idn b sub nxt (Or.inr (by omega)) hsub hn
    rw [scanBits]
    generalize fastScanMessage step st idn b sub nxt = r at h1
    obtain ⟨st1, res⟩ := r
    cases res with
    | error e => exact ⟨h1, fun v hv => by cases hv⟩
    | ok a =>
      have := ih (by omega) st1 (afterProbe idn b a) (afterProbe_lt idn b a h (by omega))
      exact ⟨h1.trans this.1, this.2⟩

theorem getD_lt_of_all (ids : List Nat) (h : ∀ x ∈ ids, x < 2 ^ 32) (j : Nat) : ids.getD j 0 < 2 ^ 32 := by
  rw [List.getD_eq_getElem?_getD]
  cases hj : ids[j]? with
  | none => simp
  | some x => simpa using h x (List.mem_of_getElem? hj)

theorem scanParts_sends {σ : Type} (step : PeerStep σ) :
    ∀ k (st : MSt σ) (ids : List Nat) (sub nxt : Nat), sub + k = 4 → nxt < 4 →
      (∀ x ∈ ids, x < 2 ^ 32) → Sends FS st (scanParts step k st ids sub nxt).1 := by
  intro k
  induction k with
  | zero => intro st ids sub nxt _ _ _; exact Sends.refl _ _
  | succ k ih =>
    intro st ids sub nxt hk hn hids
    have hsub : sub < 4 := by omega
    have hb := scanBits_sends step sub nxt hsub hn 32 (Nat.le_refl _) st (ids.getD sub 0)
      (getD_lt_of_all ids hids sub)
    rw [scanParts]
    generalize scanBits step 32 st (ids.getD sub 0) sub nxt = r at hb
    obtain ⟨st1, res⟩ := r
    cases res with
    | error e => exact hb.1
    | ok idv =>
      have hidv := hb.2 idv rfl
      have hc := fastScanMessage_sends step st1 idv 0 sub ((sub + 1) &&& 3) (Or.inr (by omega)) hsub
        (next_lt sub hsub)
      simp only
      generalize fastScanMessage step st1 idv 0 sub ((sub + 1) &&& 3) = r2 at hc
      obtain ⟨st2, res2⟩ := r2
      cases res2 with
      | error e => exact hb.1.trans hc
      | ok a =>
        cases a with
        | false => exact hb.1.trans hc
        | true =>
          refine (hb.1.trans hc).trans (ih st2 _ (sub + 1) _ (by omega) (next_lt sub hsub) ?_)
          intro x hx
          rcases List.mem_or_eq_of_mem_set hx with h | h
          · exact hids x h
          · exact h ▸ hidv

theorem fastScan_sends {σ : Type} (step : PeerStep σ) (st : MSt σ) :
    Sends FS st (fastScan step st).1 := by
  have h0 := fastScanMessage_sends step st 0 128 0 0 (Or.inl rfl) (by omega) (by omega)
  rw [fastScan]
  generalize fastScanMessage step st 0 128 0 0 = r at h0
  obtain ⟨st1, res⟩ := r
  cases res with
  | error e => exact h0
  | ok a =>
    cases a with
    | false => exact h0
    | true =>
      exact h0.trans (scanParts_sends step 4 st1 [0, 0, 0, 0] 0 0 rfl (by omega) (by simp))


theorem mapRet_fst {σ α : Type} (f : α → Ret) (r : MSt σ × Except Err α) : (mapRet f r).1 = r.1 := rfl

/-- a request built by `msg3` for one of the one-frame services -/
theorem msg3_sends {σ α : Type} (step : PeerStep σ) (st : MSt σ) (cs v1 v2 : Nat)
    (dec : Except Err (Option Bytes) → Except Err α) (P : Req → Prop) (r : Req)
    (hr : cs < 256 → v1 < 256 → v2 < 256 → r.Valid ∧ P r ∧ [cs, v1, v2, 0, 0, 0, 0, 0] = encode r) :
    Sends P st (request step st (msg3 cs v1 v2) dec).1 := by
  apply request_sends
  intro m hm
  obtain ⟨rfl, h1, h2, h3⟩ := msg3_some hm
  exact ⟨r, (hr h1 h2 h3).1, (hr h1 h2 h3).2.1, (hr h1 h2 h3).2.2⟩

theorem runCall_sends {σ : Type} (step : PeerStep σ) (st : MSt σ) (c : Call) (hc : InDomain c) :
    Sends (Allowed c) st (runCall step st c).1 := by
  cases c with
  | switchGlobal m =>
    exact msg3_sends _ _ _ _ _ _ _ (.switchGlobal m) fun _ h _ => by
      simp [Req.Valid, Allowed, h, encode, Req.cs, Req.params, CS_SWITCH_STATE_GLOBAL]
  | selective v p r s => exact selective_sends step st v p r s
  | inquireNodeId =>
    exact msg3_sends step st CS_INQUIRE_NODE_ID 0 0 decInquireNodeId (Allowed .inquireNodeId) (.inquire 4) fun _ _ _ => by
      simp [Req.Valid, Allowed, encode, Req.cs, Req.params, CS_INQUIRE_NODE_ID]
  | inquireAddress cs =>
    simp only [InDomain] at hc
    exact msg3_sends _ _ _ _ _ _ _ (.inquire (cs - 0x5A)) fun _ _ _ => by
      simp [Req.Valid, Allowed, encode, Req.cs, Req.params]; omega
  | configureNodeId n =>
    exact msg3_sends _ _ _ _ _ _ _ (.configNodeId n) fun _ h _ => by
      simp [Req.Valid, Allowed, h, encode, Req.cs, Req.params, CS_CONFIGURE_NODE_ID]
  | configureBitTiming b =>
    exact msg3_sends _ _ _ _ _ _ _ (.configBitTiming 0 b) fun _ _ h => by
      simp [Req.Valid, Allowed, h, encode, Req.cs, Req.params, CS_CONFIGURE_BIT_TIMING]
  | activateBitTiming d =>
    apply request_sends
    intro m hm
    obtain ⟨rfl, hd⟩ := msgActivate_some hm
    exact ⟨_, by simpa [Req.Valid] using hd, by simp [Allowed], rfl⟩
  | store =>
    exact msg3_sends step st CS_STORE_CONFIGURATION 0 0 (decConfigure CS_STORE_CONFIGURATION) (Allowed .store) .store fun _ _ _ => by
      simp [Req.Valid, Allowed, encode, Req.cs, Req.params, CS_STORE_CONFIGURATION]
  | identifyRemote v p rl rh sl sh => exact identifyRemote_sends step st v p rl rh sl sh
  | identifyNonConfigured =>
    exact msg3_sends step st CS_IDENTIFY_NON_CONFIGURED_REMOTE_SLAVE 0 0 decIgnore (Allowed .identifyNonConfigured)
      .identifyNonConfigured fun _ _ _ => by
      simp [Req.Valid, Allowed, encode, Req.cs, Req.params, CS_IDENTIFY_NON_CONFIGURED_REMOTE_SLAVE]
  | fastScan => exact fastScan_sends step st

/-- shape of every valid request: 8 bytes, each a byte, first the standard command specifier -/
theorem encode_shape (r : Req) (h : r.Valid) :
    (encode r).length = 8 ∧ AllBytes (encode r) ∧ (encode r).head? = some r.cs ∧ r.cs < 256 := by
  have hcs : r.cs < 256 := by
    cases r <;> simp only [Req.Valid] at h <;> simp only [Req.cs] <;> omega
  refine ⟨?_, ?_, rfl, hcs⟩
  · cases r <;> simp [encode, Req.params]
  · intro b hb
    simp only [encode, List.mem_cons] at hb
    rcases hb with rfl | hb
    · exact hcs
    · cases r <;> simp only [Req.Valid] at h <;>
        simp only [Req.params, List.mem_append, List.mem_cons, List.not_mem_nil, or_false] at hb <;>
        first
          | omega
          | (rcases hb with hb | hb
             · exact leBytes_allBytes _ _ b hb
             · omega)

/-! ### requests against the CiA 305 slave -/

theorem len8 {r : Bytes} (h : r.length = 8) :
    ∃ a b c d e f g k, r = [a, b, c, d, e, f, g, k] := by
  match r, h with
  | [a, b, c, d, e, f, g, k], _ => exact ⟨a, b, c, d, e, f, g, k, rfl⟩

/-- one request against the CiA 305 slave -/
theorem sendCommand_slave (st : MSt Slave) (r : Req) (h : r.Valid) :
    sendCommand step st (encode r) =
      ({ peer := (handle st.peer r).1,
         queue := (takeResponse (needsResponse r.cs) (handle st.peer r).2).1,
         sent := st.sent ++ [frameOf r] },
       (takeResponse (needsResponse r.cs) (handle st.peer r).2).2) := by
  have hs := step_encode st.peer _ h
  simp only [masterCobId] at hs
  simp only [sendCommand, LSS_TX_COBID, hs, received_slave, frameOf, masterCobId]
  rfl

theorem msgAddr_selective (k v : Nat) (hk : k < 4) (hv : v < 2 ^ 32) :
    msgAddr (0x40 + k) v = some (encode (.selective k v)) := by
  have : 0x40 + k < 256 := by omega
  simp [msgAddr, this, hv, encode, Req.cs, Req.params]

theorem selective_run (st : MSt Slave) (v p r sn : Nat) (hv : v < 2 ^ 32) (hp : p < 2 ^ 32)
    (hr : r < 2 ^ 32) (hsn : sn < 2 ^ 32) :
    let s1 := (onSelective st.peer 0 v).1
    let s2 := (onSelective s1 1 p).1
    let s3 := (onSelective s2 2 r).1
    let out := onSelective s3 3 sn
    sendSwitchStateSelective step st v p r sn =
      ({ peer := out.1, queue := (takeResponse true out.2).1,
         sent := st.sent ++ [frameOf (.selective 0 v), frameOf (.selective 1 p), frameOf (.selective 2 r),
                             frameOf (.selective 3 sn)] },
       decSelective (takeResponse true out.2).2) := by
  have v0 : (Req.selective 0 v).Valid := ⟨by decide, hv⟩
  have v1 : (Req.selective 1 p).Valid := ⟨by decide, hp⟩
  have v2 : (Req.selective 2 r).Valid := ⟨by decide, hr⟩
  have v3 : (Req.selective 3 sn).Valid := ⟨by decide, hsn⟩
  have m0 : msgAddr 64 v = _ := msgAddr_selective 0 v (by decide) hv
  have m1 : msgAddr 65 p = _ := msgAddr_selective 1 p (by decide) hp
  have m2 : msgAddr 66 r = _ := msgAddr_selective 2 r (by decide) hr
  have m3 : msgAddr 67 sn = _ := msgAddr_selective 3 sn (by decide) hsn
  have n0 : needsResponse (Req.selective 0 v).cs = false := rfl
  have n1 : needsResponse (Req.selective 1 p).cs = false := rfl
  have n2 : needsResponse (Req.selective 2 r).cs = false := rfl
  have n3 : needsResponse (Req.selective 3 sn).cs = true := rfl
  simp only [sendSwitchStateSelective, sendLssAddress, CS_SWITCH_STATE_SELECTIVE_VENDOR_ID,
    CS_SWITCH_STATE_SELECTIVE_PRODUCT_CODE, CS_SWITCH_STATE_SELECTIVE_REVISION_NUMBER,
    CS_SWITCH_STATE_SELECTIVE_SERIAL_NUMBER] 
  simp only [m0, m1, m2, m3]
  simp only [request, sendCommand_slave _ _ v0, sendCommand_slave _ _ v1, sendCommand_slave _ _ v2,
    sendCommand_slave _ _ v3, n0, n1, n2, n3, takeResponse, andThen, handle, id, Bool.false_eq_true, if_false]
  simp



end Canopen.LssProofs
