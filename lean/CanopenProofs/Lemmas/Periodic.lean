/-
Helper lemmas for C17: the bus/handle invariant `Inv` of `CanopenModel/Periodic.lean` and its
preservation by the three shapes in which producers use their task handle (`stopKeep`, `stopClear`,
`updateSlot`, `startSlot`), then by every API call and every history.
-/
import CanopenModel.Periodic

namespace Canopen.Periodic

/-! ### projections of the state setters -/

@[simp] theorem setSlot_bus (s : State) (o v) : (setSlot s o v).bus = s.bus := rfl
@[simp] theorem setSlot_connected (s : State) (o v) : (setSlot s o v).connected = s.connected := rfl
@[simp] theorem setSlot_syncPeriod (s : State) (o v) : (setSlot s o v).syncPeriod = s.syncPeriod := rfl
@[simp] theorem setSlot_pdo (s : State) (o v) : (setSlot s o v).pdo = s.pdo := rfl
@[simp] theorem setSlot_slave (s : State) (o v) : (setSlot s o v).slave = s.slave := rfl
@[simp] theorem setSlot_same (s : State) (o v) : (setSlot s o v).slots o = v := by simp [setSlot]
theorem setSlot_ne (s : State) {o o' : Owner} (v) (h : o' ≠ o) : (setSlot s o v).slots o' = s.slots o' := by
  simp [setSlot, h]

@[simp] theorem setPdo_bus (s : State) (n k p) : (setPdo s n k p).bus = s.bus := rfl
@[simp] theorem setPdo_slots (s : State) (n k p) : (setPdo s n k p).slots = s.slots := rfl
@[simp] theorem setPdo_connected (s : State) (n k p) : (setPdo s n k p).connected = s.connected := rfl
@[simp] theorem setPdo_syncPeriod (s : State) (n k p) : (setPdo s n k p).syncPeriod = s.syncPeriod := rfl
@[simp] theorem setPdo_slave (s : State) (n k p) : (setPdo s n k p).slave = s.slave := rfl
@[simp] theorem setPdo_same (s : State) (n k p) : (setPdo s n k p).pdo n k = p := by simp [setPdo]
theorem setPdo_ne (s : State) {n k n' k' : Nat} (p) (h : ¬(n' = n ∧ k' = k)) :
    (setPdo s n k p).pdo n' k' = s.pdo n' k' := by simp [setPdo, h]

@[simp] theorem setSlave_bus (s : State) (n v) : (setSlave s n v).bus = s.bus := rfl
@[simp] theorem setSlave_slots (s : State) (n v) : (setSlave s n v).slots = s.slots := rfl
@[simp] theorem setSlave_connected (s : State) (n v) : (setSlave s n v).connected = s.connected := rfl
@[simp] theorem setSlave_syncPeriod (s : State) (n v) : (setSlave s n v).syncPeriod = s.syncPeriod := rfl
@[simp] theorem setSlave_pdo (s : State) (n v) : (setSlave s n v).pdo = s.pdo := rfl
@[simp] theorem setSlave_same (s : State) (n v) : (setSlave s n v).slave n = v := by simp [setSlave]
theorem setSlave_ne (s : State) {n n' : Nat} (v) (h : n' ≠ n) : (setSlave s n v).slave n' = s.slave n' := by
  simp [setSlave, h]

/-! ### the bus -/

@[simp] theorem Bus.stop_n (b : Bus) (i) : (b.stop i).n = b.n := rfl
@[simp] theorem Bus.modifyData_n (b : Bus) (i d) : (b.modifyData i d).n = b.n := rfl
@[simp] theorem Bus.send_n (b : Bus) (bt) : (b.send bt).n = b.n + 1 := rfl

theorem Bus.stop_task (b : Bus) (i j) :
    (b.stop i).task j = if j = i then { b.task j with live := false } else b.task j := rfl
theorem Bus.modifyData_task (b : Bus) (i d j) :
    (b.modifyData i d).task j = if j = i then { b.task j with data := d } else b.task j := rfl
theorem Bus.send_task (b : Bus) (bt j) : (b.send bt).task j = if j = b.n then bt else b.task j := rfl

/-! ### the invariant -/

/-- the handle of `o` agrees with the bus task it drives -/
def Agrees (b : Bus) (o : Owner) (t : PTask) : Prop :=
  t.idx < b.n ∧ (b.task t.idx).owner = o ∧ (b.task t.idx).canId = t.canId ∧
  (b.task t.idx).data = t.data ∧ (b.task t.idx).remote = t.remote ∧ (b.task t.idx).period = t.period

structure Inv (c : Cfg) (s : State) : Prop where
  /-- every live bus task is the one its producer's handle points to -/
  liveSlot : ∀ i, i < s.bus.n → (s.bus.task i).live = true →
    ∃ t, s.slots (s.bus.task i).owner = some t ∧ t.idx = i
  /-- every handle points to a bus task created by its producer, with the handle's frame -/
  slotBus : ∀ o t, s.slots o = some t → Agrees s.bus o t
  /-- the handles that are cleared on stop (all but SYNC's) point to live tasks -/
  slotLive : ∀ o t, o ≠ .sync → s.slots o = some t → (s.bus.task t.idx).live = true
  /-- handles exist only for producers that exist in the network -/
  slotValid : ∀ o t, s.slots o = some t → c.valid o = true

/-- no live bus task was created by producer `o` -/
def NoLive (s : State) (o : Owner) : Prop :=
  ∀ i, i < s.bus.n → (s.bus.task i).live = true → (s.bus.task i).owner ≠ o

theorem Inv.congr {c : Cfg} {s s' : State} (h : Inv c s) (hb : s'.bus = s.bus) (hs : s'.slots = s.slots) :
    Inv c s' := by
  constructor
  · intro i hi hl; rw [hb] at hi hl; rw [hb, hs]; exact h.liveSlot i hi hl
  · intro o t ht; rw [hs] at ht; rw [hb]; exact h.slotBus o t ht
  · intro o t ho ht; rw [hs] at ht; rw [hb]; exact h.slotLive o t ho ht
  · intro o t ht; rw [hs] at ht; exact h.slotValid o t ht

theorem NoLive.congr {s s' : State} {o : Owner} (h : NoLive s o) (hb : s'.bus = s.bus) : NoLive s' o := by
  intro i hi hl; rw [hb] at hi hl ⊢; exact h i hi hl

theorem Inv.noLive_of_none {c : Cfg} {s : State} (h : Inv c s) {o : Owner} (hs : s.slots o = none) :
    NoLive s o := by
  intro i hi hl ho
  obtain ⟨t, ht, _⟩ := h.liveSlot i hi hl
  rw [ho, hs] at ht; cases ht

/-- two handles never drive the same bus task -/
theorem Inv.idx_inj {c : Cfg} {s : State} (h : Inv c s) {o o' : Owner} {t t' : PTask}
    (ht : s.slots o = some t) (ht' : s.slots o' = some t') (he : t'.idx = t.idx) : o' = o := by
  have a := (h.slotBus o t ht).2.1
  have b := (h.slotBus o' t' ht').2.1
  rw [he] at b; rw [← b, a]

/-! ### stop -/

theorem inv_stopClear {c : Cfg} {s : State} (h : Inv c s) (o : Owner) : Inv c (stopClear s o) := by
  unfold stopClear
  cases hs : s.slots o with
  | none => simpa [hs] using h
  | some t =>
    simp only []
    constructor
    · intro i hi hl
      simp only [setSlot_bus, Bus.stop_n, Bus.stop_task] at hi hl ⊢
      by_cases hit : i = t.idx
      · simp [hit] at hl
      · simp only [hit, if_false] at hl ⊢
        obtain ⟨t', ht', hidx⟩ := h.liveSlot i hi hl
        have hne : (s.bus.task i).owner ≠ o := by
          intro ho; rw [ho, hs] at ht'; cases ht'; exact hit hidx.symm
        exact ⟨t', by rw [setSlot_ne _ _ hne]; exact ht', hidx⟩
    · intro o' t' ht'
      by_cases ho : o' = o
      · subst ho; simp at ht'
      · rw [setSlot_ne _ _ ho] at ht'
        have a := h.slotBus o' t' ht'
        unfold Agrees at a ⊢
        simp only [setSlot_bus, Bus.stop_n, Bus.stop_task]
        by_cases hit : t'.idx = t.idx
        · exact absurd (h.idx_inj hs ht' hit) ho
        · simpa [hit] using a
    · intro o' t' hsy ht'
      by_cases ho : o' = o
      · subst ho; simp at ht'
      · rw [setSlot_ne _ _ ho] at ht'
        simp only [setSlot_bus, Bus.stop_task]
        by_cases hit : t'.idx = t.idx
        · exact absurd (h.idx_inj hs ht' hit) ho
        · simpa [hit] using h.slotLive o' t' hsy ht'
    · intro o' t' ht'
      by_cases ho : o' = o
      · subst ho; simp at ht'
      · rw [setSlot_ne _ _ ho] at ht'; exact h.slotValid o' t' ht'

theorem noLive_stopClear {c : Cfg} {s : State} (h : Inv c s) (o : Owner) : NoLive (stopClear s o) o := by
  unfold stopClear
  cases hs : s.slots o with
  | none => simpa [hs] using h.noLive_of_none hs
  | some t =>
    simp only []
    intro i hi hl ho
    simp only [setSlot_bus, Bus.stop_n, Bus.stop_task] at hi hl ho
    by_cases hit : i = t.idx
    · simp [hit] at hl
    · simp only [hit, if_false] at hl ho
      obtain ⟨t', ht', hidx⟩ := h.liveSlot i hi hl
      rw [ho, hs] at ht'; cases ht'; exact hit hidx.symm

theorem stopClear_slot_none (s : State) (o : Owner) : (stopClear s o).slots o = none := by
  unfold stopClear
  cases hs : s.slots o with
  | none => simpa using hs
  | some t => simp

theorem stopClear_slot_ne (s : State) {o o' : Owner} (h : o' ≠ o) : (stopClear s o).slots o' = s.slots o' := by
  unfold stopClear
  cases hs : s.slots o with
  | none => rfl
  | some t => simp [setSlot_ne _ _ h]

@[simp] theorem stopClear_connected (s : State) (o) : (stopClear s o).connected = s.connected := by
  unfold stopClear; cases s.slots o <;> rfl
@[simp] theorem stopClear_syncPeriod (s : State) (o) : (stopClear s o).syncPeriod = s.syncPeriod := by
  unfold stopClear; cases s.slots o <;> rfl
@[simp] theorem stopClear_pdo (s : State) (o) : (stopClear s o).pdo = s.pdo := by
  unfold stopClear; cases s.slots o <;> rfl
@[simp] theorem stopClear_slave (s : State) (o) : (stopClear s o).slave = s.slave := by
  unfold stopClear; cases s.slots o <;> rfl
@[simp] theorem stopClear_bus_n (s : State) (o) : (stopClear s o).bus.n = s.bus.n := by
  unfold stopClear; cases s.slots o <;> rfl

/-- stopping never revives a task and never touches a frame -/
theorem stopClear_task (s : State) (o : Owner) (i : Nat) :
    ((stopClear s o).bus.task i).owner = (s.bus.task i).owner ∧
    ((stopClear s o).bus.task i).canId = (s.bus.task i).canId ∧
    ((stopClear s o).bus.task i).data = (s.bus.task i).data ∧
    ((stopClear s o).bus.task i).remote = (s.bus.task i).remote ∧
    ((stopClear s o).bus.task i).period = (s.bus.task i).period ∧
    (((stopClear s o).bus.task i).live = true → (s.bus.task i).live = true) := by
  unfold stopClear
  cases hs : s.slots o with
  | none => simp
  | some t =>
    simp only [setSlot_bus, Bus.stop_task]
    by_cases hit : i = t.idx <;> simp [hit]

theorem inv_stopKeep_sync {c : Cfg} {s : State} (h : Inv c s) : Inv c (stopKeep s .sync) := by
  unfold stopKeep
  cases hs : s.slots .sync with
  | none => simpa [hs] using h
  | some t =>
    simp only []
    constructor
    · intro i hi hl
      simp only [Bus.stop_n, Bus.stop_task] at hi hl ⊢
      by_cases hit : i = t.idx
      · simp [hit] at hl
      · simp only [hit, if_false] at hl ⊢
        exact h.liveSlot i hi hl
    · intro o' t' ht'
      have a := h.slotBus o' t' ht'
      unfold Agrees at a ⊢
      simp only [Bus.stop_n, Bus.stop_task]
      by_cases hit : t'.idx = t.idx <;> simpa [hit] using a
    · intro o' t' hsy ht'
      simp only [Bus.stop_task]
      have ht'' : s.slots o' = some t' := ht'
      by_cases hit : t'.idx = t.idx
      · exact absurd (h.idx_inj hs ht'' hit) hsy
      · simpa [hit] using h.slotLive o' t' hsy ht''
    · intro o' t' ht'; exact h.slotValid o' t' ht'

theorem noLive_stopKeep {c : Cfg} {s : State} (h : Inv c s) (o : Owner) : NoLive (stopKeep s o) o := by
  unfold stopKeep
  cases hs : s.slots o with
  | none => simpa [hs] using h.noLive_of_none hs
  | some t =>
    simp only []
    intro i hi hl ho
    simp only [Bus.stop_n, Bus.stop_task] at hi hl ho
    by_cases hit : i = t.idx
    · simp [hit] at hl
    · simp only [hit, if_false] at hl ho
      obtain ⟨t', ht', hidx⟩ := h.liveSlot i hi hl
      rw [ho, hs] at ht'; cases ht'; exact hit hidx.symm

@[simp] theorem stopKeep_slots (s : State) (o) : (stopKeep s o).slots = s.slots := by
  unfold stopKeep; cases s.slots o <;> rfl
@[simp] theorem stopKeep_connected (s : State) (o) : (stopKeep s o).connected = s.connected := by
  unfold stopKeep; cases s.slots o <;> rfl
@[simp] theorem stopKeep_syncPeriod (s : State) (o) : (stopKeep s o).syncPeriod = s.syncPeriod := by
  unfold stopKeep; cases s.slots o <;> rfl
@[simp] theorem stopKeep_pdo (s : State) (o) : (stopKeep s o).pdo = s.pdo := by
  unfold stopKeep; cases s.slots o <;> rfl
@[simp] theorem stopKeep_slave (s : State) (o) : (stopKeep s o).slave = s.slave := by
  unfold stopKeep; cases s.slots o <;> rfl
@[simp] theorem stopKeep_bus_n (s : State) (o) : (stopKeep s o).bus.n = s.bus.n := by
  unfold stopKeep; cases s.slots o <;> rfl

theorem stopKeep_live (s : State) (o : Owner) (i : Nat) :
    ((stopKeep s o).bus.task i).live = true → (s.bus.task i).live = true := by
  unfold stopKeep
  cases hs : s.slots o with
  | none => simp
  | some t =>
    simp only [Bus.stop_task]
    by_cases hit : i = t.idx <;> simp [hit]

/-! ### start -/

/-- what `startSlot` returns when `send_periodic` does not raise -/
theorem startSlot_ok (s : State) (o : Owner) (id : Nat) (d : Bytes) (p : Nat) (r : Bool)
    (hc : s.connected = true) :
    startSlot s o (some id) d p r =
      (setSlot { s with bus := s.bus.send ⟨id, d, r, p, o, true⟩ } o (some ⟨id, d, r, p, s.bus.n⟩), true) := by
  simp [startSlot, sendPeriodic, hc]

theorem startSlot_fail (s : State) (o : Owner) (id : Option Nat) (d : Bytes) (p : Nat) (r : Bool)
    (h : id = none ∨ s.connected = false) : startSlot s o id d p r = (s, false) := by
  cases id with
  | none => simp [startSlot, sendPeriodic]
  | some v =>
    rcases h with h | h
    · cases h
    · simp [startSlot, sendPeriodic, h]

/-- `startSlot` either changes nothing and reports the raise, or registers exactly one new task -/
theorem startSlot_cases (s : State) (o : Owner) (id : Option Nat) (d : Bytes) (p : Nat) (r : Bool) :
    (startSlot s o id d p r = (s, false)) ∨
    (∃ v, id = some v ∧ s.connected = true ∧ startSlot s o id d p r =
      (setSlot { s with bus := s.bus.send ⟨v, d, r, p, o, true⟩ } o (some ⟨v, d, r, p, s.bus.n⟩), true)) := by
  cases id with
  | none => left; exact startSlot_fail s o none d p r (Or.inl rfl)
  | some v =>
    by_cases hc : s.connected = true
    · right; exact ⟨v, rfl, hc, startSlot_ok s o v d p r hc⟩
    · left; exact startSlot_fail s o (some v) d p r (Or.inr (by simpa using hc))

theorem inv_send {c : Cfg} {s : State} (h : Inv c s) {o : Owner} (hn : NoLive s o) (hv : c.valid o = true)
    (id : Nat) (d : Bytes) (p : Nat) (r : Bool) :
    Inv c (setSlot { s with bus := s.bus.send ⟨id, d, r, p, o, true⟩ } o (some ⟨id, d, r, p, s.bus.n⟩)) := by
  constructor
  · intro i hi hl
    simp only [setSlot_bus, Bus.send_n, Bus.send_task] at hi hl ⊢
    by_cases hin : i = s.bus.n
    · simp [hin]
    · simp only [hin, if_false] at hl ⊢
      have hi' : i < s.bus.n := by omega
      obtain ⟨t', ht', hidx⟩ := h.liveSlot i hi' hl
      have hne := hn i hi' hl
      exact ⟨t', by rw [setSlot_ne _ _ hne]; exact ht', hidx⟩
  · intro o' t' ht'
    by_cases ho : o' = o
    · subst ho
      simp only [setSlot_same, Option.some.injEq] at ht'
      subst ht'
      simp [Agrees, Bus.send_task]
    · rw [setSlot_ne _ _ ho] at ht'
      have a := h.slotBus o' t' ht'
      unfold Agrees at a ⊢
      have hlt : t'.idx ≠ s.bus.n := by omega
      simp only [setSlot_bus, Bus.send_n, Bus.send_task, hlt, if_false]
      exact ⟨by omega, a.2⟩
  · intro o' t' hsy ht'
    by_cases ho : o' = o
    · subst ho
      simp only [setSlot_same, Option.some.injEq] at ht'
      subst ht'
      simp [Bus.send_task]
    · rw [setSlot_ne _ _ ho] at ht'
      have a := h.slotBus o' t' ht'
      have hlt : t'.idx ≠ s.bus.n := by have := a.1; omega
      simp only [setSlot_bus, Bus.send_task, hlt, if_false]
      exact h.slotLive o' t' hsy ht'
  · intro o' t' ht'
    by_cases ho : o' = o
    · subst ho; exact hv
    · rw [setSlot_ne _ _ ho] at ht'; exact h.slotValid o' t' ht'

theorem inv_startSlot {c : Cfg} {s : State} (h : Inv c s) {o : Owner} (hn : NoLive s o)
    (hv : c.valid o = true) (id : Option Nat) (d : Bytes) (p : Nat) (r : Bool) :
    Inv c (startSlot s o id d p r).1 := by
  rcases startSlot_cases s o id d p r with he | ⟨v, _, _, he⟩
  · rw [he]; exact h
  · rw [he]; exact inv_send h hn hv v d p r

theorem validPeriod_some {p : Option Nat} {v : Nat} (h : validPeriod p = some v) : p = some v := by
  unfold validPeriod at h
  split at h
  · cases h
  · exact h

theorem inv_startIfValid {c : Cfg} {s : State} (h : Inv c s) {o : Owner} (hn : NoLive s o)
    (hv : c.valid o = true) (period id : Option Nat) (d : Bytes) :
    Inv c (startIfValid s o period id d).1 := by
  unfold startIfValid
  split
  · exact h
  · exact inv_startSlot h hn hv _ _ _ _

/-! ### update -/

theorem inv_updateSlot {c : Cfg} {s : State} (h : Inv c s) (o : Owner) (d : Bytes) :
    Inv c (updateSlot c s o d) := by
  unfold updateSlot
  cases hs : s.slots o with
  | none => simpa [hs] using h
  | some t =>
    simp only []
    have hv := h.slotValid o t hs
    have ag := h.slotBus o t hs
    unfold ptUpdate
    by_cases hm : c.modify = true
    · -- in place
      simp only [hm, if_true]
      constructor
      · intro i hi hl
        simp only [setSlot_bus, Bus.modifyData_n, Bus.modifyData_task] at hi hl ⊢
        by_cases hit : i = t.idx
        · subst hit
          simp only [if_true] at hl ⊢
          rw [ag.2.1]; simp
        · simp only [hit, if_false] at hl ⊢
          obtain ⟨t', ht', hidx⟩ := h.liveSlot i hi hl
          by_cases hne : (s.bus.task i).owner = o
          · rw [hne, hs] at ht'; cases ht'; exact absurd hidx.symm hit
          · exact ⟨t', by rw [setSlot_ne _ _ hne]; exact ht', hidx⟩
      · intro o' t' ht'
        by_cases ho : o' = o
        · subst ho
          simp only [setSlot_same, Option.some.injEq] at ht'
          subst ht'
          unfold Agrees at ag ⊢
          simp only [setSlot_bus, Bus.modifyData_n, Bus.modifyData_task, if_true]
          exact ⟨ag.1, ag.2.1, ag.2.2.1, trivial, ag.2.2.2.2.1, ag.2.2.2.2.2⟩
        · rw [setSlot_ne _ _ ho] at ht'
          have a := h.slotBus o' t' ht'
          unfold Agrees at a ⊢
          simp only [setSlot_bus, Bus.modifyData_n, Bus.modifyData_task]
          by_cases hit : t'.idx = t.idx
          · exact absurd (h.idx_inj hs ht' hit) ho
          · simpa [hit] using a
      · intro o' t' hsy ht'
        by_cases ho : o' = o
        · subst ho
          simp only [setSlot_same, Option.some.injEq] at ht'
          subst ht'
          simp only [setSlot_bus, Bus.modifyData_task, if_true]
          exact h.slotLive o' t hsy hs
        · rw [setSlot_ne _ _ ho] at ht'
          simp only [setSlot_bus, Bus.modifyData_task]
          by_cases hit : t'.idx = t.idx
          · exact absurd (h.idx_inj hs ht' hit) ho
          · simpa [hit] using h.slotLive o' t' hsy ht'
      · intro o' t' ht'
        by_cases ho : o' = o
        · subst ho; exact hv
        · rw [setSlot_ne _ _ ho] at ht'; exact h.slotValid o' t' ht'
    · simp only [hm, Bool.false_eq_true, if_false]
      by_cases hd : d = t.data
      · -- nothing to do
        have : ({ t with data := d } : PTask) = t := by cases t; simp_all
        simp only [hd, ne_eq, not_true_eq_false, if_false]
        have hsame : setSlot { s with bus := s.bus } o (some { t with data := t.data }) = s := by
          cases s; simp only [setSlot]; congr; funext o'
          by_cases ho : o' = o
          · subst ho; simpa using hs.symm
          · simp [ho]
        rw [hsame]; exact h
      · -- stop and restart
        simp only [ne_eq, hd, not_false_eq_true, if_true]
        constructor
        · intro i hi hl
          simp only [setSlot_bus, Bus.send_n, Bus.stop_n, Bus.send_task, Bus.stop_task] at hi hl ⊢
          by_cases hin : i = s.bus.n
          · simp [hin]
          · simp only [hin, if_false] at hl ⊢
            by_cases hit : i = t.idx
            · simp [hit] at hl
            · simp only [hit, if_false] at hl ⊢
              have hi' : i < s.bus.n := by omega
              obtain ⟨t', ht', hidx⟩ := h.liveSlot i hi' hl
              by_cases hne : (s.bus.task i).owner = o
              · rw [hne, hs] at ht'; cases ht'; exact absurd hidx.symm hit
              · exact ⟨t', by rw [setSlot_ne _ _ hne]; exact ht', hidx⟩
        · intro o' t' ht'
          by_cases ho : o' = o
          · subst ho
            simp only [setSlot_same, Option.some.injEq] at ht'
            subst ht'
            simp [Agrees, Bus.send_task]
          · rw [setSlot_ne _ _ ho] at ht'
            have a := h.slotBus o' t' ht'
            unfold Agrees at a ⊢
            have hlt : t'.idx ≠ s.bus.n := by omega
            simp only [setSlot_bus, Bus.send_n, Bus.stop_n, Bus.send_task, Bus.stop_task, hlt, if_false]
            by_cases hit : t'.idx = t.idx
            · exact absurd (h.idx_inj hs ht' hit) ho
            · simp only [hit, if_false]; exact ⟨by omega, a.2⟩
        · intro o' t' hsy ht'
          by_cases ho : o' = o
          · subst ho
            simp only [setSlot_same, Option.some.injEq] at ht'
            subst ht'
            simp [Bus.send_task]
          · rw [setSlot_ne _ _ ho] at ht'
            have a := h.slotBus o' t' ht'
            have hlt : t'.idx ≠ s.bus.n := by have := a.1; omega
            simp only [setSlot_bus, Bus.send_task, Bus.stop_n, Bus.stop_task, hlt, if_false]
            by_cases hit : t'.idx = t.idx
            · exact absurd (h.idx_inj hs ht' hit) ho
            · simpa [hit] using h.slotLive o' t' hsy ht'
        · intro o' t' ht'
          by_cases ho : o' = o
          · subst ho; exact hv
          · rw [setSlot_ne _ _ ho] at ht'; exact h.slotValid o' t' ht'

@[simp] theorem updateSlot_connected (c : Cfg) (s : State) (o d) : (updateSlot c s o d).connected = s.connected := by
  unfold updateSlot; cases s.slots o <;> rfl
@[simp] theorem updateSlot_syncPeriod (c : Cfg) (s : State) (o d) : (updateSlot c s o d).syncPeriod = s.syncPeriod := by
  unfold updateSlot; cases s.slots o <;> rfl
@[simp] theorem updateSlot_pdo (c : Cfg) (s : State) (o d) : (updateSlot c s o d).pdo = s.pdo := by
  unfold updateSlot; cases s.slots o <;> rfl
@[simp] theorem updateSlot_slave (c : Cfg) (s : State) (o d) : (updateSlot c s o d).slave = s.slave := by
  unfold updateSlot; cases s.slots o <;> rfl

end Canopen.Periodic
