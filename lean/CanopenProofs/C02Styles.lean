/-
C02, client styles — the exactness theorems of `CanopenProofs/C02.lean` for *every* conformant
client, not only the one particular client used there.

CiA 301 leaves a client four ways to initiate a download (expedited with / without size
indication, segmented with / without announced size), any segmentation of the payload, and says
nothing about the unused bits of its command bytes or the reserved / no-data bytes of its frames.
`Spec.refUploadS` / `Spec.refDownloadS` are the strict client with all of these as arguments
(`DownStyle`, chunk list, `Rsv`); the theorems below hold for all of them.  In particular an
expedited download *without* size indication (command byte 0x22, or any byte with ccs = 1,
e = 1, s = 0) stores all four data bytes of the frame.
-/
import CanopenProofs.C02

namespace Canopen.C02
open Canopen Canopen.Sdo Canopen.Spec Canopen.Gen.SdoConst

/-! ## finite facts about the styled command bytes -/

theorem mod_mem_range (b k : Nat) (hk : 0 < k) : b % k ∈ List.range k :=
  List.mem_range.mpr (Nat.mod_lt _ hk)

theorem styled_cmds :
    (∀ x ∈ List.range 32, (0x40 + x) &&& 0xE0 = REQUEST_UPLOAD) ∧
    (∀ x ∈ List.range 16, ∀ t : Bool,
      (0x60 + tbit t + x) &&& 0xE0 = REQUEST_SEGMENT_UPLOAD ∧ (0x60 + tbit t + x) &&& TOGGLE_BIT = tbit t) ∧
    (∀ x ∈ List.range 32, ∀ l ∈ [1, 2, 3, 4],
      (0x23 + (4 - l) * 4 + x / 16 * 16) &&& 0xE0 = REQUEST_DOWNLOAD ∧
      (0x23 + (4 - l) * 4 + x / 16 * 16) &&& EXPEDITED ≠ 0 ∧
      (0x23 + (4 - l) * 4 + x / 16 * 16) &&& SIZE_SPECIFIED ≠ 0 ∧
      4 - (((0x23 + (4 - l) * 4 + x / 16 * 16) >>> 2) &&& 3) = l) ∧
    (∀ x ∈ List.range 32,
      ((0x22 + x / 4 * 4) &&& 0xE0 = REQUEST_DOWNLOAD ∧ (0x22 + x / 4 * 4) &&& EXPEDITED ≠ 0 ∧
        (0x22 + x / 4 * 4) &&& SIZE_SPECIFIED = 0) ∧
      ((0x21 + x / 4 * 4) &&& 0xE0 = REQUEST_DOWNLOAD ∧ (0x21 + x / 4 * 4) &&& EXPEDITED = 0) ∧
      ((0x20 + x / 4 * 4) &&& 0xE0 = REQUEST_DOWNLOAD ∧ (0x20 + x / 4 * 4) &&& EXPEDITED = 0 ∧
        (0x20 + x / 4 * 4) &&& SIZE_SPECIFIED = 0)) := by decide

theorem upInitReqS_cmd (v : Rsv) : upInitReqS v &&& 0xE0 = REQUEST_UPLOAD :=
  styled_cmds.1 _ (mod_mem_range _ 32 (by decide))

theorem segUpReqS_cmd (v : Rsv) (t : Bool) :
    segUpReqS v t &&& 0xE0 = REQUEST_SEGMENT_UPLOAD ∧ segUpReqS v t &&& TOGGLE_BIT = tbit t :=
  styled_cmds.2.1 _ (mod_mem_range _ 16 (by decide)) t

theorem fillN_length (v : Rsv) (k : Nat) : (fillN v k).length = k :=
  padTo_length k _ (by simp only [List.length_take]; omega)

theorem take_append_self (a b : Bytes) : (a ++ b).take a.length = a := by simp

/-! ## uploads -/

/-- one segment-upload exchange with a styled request, fully evaluated: what the client writes
    into the unused bits and the reserved bytes makes no difference -/
theorem segUpS_step (v : Rsv) (s : Srv) (n : Node) (t : Bool) (rem : Bytes)
    (hb : s.buffer = some rem) (ht : s.toggle = tbit t) :
    srvStep s n (segUpReqS v t :: fillN v 7) =
      ⟨{ s with buffer := some (rem.drop 7), toggle := tbit (!t) }, n,
       [segUpCmd (tbit t) (rem.take 7).length (rem.drop 7).isEmpty :: padTo 7 (rem.take 7)], false⟩ := by
  obtain ⟨h1, h2⟩ := segUpReqS_cmd v t
  simp only [srvStep, dispatch, h1, REQUEST_UPLOAD, REQUEST_SEGMENT_UPLOAD]
  simp only [segmentedUpload, h2, ht, hb, finish, tbit_xor]
  simp

theorem upSegS_correct (v : Rsv) (val : Bytes) (idx sub : Nat) :
    ∀ (fuel : Nat) (s : Srv) (n : Node) (t : Bool) (acc rem : Bytes),
      s.buffer = some rem → s.toggle = tbit t → acc ++ rem = val →
      rem.length / 7 + 1 ≤ fuel →
      ∃ s', upSegS v fuel s n idx sub val.length t acc = (s', n, .ok val) ∧ SrvWF s' := by
  intro fuel
  induction fuel with
  | zero => intro s n t acc rem _ _ _ hf; omega
  | succ fuel ih =>
    intro s n t acc rem hb ht hacc hf
    have hstep := segUpS_step v s n t rem hb ht
    have hlen7 : (rem.take 7).length ≤ 7 := by simp only [List.length_take]; omega
    obtain ⟨c1, c2, c3, c4, c5⟩ := segUpCmd_fields t _ (le7_mem _ hlen7) (rem.drop 7).isEmpty
    unfold upSegS
    simp only [hstep]
    generalize segUpCmd (tbit t) (rem.take 7).length (rem.drop 7).isEmpty = cmd at *
    have h7 : 7 - (7 - (rem.take 7).length) = (rem.take 7).length := by omega
    simp only [oneResp, List.length_cons, padTo_length 7 _ hlen7, if_true, Bool.false_eq_true, if_false,
      asAbort, c1, List.headD_cons, List.drop_succ_cons, List.drop_zero, judgeUpSeg, c2, c3, c4, c5, h7,
      padTo_take, padTo_drop_allZero, bne_self_eq_false, Bool.not_true]
    by_cases he : (rem.drop 7).isEmpty
    · have hrem : rem.take 7 = rem := by
        have h0 : rem.drop 7 = [] := by simpa using he
        have := List.take_append_drop 7 rem
        rw [h0, List.append_nil] at this; exact this
      simp only [he, if_true, hrem, hacc]
      exact ⟨_, rfl, wf_of_tbit _ (!t) rfl⟩
    · have hlong : 7 < rem.length := by
        have h0 : rem.drop 7 ≠ [] := by simpa using he
        by_cases h : 7 < rem.length
        · exact h
        · exact absurd (List.drop_eq_nil_of_le (by omega)) h0
      have h7l : (rem.take 7).length = 7 := by simp only [List.length_take]; omega
      have hnl : ¬ (val.length ≤ (acc ++ rem.take 7).length) := by
        rw [← hacc, List.length_append, List.length_append, h7l]; omega
      simp only [he, Bool.false_eq_true, if_false, h7l, show ¬ (7 : Nat) = 0 from by decide, hnl]
      exact ih { s with buffer := some (rem.drop 7), toggle := tbit (!t) } n (!t)
        (acc ++ rem.take 7) (rem.drop 7) rfl rfl
        (by rw [List.append_assoc, List.take_append_drop]; exact hacc)
        (by simp only [List.length_drop]; omega)

/-- **Upload is exact, for every conformant client.**  As `upload_exact`, with the client free to
    put anything into the unused bits 0..4 of the initiate request, bits 0..3 of the segment
    requests and into the reserved bytes of both (`v : Rsv` arbitrary): it obtains exactly the
    value and finds nothing to object to in any response. -/
theorem upload_exact_styles (v : Rsv) (s : Srv) (n : Node) (idx sub : Nat) (val : Bytes) (hwf : SrvWF s)
    (hidx : idx < 65536) (hsub : sub < 256) (hv : getData n idx sub true = .ok val)
    (hlen : val.length < 2 ^ 32) :
    ∃ s', refUploadS v s n idx sub = (s', n, .ok val) ∧ SrvWF s' := by
  have hmux : idx % 256 + 256 * (idx / 256 % 256) = idx := by omega
  have hsub' : sub % 256 = sub := Nat.mod_eq_of_lt hsub
  unfold refUploadS
  simp only [srvStep, mux, List.cons_append, List.nil_append, dispatch, upInitReqS_cmd v, if_true, initUpload,
    hmux, hsub', hv]
  by_cases hsz : 1 ≤ val.length ∧ val.length ≤ 4
  · obtain ⟨c1, c2, c3, c4, c5, c6⟩ := expUpCmd_fields val.length (in14_mem _ hsz.1 hsz.2)
    simp only [hsz, and_self, if_true, finish]
    generalize expUpCmd val.length = cmd at *
    have h4 : 4 - (4 - val.length) = val.length := by omega
    simp only [oneResp, Bool.false_eq_true, if_false, List.length_cons,
      padTo_length 4 val hsz.2, if_true, asAbort, c1, judgeUpInit, List.headD_cons, c2, bne_self_eq_false,
      List.drop_succ_cons, List.drop_zero, muxBytes_eq, mux, List.take_succ_cons, List.take_zero,
      List.cons_append, List.nil_append, hsub', c3, c4, c5, c6, h4, padTo_take, padTo_drop_allZero,
      Bool.not_true]
    exact ⟨_, rfl, hwf⟩
  · obtain ⟨c1, c2, c3, c4, c5, c6⟩ := segUpInit_fields
    simp only [hsz, if_false, hlen, if_true, finish]
    generalize RESPONSE_UPLOAD ||| SIZE_SPECIFIED = cmd at *
    have hsize : leVal (leBytes 4 val.length) = val.length := by
      rw [leVal_leBytes]; exact Nat.mod_eq_of_lt (by simpa using hlen)
    simp only [oneResp, Bool.false_eq_true, if_false, List.length_cons,
      leBytes_length, if_true, asAbort, c1, judgeUpInit, List.headD_cons, c2, bne_self_eq_false,
      List.drop_succ_cons, List.drop_zero, muxBytes_eq, mux, List.take_succ_cons, List.take_zero,
      List.cons_append, List.nil_append, hsub', c3, c4, c5, c6, Bool.or_self, Bool.not_true, hsize]
    exact upSegS_correct v val idx sub (val.length / 7 + 2) _ n false [] val rfl rfl rfl (by omega)

/-! ## downloads -/

/-- An expedited initiate download the node accepts, for *any* command byte with ccs = 1, e = 1:
    the server takes `4 - n` bytes when the size is indicated and all four otherwise, hands
    exactly those to `set_data`, and confirms. -/
theorem initDownload_exp_step (s : Srv) (n n' : Node) (command idx sub size : Nat) (d : Bytes)
    (hidx : idx < 65536) (hsub : sub < 256)
    (hc : command &&& 0xE0 = REQUEST_DOWNLOAD) (he : command &&& EXPEDITED ≠ 0)
    (hsz : (if command &&& SIZE_SPECIFIED ≠ 0 then 4 - ((command >>> 2) &&& 3) else 4) = size)
    (hset : setData n (some idx) (some sub) (d.take size) true = .ok n') :
    srvStep s n (command :: (mux idx sub ++ d)) =
      ⟨{ s with index := some idx, sub := some sub }, n', [0x60 :: (mux idx sub ++ [0, 0, 0, 0])], false⟩ := by
  have hmux : idx % 256 + 256 * (idx / 256 % 256) = idx := by omega
  have hsub' : sub % 256 = sub := Nat.mod_eq_of_lt hsub
  simp only [srvStep, mux, List.cons_append, List.nil_append, dispatch, hc, initDownload, hmux, hsub', he,
    ne_eq, not_false_eq_true, if_true]
  simp only [ne_eq] at hsz
  rw [hsz, hset]
  simp [REQUEST_DOWNLOAD, REQUEST_UPLOAD, REQUEST_SEGMENT_UPLOAD, finish, RESPONSE_DOWNLOAD, muxBytes, leBytes, hsub']

/-- A segmented initiate download, for any command byte with ccs = 1, e = 0 whose size field (if
    one is announced) is there: the buffer is emptied, the toggle reset, and the server confirms. -/
theorem initDownload_seg_step (s : Srv) (n : Node) (command idx sub : Nat) (d : Bytes)
    (hidx : idx < 65536) (hsub : sub < 256)
    (hc : command &&& 0xE0 = REQUEST_DOWNLOAD) (he : command &&& EXPEDITED = 0) (hd : 4 ≤ d.length) :
    srvStep s n (command :: (mux idx sub ++ d)) =
      ⟨{ s with index := some idx, sub := some sub, buffer := some [], toggle := 0 }, n,
       [0x60 :: (mux idx sub ++ [0, 0, 0, 0])], false⟩ := by
  have hmux : idx % 256 + 256 * (idx / 256 % 256) = idx := by omega
  have hsub' : sub % 256 = sub := Nat.mod_eq_of_lt hsub
  have h4 : ¬ d.length < 4 := by omega
  simp only [srvStep, mux, List.cons_append, List.nil_append, dispatch, hc, initDownload, hmux, hsub', he,
    ne_eq, not_true_eq_false, h4, and_false, if_false]
  simp [REQUEST_DOWNLOAD, REQUEST_UPLOAD, REQUEST_SEGMENT_UPLOAD, finish, RESPONSE_DOWNLOAD, muxBytes, leBytes, hsub']

/-- **Size not indicated: all four data bytes are the value.**  For every request whose command
    byte says "initiate download, expedited, size not indicated" (0x22 and the same with any of
    the unused bits 2..4 set) and every four data bytes `d`: if the node accepts `d` for the
    addressed entry then the server confirms, exactly `d` — all four bytes — is stored, and the
    write callbacks are told exactly `d`, once. -/
theorem unsized_expedited_stores_four (s : Srv) (n n' : Node) (command idx sub : Nat) (d : Bytes)
    (hidx : idx < 65536) (hsub : sub < 256) (hd : d.length = 4)
    (hc : command &&& 0xE0 = REQUEST_DOWNLOAD) (he : command &&& EXPEDITED ≠ 0)
    (hs : command &&& SIZE_SPECIFIED = 0)
    (hset : setData n (some idx) (some sub) d true = .ok n') :
    srvStep s n (command :: (mux idx sub ++ d)) =
      ⟨{ s with index := some idx, sub := some sub }, n', [0x60 :: (mux idx sub ++ [0, 0, 0, 0])], false⟩ ∧
    n'.store = ((idx, sub), d) :: n.store ∧ n'.writeLog = n.writeLog ++ [(idx, sub, d)] := by
  refine ⟨?_, (setData_ok n n' idx sub d hset).1, (setData_ok n n' idx sub d hset).2.1⟩
  have ht : d.take 4 = d := List.take_of_length_le (by omega)
  exact initDownload_exp_step s n n' command idx sub 4 d hidx hsub hc he (by simp [hs]) (by rw [ht]; exact hset)

/-- one segment-download exchange, the bytes after the data arbitrary -/
theorem segDownS_step (v : Rsv) (s : Srv) (n n' : Node) (t last : Bool) (buf chunk : Bytes)
    (hb : s.buffer = some buf) (ht : s.toggle = tbit t) (hc : chunk.length ≤ 7)
    (hfin : (if last then setData n s.index s.sub (buf ++ chunk) true else .ok n) = .ok n') :
    srvStep s n (segDownReq t chunk.length last :: (chunk ++ fillN v (7 - chunk.length))) =
      ⟨{ s with buffer := some (buf ++ chunk), toggle := tbit (!t) }, n',
       [(0x20 + tbit t) :: List.replicate 7 0], false⟩ := by
  obtain ⟨h1, h2, h3, h4⟩ := req_cmds.2.2.2.2 t _ (le7_mem _ hc) last
  have hx : (RESPONSE_SEGMENT_DOWNLOAD ||| tbit t) = 0x20 + tbit t := by cases t <;> decide
  simp only [srvStep, dispatch, h1, REQUEST_UPLOAD, REQUEST_SEGMENT_UPLOAD, REQUEST_DOWNLOAD,
    REQUEST_SEGMENT_DOWNLOAD]
  simp only [segmentedDownload, h2, ht, hb, h3, List.drop_succ_cons, List.drop_zero,
    Nat.add_sub_cancel, take_append_self]
  have hcond : (if segDownReq t chunk.length last &&& NO_MORE_DATA ≠ 0
      then setData n s.index s.sub (buf ++ chunk) true else .ok n) = .ok n' := by
    cases last
    · have h4' : segDownReq t chunk.length false &&& NO_MORE_DATA = 0 := by simpa using h4
      simpa [h4'] using hfin
    · have h4' : ¬ (segDownReq t chunk.length true &&& NO_MORE_DATA = 0) := by simpa using h4
      simpa [h4'] using hfin
  rw [hcond]
  simp [segDownFinish, finish, tbit_xor, hx]

theorem downSegS_correct (v : Rsv) (data : Bytes) (idx sub : Nat) (n n' : Node)
    (hset : setData n (some idx) (some sub) data true = .ok n') :
    ∀ (cs : List Nat) (s : Srv) (t : Bool) (buf rem : Bytes),
      s.buffer = some buf → s.toggle = tbit t → s.index = some idx → s.sub = some sub →
      buf ++ rem = data → rem.length < cs.length →
      ∃ s', downSegS v cs s n idx sub t rem = (s', n', .ok []) ∧ SrvWF s' := by
  intro cs
  induction cs with
  | nil => intro s t buf rem _ _ _ _ _ hl; simp at hl
  | cons k ks ih =>
    intro s t buf rem hb ht hi hsu hacc hl
    have hc : (rem.take (min (max k 1) 7)).length ≤ 7 := by simp only [List.length_take]; omega
    have hne : ¬ (0x20 + tbit t = 0x80) := by cases t <;> decide
    unfold downSegS
    dsimp only
    by_cases he : (rem.drop (min (max k 1) 7)).isEmpty
    · have hrem : rem.take (min (max k 1) 7) = rem := by
        have h0 : rem.drop (min (max k 1) 7) = [] := by simpa using he
        have := List.take_append_drop (min (max k 1) 7) rem
        rw [h0, List.append_nil] at this; exact this
      have hfin : (if (rem.drop (min (max k 1) 7)).isEmpty
          then setData n s.index s.sub (buf ++ rem.take (min (max k 1) 7)) true else .ok n) = .ok n' := by
        rw [if_pos he, hrem, hacc, hi, hsu, hset]
      have hE : (rem.drop (min (max k 1) 7)).isEmpty = true := he
      rw [hE] at hfin ⊢
      simp only [segDownS_step v s n n' t true buf _ hb ht hc hfin, oneResp, Bool.false_eq_true, if_false,
        List.length_cons, List.length_replicate, if_true, asAbort, hne, bne_self_eq_false]
      refine ⟨_, rfl, ?_⟩
      exact wf_of_tbit _ (!t) rfl
    · have hfin : (if (rem.drop (min (max k 1) 7)).isEmpty
          then setData n s.index s.sub (buf ++ rem.take (min (max k 1) 7)) true else .ok n) = .ok n := by
        rw [if_neg he]
      have hE : (rem.drop (min (max k 1) 7)).isEmpty = false := by simpa using he
      rw [hE] at hfin ⊢
      simp only [segDownS_step v s n n t false buf _ hb ht hc hfin, oneResp, Bool.false_eq_true, if_false,
        List.length_cons, List.length_replicate, if_true, asAbort, hne, bne_self_eq_false]
      have h0 : rem.drop (min (max k 1) 7) ≠ [] := by simpa using he
      have hlt : min (max k 1) 7 < rem.length := by
        by_cases h : min (max k 1) 7 < rem.length
        · exact h
        · exact absurd (List.drop_eq_nil_of_le (by omega)) h0
      exact ih { s with buffer := some (buf ++ rem.take (min (max k 1) 7)), toggle := tbit (!t) } (!t)
        (buf ++ rem.take (min (max k 1) 7)) (rem.drop (min (max k 1) 7)) rfl rfl hi hsu
        (by rw [List.append_assoc, List.take_append_drop]; exact hacc)
        (by simp only [List.length_drop, List.length_cons] at hl ⊢; omega)

/-- the initiate exchange of each style that carries this payload, fully evaluated -/
theorem downInit_step (v : Rsv) (s : Srv) (n n' : Node) (idx sub : Nat) (data : Bytes) (st : DownStyle)
    (hidx : idx < 65536) (hsub : sub < 256)
    (hset : setData n (some idx) (some sub) data true = .ok n') :
    srvStep s n (downInitFrame v (effStyle st data.length) idx sub data) =
      if (effStyle st data.length).isExp then
        ⟨{ s with index := some idx, sub := some sub }, n', [0x60 :: (mux idx sub ++ [0, 0, 0, 0])], false⟩
      else
        ⟨{ s with index := some idx, sub := some sub, buffer := some [], toggle := 0 }, n,
         [0x60 :: (mux idx sub ++ [0, 0, 0, 0])], false⟩ := by
  have hx := mod_mem_range v.bits 32 (by decide)
  have segS : srvStep s n (downInitFrame v .segSized idx sub data) =
      ⟨{ s with index := some idx, sub := some sub, buffer := some [], toggle := 0 }, n,
       [0x60 :: (mux idx sub ++ [0, 0, 0, 0])], false⟩ := by
    obtain ⟨_, ⟨c1, c2⟩, _⟩ := styled_cmds.2.2.2 _ hx
    exact initDownload_seg_step s n _ idx sub _ hidx hsub c1 c2 (by simp)
  have segN : srvStep s n (downInitFrame v .segUnsized idx sub data) =
      ⟨{ s with index := some idx, sub := some sub, buffer := some [], toggle := 0 }, n,
       [0x60 :: (mux idx sub ++ [0, 0, 0, 0])], false⟩ := by
    obtain ⟨_, _, ⟨c1, c2, _⟩⟩ := styled_cmds.2.2.2 _ hx
    exact initDownload_seg_step s n _ idx sub _ hidx hsub c1 c2 (by rw [fillN_length]; exact Nat.le_refl 4)
  cases st with
  | expSized =>
    by_cases h : 1 ≤ data.length ∧ data.length ≤ 4
    · simp only [effStyle, h, and_self, if_true, DownStyle.isExp]
      obtain ⟨c1, c2, c3, c4⟩ := styled_cmds.2.2.1 _ hx data.length (in14_mem _ h.1 h.2)
      exact initDownload_exp_step s n n' _ idx sub data.length _ hidx hsub c1 c2
        (by unfold expDownReqS rsvX; rw [if_pos c3]; exact c4)
        (by rw [take_append_self]; exact hset)
    · simp only [effStyle, h, if_false, DownStyle.isExp, Bool.false_eq_true]
      exact segS
  | expUnsized =>
    by_cases h : data.length = 4
    · simp only [effStyle, h, if_true, DownStyle.isExp]
      obtain ⟨⟨c1, c2, c3⟩, _⟩ := styled_cmds.2.2.2 _ hx
      exact (unsized_expedited_stores_four s n n' _ idx sub data hidx hsub h c1 c2 c3 hset).1
    · simp only [effStyle, h, if_false, DownStyle.isExp, Bool.false_eq_true]
      exact segN
  | segSized =>
    simp only [effStyle, DownStyle.isExp, Bool.false_eq_true, if_false]
    exact segS
  | segUnsized =>
    simp only [effStyle, DownStyle.isExp, Bool.false_eq_true, if_false]
    exact segN

/-- **Download is exact, in every client style.**  Whatever state the server is in, a by-the-book
    download that the node accepts — initiated expedited with size indication, expedited without
    (the four data bytes are the value), segmented with or without announced size, with *any*
    chunking of the payload into segments (segments of fewer than 7 bytes that are not the last
    included) and *anything* in the unused command bits and the reserved / no-data bytes — is
    acknowledged frame by frame exactly as the reference client demands, and leaves the node with
    exactly the transferred bytes stored and the write callbacks told exactly those, once. -/
theorem download_exact_styles (v : Rsv) (s : Srv) (n n' : Node) (idx sub : Nat) (data : Bytes)
    (st : DownStyle) (chunks : List Nat) (hwf : SrvWF s) (hidx : idx < 65536) (hsub : sub < 256)
    (hset : setData n (some idx) (some sub) data true = .ok n') :
    (∃ s', refDownloadS v s n idx sub data st chunks = (s', n', .ok []) ∧ SrvWF s') ∧
    n'.store = ((idx, sub), data) :: n.store ∧ n'.writeLog = n.writeLog ++ [(idx, sub, data)] := by
  refine ⟨?_, (setData_ok n n' idx sub data hset).1, (setData_ok n n' idx sub data hset).2.1⟩
  have hne : ¬ ((0x60 : Nat) = 0x80) := by decide
  unfold refDownloadS
  simp only [downInit_step v s n n' idx sub data st hidx hsub hset]
  by_cases hexp : (effStyle st data.length).isExp = true
  · simp only [hexp, if_true, oneResp, Bool.false_eq_true, if_false, List.length_cons, List.length_append,
      List.length_nil, mux, asAbort, hne, bne_self_eq_false]
    exact ⟨_, rfl, hwf⟩
  · simp only [hexp, if_false, oneResp, Bool.false_eq_true, List.length_cons, List.length_append,
      List.length_nil, mux, if_true, asAbort, hne, bne_self_eq_false]
    exact downSegS_correct v data idx sub n n' hset _ _ false [] data rfl rfl rfl rfl rfl
      (by simp only [List.length_append, List.length_replicate]; omega)

/-- … and a later upload by any conformant client sees exactly the downloaded bytes. -/
theorem download_then_upload_styles (v : Rsv) (s : Srv) (n n' : Node) (idx sub : Nat) (data : Bytes)
    (hwf : SrvWF s) (hidx : idx < 65536) (hsub : sub < 256) (hlen : data.length < 2 ^ 32)
    (hset : setData n (some idx) (some sub) data true = .ok n')
    (hcb : lookup (idx, sub) n.readCb = none)
    (hr : ∀ obj, findObject n (some idx) (some sub) = .ok obj → accReadable obj.access = true) :
    ∃ s', refUploadS v s n' idx sub = (s', n', .ok data) ∧ SrvWF s' := by
  obtain ⟨hst, _, hod, hrc⟩ := setData_ok n n' idx sub data hset
  have hfo : findObject n' (some idx) (some sub) = findObject n (some idx) (some sub) := by
    simp only [findObject, hod]
  have hget : getData n' idx sub true = .ok data := by
    unfold getData
    rw [hfo]
    unfold setData at hset
    split at hset
    · cases hset
    · rename_i obj hobj
      have := hr obj hobj
      simp [this, hrc, hcb, hst, lookup]
  exact upload_exact_styles v s n' idx sub data hwf hidx hsub hget hlen

/-! ## the stored value stays what was transferred -/

theorem initUpload_node (s : Srv) (n : Node) (req : Bytes) : (initUpload s n req).node = n := by
  unfold initUpload
  split
  · dsimp only
    split
    · rfl
    · split
      · rfl
      · split <;> rfl
  · rfl

theorem segmentedUpload_node (s : Srv) (n : Node) (c : Nat) : (segmentedUpload s n c).node = n := by
  unfold segmentedUpload
  split
  · rfl
  · split <;> rfl

theorem initDownload_node (s : Srv) (n : Node) (c : Nat) (r : Bytes) (he : c &&& EXPEDITED = 0) :
    (initDownload s n (c :: r)).node = n := by
  unfold initDownload
  split
  · rename_i command b1 b2 b3 rest heq
    have hc : command = c := by injection heq with h _; exact h.symm
    subst hc
    simp only [he, ne_eq, not_true_eq_false, if_false]
    split <;> rfl
  · rfl

theorem segmentedDownload_node (s : Srv) (n : Node) (c : Nat) (req : Bytes) (hl : c &&& NO_MORE_DATA = 0) :
    (segmentedDownload s n c req).node = n := by
  unfold segmentedDownload
  split
  · rfl
  · dsimp only
    split
    · rfl
    · simp only [hl, ne_eq, not_true_eq_false, if_false, segDownFinish]

theorem requestAborted_node (s : Srv) (n : Node) (req : Bytes) : (requestAborted s n req).node = n := by
  unfold requestAborted
  split <;> rfl

/-- **Only a transfer changes what the node holds.**  A request frame that is neither a download
    segment flagged as the last one nor an expedited initiate download — stray or duplicated
    segments, upload requests, segmented initiates, aborts, unknown commands, truncated frames —
    leaves the node (stored values, write-callback log, dictionary) exactly as it was, in every
    server state. -/
theorem inert_frame_keeps_node (s : Srv) (n : Node) (f : Bytes) (h : mayWrite f = false) :
    (srvStep s n f).node = n := by
  cases f with
  | nil => rfl
  | cons c r =>
    have h1 : c &&& 0xE0 = 0x00 → c &&& NO_MORE_DATA = 0 := by
      intro hc; simp [mayWrite, hc] at h; simpa [NO_MORE_DATA] using h
    have h2 : c &&& 0xE0 = 0x20 → c &&& EXPEDITED = 0 := by
      intro hc; simp [mayWrite, hc] at h; simpa [EXPEDITED] using h
    have hn : (dispatch s n c (c :: r)).node = n := by
      unfold dispatch
      dsimp only
      split
      · exact initUpload_node s n _
      · split
        · exact segmentedUpload_node s n c
        · split
          · rename_i hc; exact initDownload_node s n c r (h2 hc)
          · split
            · rename_i hc; exact segmentedDownload_node s n c _ (h1 hc)
            · split
              · exact initUpload_node s n _
              · split
                · rfl
                · split
                  · exact requestAborted_node s n _
                  · rfl
    simp only [srvStep, finish]
    split <;> exact hn

theorem inert_history_keeps_node (frames : List Bytes) (hin : ∀ f ∈ frames, mayWrite f = false) :
    ∀ (s : Srv) (n : Node), (srvRun s n frames).2.1 = n := by
  induction frames with
  | nil => intro s n; rfl
  | cons f fs ih =>
    intro s n
    have hf := inert_frame_keeps_node s n f (hin f (by simp))
    simp only [srvRun]
    rw [ih (fun g hg => hin g (by simp [hg])) (srvStep s n f).srv (srvStep s n f).node, hf]

/-- an accepted download changes the value of the addressed entry only: every other address —
    other sub-indices of the same index included — reads as before -/
theorem download_leaves_others (n n' : Node) (idx sub : Nat) (data : Bytes)
    (hset : setData n (some idx) (some sub) data true = .ok n') (i j : Nat) (r : Bool)
    (hne : (i, j) ≠ (idx, sub)) :
    getData n' i j r = getData n i j r := by
  obtain ⟨hst, _, hod, hrc⟩ := setData_ok n n' idx sub data hset
  have hfo : findObject n' (some i) (some j) = findObject n (some i) (some j) := by
    simp only [findObject, hod]
  have hlk : lookup (i, j) n'.store = lookup (i, j) n.store := by
    rw [hst]; simp only [lookup]; rw [if_neg (fun h => hne h.symm)]
  unfold getData
  rw [hfo, hrc, hlk]

/-- **Later uploads see exactly the transferred bytes, whatever arrives in between.**  After an
    accepted download, any sequence of frames none of which completes another transfer (stray or
    late download segments with either toggle, upload traffic, segmented initiates, aborts, junk)
    leaves the node holding exactly the downloaded bytes — nothing is appended, nothing is told to
    the write callbacks again — and a strict upload by any conformant client returns exactly
    them; every other entry that had the value `val` before still uploads as `val`. -/
theorem stored_value_survives (v : Rsv) (s : Srv) (n n' : Node) (idx sub : Nat) (data : Bytes)
    (post : List Bytes) (hwf : SrvWF s) (hidx : idx < 65536) (hsub : sub < 256) (hlen : data.length < 2 ^ 32)
    (hset : setData n (some idx) (some sub) data true = .ok n')
    (hcb : lookup (idx, sub) n.readCb = none)
    (hr : ∀ obj, findObject n (some idx) (some sub) = .ok obj → accReadable obj.access = true)
    (hin : ∀ f ∈ post, mayWrite f = false) (hne : ∀ f ∈ post, f ≠ []) :
    (srvRun s n' post).2.1 = n' ∧
    (∃ s', refUploadS v (srvRun s n' post).1 (srvRun s n' post).2.1 idx sub = (s', n', .ok data) ∧ SrvWF s') ∧
    (∀ i j val, (i, j) ≠ (idx, sub) → i < 65536 → j < 256 → val.length < 2 ^ 32 →
      getData n i j true = .ok val →
      ∃ s', refUploadS v (srvRun s n' post).1 (srvRun s n' post).2.1 i j = (s', n', .ok val) ∧ SrvWF s') := by
  have hn := inert_history_keeps_node post hin s n'
  have hwf' := (history_safe n' post hne s hwf).1
  refine ⟨hn, ?_, ?_⟩
  · rw [hn]
    exact download_then_upload_styles v _ n n' idx sub data hwf' hidx hsub hlen hset hcb hr
  · intro i j val hij hi hj hl hv
    rw [hn]
    exact upload_exact_styles v _ n' i j val hwf' hi hj
      (by rw [download_leaves_others n n' idx sub data hset i j true hij]; exact hv) hl

/-! ## non-vacuity -/

/-- a VISIBLE_STRING, an OCTET_STRING, a DOMAIN, an entry without a data type, an UNSIGNED32 -/
def exNodeS : Node :=
  { od := [(0x2000, .var ⟨some 0x09, 0, none, none⟩), (0x2001, .var ⟨some 0x0A, 0, none, none⟩),
           (0x2002, .var ⟨some 0x0F, 0, none, none⟩), (0x2003, .var ⟨none, 0, none, none⟩),
           (0x2004, .var ⟨some 0x07, 0, none, none⟩)],
    store := [], readCb := [], writeLog := [] }

def exRsv : Rsv := ⟨0x1F, [0xA5, 0x5A, 0xFF, 0x01, 0x02, 0x03, 0x04]⟩

-- the hypotheses of `unsized_expedited_stores_four` / `download_exact_styles` are satisfiable:
-- every one of these entries accepts four bytes …
example : ∀ i ∈ [0x2000, 0x2001, 0x2002, 0x2003, 0x2004],
    ∃ n', setData exNodeS (some i) (some 0) [0x11, 0x22, 0x33, 0x44] true = .ok n' := by
  intro i hi
  simp only [List.mem_cons, List.not_mem_nil, or_false] at hi
  rcases hi with rfl | rfl | rfl | rfl | rfl <;> exact ⟨_, rfl⟩
-- … the frame 22 00 20 00 11 22 33 44 is of the kind the theorem speaks about …
example : (0x22 &&& 0xE0 = REQUEST_DOWNLOAD) ∧ 0x22 &&& EXPEDITED ≠ 0 ∧ 0x22 &&& SIZE_SPECIFIED = 0 := by decide
-- … and the conclusion, computed: all four bytes are stored, in every style
example : (srvStep srvInit exNodeS (0x22 :: (mux 0x2000 0 ++ [0x11, 0x22, 0x33, 0x44]))).node.store =
    [((0x2000, 0), [0x11, 0x22, 0x33, 0x44])] := by decide
example : ∀ st ∈ [DownStyle.expSized, .expUnsized, .segSized, .segUnsized],
    (refDownloadS exRsv srvInit exNodeS 0x2002 0 [0x11, 0x22, 0x33, 0x44] st [2, 1]).2.1.store =
      [((0x2002, 0), [0x11, 0x22, 0x33, 0x44])] := by decide
example : effStyle .expUnsized 4 = .expUnsized ∧ effStyle .expUnsized 5 = .segUnsized ∧
    effStyle .expSized 3 = .expSized ∧ effStyle .expSized 0 = .segSized := by decide
-- stray segments of either toggle, an upload request, a segmented initiate, junk: none of them may write
example : ∀ f ∈ [[0x00, 0x58, 0x59, 0x5A, 0, 0, 0, 0], [0x10, 0x58, 0x59, 0x5A, 0, 0, 0, 0], [0x40, 0, 0x20, 0, 0, 0, 0, 0],
    [0x21, 0, 0x20, 0, 9, 0, 0, 0], [0xE0], [0x80, 0, 0, 0, 0, 0, 0, 0]], mayWrite f = false ∧ f ≠ [] := by decide
example : mayWrite [0x01, 0x58] = true ∧ mayWrite [0x22, 0, 0x20, 0, 1, 2, 3, 4] = true := by decide
-- after a segmented download of ten bytes a stray segment with the expected toggle is acknowledged, yet the node
-- still holds the ten bytes
example :
    let r := refDownloadS exRsv srvInit exNodeS 0x2001 0 [0, 1, 2, 3, 4, 5, 6, 7, 8, 9] .segSized [7]
    let o := srvStep r.1 r.2.1 [0x00, 0x58, 0x59, 0x5A, 0, 0, 0, 0]
    o.sent = [[0x20, 0, 0, 0, 0, 0, 0, 0]] ∧ o.node.store = [((0x2001, 0), [0, 1, 2, 3, 4, 5, 6, 7, 8, 9])] := by decide
example : ∃ s', refUploadS exRsv srvInit exNode 0x2000 0 = (s', exNode, .ok [1, 2, 3, 4, 5, 6, 7, 8, 9]) ∧ SrvWF s' :=
  upload_exact_styles exRsv srvInit exNode 0x2000 0 _ srvInit_wf (by decide) (by decide) rfl (by decide)

end Canopen.C02
