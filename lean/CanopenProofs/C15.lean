/-
C15 — A PDO value set by the producer is the value the consumer reads.

Theorems about `CanopenModel/Pdo/Exchange.lean` (model of `PdoMap.on_message / transmit /
remote_request / subscribe / wait_for_reception` and of the network's dispatch by COB-ID),
composed with the C05 bit-field theorems for the variables inside a frame.
-/
import CanopenModel.Pdo.Exchange
import CanopenProofs.C05
import Mathlib.Data.List.Nodup

namespace Canopen.C15
open Canopen Canopen.Codec Canopen.Pdo Canopen.C04 Canopen.C05

/-! ## one map -/

/-- **Transmission sends exactly the map's COB-ID and current data.** -/
theorem transmit_frame (m : PMap) (c : Nat) (h : m.cobId = some c) : transmit m = some (c, m.data) := by
  simp [transmit, h]

/-- **A remote request is sent only for an enabled map that allows RTR** (and then on the map's
    COB-ID, as a remote frame without data). -/
theorem rtr_only_if_enabled_and_allowed (m : PMap) :
    (remoteRequest m ≠ none ↔ (m.enabled = true ∧ m.rtrAllowed = true)) ∧
    (m.enabled = true → m.rtrAllowed = true → remoteRequest m = some m.cobId) := by
  unfold remoteRequest
  constructor
  · by_cases h : m.enabled = true ∧ m.rtrAllowed = true <;> simp [h]
  · intro h1 h2; simp [h1, h2]

/-- **A received frame updates only a map configured for its COB-ID** (and not one that is itself
    transmitting): any other frame leaves the map exactly as it was and invokes no callback. -/
theorem only_subscribed_map_updates (m : PMap) (canId : Nat) (data : Bytes) (ts : Int)
    (h : m.cobId ≠ some canId ∨ m.transmitting = true) : onMessage m canId data ts = (m, []) := by
  unfold onMessage
  rcases h with h | h
  · simp [h]
  · simp [h]

/-- **An accepted frame: data and timestamp taken over, every callback once, in order.** -/
theorem callbacks_once (m : PMap) (canId : Nat) (data : Bytes) (ts : Int)
    (hc : m.cobId = some canId) (ht : m.transmitting = false) :
    (onMessage m canId data ts).2 = m.callbacks ∧
    (onMessage m canId data ts).1.data = data ∧
    (onMessage m canId data ts).1.timestamp = some ts ∧
    (onMessage m canId data ts).1.isReceived = true ∧
    (onMessage m canId data ts).1.layout = m.layout ∧
    (onMessage m canId data ts).1.callbacks = m.callbacks ∧
    (∀ t0, m.timestamp = some t0 → (onMessage m canId data ts).1.period = some (ts - t0)) := by
  unfold onMessage
  have hcond : m.cobId = some canId ∧ ¬ m.transmitting = true := ⟨hc, by simp [ht]⟩
  rw [if_pos hcond]
  refine ⟨rfl, rfl, rfl, rfl, rfl, rfl, ?_⟩
  intro t0 h0
  simp [h0]

/-! ## dispatch on the consumer's network -/

theorem deliverTo_other (maps : List PMap) (k j : Nat) (canId : Nat) (data : Bytes) (ts : Int) (h : j ≠ k) :
    (deliverTo maps k canId data ts).1[j]? = maps[j]? := by
  unfold deliverTo
  cases hk : maps[k]? with
  | none => rfl
  | some m => simp [List.getElem?_set, h.symm]

theorem deliverTo_self (maps : List PMap) (k : Nat) (m : PMap) (canId : Nat) (data : Bytes) (ts : Int)
    (hk : maps[k]? = some m) :
    (deliverTo maps k canId data ts).1[k]? = some (onMessage m canId data ts).1 ∧
    (deliverTo maps k canId data ts).2 = (onMessage m canId data ts).2.map fun cb => (k, cb) := by
  unfold deliverTo
  have hlt : k < maps.length := by
    rcases List.getElem?_eq_some_iff.mp hk with ⟨h, _⟩; exact h
  rw [hk]
  simp [List.getElem?_set, hlt]

/-- folding deliveries over a duplicate-free target list: each target map is delivered to once,
    every other map is untouched -/
theorem fold_deliver (canId : Nat) (data : Bytes) (ts : Int) :
    ∀ (ks : List Nat) (maps : List PMap) (log : List (Nat × Nat)), ks.Nodup →
      let r := ks.foldl (fun (acc : List PMap × List (Nat × Nat)) k =>
        ((deliverTo acc.1 k canId data ts).1, acc.2 ++ (deliverTo acc.1 k canId data ts).2)) (maps, log)
      (∀ j, j ∉ ks → r.1[j]? = maps[j]?) ∧
      (∀ j m, j ∈ ks → maps[j]? = some m → r.1[j]? = some (onMessage m canId data ts).1) ∧
      r.2 = log ++ ks.flatMap fun k =>
        match maps[k]? with
        | some m => (onMessage m canId data ts).2.map fun cb => (k, cb)
        | none => [] := by
  intro ks
  induction ks with
  | nil => intro maps log _; simp
  | cons k ks ih =>
    intro maps log hnd
    have hk : k ∉ ks := (List.nodup_cons.mp hnd).1
    have hnd' : ks.Nodup := (List.nodup_cons.mp hnd).2
    simp only [List.foldl_cons]
    obtain ⟨i1, i2, i3⟩ := ih (deliverTo maps k canId data ts).1 (log ++ (deliverTo maps k canId data ts).2) hnd'
    refine ⟨?_, ?_, ?_⟩
    · intro j hj
      have hjk : j ≠ k := fun h => hj (by simp [h])
      have hjks : j ∉ ks := fun h => hj (by simp [h])
      rw [i1 j hjks, deliverTo_other maps k j canId data ts hjk]
    · intro j m hj hm
      rcases List.mem_cons.mp hj with rfl | hj'
      · rw [i1 j hk]
        exact (deliverTo_self maps j m canId data ts hm).1
      · have hjk : j ≠ k := fun h => hk (h ▸ hj')
        exact i2 j m hj' (by rw [deliverTo_other maps k j canId data ts hjk]; exact hm)
    · rw [i3]
      simp only [List.flatMap_cons, List.append_assoc]
      congr 1
      congr 1
      · cases hm : maps[k]? with
        | none => simp [deliverTo, hm]
        | some m => exact (deliverTo_self maps k m canId data ts hm).2
      · apply List.flatMap_congr
        intro j hj
        have hjk : j ≠ k := fun h => hk (h ▸ hj)
        rw [deliverTo_other maps k j canId data ts hjk]

/-- the consumer maps subscribed on `canId`, in subscription order -/
def targets (c : Consumer) (canId : Nat) : List Nat := (c.subs.filter fun s => s.1 = canId).map (·.2)

theorem notify_eq (c : Consumer) (canId : Nat) (data : Bytes) (ts : Int) :
    notify c canId data ts =
      let r := (targets c canId).foldl (fun (acc : List PMap × List (Nat × Nat)) k =>
        ((deliverTo acc.1 k canId data ts).1, acc.2 ++ (deliverTo acc.1 k canId data ts).2)) (c.maps, [])
      ({ c with maps := r.1 }, r.2) := by
  simp [notify, targets]

/-- **A received frame updates exactly the maps subscribed to its COB-ID**: a map not subscribed
    on that id is untouched; a subscribed map is handed the frame once (and takes it iff it is
    configured for that COB-ID and not transmitting — with colliding COB-IDs, all of them); the
    callbacks invoked are those of the accepting maps, each once, in subscription order. -/
theorem notify_updates_exactly_subscribed (c : Consumer) (canId : Nat) (data : Bytes) (ts : Int)
    (hnd : (targets c canId).Nodup) :
    (∀ j, j ∉ targets c canId → (notify c canId data ts).1.maps[j]? = c.maps[j]?) ∧
    (∀ j m, j ∈ targets c canId → c.maps[j]? = some m →
      (notify c canId data ts).1.maps[j]? = some (onMessage m canId data ts).1) ∧
    (notify c canId data ts).2 = (targets c canId).flatMap (fun k =>
        match c.maps[k]? with
        | some m => (onMessage m canId data ts).2.map fun cb => (k, cb)
        | none => []) ∧
    (notify c canId data ts).1.subs = c.subs := by
  rw [notify_eq]
  obtain ⟨h1, h2, h3⟩ := fold_deliver canId data ts (targets c canId) c.maps [] hnd
  exact ⟨h1, h2, by simpa using h3, rfl⟩

/-- `subscribe()` never duplicates an entry, so target lists stay duplicate-free -/
theorem subscribe_nodup (c : Consumer) (k : Nat) (h : c.subs.Nodup) : (subscribeMap c k).subs.Nodup := by
  unfold subscribeMap
  split
  · split
    · split
      · exact h
      · rename_i m _ _ cob _ _ hc
        have hnot : (cob, k) ∉ c.subs := by simpa using hc
        refine List.nodup_append.mpr ⟨h, by simp, ?_⟩
        intro a ha b hb
        simp only [List.mem_singleton] at hb
        subst hb
        intro hab
        subst hab
        exact hnot ha
    · exact h
  · exact h

theorem targets_nodup (c : Consumer) (canId : Nat) (h : c.subs.Nodup) : (targets c canId).Nodup := by
  unfold targets
  apply List.Nodup.map_on
  · intro a ha b hb hab
    simp only [List.mem_filter, decide_eq_true_eq] at ha hb
    exact Prod.ext (by rw [ha.2, hb.2]) hab
  · exact h.filter _

/-! ## producer → consumer -/

/-- reading depends only on layout and data -/
theorem readVar_congr (m m' : PMap) (i : Nat) (hl : m'.layout = m.layout) (hd : m'.data = m.data) :
    readVar m' i = readVar m i := by
  simp [readVar, lens, hl, hd]

/-- **What the producer wrote is what the consumer reads.**  Producer map and consumer map share
    layout and COB-ID; the consumer map is subscribed on that COB-ID and not transmitting.  After
    the producer's frame is delivered, *every* variable of the consumer map reads exactly what the
    same variable reads on the producer (which by `writes_then_read` is the last value written to
    it), the map carries the frame's timestamp, and each of its callbacks ran once, in order. -/
theorem producer_consumer (pm cm : PMap) (c : Consumer) (k cob : Nat) (ts : Int)
    (hnd : c.subs.Nodup) (hk : c.maps[k]? = some cm) (hsub : (cob, k) ∈ c.subs)
    (hpc : pm.cobId = some cob) (hcc : cm.cobId = some cob) (hlay : cm.layout = pm.layout)
    (htr : cm.transmitting = false) :
    ∃ cm', transmit pm = some (cob, pm.data) ∧
      (notify c cob pm.data ts).1.maps[k]? = some cm' ∧
      (∀ i, readVar cm' i = readVar pm i) ∧ cm'.timestamp = some ts ∧
      ((notify c cob pm.data ts).2.filter fun (e : Nat × Nat) => e.1 = k) = cm.callbacks.map fun cb => (k, cb) := by
  have hkt : k ∈ targets c cob := by
    simp only [targets, List.mem_map, List.mem_filter, decide_eq_true_eq]
    exact ⟨(cob, k), ⟨hsub, rfl⟩, rfl⟩
  have htn := targets_nodup c cob hnd
  obtain ⟨_, h2, h3, _⟩ := notify_updates_exactly_subscribed c cob pm.data ts htn
  obtain ⟨c1, c2, c3, _, c5, _, _⟩ := callbacks_once cm cob pm.data ts hcc htr
  refine ⟨(onMessage cm cob pm.data ts).1, transmit_frame pm cob hpc, h2 k cm hkt hk, ?_, c3, ?_⟩
  · intro i
    exact readVar_congr pm _ i (by rw [c5, hlay]) c2
  · rw [h3]
    -- only target k contributes entries tagged k, and it occurs once
    have : ∀ (ks : List Nat), ks.Nodup → k ∈ ks →
        ((ks.flatMap fun j => match c.maps[j]? with
            | some m => (onMessage m cob pm.data ts).2.map fun cb => (j, cb)
            | none => []).filter fun (e : Nat × Nat) => e.1 = k) = cm.callbacks.map fun cb => (k, cb) := by
      intro ks
      induction ks with
      | nil => intro _ h; simp at h
      | cons j js ih =>
        intro hn hm
        have hj : j ∉ js := (List.nodup_cons.mp hn).1
        have hn' := (List.nodup_cons.mp hn).2
        simp only [List.flatMap_cons, List.filter_append]
        rcases List.mem_cons.mp hm with rfl | hm'
        · rw [hk]
          simp only [c1]
          have hrest : ((js.flatMap fun j => match c.maps[j]? with
              | some m => (onMessage m cob pm.data ts).2.map fun cb => (j, cb)
              | none => []).filter fun (e : Nat × Nat) => e.1 = k) = [] := by
            apply List.filter_eq_nil_iff.mpr
            intro e he
            simp only [List.mem_flatMap] at he
            obtain ⟨j, hj', he'⟩ := he
            have : j ≠ k := fun h => hj (h ▸ hj')
            cases hm : c.maps[j]? with
            | none => simp [hm] at he'
            | some m =>
              simp only [hm, List.mem_map] at he'
              obtain ⟨cb, _, rfl⟩ := he'
              simpa using this
          rw [hrest, List.append_nil]
          simp [List.filter_map, Function.comp_def]
        · have hjk : j ≠ k := fun h => hj (h ▸ hm')
          have hhead : ((match c.maps[j]? with
              | some m => (onMessage m cob pm.data ts).2.map fun cb => (j, cb)
              | none => []).filter fun (e : Nat × Nat) => e.1 = k) = [] := by
            apply List.filter_eq_nil_iff.mpr
            intro e he
            cases hm : c.maps[j]? with
            | none => simp [hm] at he
            | some m =>
              simp only [hm, List.mem_map] at he
              obtain ⟨cb, _, rfl⟩ := he
              simpa using hjk
          rw [hhead, List.nil_append]
          exact ih hn' hm'
    exact this (targets c cob) htn hkt

/-! ## what a producer variable holds after a sequence of writes -/

/-- every mapped object is an integer object mapped with 1..width bits, full width when the
    length is a whole number of bytes (the layouts of the property; BOOLEAN and REAL entries are
    covered by C05 `read_bool_real` and the differential run) -/
def ValidLayout (layout : List (Nat × Nat)) : Prop :=
  ∀ p ∈ layout, ∃ e ∈ intTypes, e.1 = p.1 ∧ 0 < p.2 ∧ p.2 ≤ e.2.1 ∧ (p.2 % 8 = 0 → p.2 = e.2.1)

structure GoodMap (m : PMap) : Prop where
  valid : ValidLayout m.layout
  bytes : AllBytes m.data
  size : m.data.length = dataSize (lens m)

/-- what a variable of `len` bits of a type with signedness `s` reads after `v` was written -/
def stored (s : Bool) (len : Nat) (v : Int) : Int :=
  if s then toSigned len (ofSigned len v) else (ofSigned len v : Int)

theorem offs_fit (ls : List Nat) (i : Nat) (hi : i < ls.length) :
    (offsets ls)[i]'(by rw [offsets_length]; exact hi) + ls[i] ≤ 8 * dataSize ls := by
  rw [offsets_getElem ls i hi, ← sum_take_succ ls i hi]
  have := sum_take_le ls (i + 1) ls.length (by omega)
  simp only [List.take_length] at this
  unfold dataSize
  omega

theorem offs_disjoint' (ls : List Nat) (i j : Nat) (hi : i < ls.length) (hj : j < ls.length) (hne : i ≠ j) :
    (offsets ls)[j]'(by rw [offsets_length]; exact hj) + ls[j] ≤ (offsets ls)[i]'(by rw [offsets_length]; exact hi) ∨
    (offsets ls)[i]'(by rw [offsets_length]; exact hi) + ls[i] ≤ (offsets ls)[j]'(by rw [offsets_length]; exact hj) := by
  rcases Nat.lt_or_gt_of_ne hne with h | h
  · right; exact (offsets_disjoint ls i j h hj).1
  · left; exact (offsets_disjoint ls j i h hi).1

/-- one typed write on the producer: the written variable reads the value back (its low bits,
    sign-extended), every other variable reads what it read before, the map stays well-formed -/
theorem write_then_read (m : PMap) (hg : GoodMap m) (i : Nat) (t len : Nat) (e : Nat × Nat × Bool)
    (hl : m.layout[i]? = some (t, len)) (he : e ∈ intTypes) (het : e.1 = t) (v : Int)
    (hv : inRange e.2.1 e.2.2 v = true) :
    ∃ m', writeVar m i (.int v) = some m' ∧ GoodMap m' ∧ m'.layout = m.layout ∧ m'.cobId = m.cobId ∧
      readVar m' i = some (.int (stored e.2.2 len v)) ∧
      (∀ j, j ≠ i → ∀ tj lj ej, m.layout[j]? = some (tj, lj) → ej ∈ intTypes → ej.1 = tj →
        readVar m' j = readVar m j) := by
  have hil : i < m.layout.length := by
    rcases List.getElem?_eq_some_iff.mp hl with ⟨h, _⟩; exact h
  have hget : m.layout[i] = (t, len) := by
    rcases List.getElem?_eq_some_iff.mp hl with ⟨_, h⟩; exact h
  have hlens : (lens m).length = m.layout.length := by simp [lens]
  have hli : i < (lens m).length := by rw [hlens]; exact hil
  have hleni : (lens m)[i] = len := by simp [lens, hget]
  obtain ⟨e', he', het', hlen0, hlenw, hal⟩ := hg.valid (t, len) (List.mem_of_getElem? hl)
  -- the same type row (data type numbers are unique in the table)
  have hee : e' = e := by
    have hu : ∀ a ∈ intTypes, ∀ b ∈ intTypes, a.1 = b.1 → a = b := by decide
    exact hu e' he' e he (by rw [het', het])
  subst hee
  dsimp only at hlen0 hlenw hal
  have hoff : (offsets (lens m))[i]? = some ((offsets (lens m))[i]'(by rw [offsets_length]; exact hli)) :=
    List.getElem?_eq_getElem _
  generalize hoffv : (offsets (lens m))[i]'(by rw [offsets_length]; exact hli) = off at hoff
  have hfit : off + len ≤ 8 * m.data.length := by
    have := offs_fit (lens m) i hli
    rw [hoffv, hleni] at this
    rw [hg.size]; exact this
  obtain ⟨new, hw, hrd, hrd2⟩ := get_set e' he' m.data off len v hg.bytes hlen0 hlenw
    (fun h => hal h.2) hfit hv
  obtain ⟨new', hw', hnl, hnb, _, hother⟩ := write_sets_low_bits e' he' m.data off len v hg.bytes hlenw
    (fun h => hal h.2) hfit hv
  have hnn : new' = new := by rw [hw] at hw'; exact (Option.some.inj hw').symm
  subst hnn
  refine ⟨{ m with data := new' }, ?_, ⟨hg.valid, hnb, by simp only [lens] at *; rw [hnl]; exact hg.size⟩, rfl, rfl, ?_, ?_⟩
  · simp only [writeVar, hl, hoff, ← het, hw, Option.map_some]
  · simp only [readVar, show lens { m with data := new' } = lens m from rfl, hl, hoff]
    rw [← het, hrd]
    rfl
  · intro j hji tj lj ej hlj hej hetj
    have hjl : j < m.layout.length := by
      rcases List.getElem?_eq_some_iff.mp hlj with ⟨h, _⟩; exact h
    have hgetj : m.layout[j] = (tj, lj) := by
      rcases List.getElem?_eq_some_iff.mp hlj with ⟨_, h⟩; exact h
    have hlj' : j < (lens m).length := by rw [hlens]; exact hjl
    have hlenj : (lens m)[j] = lj := by simp [lens, hgetj]
    obtain ⟨ej', hej', hetj', hlj0, hljw, halj⟩ := hg.valid (tj, lj) (List.mem_of_getElem? hlj)
    have hee : ej' = ej := by
      have hu : ∀ a ∈ intTypes, ∀ b ∈ intTypes, a.1 = b.1 → a = b := by decide
      exact hu ej' hej' ej hej (by rw [hetj', hetj])
    subst hee
    dsimp only at hlj0 hljw halj
    have hoffj : (offsets (lens m))[j]? = some ((offsets (lens m))[j]'(by rw [offsets_length]; exact hlj')) :=
      List.getElem?_eq_getElem _
    generalize hoffjv : (offsets (lens m))[j]'(by rw [offsets_length]; exact hlj') = offj at hoffj
    have hfitj : offj + lj ≤ 8 * m.data.length := by
      have := offs_fit (lens m) j hlj'
      rw [hoffjv, hlenj] at this
      rw [hg.size]; exact this
    have hdis := offs_disjoint' (lens m) i j hli hlj' (Ne.symm hji)
    rw [hoffv, hoffjv, hleni, hlenj] at hdis
    simp only [readVar, show lens { m with data := new' } = lens m from rfl, hlj, hoffj]
    rw [← hetj]
    rw [read_is_typed_field ej' hej' new' offj lj hnb hlj0 hljw (fun h => halj h.2) (by rw [hnl]; exact hfitj),
      read_is_typed_field ej' hej' m.data offj lj hg.bytes hlj0 hljw (fun h => halj h.2) hfitj]
    have hfield : field (leVal new') offj lj = field (leVal m.data) offj lj := by
      apply Nat.eq_of_testBit_eq
      intro b
      rw [field_testBit, field_testBit]
      by_cases hb : b < lj
      · have : ¬ (off ≤ offj + b ∧ offj + b < off + len) := by omega
        rw [hother _ this]
      · simp [hb]
    rw [hfield]

/-! ## periodic transmission (`start` / `stop` / `update`) does not change what `transmit` sends -/

/-- **Transmission sends exactly one frame with the map's COB-ID and current data whatever the
    periodic state**: for any value of the running flag (and of the period attribute) `transmit`
    hands `(cob, data)` to the bus. -/
theorem transmit_any_running (m : PMap) (c : Nat) (r p : Option Int) (h : m.cobId = some c) :
    transmit { m with running := r, period := p } = some (c, m.data) := by
  simp [transmit, h]

theorem transmit_core (m : PMap) : transmit (core m) = transmit m := rfl
theorem readVar_core (m : PMap) (i : Nat) : readVar (core m) i = readVar m i := rfl
theorem remoteRequest_core (m : PMap) : remoteRequest (core m) = remoteRequest m := rfl

/-- a periodic-transmission call touches nothing but the running flag and the period -/
theorem core_ctl (m : PMap) (c : Ctl) : core (ctl m c) = core m := by
  cases c with
  | start p =>
    simp only [ctl, start]
    split
    · split <;> rfl
    · rfl
  | stop => rfl
  | update => rfl

/-- a typed write does not look at the periodic state -/
theorem core_write (m : PMap) (i : Nat) (v : Val) :
    core ((writeVar m i v).getD m) = (writeVar (core m) i v).getD (core m) := by
  unfold writeVar
  have hl : lens (core m) = lens m := rfl
  have hy : (core m).layout = m.layout := rfl
  have hd : (core m).data = m.data := rfl
  rw [hl, hy, hd]
  cases m.layout[i]? with
  | none => rfl
  | some tl =>
    obtain ⟨t, len⟩ := tl
    cases (offsets (lens m))[i]? with
    | none => rfl
    | some off =>
      dsimp only
      cases writeRaw m.data (some t) off len v with
      | none => rfl
      | some d => rfl

theorem core_pstep (m m' : PMap) (s : PStep) (h : core m = core m') :
    core (pstep m s) = core (if s.isWrite then pstep m' s else m') := by
  cases s with
  | write i v =>
    simp only [pstep, PStep.isWrite, if_true]
    rw [core_write, core_write, h]
  | ctl c =>
    simp only [pstep, PStep.isWrite]
    rw [core_ctl]
    exact h

theorem core_runP : ∀ (steps : List PStep) (m m' : PMap), core m = core m' →
    core (runP m steps) = core (runP m' (steps.filter PStep.isWrite)) := by
  intro steps
  induction steps with
  | nil => intro m m' h; exact h
  | cons s rest ih =>
    intro m m' h
    have hs := core_pstep m m' s h
    cases hw : s.isWrite with
    | true =>
      rw [hw] at hs
      simp only [runP, List.foldl_cons, List.filter_cons, hw, if_true] at *
      exact ih _ _ hs
    | false =>
      rw [hw] at hs
      simp only [runP, List.foldl_cons, List.filter_cons, hw] at *
      exact ih _ _ hs

/-- **Any history of writes and `start` / `stop` / `update` calls on a producer map leaves the map
    exactly as the same history with every periodic call erased** — up to the running flag and the
    period attribute themselves. -/
theorem periodic_calls_erased (m : PMap) (steps : List PStep) :
    core (runP m steps) = core (runP m (steps.filter PStep.isWrite)) :=
  core_runP steps m m rfl

/-- **The frame `transmit` sends, every variable's reading and the remote-request decision after a
    history are those of the history without its periodic calls**: a running periodic transmission
    neither suppresses nor alters the single-shot frame. -/
theorem transmit_independent_of_periodic (m : PMap) (steps : List PStep) :
    transmit (runP m steps) = transmit (runP m (steps.filter PStep.isWrite)) ∧
    (∀ i, readVar (runP m steps) i = readVar (runP m (steps.filter PStep.isWrite)) i) ∧
    remoteRequest (runP m steps) = remoteRequest (runP m (steps.filter PStep.isWrite)) := by
  have h := periodic_calls_erased m steps
  refine ⟨?_, ?_, ?_⟩
  · rw [← transmit_core, h, transmit_core]
  · intro i; rw [← readVar_core, h, readVar_core]
  · rw [← remoteRequest_core, h, remoteRequest_core]

/-- the COB-ID and the layout survive every step -/
theorem runP_cob_layout : ∀ (steps : List PStep) (m : PMap),
    (runP m steps).cobId = m.cobId ∧ (runP m steps).layout = m.layout := by
  intro steps
  induction steps with
  | nil => intro m; exact ⟨rfl, rfl⟩
  | cons s rest ih =>
    intro m
    have hs : (pstep m s).cobId = m.cobId ∧ (pstep m s).layout = m.layout := by
      cases s with
      | write i v =>
        simp only [pstep, writeVar]
        cases m.layout[i]? with
        | none => exact ⟨rfl, rfl⟩
        | some tl =>
          obtain ⟨t, len⟩ := tl
          cases (offsets (lens m))[i]? with
          | none => exact ⟨rfl, rfl⟩
          | some off =>
            dsimp only
            cases writeRaw m.data (some t) off len v with
            | none => exact ⟨rfl, rfl⟩
            | some d => exact ⟨rfl, rfl⟩
      | ctl c =>
        have := congrArg PMap.cobId (core_ctl m c)
        have h2 := congrArg PMap.layout (core_ctl m c)
        exact ⟨this, h2⟩
    obtain ⟨i1, i2⟩ := ih (pstep m s)
    simp only [runP, List.foldl_cons] at *
    exact ⟨i1.trans hs.1, i2.trans hs.2⟩

/-- **Producer → consumer with periodic transmission in the history.**  The producer map went
    through any history of typed writes interleaved with `start(period)` / `stop()` / `update()`
    calls (so a periodic task may or may not be running when `transmit()` is called).  `transmit`
    sends one frame: the COB-ID and exactly the data the writes alone produce; delivered to a
    subscribed consumer map of the same layout, every variable there reads what the producer's
    variable holds after the writes alone, with the frame's timestamp. -/
theorem producer_consumer_periodic (pm cm : PMap) (steps : List PStep) (c : Consumer) (k cob : Nat) (ts : Int)
    (hnd : c.subs.Nodup) (hk : c.maps[k]? = some cm) (hsub : (cob, k) ∈ c.subs)
    (hpc : pm.cobId = some cob) (hcc : cm.cobId = some cob) (hlay : cm.layout = pm.layout)
    (htr : cm.transmitting = false) :
    ∃ cm', transmit (runP pm steps) = some (cob, (runP pm (steps.filter PStep.isWrite)).data) ∧
      (notify c cob (runP pm (steps.filter PStep.isWrite)).data ts).1.maps[k]? = some cm' ∧
      (∀ i, readVar cm' i = readVar (runP pm (steps.filter PStep.isWrite)) i) ∧ cm'.timestamp = some ts := by
  obtain ⟨h1, _, _⟩ := transmit_independent_of_periodic pm steps
  obtain ⟨hc0, hl0⟩ := runP_cob_layout (steps.filter PStep.isWrite) pm
  obtain ⟨cm', t1, t2, t3, t4, _⟩ := producer_consumer (runP pm (steps.filter PStep.isWrite)) cm c k cob ts
    hnd hk hsub (by rw [hc0, hpc]) hcc (by rw [hl0, hlay]) htr
  exact ⟨cm', by rw [h1, t1], t2, t3, t4⟩

/-- **The consuming side**: a map whose periodic transmission was started ignores frames; after
    `stop()` it takes the next frame for its COB-ID — data, timestamp, callbacks once each — as if
    it had never transmitted. -/
theorem start_stop_reception (m : PMap) (p : Option Int) (canId : Nat) (data : Bytes) (ts : Int) :
    ((start m p).2 = true → onMessage (start m p).1 canId data ts = ((start m p).1, [])) ∧
    (m.cobId = some canId →
      (onMessage (stop (start m p).1) canId data ts).2 = m.callbacks ∧
      (onMessage (stop (start m p).1) canId data ts).1.data = data ∧
      (onMessage (stop (start m p).1) canId data ts).1.timestamp = some ts) := by
  constructor
  · intro h
    apply only_subscribed_map_updates
    right
    unfold start at h ⊢
    split at h
    · split at h
      · simp at h
      · simp [*, PMap.transmitting]
    · simp at h
  · intro hc
    have hc' : (stop (start m p).1).cobId = some canId := by
      have := congrArg PMap.cobId (core_ctl m (.start p))
      simpa [ctl, stop, core, hc] using this
    have hcb : (stop (start m p).1).callbacks = m.callbacks := by
      have := congrArg PMap.callbacks (core_ctl m (.start p))
      simpa [ctl, stop, core] using this
    obtain ⟨c1, c2, c3, _⟩ := callbacks_once (stop (start m p).1) canId data ts hc' rfl
    exact ⟨c1.trans hcb, c2, c3⟩

/-! ## waiting for reception -/

/-- **A waiting reader is woken by a frame for its map and gets that frame's timestamp; without
    one it gets nothing.**  (The wait is a function of what is delivered while waiting.) -/
theorem wait_wakes (c : Consumer) (k cob : Nat) (cm : PMap) (data : Bytes) (ts : Int)
    (hnd : c.subs.Nodup) (hk : c.maps[k]? = some cm) (hcc : cm.cobId = some cob)
    (htr : cm.transmitting = false) :
    (waitForReception c k []).2 = none ∧
    ((cob, k) ∈ c.subs → (waitForReception c k [(cob, data, ts)]).2 = some ts) ∧
    (∀ other, (other, k) ∉ c.subs ∨ other ≠ cob → (waitForReception c k [(other, data, ts)]).2 = none) := by
  have hklt : k < c.maps.length := by
    rcases List.getElem?_eq_some_iff.mp hk with ⟨h, _⟩; exact h
  -- the state in which the wait starts
  let c0 : Consumer := { c with maps := c.maps.set k { cm with isReceived := false } }
  have hk0 : c0.maps[k]? = some { cm with isReceived := false } := by
    simp [c0, List.getElem?_set, hklt]
  have hnd0 : c0.subs.Nodup := hnd
  refine ⟨?_, ?_, ?_⟩
  · simp [waitForReception, hk, List.getElem?_set, hklt]
  · intro hsub
    have hkt : k ∈ targets c0 cob := by
      simp only [targets, List.mem_map, List.mem_filter, decide_eq_true_eq]
      exact ⟨(cob, k), ⟨hsub, rfl⟩, rfl⟩
    obtain ⟨_, h2, _, _⟩ := notify_updates_exactly_subscribed c0 cob data ts (targets_nodup c0 cob hnd0)
    have := h2 k _ hkt hk0
    obtain ⟨_, _, c3, c4, _⟩ := callbacks_once { cm with isReceived := false } cob data ts hcc htr
    simp only [waitForReception, hk, List.foldl_cons, List.foldl_nil]
    show (match (notify c0 cob data ts).1.maps[k]? with
      | some m => ((notify c0 cob data ts).1, if m.isReceived then m.timestamp else none)
      | none => ((notify c0 cob data ts).1, none)).2 = some ts
    rw [this]
    simp [c3, c4]
  · intro other hoth
    simp only [waitForReception, hk, List.foldl_cons, List.foldl_nil]
    show (match (notify c0 other data ts).1.maps[k]? with
      | some m => ((notify c0 other data ts).1, if m.isReceived then m.timestamp else none)
      | none => ((notify c0 other data ts).1, none)).2 = none
    obtain ⟨h1, h2, _, _⟩ := notify_updates_exactly_subscribed c0 other data ts (targets_nodup c0 other hnd0)
    by_cases hkt : k ∈ targets c0 other
    · have hne : other ≠ cob := by
        rcases hoth with h | h
        · exfalso
          simp only [targets, List.mem_map, List.mem_filter, decide_eq_true_eq] at hkt
          obtain ⟨⟨a, b⟩, ⟨hm, ha⟩, hb⟩ := hkt
          simp only at ha hb
          subst ha hb
          exact h hm
        · exact h
      rw [h2 k _ hkt hk0,
        only_subscribed_map_updates { cm with isReceived := false } other data ts
          (Or.inl (by simp only [hcc]; intro h; exact hne (Option.some.inj h).symm))]
      simp
    · rw [h1 k hkt, hk0]
      simp

/-! ## non-vacuity -/

def exMap : PMap := mkMap (some 0x181) true true [(2, 4), (6, 16)]
example : GoodMap exMap := ⟨by intro p hp; simp [exMap, mkMap] at hp; rcases hp with rfl | rfl <;> decide, by decide, by decide⟩
example : (writeVar exMap 0 (.int (-3))).bind (fun m => readVar m 0) = some (.int (-3)) := by decide
example : ((writeVar exMap 0 (.int (-3))).bind (fun m => writeVar m 1 (.int 0xBEEF))).bind
    (fun m => readVar m 0) = some (.int (-3)) := by decide

/-- a history with a periodic task running when `transmit` is called: the frame is the one the
    writes alone give -/
def exSteps : List PStep :=
  [.ctl (.start (some 3600)), .write 0 (.int (-3)), .ctl .update, .write 1 (.int 0xBEEF), .ctl (.start none)]
example : (runP exMap exSteps).running = some 3600 := by decide
example : transmit (runP exMap exSteps) = some (0x181, [0xFD, 0xEE, 0x0B]) := by decide
example : transmit (runP exMap (exSteps.filter PStep.isWrite)) = some (0x181, [0xFD, 0xEE, 0x0B]) := by decide
example : (start exMap none).2 = false ∧ (start exMap (some 0)).2 = false ∧ (start exMap (some 5)).2 = true := by decide
example : (onMessage (start exMap (some 5)).1 0x181 [1, 2, 3] 7).2 = [] ∧
    (onMessage (stop (start exMap (some 5)).1) 0x181 [1, 2, 3] 7).1.data = [1, 2, 3] := by decide

end Canopen.C15
