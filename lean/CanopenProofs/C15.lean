/-
C15 — A PDO value set by the producer is the value the consumer reads.

Theorems about `CanopenModel/Pdo/Exchange.lean` (model of `PdoMap.on_message / transmit /
remote_request / subscribe / wait_for_reception` and of the network's dispatch by COB-ID),
composed with the C05 bit-field theorems for the variables inside a frame.
-/
import CanopenModel.Pdo.Exchange
import CanopenProofs.C05
import Mathlib.Data.List.Nodup

namespace Canopen.C15
open Canopen Canopen.Codec Canopen.Pdo Canopen.C04 Canopen.C05

/-! ## one map -/

/-- **Transmission sends exactly the map's COB-ID and current data.** -/
theorem transmit_frame (m : PMap) (c : Nat) (h : m.cobId = some c) : transmit m = some (c, m.data) := by
  simp [transmit, h]

/-- **A remote request is sent only for an enabled map that allows RTR** (and then on the map's
    COB-ID, as a remote frame without data). -/
theorem rtr_only_if_enabled_and_allowed (m : PMap) :
    (remoteRequest m ≠ none ↔ (m.enabled = true ∧ m.rtrAllowed = true)) ∧
    (m.enabled = true → m.rtrAllowed = true → remoteRequest m = some m.cobId) := by
  unfold remoteRequest
  constructor
  · by_cases h : m.enabled = true ∧ m.rtrAllowed = true <;> simp [h]
  · intro h1 h2; simp [h1, h2]

/-- **A received frame updates only a map configured for its COB-ID** (and not one that is itself
    transmitting): any other frame leaves the map exactly as it was, invokes no callback and wakes
    nobody. -/
theorem only_subscribed_map_updates (m : PMap) (canId : Nat) (data : Bytes) (ts : Int)
    (h : m.cobId ≠ some canId ∨ m.transmitting = true) :
    onMessage m canId data ts = { map := m, seen := [], woken := false, raised := false } := by
  unfold onMessage
  rcases h with h | h
  · simp [h]
  · simp [h]

/-- closed form of an accepted frame: the statements of the receive block in their order -/
theorem onMessage_accepted (m : PMap) (canId : Nat) (data : Bytes) (ts : Int)
    (hc : m.cobId = some canId) (ht : m.transmitting = false) :
    onMessage m canId data ts =
      { map := accept m data ts,
        seen := (invoked m.callbacks).map (fun cb => (cb.1, accept m data ts)),
        woken := true, raised := anyRaises m.callbacks } := by
  unfold onMessage
  rw [if_pos ⟨hc, by simp [ht]⟩]
  simp [onMessageOrder, runEffects, applyEffect, accept, newPeriod]

theorem invoked_of_no_raise : ∀ (cbs : List (Nat × Bool)), anyRaises cbs = false → invoked cbs = cbs := by
  intro cbs
  induction cbs with
  | nil => intro _; rfl
  | cons cb rest ih =>
    intro h
    simp only [anyRaises, List.any_cons, Bool.or_eq_false_iff] at h
    simp only [invoked, h.1, Bool.false_eq_true, if_false]
    rw [ih (by simpa [anyRaises] using h.2)]

/-- the callbacks invoked are a prefix of the registered ones, each at most once, in order -/
theorem invoked_prefix : ∀ (cbs : List (Nat × Bool)), ∃ rest, cbs = invoked cbs ++ rest := by
  intro cbs
  induction cbs with
  | nil => exact ⟨[], rfl⟩
  | cons cb rest ih =>
    obtain ⟨r, hr⟩ := ih
    by_cases h : cb.2 = true
    · exact ⟨rest, by simp [invoked, h]⟩
    · refine ⟨r, ?_⟩
      simp only [invoked, h, Bool.false_eq_true, if_false, List.cons_append]
      rw [← hr]

/-- **An accepted frame: data and timestamp taken over, the callbacks invoked in order — every one
    of them once when none raises, otherwise up to and including the first that raises.** -/
theorem callbacks_once (m : PMap) (canId : Nat) (data : Bytes) (ts : Int)
    (hc : m.cobId = some canId) (ht : m.transmitting = false) :
    (onMessage m canId data ts).seen.map (·.1) = (invoked m.callbacks).map (·.1) ∧
    (anyRaises m.callbacks = false → (onMessage m canId data ts).seen.map (·.1) = m.callbacks.map (·.1)) ∧
    (onMessage m canId data ts).map.data = data ∧
    (onMessage m canId data ts).map.timestamp = some ts ∧
    (onMessage m canId data ts).map.isReceived = true ∧
    (onMessage m canId data ts).map.layout = m.layout ∧
    (onMessage m canId data ts).map.callbacks = m.callbacks ∧
    (∀ t0, m.timestamp = some t0 → (onMessage m canId data ts).map.period = some (ts - t0)) := by
  rw [onMessage_accepted m canId data ts hc ht]
  refine ⟨by simp [Function.comp_def], ?_, rfl, rfl, rfl, rfl, rfl, ?_⟩
  · intro h
    rw [invoked_of_no_raise _ h]
    simp [Function.comp_def]
  · intro t0 h0
    simp [accept, newPeriod, h0]

/-- **Every callback invoked for a frame sees that frame**: the map it is handed is the map as
    `on_message` leaves it — the frame's data (so every mapped variable reads the frame's value), the
    frame's timestamp, `is_received` set, the period already updated. -/
theorem callback_sees_frame (m : PMap) (canId : Nat) (data : Bytes) (ts : Int) :
    ∀ e ∈ (onMessage m canId data ts).seen,
      e.2 = (onMessage m canId data ts).map ∧ e.2.data = data ∧ e.2.timestamp = some ts ∧
      e.2.isReceived = true ∧ e.2.period = newPeriod m ts ∧ (∀ i, readVar e.2 i = readVar (accept m data ts) i) := by
  intro e he
  by_cases hcond : m.cobId = some canId ∧ m.transmitting = false
  · rw [onMessage_accepted m canId data ts hcond.1 hcond.2] at he ⊢
    simp only [List.mem_map] at he
    obtain ⟨cb, _, rfl⟩ := he
    exact ⟨rfl, rfl, rfl, rfl, rfl, fun _ => rfl⟩
  · have : m.cobId ≠ some canId ∨ m.transmitting = true := by
      by_cases h1 : m.cobId = some canId
      · right
        cases h2 : m.transmitting with
        | true => rfl
        | false => exact absurd ⟨h1, h2⟩ hcond
      · left; exact h1
    rw [only_subscribed_map_updates m canId data ts this] at he
    simp at he

/-- **What reception leaves and whom it wakes does not depend on the callbacks or their outcomes**:
    with any other list of callbacks (raising or not) the map ends up the same (up to that list) and
    the waiting readers are notified. -/
theorem reception_independent_of_callbacks (m : PMap) (canId : Nat) (data : Bytes) (ts : Int)
    (hc : m.cobId = some canId) (ht : m.transmitting = false) (cbs : List (Nat × Bool)) :
    (onMessage { m with callbacks := cbs } canId data ts).map = { (onMessage m canId data ts).map with callbacks := cbs } ∧
    (onMessage { m with callbacks := cbs } canId data ts).woken = true ∧
    (onMessage m canId data ts).woken = true ∧
    (onMessage m canId data ts).map = accept m data ts := by
  rw [onMessage_accepted m canId data ts hc ht,
    onMessage_accepted { m with callbacks := cbs } canId data ts hc ht]
  exact ⟨rfl, rfl, rfl, rfl⟩

/-! ## dispatch on the consumer's network -/

/-- does delivering the frame to map `k` end in an exception? -/
def raisesAt (maps : List PMap) (canId : Nat) (data : Bytes) (ts : Int) (k : Nat) : Bool :=
  match maps[k]? with
  | some m => (onMessage m canId data ts).raised
  | none => false

/-- the invocations delivering the frame to map `k` causes -/
def callsOf (maps : List PMap) (canId : Nat) (data : Bytes) (ts : Int) (k : Nat) : List Call :=
  match maps[k]? with
  | some m => (onMessage m canId data ts).seen.map fun e => (k, e.1, e.2)
  | none => []

/-- the handlers a loop with early exit gets to: up to and including the first with `p` -/
def reach (p : Nat → Bool) : List Nat → List Nat
  | [] => []
  | k :: ks => if p k then [k] else k :: reach p ks

theorem reach_sublist (p : Nat → Bool) : ∀ ks, (reach p ks).Sublist ks := by
  intro ks
  induction ks with
  | nil => exact List.Sublist.slnil
  | cons k ks ih =>
    simp only [reach]
    split
    · exact (List.Sublist.cons₂ k (List.nil_sublist ks))
    · exact List.Sublist.cons₂ k ih

theorem reach_congr (p q : Nat → Bool) : ∀ ks, (∀ j ∈ ks, p j = q j) → reach p ks = reach q ks := by
  intro ks
  induction ks with
  | nil => intro _; rfl
  | cons k ks ih =>
    intro h
    simp only [reach]
    rw [h k (by simp), ih (fun j hj => h j (by simp [hj]))]

theorem reach_all (p : Nat → Bool) : ∀ ks, (∀ j ∈ ks, p j = false) → reach p ks = ks := by
  intro ks
  induction ks with
  | nil => intro _; rfl
  | cons k ks ih =>
    intro h
    simp only [reach, h k (by simp), Bool.false_eq_true, if_false]
    rw [ih (fun j hj => h j (by simp [hj]))]

theorem mem_reach (p : Nat → Bool) (k : Nat) : ∀ ks, k ∈ ks → (∀ j ∈ ks, j ≠ k → p j = false) → k ∈ reach p ks := by
  intro ks
  induction ks with
  | nil => intro h; simp at h
  | cons j js ih =>
    intro hk h
    simp only [reach]
    by_cases hjk : j = k
    · subst hjk
      split <;> simp
    · have hp : p j = false := h j (by simp) hjk
      simp only [hp, Bool.false_eq_true, if_false]
      rcases List.mem_cons.mp hk with rfl | hk'
      · exact absurd rfl hjk
      · exact List.mem_cons_of_mem _ (ih hk' (fun i hi => h i (by simp [hi])))

theorem deliverTo_other (maps : List PMap) (k j : Nat) (canId : Nat) (data : Bytes) (ts : Int) (h : j ≠ k) :
    (deliverTo maps k canId data ts).1[j]? = maps[j]? := by
  unfold deliverTo
  cases hk : maps[k]? with
  | none => rfl
  | some m => simp [List.getElem?_set, h.symm]

theorem deliverTo_self (maps : List PMap) (k : Nat) (m : PMap) (canId : Nat) (data : Bytes) (ts : Int)
    (hk : maps[k]? = some m) :
    (deliverTo maps k canId data ts).1[k]? = some (onMessage m canId data ts).map := by
  unfold deliverTo
  have hlt : k < maps.length := by
    rcases List.getElem?_eq_some_iff.mp hk with ⟨h, _⟩; exact h
  rw [hk]
  simp [hlt]

theorem deliverTo_log (maps : List PMap) (k : Nat) (canId : Nat) (data : Bytes) (ts : Int) :
    (deliverTo maps k canId data ts).2.1 = callsOf maps canId data ts k ∧
    (deliverTo maps k canId data ts).2.2 = raisesAt maps canId data ts k := by
  unfold deliverTo callsOf raisesAt
  cases maps[k]? with
  | none => exact ⟨rfl, rfl⟩
  | some m => exact ⟨rfl, rfl⟩

/-- the dispatch loop over a duplicate-free handler list: the maps it gets to (up to and including
    the first whose callback raises) are delivered to once each, every other map is untouched -/
theorem loop_deliver (canId : Nat) (data : Bytes) (ts : Int) :
    ∀ (ks : List Nat) (maps : List PMap) (log : List Call), ks.Nodup →
      (∀ j, j ∉ reach (raisesAt maps canId data ts) ks → (notifyLoop canId data ts ks maps log).1[j]? = maps[j]?) ∧
      (∀ j m, j ∈ reach (raisesAt maps canId data ts) ks → maps[j]? = some m →
        (notifyLoop canId data ts ks maps log).1[j]? = some (onMessage m canId data ts).map) ∧
      (notifyLoop canId data ts ks maps log).2.1 =
        log ++ (reach (raisesAt maps canId data ts) ks).flatMap (callsOf maps canId data ts) := by
  intro ks
  induction ks with
  | nil => intro maps log _; simp [notifyLoop, reach]
  | cons k ks ih =>
    intro maps log hnd
    have hk : k ∉ ks := (List.nodup_cons.mp hnd).1
    have hnd' : ks.Nodup := (List.nodup_cons.mp hnd).2
    obtain ⟨hlog, hrz⟩ := deliverTo_log maps k canId data ts
    simp only [notifyLoop, reach]
    rw [hrz, hlog]
    cases hr : raisesAt maps canId data ts k with
    | true =>
      simp only [if_true]
      refine ⟨?_, ?_, by simp⟩
      · intro j hj
        exact deliverTo_other maps k j canId data ts (by simpa using hj)
      · intro j m hj hm
        have : j = k := by simpa using hj
        subst this
        exact deliverTo_self maps j m canId data ts hm
    | false =>
      simp only [Bool.false_eq_true, if_false]
      have hsame : ∀ j ∈ ks, (deliverTo maps k canId data ts).1[j]? = maps[j]? := fun j hj =>
        deliverTo_other maps k j canId data ts (fun h => hk (h ▸ hj))
      have hreach : reach (raisesAt (deliverTo maps k canId data ts).1 canId data ts) ks =
          reach (raisesAt maps canId data ts) ks :=
        reach_congr _ _ ks (fun j hj => by simp only [raisesAt, hsame j hj])
      obtain ⟨i1, i2, i3⟩ := ih (deliverTo maps k canId data ts).1 (log ++ callsOf maps canId data ts k) hnd'
      rw [hreach] at i1 i2 i3
      have hsub := reach_sublist (raisesAt maps canId data ts) ks
      have hkr : k ∉ reach (raisesAt maps canId data ts) ks := fun h => hk (hsub.subset h)
      refine ⟨?_, ?_, ?_⟩
      · intro j hj
        have hjk : j ≠ k := fun h => hj (by simp [h])
        have hjr : j ∉ reach (raisesAt maps canId data ts) ks := fun h => hj (by simp [h])
        rw [i1 j hjr, deliverTo_other maps k j canId data ts hjk]
      · intro j m hj hm
        rcases List.mem_cons.mp hj with rfl | hj'
        · rw [i1 j hkr]
          exact deliverTo_self maps j m canId data ts hm
        · have hjk : j ≠ k := fun h => hkr (h ▸ hj')
          exact i2 j m hj' (by rw [deliverTo_other maps k j canId data ts hjk]; exact hm)
      · rw [i3]
        simp only [List.flatMap_cons, List.append_assoc]
        congr 2
        apply List.flatMap_congr
        intro j hj
        simp only [callsOf, hsame j (hsub.subset hj)]

/-- the consumer maps subscribed on `canId`, in subscription order -/
def targets (c : Consumer) (canId : Nat) : List Nat := (c.subs.filter fun s => s.1 = canId).map (·.2)

theorem notify_eq (c : Consumer) (canId : Nat) (data : Bytes) (ts : Int) :
    notify c canId data ts =
      ({ c with maps := (notifyLoop canId data ts (targets c canId) c.maps []).1 },
       (notifyLoop canId data ts (targets c canId) c.maps []).2.1) := rfl

/-- the subscribed maps a frame gets to: all of them unless a callback raises on the way -/
def reached (c : Consumer) (canId : Nat) (data : Bytes) (ts : Int) : List Nat :=
  reach (raisesAt c.maps canId data ts) (targets c canId)

/-- **A received frame updates exactly the maps subscribed to its COB-ID**: a map not subscribed
    on that id is untouched; a subscribed map is handed the frame once (and takes it iff it is
    configured for that COB-ID and not transmitting — with colliding COB-IDs, all of them); the
    callbacks invoked are those of the accepting maps, in subscription order.  When a callback
    raises, the dispatch of that frame ends there (the listener logs the exception): the maps after
    it in subscription order are untouched; without a raising callback every subscribed map is
    reached. -/
theorem notify_updates_exactly_subscribed (c : Consumer) (canId : Nat) (data : Bytes) (ts : Int)
    (hnd : (targets c canId).Nodup) :
    (∀ j, j ∉ targets c canId → (notify c canId data ts).1.maps[j]? = c.maps[j]?) ∧
    (∀ j, j ∉ reached c canId data ts → (notify c canId data ts).1.maps[j]? = c.maps[j]?) ∧
    (∀ j m, j ∈ reached c canId data ts → c.maps[j]? = some m →
      (notify c canId data ts).1.maps[j]? = some (onMessage m canId data ts).map) ∧
    (notify c canId data ts).2 = (reached c canId data ts).flatMap (callsOf c.maps canId data ts) ∧
    (notify c canId data ts).1.subs = c.subs ∧
    ((∀ j ∈ targets c canId, raisesAt c.maps canId data ts j = false) → reached c canId data ts = targets c canId) := by
  rw [notify_eq]
  obtain ⟨h1, h2, h3⟩ := loop_deliver canId data ts (targets c canId) c.maps [] hnd
  refine ⟨?_, h1, h2, by simpa [reached] using h3, rfl, reach_all _ _⟩
  intro j hj
  exact h1 j (fun h => hj ((reach_sublist _ _).subset h))

/-- `subscribe()` never duplicates an entry, so target lists stay duplicate-free -/
theorem subscribe_nodup (c : Consumer) (k : Nat) (h : c.subs.Nodup) : (subscribeMap c k).subs.Nodup := by
  unfold subscribeMap
  split
  · split
    · split
      · exact h
      · rename_i m _ _ cob _ _ hc
        have hnot : (cob, k) ∉ c.subs := by simpa using hc
        refine List.nodup_append.mpr ⟨h, by simp, ?_⟩
        intro a ha b hb
        simp only [List.mem_singleton] at hb
        subst hb
        intro hab
        subst hab
        exact hnot ha
    · exact h
  · exact h

theorem targets_nodup (c : Consumer) (canId : Nat) (h : c.subs.Nodup) : (targets c canId).Nodup := by
  unfold targets
  apply List.Nodup.map_on
  · intro a ha b hb hab
    simp only [List.mem_filter, decide_eq_true_eq] at ha hb
    exact Prod.ext (by rw [ha.2, hb.2]) hab
  · exact h.filter _

/-! ## producer → consumer -/

/-- reading depends only on layout and data -/
theorem readVar_congr (m m' : PMap) (i : Nat) (hl : m'.layout = m.layout) (hd : m'.data = m.data) :
    readVar m' i = readVar m i := by
  simp [readVar, lens, hl, hd]

/-- the invocations tagged with map `k` in a dispatch over a duplicate-free handler list are those
    of the one delivery to `k` -/
theorem filter_calls (f : Nat → List Call) (hf : ∀ j, ∀ e ∈ f j, e.1 = j) (k : Nat) :
    ∀ ks : List Nat, ks.Nodup → k ∈ ks →
      (ks.flatMap f).filter (fun (e : Call) => decide (e.1 = k)) = f k := by
  intro ks
  induction ks with
  | nil => intro _ h; simp at h
  | cons j js ih =>
    intro hn hm
    have hj : j ∉ js := (List.nodup_cons.mp hn).1
    have hn' := (List.nodup_cons.mp hn).2
    have hnone : ∀ (i : Nat), i ≠ k → (f i).filter (fun (e : Call) => decide (e.1 = k)) = [] := by
      intro i hik
      apply List.filter_eq_nil_iff.mpr
      intro e he
      have := hf i e he
      simp only [decide_eq_true_eq]
      omega
    simp only [List.flatMap_cons, List.filter_append]
    rcases List.mem_cons.mp hm with rfl | hm'
    · have hrest : (js.flatMap f).filter (fun (e : Call) => decide (e.1 = k)) = [] := by
        apply List.filter_eq_nil_iff.mpr
        intro e he
        simp only [List.mem_flatMap] at he
        obtain ⟨i, hi, he'⟩ := he
        have hik : i ≠ k := fun h => hj (h ▸ hi)
        have := hf i e he'
        simp only [decide_eq_true_eq]
        omega
      rw [hrest, List.append_nil]
      apply List.filter_eq_self.mpr
      intro e he
      simpa using hf k e he
    · have hjk : j ≠ k := fun h => hj (h ▸ hm')
      rw [hnone j hjk, List.nil_append]
      exact ih hn' hm'

theorem callsOf_tag (maps : List PMap) (canId : Nat) (data : Bytes) (ts : Int) :
    ∀ j, ∀ e ∈ callsOf maps canId data ts j, e.1 = j := by
  intro j e he
  unfold callsOf at he
  cases hm : maps[j]? with
  | none => simp [hm] at he
  | some m =>
    simp only [hm, List.mem_map] at he
    obtain ⟨_, _, rfl⟩ := he
    rfl

/-- **What the producer wrote is what the consumer reads.**  Producer map and consumer map share
    layout and COB-ID; the consumer map is subscribed on that COB-ID and not transmitting (and no
    callback of another map subscribed to the same COB-ID raises, which would end the dispatch).
    After the producer's frame is delivered, *every* variable of the consumer map reads exactly
    what the same variable reads on the producer (which by `writes_then_read` is the last value
    written to it), the map carries the frame's timestamp, and the callbacks of the map that were
    invoked — all of them, once each, in order, when none raises — were handed exactly that map:
    inside a callback the variables and the timestamp are those of this frame. -/
theorem producer_consumer (pm cm : PMap) (c : Consumer) (k cob : Nat) (ts : Int)
    (hnd : c.subs.Nodup) (hk : c.maps[k]? = some cm) (hsub : (cob, k) ∈ c.subs)
    (hpc : pm.cobId = some cob) (hcc : cm.cobId = some cob) (hlay : cm.layout = pm.layout)
    (htr : cm.transmitting = false)
    (hnr : ∀ j ∈ targets c cob, j ≠ k → raisesAt c.maps cob pm.data ts j = false) :
    ∃ cm', transmit pm = some (cob, pm.data) ∧
      (notify c cob pm.data ts).1.maps[k]? = some cm' ∧
      (∀ i, readVar cm' i = readVar pm i) ∧ cm'.timestamp = some ts ∧
      ((notify c cob pm.data ts).2.filter fun (e : Call) => decide (e.1 = k)) =
        (invoked cm.callbacks).map (fun cb => (k, cb.1, cm')) ∧
      (anyRaises cm.callbacks = false → invoked cm.callbacks = cm.callbacks) := by
  have hkt : k ∈ targets c cob := by
    simp only [targets, List.mem_map, List.mem_filter, decide_eq_true_eq]
    exact ⟨(cob, k), ⟨hsub, rfl⟩, rfl⟩
  have htn := targets_nodup c cob hnd
  have hkr : k ∈ reached c cob pm.data ts := mem_reach _ k _ hkt hnr
  have hrn : (reached c cob pm.data ts).Nodup := (reach_sublist _ _).nodup htn
  obtain ⟨_, _, h2, h3, _, _⟩ := notify_updates_exactly_subscribed c cob pm.data ts htn
  have hacc := onMessage_accepted cm cob pm.data ts hcc htr
  refine ⟨(onMessage cm cob pm.data ts).map, transmit_frame pm cob hpc, h2 k cm hkr hk, ?_, ?_, ?_,
    invoked_of_no_raise _⟩
  · intro i
    rw [hacc]
    exact readVar_congr pm _ i hlay rfl
  · rw [hacc]; rfl
  · rw [h3, filter_calls _ (callsOf_tag c.maps cob pm.data ts) k _ hrn hkr]
    simp only [callsOf, hk]
    rw [hacc]
    simp [Function.comp_def]

/-! ## what a producer variable holds after a sequence of writes -/

/-- every mapped object is an integer object mapped with 1..width bits, full width when the
    length is a whole number of bytes (the layouts of the property; BOOLEAN and REAL entries are
    covered by C05 `read_bool_real` and the differential run) -/
def ValidLayout (layout : List (Nat × Nat)) : Prop :=
  ∀ p ∈ layout, ∃ e ∈ intTypes, e.1 = p.1 ∧ 0 < p.2 ∧ p.2 ≤ e.2.1 ∧ (p.2 % 8 = 0 → p.2 = e.2.1)

structure GoodMap (m : PMap) : Prop where
  valid : ValidLayout m.layout
  bytes : AllBytes m.data
  size : m.data.length = dataSize (lens m)

/-- what a variable of `len` bits of a type with signedness `s` reads after `v` was written -/
def stored (s : Bool) (len : Nat) (v : Int) : Int :=
  if s then toSigned len (ofSigned len v) else (ofSigned len v : Int)

theorem offs_fit (ls : List Nat) (i : Nat) (hi : i < ls.length) :
    (offsets ls)[i]'(by rw [offsets_length]; exact hi) + ls[i] ≤ 8 * dataSize ls := by
  rw [offsets_getElem ls i hi, ← sum_take_succ ls i hi]
  have := sum_take_le ls (i + 1) ls.length (by omega)
  simp only [List.take_length] at this
  unfold dataSize
  omega

theorem offs_disjoint' (ls : List Nat) (i j : Nat) (hi : i < ls.length) (hj : j < ls.length) (hne : i ≠ j) :
    (offsets ls)[j]'(by rw [offsets_length]; exact hj) + ls[j] ≤ (offsets ls)[i]'(by rw [offsets_length]; exact hi) ∨
    (offsets ls)[i]'(by rw [offsets_length]; exact hi) + ls[i] ≤ (offsets ls)[j]'(by rw [offsets_length]; exact hj) := by
  rcases Nat.lt_or_gt_of_ne hne with h | h
  · right; exact (offsets_disjoint ls i j h hj).1
  · left; exact (offsets_disjoint ls j i h hi).1

/-- one typed write on the producer: the written variable reads the value back (its low bits,
    sign-extended), every other variable reads what it read before, the map stays well-formed -/
theorem write_then_read (m : PMap) (hg : GoodMap m) (i : Nat) (t len : Nat) (e : Nat × Nat × Bool)
    (hl : m.layout[i]? = some (t, len)) (he : e ∈ intTypes) (het : e.1 = t) (v : Int)
    (hv : inRange e.2.1 e.2.2 v = true) :
    ∃ m', writeVar m i (.int v) = some m' ∧ GoodMap m' ∧ m'.layout = m.layout ∧ m'.cobId = m.cobId ∧
      readVar m' i = some (.int (stored e.2.2 len v)) ∧
      (∀ j, j ≠ i → ∀ tj lj ej, m.layout[j]? = some (tj, lj) → ej ∈ intTypes → ej.1 = tj →
        readVar m' j = readVar m j) := by
  have hil : i < m.layout.length := by
    rcases List.getElem?_eq_some_iff.mp hl with ⟨h, _⟩; exact h
  have hget : m.layout[i] = (t, len) := by
    rcases List.getElem?_eq_some_iff.mp hl with ⟨_, h⟩; exact h
  have hlens : (lens m).length = m.layout.length := by simp [lens]
  have hli : i < (lens m).length := by rw [hlens]; exact hil
  have hleni : (lens m)[i] = len := by simp [lens, hget]
  obtain ⟨e', he', het', hlen0, hlenw, hal⟩ := hg.valid (t, len) (List.mem_of_getElem? hl)
  -- the same type row (data type numbers are unique in the table)
  have hee : e' = e := by
    have hu : ∀ a ∈ intTypes, ∀ b ∈ intTypes, a.1 = b.1 → a = b := by decide
    exact hu e' he' e he (by rw [het', het])
  subst hee
  dsimp only at hlen0 hlenw hal
  have hoff : (offsets (lens m))[i]? = some ((offsets (lens m))[i]'(by rw [offsets_length]; exact hli)) :=
    List.getElem?_eq_getElem _
  generalize hoffv : (offsets (lens m))[i]'(by rw [offsets_length]; exact hli) = off at hoff
  have hfit : off + len ≤ 8 * m.data.length := by
    have := offs_fit (lens m) i hli
    rw [hoffv, hleni] at this
    rw [hg.size]; exact this
  obtain ⟨new, hw, hrd, hrd2⟩ := get_set e' he' m.data off len v hg.bytes hlen0 hlenw
    (fun h => hal h.2) hfit hv
  obtain ⟨new', hw', hnl, hnb, _, hother⟩ := write_sets_low_bits e' he' m.data off len v hg.bytes hlenw
    (fun h => hal h.2) hfit hv
  have hnn : new' = new := by rw [hw] at hw'; exact (Option.some.inj hw').symm
  subst hnn
  refine ⟨{ m with data := new' }, ?_, ⟨hg.valid, hnb, by simp only [lens] at *; rw [hnl]; exact hg.size⟩, rfl, rfl, ?_, ?_⟩
  · simp only [writeVar, hl, hoff, ← het, hw, Option.map_some]
  · simp only [readVar, show lens { m with data := new' } = lens m from rfl, hl, hoff]
    rw [← het, hrd]
    rfl
  · intro j hji tj lj ej hlj hej hetj
    have hjl : j < m.layout.length := by
      rcases List.getElem?_eq_some_iff.mp hlj with ⟨h, _⟩; exact h
    have hgetj : m.layout[j] = (tj, lj) := by
      rcases List.getElem?_eq_some_iff.mp hlj with ⟨_, h⟩; exact h
    have hlj' : j < (lens m).length := by rw [hlens]; exact hjl
    have hlenj : (lens m)[j] = lj := by simp [lens, hgetj]
    obtain ⟨ej', hej', hetj', hlj0, hljw, halj⟩ := hg.valid (tj, lj) (List.mem_of_getElem? hlj)
    have hee : ej' = ej := by
      have hu : ∀ a ∈ intTypes, ∀ b ∈ intTypes, a.1 = b.1 → a = b := by decide
      exact hu ej' hej' ej hej (by rw [hetj', hetj])
    subst hee
    dsimp only at hlj0 hljw halj
    have hoffj : (offsets (lens m))[j]? = some ((offsets (lens m))[j]'(by rw [offsets_length]; exact hlj')) :=
      List.getElem?_eq_getElem _
    generalize hoffjv : (offsets (lens m))[j]'(by rw [offsets_length]; exact hlj') = offj at hoffj
    have hfitj : offj + lj ≤ 8 * m.data.length := by
      have := offs_fit (lens m) j hlj'
      rw [hoffjv, hlenj] at this
      rw [hg.size]; exact this
    have hdis := offs_disjoint' (lens m) i j hli hlj' (Ne.symm hji)
    rw [hoffv, hoffjv, hleni, hlenj] at hdis
    simp only [readVar, show lens { m with data := new' } = lens m from rfl, hlj, hoffj]
    rw [← hetj]
    rw [read_is_typed_field ej' hej' new' offj lj hnb hlj0 hljw (fun h => halj h.2) (by rw [hnl]; exact hfitj),
      read_is_typed_field ej' hej' m.data offj lj hg.bytes hlj0 hljw (fun h => halj h.2) hfitj]
    have hfield : field (leVal new') offj lj = field (leVal m.data) offj lj := by
      apply Nat.eq_of_testBit_eq
      intro b
      rw [field_testBit, field_testBit]
      by_cases hb : b < lj
      · have : ¬ (off ≤ offj + b ∧ offj + b < off + len) := by omega
        rw [hother _ this]
      · simp [hb]
    rw [hfield]

/-! ## periodic transmission (`start` / `stop` / `update`) does not change what `transmit` sends -/

/-- **Transmission sends exactly one frame with the map's COB-ID and current data whatever the
    periodic state**: for any value of the running flag (and of the period attribute) `transmit`
    hands `(cob, data)` to the bus. -/
theorem transmit_any_running (m : PMap) (c : Nat) (r p : Option Int) (h : m.cobId = some c) :
    transmit { m with running := r, period := p } = some (c, m.data) := by
  simp [transmit, h]

theorem transmit_core (m : PMap) : transmit (core m) = transmit m := rfl
theorem readVar_core (m : PMap) (i : Nat) : readVar (core m) i = readVar m i := rfl
theorem remoteRequest_core (m : PMap) : remoteRequest (core m) = remoteRequest m := rfl

/-- a periodic-transmission call touches nothing but the running flag and the period -/
theorem core_ctl (m : PMap) (c : Ctl) : core (ctl m c) = core m := by
  cases c with
  | start p =>
    simp only [ctl, start]
    split
    · split <;> rfl
    · rfl
  | stop => rfl
  | update => rfl

/-- a typed write does not look at the periodic state -/
theorem core_write (m : PMap) (i : Nat) (v : Val) :
    core ((writeVar m i v).getD m) = (writeVar (core m) i v).getD (core m) := by
  unfold writeVar
  have hl : lens (core m) = lens m := rfl
  have hy : (core m).layout = m.layout := rfl
  have hd : (core m).data = m.data := rfl
  rw [hl, hy, hd]
  cases m.layout[i]? with
  | none => rfl
  | some tl =>
    obtain ⟨t, len⟩ := tl
    cases (offsets (lens m))[i]? with
    | none => rfl
    | some off =>
      dsimp only
      cases writeRaw m.data (some t) off len v with
      | none => rfl
      | some d => rfl

theorem core_pstep (m m' : PMap) (s : PStep) (h : core m = core m') :
    core (pstep m s) = core (if s.isWrite then pstep m' s else m') := by
  cases s with
  | write i v =>
    simp only [pstep, PStep.isWrite, if_true]
    rw [core_write, core_write, h]
  | ctl c =>
    simp only [pstep, PStep.isWrite]
    rw [core_ctl]
    exact h

theorem core_runP : ∀ (steps : List PStep) (m m' : PMap), core m = core m' →
    core (runP m steps) = core (runP m' (steps.filter PStep.isWrite)) := by
  intro steps
  induction steps with
  | nil => intro m m' h; exact h
  | cons s rest ih =>
    intro m m' h
    have hs := core_pstep m m' s h
    cases hw : s.isWrite with
    | true =>
      rw [hw] at hs
      simp only [runP, List.foldl_cons, List.filter_cons, hw, if_true] at *
      exact ih _ _ hs
    | false =>
      rw [hw] at hs
      simp only [runP, List.foldl_cons, List.filter_cons, hw] at *
      exact ih _ _ hs

/-- **Any history of writes and `start` / `stop` / `update` calls on a producer map leaves the map
    exactly as the same history with every periodic call erased** — up to the running flag and the
    period attribute themselves. -/
theorem periodic_calls_erased (m : PMap) (steps : List PStep) :
    core (runP m steps) = core (runP m (steps.filter PStep.isWrite)) :=
  core_runP steps m m rfl

/-- **The frame `transmit` sends, every variable's reading and the remote-request decision after a
    history are those of the history without its periodic calls**: a running periodic transmission
    neither suppresses nor alters the single-shot frame. -/
theorem transmit_independent_of_periodic (m : PMap) (steps : List PStep) :
    transmit (runP m steps) = transmit (runP m (steps.filter PStep.isWrite)) ∧
    (∀ i, readVar (runP m steps) i = readVar (runP m (steps.filter PStep.isWrite)) i) ∧
    remoteRequest (runP m steps) = remoteRequest (runP m (steps.filter PStep.isWrite)) := by
  have h := periodic_calls_erased m steps
  refine ⟨?_, ?_, ?_⟩
  · rw [← transmit_core, h, transmit_core]
  · intro i; rw [← readVar_core, h, readVar_core]
  · rw [← remoteRequest_core, h, remoteRequest_core]

/-- the COB-ID and the layout survive every step -/
theorem runP_cob_layout : ∀ (steps : List PStep) (m : PMap),
    (runP m steps).cobId = m.cobId ∧ (runP m steps).layout = m.layout := by
  intro steps
  induction steps with
  | nil => intro m; exact ⟨rfl, rfl⟩
  | cons s rest ih =>
    intro m
    have hs : (pstep m s).cobId = m.cobId ∧ (pstep m s).layout = m.layout := by
      cases s with
      | write i v =>
        simp only [pstep, writeVar]
        cases m.layout[i]? with
        | none => exact ⟨rfl, rfl⟩
        | some tl =>
          obtain ⟨t, len⟩ := tl
          cases (offsets (lens m))[i]? with
          | none => exact ⟨rfl, rfl⟩
          | some off =>
            dsimp only
            cases writeRaw m.data (some t) off len v with
            | none => exact ⟨rfl, rfl⟩
            | some d => exact ⟨rfl, rfl⟩
      | ctl c =>
        have := congrArg PMap.cobId (core_ctl m c)
        have h2 := congrArg PMap.layout (core_ctl m c)
        exact ⟨this, h2⟩
    obtain ⟨i1, i2⟩ := ih (pstep m s)
    simp only [runP, List.foldl_cons] at *
    exact ⟨i1.trans hs.1, i2.trans hs.2⟩

/-- **Producer → consumer with periodic transmission in the history.**  The producer map went
    through any history of typed writes interleaved with `start(period)` / `stop()` / `update()`
    calls (so a periodic task may or may not be running when `transmit()` is called).  `transmit`
    sends one frame: the COB-ID and exactly the data the writes alone produce; delivered to a
    subscribed consumer map of the same layout, every variable there reads what the producer's
    variable holds after the writes alone, with the frame's timestamp. -/
theorem producer_consumer_periodic (pm cm : PMap) (steps : List PStep) (c : Consumer) (k cob : Nat) (ts : Int)
    (hnd : c.subs.Nodup) (hk : c.maps[k]? = some cm) (hsub : (cob, k) ∈ c.subs)
    (hpc : pm.cobId = some cob) (hcc : cm.cobId = some cob) (hlay : cm.layout = pm.layout)
    (htr : cm.transmitting = false)
    (hnr : ∀ j ∈ targets c cob, j ≠ k →
      raisesAt c.maps cob (runP pm (steps.filter PStep.isWrite)).data ts j = false) :
    ∃ cm', transmit (runP pm steps) = some (cob, (runP pm (steps.filter PStep.isWrite)).data) ∧
      (notify c cob (runP pm (steps.filter PStep.isWrite)).data ts).1.maps[k]? = some cm' ∧
      (∀ i, readVar cm' i = readVar (runP pm (steps.filter PStep.isWrite)) i) ∧ cm'.timestamp = some ts := by
  obtain ⟨h1, _, _⟩ := transmit_independent_of_periodic pm steps
  obtain ⟨hc0, hl0⟩ := runP_cob_layout (steps.filter PStep.isWrite) pm
  obtain ⟨cm', t1, t2, t3, t4, _⟩ := producer_consumer (runP pm (steps.filter PStep.isWrite)) cm c k cob ts
    hnd hk hsub (by rw [hc0, hpc]) hcc (by rw [hl0, hlay]) htr hnr
  exact ⟨cm', by rw [h1, t1], t2, t3, t4⟩

/-- **The consuming side**: a map whose periodic transmission was started ignores frames; after
    `stop()` it takes the next frame for its COB-ID — data, timestamp, callbacks once each — as if
    it had never transmitted. -/
theorem start_stop_reception (m : PMap) (p : Option Int) (canId : Nat) (data : Bytes) (ts : Int) :
    ((start m p).2 = true → onMessage (start m p).1 canId data ts =
      { map := (start m p).1, seen := [], woken := false, raised := false }) ∧
    (m.cobId = some canId →
      (onMessage (stop (start m p).1) canId data ts).seen.map (·.1) = (invoked m.callbacks).map (·.1) ∧
      (onMessage (stop (start m p).1) canId data ts).map.data = data ∧
      (onMessage (stop (start m p).1) canId data ts).map.timestamp = some ts ∧
      (onMessage (stop (start m p).1) canId data ts).woken = true) := by
  constructor
  · intro h
    apply only_subscribed_map_updates
    right
    unfold start at h ⊢
    split at h
    · split at h
      · simp at h
      · simp [*, PMap.transmitting]
    · simp at h
  · intro hc
    have hc' : (stop (start m p).1).cobId = some canId := by
      have := congrArg PMap.cobId (core_ctl m (.start p))
      simpa [ctl, stop, core, hc] using this
    have hcb : (stop (start m p).1).callbacks = m.callbacks := by
      have := congrArg PMap.callbacks (core_ctl m (.start p))
      simpa [ctl, stop, core] using this
    have hacc := onMessage_accepted (stop (start m p).1) canId data ts hc' rfl
    rw [hacc, hcb]
    exact ⟨by simp [Function.comp_def], rfl, rfl, rfl⟩

/-! ## waiting for reception -/

theorem clearReceived_self (c : Consumer) (k : Nat) (cm : PMap) (hk : c.maps[k]? = some cm) :
    (clearReceived c k).maps[k]? = some { cm with isReceived := false } ∧ (clearReceived c k).subs = c.subs := by
  have hklt : k < c.maps.length := by
    rcases List.getElem?_eq_some_iff.mp hk with ⟨h, _⟩; exact h
  simp only [clearReceived, hk]
  simp [hklt]

theorem clearReceived_other (c : Consumer) (k j : Nat) (h : j ≠ k) :
    (clearReceived c k).maps[j]? = c.maps[j]? := by
  unfold clearReceived
  cases hk : c.maps[k]? with
  | none => rfl
  | some m => simp [List.getElem?_set, h.symm]

/-- clearing `is_received` of one map does not change whether a delivery to any map raises -/
theorem raisesAt_clear (c : Consumer) (k : Nat) (canId : Nat) (data : Bytes) (ts : Int) (j : Nat) :
    raisesAt (clearReceived c k).maps canId data ts j = raisesAt c.maps canId data ts j := by
  by_cases hjk : j = k
  · subst hjk
    unfold raisesAt
    cases hk : c.maps[j]? with
    | none => simp [clearReceived, hk]
    | some cm =>
      rw [(clearReceived_self c j cm hk).1]
      dsimp only
      by_cases hcond : cm.cobId = some canId ∧ cm.transmitting = false
      · rw [onMessage_accepted { cm with isReceived := false } canId data ts hcond.1 hcond.2,
          onMessage_accepted cm canId data ts hcond.1 hcond.2]
      · have hno : cm.cobId ≠ some canId ∨ cm.transmitting = true := by
          by_cases h1 : cm.cobId = some canId
          · right
            cases h2 : cm.transmitting with
            | true => rfl
            | false => exact absurd ⟨h1, h2⟩ hcond
          · left; exact h1
        rw [only_subscribed_map_updates { cm with isReceived := false } canId data ts hno,
          only_subscribed_map_updates cm canId data ts hno]
  · simp only [raisesAt, clearReceived_other c k j hjk]

/-- **A waiting reader is woken by a frame for its map and gets that frame's timestamp — whatever
    the map's callbacks do, raising ones included; without such a frame it gets nothing.**  (The
    wait is a function of what is delivered while waiting; `hnr`: no callback of *another* map
    subscribed to the same COB-ID raises, which would end the dispatch before this map.) -/
theorem wait_wakes (c : Consumer) (k cob : Nat) (cm : PMap) (data : Bytes) (ts : Int)
    (hnd : c.subs.Nodup) (hk : c.maps[k]? = some cm) (hcc : cm.cobId = some cob)
    (htr : cm.transmitting = false) :
    (waitForReception c k []).2 = none ∧
    ((cob, k) ∈ c.subs → (∀ j ∈ targets c cob, j ≠ k → raisesAt c.maps cob data ts j = false) →
      (waitForReception c k [(cob, data, ts)]).2 = some ts) ∧
    (∀ other, (other, k) ∉ c.subs ∨ other ≠ cob → (waitForReception c k [(other, data, ts)]).2 = none) := by
  obtain ⟨hk0, hs0⟩ := clearReceived_self c k cm hk
  have hnd0 : (clearReceived c k).subs.Nodup := by rw [hs0]; exact hnd
  have htg : ∀ id, targets (clearReceived c k) id = targets c id := fun id => by simp only [targets, hs0]
  refine ⟨?_, ?_, ?_⟩
  · simp [waitForReception, waitResult, hk0]
  · intro hsub hnr
    have hkt : k ∈ targets (clearReceived c k) cob := by
      rw [htg]
      simp only [targets, List.mem_map, List.mem_filter, decide_eq_true_eq]
      exact ⟨(cob, k), ⟨hsub, rfl⟩, rfl⟩
    have hkr : k ∈ reached (clearReceived c k) cob data ts :=
      mem_reach _ k _ hkt (fun j hj hjk => by
        rw [raisesAt_clear]
        exact hnr j (by rw [← htg]; exact hj) hjk)
    obtain ⟨_, _, h2, _⟩ := notify_updates_exactly_subscribed (clearReceived c k) cob data ts
      (targets_nodup _ cob hnd0)
    have := h2 k _ hkr hk0
    simp only [waitForReception, List.foldl_cons, List.foldl_nil, waitResult]
    rw [this, onMessage_accepted { cm with isReceived := false } cob data ts hcc htr]
    simp [accept]
  · intro other hoth
    simp only [waitForReception, List.foldl_cons, List.foldl_nil, waitResult]
    obtain ⟨h1, _, h2, _⟩ := notify_updates_exactly_subscribed (clearReceived c k) other data ts
      (targets_nodup _ other hnd0)
    by_cases hkr : k ∈ reached (clearReceived c k) other data ts
    · have hkt : k ∈ targets c other := by
        rw [← htg]; exact (reach_sublist _ _).subset hkr
      have hne : other ≠ cob := by
        rcases hoth with h | h
        · exfalso
          simp only [targets, List.mem_map, List.mem_filter, decide_eq_true_eq] at hkt
          obtain ⟨⟨a, b⟩, ⟨hm, ha⟩, hb⟩ := hkt
          simp only at ha hb
          subst ha hb
          exact h hm
        · exact h
      rw [h2 k _ hkr hk0,
        only_subscribed_map_updates { cm with isReceived := false } other data ts
          (Or.inl (by simp only [hcc]; intro h; exact hne (Option.some.inj h).symm))]
      simp
    · obtain ⟨_, h1', _⟩ := notify_updates_exactly_subscribed (clearReceived c k) other data ts
        (targets_nodup _ other hnd0)
      rw [h1' k hkr, hk0]
      simp

/-- once a reader thread has its result, later frames do not change it -/
theorem threaded_keeps (k : Nat) (r : Int) :
    ∀ (arrivals : List (Nat × Bytes × Int)) (c : Consumer),
      (arrivals.foldl (threadedStep k) (c, some r)).2 = some r := by
  intro arrivals
  induction arrivals with
  | nil => intro c; rfl
  | cons a rest ih => intro c; simp only [List.foldl_cons, threadedStep]; exact ih _

/-- **A reader in a thread of its own is woken by the first frame for its map and gets that frame's
    timestamp, whatever the map's callbacks do (raising ones included) and whatever arrives
    afterwards.** -/
theorem wait_threaded_wakes (c : Consumer) (k cob : Nat) (cm : PMap) (data : Bytes) (ts : Int)
    (rest : List (Nat × Bytes × Int))
    (hnd : c.subs.Nodup) (hk : c.maps[k]? = some cm) (hcc : cm.cobId = some cob)
    (htr : cm.transmitting = false) (hsub : (cob, k) ∈ c.subs)
    (hnr : ∀ j ∈ targets c cob, j ≠ k → raisesAt c.maps cob data ts j = false) :
    (waitThreaded c k ((cob, data, ts) :: rest)).2 = some ts ∧ (waitThreaded c k []).2 = none := by
  have h1 := (wait_wakes c k cob cm data ts hnd hk hcc htr).2.1 hsub hnr
  simp only [waitForReception, List.foldl_cons, List.foldl_nil] at h1
  constructor
  · simp only [waitThreaded, List.foldl_cons, threadedStep]
    rw [h1]
    exact threaded_keeps k ts rest _
  · rfl

/-- replace the callbacks of consumer map `k` -/
def setCallbacks (c : Consumer) (k : Nat) (cbs : List (Nat × Bool)) : Consumer :=
  match c.maps[k]? with
  | some m => { c with maps := c.maps.set k { m with callbacks := cbs } }
  | none => c

/-- **The waiter's result is independent of the callbacks' outcomes**: with any other callbacks on
    the waited-for map — none, well-behaved ones, raising ones in any position — the reader is woken
    by the same frame and handed the same timestamp. -/
theorem wait_independent_of_callbacks (c : Consumer) (k cob : Nat) (cm : PMap) (data : Bytes) (ts : Int)
    (rest : List (Nat × Bytes × Int)) (cbs : List (Nat × Bool))
    (hnd : c.subs.Nodup) (hk : c.maps[k]? = some cm) (hcc : cm.cobId = some cob)
    (htr : cm.transmitting = false) (hsub : (cob, k) ∈ c.subs)
    (hnr : ∀ j ∈ targets c cob, j ≠ k → raisesAt c.maps cob data ts j = false) :
    (waitThreaded (setCallbacks c k cbs) k ((cob, data, ts) :: rest)).2 = some ts ∧
    (waitThreaded c k ((cob, data, ts) :: rest)).2 = some ts ∧
    (waitForReception (setCallbacks c k cbs) k [(cob, data, ts)]).2 = (waitForReception c k [(cob, data, ts)]).2 := by
  have hklt : k < c.maps.length := by
    rcases List.getElem?_eq_some_iff.mp hk with ⟨h, _⟩; exact h
  have hk' : (setCallbacks c k cbs).maps[k]? = some { cm with callbacks := cbs } := by
    simp only [setCallbacks, hk]
    simp [hklt]
  have hs' : (setCallbacks c k cbs).subs = c.subs := by
    simp only [setCallbacks, hk]
  have htg : targets (setCallbacks c k cbs) cob = targets c cob := by simp only [targets, hs']
  have hnr' : ∀ j ∈ targets (setCallbacks c k cbs) cob, j ≠ k →
      raisesAt (setCallbacks c k cbs).maps cob data ts j = false := by
    intro j hj hjk
    have : (setCallbacks c k cbs).maps[j]? = c.maps[j]? := by
      simp [setCallbacks, hk, List.getElem?_set, Ne.symm hjk]
    simp only [raisesAt, this]
    exact hnr j (by rw [← htg]; exact hj) hjk
  have a := wait_threaded_wakes (setCallbacks c k cbs) k cob _ data ts rest (by rw [hs']; exact hnd) hk' hcc htr
    (by rw [hs']; exact hsub) hnr'
  have b := wait_threaded_wakes c k cob cm data ts rest hnd hk hcc htr hsub hnr
  have w1 := (wait_wakes (setCallbacks c k cbs) k cob _ data ts (by rw [hs']; exact hnd) hk' hcc htr).2.1
    (by rw [hs']; exact hsub) hnr'
  have w2 := (wait_wakes c k cob cm data ts hnd hk hcc htr).2.1 hsub hnr
  exact ⟨a.1, b.1, by rw [w1, w2]⟩

/-! ## non-vacuity -/

def exMap : PMap := mkMap (some 0x181) true true [(2, 4), (6, 16)]
example : GoodMap exMap := ⟨by intro p hp; simp [exMap, mkMap] at hp; rcases hp with rfl | rfl <;> decide, by decide, by decide⟩
example : (writeVar exMap 0 (.int (-3))).bind (fun m => readVar m 0) = some (.int (-3)) := by decide
example : ((writeVar exMap 0 (.int (-3))).bind (fun m => writeVar m 1 (.int 0xBEEF))).bind
    (fun m => readVar m 0) = some (.int (-3)) := by decide

/-- a history with a periodic task running when `transmit` is called: the frame is the one the
    writes alone give -/
def exSteps : List PStep :=
  [.ctl (.start (some 3600)), .write 0 (.int (-3)), .ctl .update, .write 1 (.int 0xBEEF), .ctl (.start none)]
example : (runP exMap exSteps).running = some 3600 := by decide
example : transmit (runP exMap exSteps) = some (0x181, [0xFD, 0xEE, 0x0B]) := by decide
example : transmit (runP exMap (exSteps.filter PStep.isWrite)) = some (0x181, [0xFD, 0xEE, 0x0B]) := by decide
example : (start exMap none).2 = false ∧ (start exMap (some 0)).2 = false ∧ (start exMap (some 5)).2 = true := by decide
example : (onMessage (start exMap (some 5)).1 0x181 [1, 2, 3] 7).seen = [] ∧
    (onMessage (stop (start exMap (some 5)).1) 0x181 [1, 2, 3] 7).map.data = [1, 2, 3] := by decide

/-- observers, the middle one raising: two callbacks run, both see the frame's data and timestamp;
    the map is updated and the readers are notified all the same -/
def exObs : PMap := { exMap with callbacks := [(1, false), (2, true), (3, false)], timestamp := some 90 }
example : ((onMessage exObs 0x181 [1, 2, 3] 100).seen.map fun e => (e.1, e.2.data, e.2.timestamp, e.2.period)) =
    [(1, [1, 2, 3], some 100, some 10), (2, [1, 2, 3], some 100, some 10)] := by decide
example : (onMessage exObs 0x181 [1, 2, 3] 100).woken = true ∧ (onMessage exObs 0x181 [1, 2, 3] 100).raised = true ∧
    (onMessage exObs 0x181 [1, 2, 3] 100).map.timestamp = some 100 := by decide
/-- two maps on one COB-ID, the first one's callback raises: the second is not reached; a reader of
    the first is woken -/
def exCons : Consumer := { maps := [exObs, exMap], subs := [(0x181, 0), (0x181, 1)] }
example : reached exCons 0x181 [1, 2, 3] 100 = [0] := by decide
example : (waitThreaded exCons 0 [(0x181, [1, 2, 3], 100), (0x181, [4, 5, 6], 101)]).2 = some 100 := by decide
example : (waitThreaded exCons 1 [(0x181, [1, 2, 3], 100)]).2 = none := by decide

end Canopen.C15
