/-
C05 — the way a mapped variable is addressed does not change which bits are read or written.

Theorems about `CanopenModel/Pdo/Lookup.lean` (model of `PdoMap.__getitem__`, its by-index and
by-name loops and `PdoBase.__getitem__`): a key reaches the first variable with bits whose full
name (index) *is* the key, a key that is nobody's full name (index) is refused, the three ways of
addressing a variable reach the same position, and an access through a key is the access to the
bit field of that position — so the bit-field theorems of `CanopenProofs/C05.lean` carry over to
`pdo['Name']`, `pdo[0x2000]`, `node.tpdo['Name']`, `node.pdo[...]`.  All statements hold for every
map, every collection of maps, every key and every frame.
-/
import CanopenModel.Pdo.Lookup
import CanopenProofs.C05

namespace Canopen.C05
open Canopen Canopen.Codec Canopen.Pdo Canopen.Pdo.Lookup Canopen.Gen.Datatypes Canopen.C04

/-! ## the loops: first entry with bits that passes the test -/

theorem findPos_some (p : MVar → Bool) (m : List MVar) (i : Nat) (h : findPos p m = some i) :
    ∃ v, m[i]? = some v ∧ v.len ≠ 0 ∧ p v = true ∧
      ∀ j, j < i → ∀ w, m[j]? = some w → ¬ (w.len ≠ 0 ∧ p w = true) := by
  induction m generalizing i with
  | nil => simp [findPos] at h
  | cons a as ih =>
    unfold findPos at h
    by_cases hc : a.len ≠ 0 ∧ p a = true
    · rw [if_pos hc] at h
      have : i = 0 := by simpa using h.symm
      subst this
      exact ⟨a, by simp, hc.1, hc.2, fun j hj => by omega⟩
    · rw [if_neg hc] at h
      cases hr : findPos p as with
      | none => rw [hr] at h; simp at h
      | some k =>
        rw [hr] at h
        have hi : i = k + 1 := by simpa using h.symm
        subst hi
        obtain ⟨v, hv, hl, hp, hfirst⟩ := ih k hr
        refine ⟨v, by simpa using hv, hl, hp, ?_⟩
        intro j hj w hw
        cases j with
        | zero =>
          have : w = a := by simpa using hw.symm
          subst this
          exact hc
        | succ j => exact hfirst j (by omega) w (by simpa using hw)

theorem findPos_none (p : MVar → Bool) (m : List MVar) :
    findPos p m = none ↔ ∀ v ∈ m, ¬ (v.len ≠ 0 ∧ p v = true) := by
  induction m with
  | nil => simp [findPos]
  | cons a as ih =>
    unfold findPos
    by_cases hc : a.len ≠ 0 ∧ p a = true
    · rw [if_pos hc]
      constructor
      · intro h; simp at h
      · intro h; exact absurd hc (h a (by simp))
    · rw [if_neg hc]
      constructor
      · intro h v hv
        have hn : findPos p as = none := by
          cases hr : findPos p as with
          | none => rfl
          | some k => rw [hr] at h; simp at h
        rcases List.mem_cons.mp hv with rfl | hv'
        · exact hc
        · exact (ih.mp hn) v hv'
      · intro h
        have : findPos p as = none := ih.mpr (fun v hv => h v (List.mem_cons_of_mem _ hv))
        rw [this]; rfl

theorem findPos_first (p : MVar → Bool) (m : List MVar) (i : Nat) (v : MVar) (hv : m[i]? = some v)
    (hl : v.len ≠ 0) (hp : p v = true)
    (hfirst : ∀ j, j < i → ∀ w, m[j]? = some w → ¬ (w.len ≠ 0 ∧ p w = true)) :
    findPos p m = some i := by
  induction m generalizing i with
  | nil => simp at hv
  | cons a as ih =>
    unfold findPos
    cases i with
    | zero =>
      have : a = v := by simpa using hv
      subst this
      rw [if_pos ⟨hl, hp⟩]
    | succ i =>
      have hc : ¬ (a.len ≠ 0 ∧ p a = true) := hfirst 0 (by omega) a (by simp)
      rw [if_neg hc, ih i (by simpa using hv) (fun j hj w hw => hfirst (j + 1) (by omega) w (by simpa using hw))]
      rfl

theorem ofOpt_var (o : Option Nat) (i : Nat) : Found.ofOpt o = .var i ↔ o = some i := by
  cases o <;> simp [Found.ofOpt]

theorem ofOpt_keyError (o : Option Nat) : Found.ofOpt o = .keyError ↔ o = none := by
  cases o <;> simp [Found.ofOpt]

theorem ofOpt_ne_indexError (o : Option Nat) : Found.ofOpt o ≠ .indexError := by
  cases o <;> simp [Found.ofOpt]

/-! ## one map: which variable a key reaches -/

/-- A `str` key that is not a hex literal reaches the first variable with bits whose *full* name
    (`Parent.Member` for members) is the key — never a variable of another name, whatever its
    parent's or its own short name is. -/
theorem by_name_reaches_named_field (m : List MVar) (s : List Char) (i : Nat)
    (hs : hexKey? s = none) (h : mapGet m (.str s) = .var i) :
    ∃ v, m[i]? = some v ∧ v.fullName = s ∧ v.len ≠ 0 ∧
      ∀ j, j < i → ∀ w, m[j]? = some w → w.len ≠ 0 → w.fullName ≠ s := by
  simp only [mapGet, byString, hs] at h
  rw [ofOpt_var] at h
  obtain ⟨v, hv, hl, hp, hfirst⟩ := findPos_some _ m i h
  refine ⟨v, hv, by simpa using hp, hl, ?_⟩
  intro j hj w hw hwl hwn
  exact hfirst j hj w hw ⟨hwl, by simpa using hwn⟩

/-- … and is refused with `KeyError` exactly when it is the full name of no variable with bits;
    it never ends in another exception. -/
theorem by_name_refused_iff (m : List MVar) (s : List Char) (hs : hexKey? s = none) :
    (mapGet m (.str s) = .keyError ↔ ∀ v ∈ m, v.len ≠ 0 → v.fullName ≠ s) ∧
    mapGet m (.str s) ≠ .indexError := by
  simp only [mapGet, byString, hs]
  refine ⟨?_, ofOpt_ne_indexError _⟩
  rw [ofOpt_keyError, byName, findPos_none]
  constructor
  · intro h v hv hl hn; exact h v hv ⟨hl, by simpa using hn⟩
  · intro h v hv hc; exact h v hv hc.1 (by simpa using hc.2)

/-- the object index a key stands for: an `int` outside `range(0, 8)`, or a `str` that
    `int(key, 16)` accepts -/
def indexOfKey : Key → Option Nat
  | .int k => if k < 8 then none else some k
  | .str s => hexKey? s

theorem mapGet_index (m : List MVar) (key : Key) (k : Nat) (hk : indexOfKey key = some k) :
    mapGet m key = Found.ofOpt (byIndex m k) := by
  cases key with
  | int n =>
    simp only [indexOfKey] at hk
    by_cases h8 : n < 8
    · simp [h8] at hk
    · simp only [h8, if_false, Option.some.injEq] at hk
      subst hk
      simp [mapGet, h8]
  | str s =>
    simp only [indexOfKey] at hk
    simp [mapGet, byString, hk]

/-- A key that stands for an object index reaches the first variable with bits of that index, and
    is refused with `KeyError` exactly when no variable with bits has it. -/
theorem by_index_reaches_indexed_field (m : List MVar) (key : Key) (k : Nat)
    (hk : indexOfKey key = some k) :
    (∀ i, mapGet m key = .var i →
      ∃ v, m[i]? = some v ∧ v.index = k ∧ v.len ≠ 0 ∧
        ∀ j, j < i → ∀ w, m[j]? = some w → w.len ≠ 0 → w.index ≠ k) ∧
    (mapGet m key = .keyError ↔ ∀ v ∈ m, v.len ≠ 0 → v.index ≠ k) ∧
    mapGet m key ≠ .indexError := by
  rw [mapGet_index m key k hk]
  refine ⟨?_, ?_, ofOpt_ne_indexError _⟩
  · intro i h
    rw [ofOpt_var] at h
    obtain ⟨v, hv, hl, hp, hfirst⟩ := findPos_some _ m i h
    refine ⟨v, hv, by simpa using hp, hl, ?_⟩
    intro j hj w hw hwl hwn
    exact hfirst j hj w hw ⟨hwl, by simpa using hwn⟩
  · rw [ofOpt_keyError, byIndex, findPos_none]
    constructor
    · intro h v hv hl hn; exact h v hv ⟨hl, by simpa using hn⟩
    · intro h v hv hc; exact h v hv hc.1 (by simpa using hc.2)

/-- Access-path independence: a variable with bits at position `i < 8` is reached by its position,
    by its full name (when no earlier variable with bits carries the same full name and the name is
    not a hex literal) and by its index (when no earlier variable with bits has the same index and
    the index is not a position) — the same position `i` every time. -/
theorem access_path_independent (m : List MVar) (i : Nat) (v : MVar) (hv : m[i]? = some v)
    (hl : v.len ≠ 0) :
    (i < 8 → mapGet m (.int i) = .var i) ∧
    (hexKey? v.fullName = none →
      (∀ j, j < i → ∀ w, m[j]? = some w → w.len ≠ 0 → w.fullName ≠ v.fullName) →
      mapGet m (.str v.fullName) = .var i) ∧
    (∀ key, indexOfKey key = some v.index →
      (∀ j, j < i → ∀ w, m[j]? = some w → w.len ≠ 0 → w.index ≠ v.index) →
      mapGet m key = .var i) := by
  have hi : i < m.length := by
    rcases Nat.lt_or_ge i m.length with h | h
    · exact h
    · rw [List.getElem?_eq_none h] at hv; simp at hv
  refine ⟨?_, ?_, ?_⟩
  · intro h8
    simp [mapGet, h8, byPosition, hi]
  · intro hs hfirst
    simp only [mapGet, byString, hs]
    rw [ofOpt_var]
    exact findPos_first _ m i v hv hl (by simp) (fun j hj w hw hc => hfirst j hj w hw hc.1 (by simpa using hc.2))
  · intro key hk hfirst
    rw [mapGet_index m key v.index hk, ofOpt_var]
    exact findPos_first _ m i v hv hl (by simp) (fun j hj w hw hc => hfirst j hj w hw hc.1 (by simpa using hc.2))

/-- the position a key reaches exists in the map -/
theorem mapGet_var_exists (m : List MVar) (key : Key) (i : Nat) (hg : mapGet m key = .var i) :
    ∃ v, m[i]? = some v := by
  cases key with
  | int k =>
    by_cases h8 : k < 8
    · simp only [mapGet, h8, if_true, byPosition] at hg
      by_cases hk : k < m.length
      · simp only [hk, if_true, Found.var.injEq] at hg
        subst hg
        exact ⟨m[k], List.getElem?_eq_getElem hk⟩
      · simp [hk] at hg
    · obtain ⟨v, hv, _⟩ := (by_index_reaches_indexed_field m (.int k) k (by simp [indexOfKey, h8])).1 i hg
      exact ⟨v, hv⟩
  | str s =>
    cases hs : hexKey? s with
    | none =>
      obtain ⟨v, hv, _⟩ := by_name_reaches_named_field m s i hs hg
      exact ⟨v, hv⟩
    | some k =>
      obtain ⟨v, hv, _⟩ := (by_index_reaches_indexed_field m (.str s) k (by simp [indexOfKey, hs])).1 i hg
      exact ⟨v, hv⟩

/-! ## collections of maps -/

theorem scan_var (key : Key) (maps : List (List MVar)) (base mi i : Nat)
    (h : scan key maps base = .var mi i) :
    base ≤ mi ∧ ∃ m, maps[mi - base]? = some m ∧ mapGet m key = .var i ∧
      ∀ j, j < mi - base → ∀ m', maps[j]? = some m' → mapGet m' key = .keyError := by
  induction maps generalizing base with
  | nil => simp [scan] at h
  | cons a as ih =>
    unfold scan at h
    cases hf : mapGet a key with
    | var k =>
      rw [hf] at h
      simp only [scanStep, CFound.var.injEq] at h
      obtain ⟨rfl, rfl⟩ := h
      refine ⟨Nat.le_refl _, a, by simp, hf, fun j hj => by omega⟩
    | keyError =>
      rw [hf] at h
      simp only [scanStep] at h
      obtain ⟨hb, m, hm, hg, hfirst⟩ := ih (base + 1) h
      have e : mi - base = (mi - (base + 1)) + 1 := by omega
      refine ⟨by omega, m, by rw [e]; simpa using hm, hg, ?_⟩
      intro j hj m' hm'
      cases j with
      | zero =>
        have : m' = a := by simpa using hm'.symm
        subst this; exact hf
      | succ j => exact hfirst j (by omega) m' (by simpa using hm')
    | indexError =>
      rw [hf] at h
      simp [scanStep] at h

theorem scan_not_map (key : Key) (maps : List (List MVar)) (base j : Nat) :
    scan key maps base ≠ .map j := by
  induction maps generalizing base with
  | nil => simp [scan]
  | cons a as ih =>
    unfold scan
    cases hf : mapGet a key <;> simp [scanStep]
    exact ih (base + 1)

theorem scan_err_of_all_keyError (key : Key) (maps : List (List MVar)) (base : Nat)
    (h : ∀ m ∈ maps, mapGet m key = .keyError) : scan key maps base = .err := by
  induction maps generalizing base with
  | nil => rfl
  | cons a as ih =>
    unfold scan
    rw [h a (by simp)]
    simp only [scanStep]
    exact ih (base + 1) (fun m hm => h m (List.mem_cons_of_mem _ hm))

theorem scan_err_name (s : List Char) (hs : hexKey? s = none) (maps : List (List MVar)) (base : Nat)
    (h : scan (.str s) maps base = .err) : ∀ m ∈ maps, mapGet m (.str s) = .keyError := by
  induction maps generalizing base with
  | nil => intro m hm; simp at hm
  | cons a as ih =>
    unfold scan at h
    cases hf : mapGet a (.str s) with
    | var k => rw [hf] at h; simp [scanStep] at h
    | indexError => exact absurd hf (by_name_refused_iff a s hs).2
    | keyError =>
      rw [hf] at h
      simp only [scanStep] at h
      intro m hm
      rcases List.mem_cons.mp hm with rfl | hm'
      · exact hf
      · exact ih (base + 1) h m hm'

/-- A key that is not a map number goes through the maps in order: the variable reached lies in the
    first map that does not refuse the key, at the position that map itself gives for the key. -/
theorem coll_reaches_first_map_with_it (c : Coll) (maps : List (List MVar)) (key : Key) (mi i : Nat)
    (h : collGet c maps key = .var mi i) :
    ∃ m, maps[mi]? = some m ∧ mapGet m key = .var i ∧
      ∀ j, j < mi → ∀ m', maps[j]? = some m' → mapGet m' key = .keyError := by
  have hscan : scan key maps 0 = .var mi i := by
    cases key with
    | int k =>
      simp only [collGet] at h
      by_cases hk : isMapKey k = true
      · rw [if_pos hk] at h
        cases hsel : selectMap c maps.length k <;> rw [hsel] at h <;> simp [CFound.ofMap] at h
      · rw [if_neg hk] at h; exact h
    | str s => exact h
  obtain ⟨_, m, hm, hg, hfirst⟩ := scan_var key maps 0 mi i hscan
  exact ⟨m, by simpa using hm, hg, by simpa using hfirst⟩

/-- Through a collection (`node.tpdo['Name']`, `node.pdo['Name']`) a name reaches a variable whose
    full name it is, and is refused exactly when it is the full name of no variable with bits in any
    map; it never selects a map. -/
theorem coll_name_reaches_named_field (c : Coll) (maps : List (List MVar)) (s : List Char)
    (hs : hexKey? s = none) :
    (∀ mi i, collGet c maps (.str s) = .var mi i →
      ∃ m v, maps[mi]? = some m ∧ m[i]? = some v ∧ v.fullName = s ∧ v.len ≠ 0) ∧
    (collGet c maps (.str s) = .err ↔ ∀ m ∈ maps, ∀ v ∈ m, v.len ≠ 0 → v.fullName ≠ s) ∧
    (∀ j, collGet c maps (.str s) ≠ .map j) := by
  refine ⟨?_, ?_, ?_⟩
  · intro mi i h
    obtain ⟨m, hm, hg, _⟩ := coll_reaches_first_map_with_it c maps (.str s) mi i h
    obtain ⟨v, hv, hn, hl, _⟩ := by_name_reaches_named_field m s i hs hg
    exact ⟨m, v, hm, hv, hn, hl⟩
  · simp only [collGet]
    constructor
    · intro h m hm
      exact ((by_name_refused_iff m s hs).1).mp (scan_err_name s hs maps 0 h m hm)
    · intro h
      exact scan_err_of_all_keyError _ maps 0 (fun m hm => ((by_name_refused_iff m s hs).1).mpr (h m hm))
  · intro j
    exact scan_not_map _ maps 0 j

/-- whatever the starting point (a map, `node.rpdo` / `node.tpdo`, `node.pdo`), the variable a key
    reaches is one the map it lies in gives for that key -/
theorem resolve_var (h : How) (maps : List (List MVar)) (key : Key) (mi i : Nat)
    (hr : resolve h maps key = .var mi i) :
    ∃ m, maps[mi]? = some m ∧ mapGet m key = .var i := by
  cases h with
  | direct j =>
    simp only [resolve, directGet] at hr
    cases hm : maps[j]? with
    | none => rw [hm] at hr; simp at hr
    | some m =>
      rw [hm] at hr
      dsimp only at hr
      cases hf : mapGet m key with
      | var k =>
        rw [hf] at hr
        simp only [directFound, CFound.var.injEq] at hr
        obtain ⟨rfl, rfl⟩ := hr
        exact ⟨m, hm, hf⟩
      | keyError => rw [hf] at hr; simp [directFound] at hr
      | indexError => rw [hf] at hr; simp [directFound] at hr
  | coll c =>
    obtain ⟨m, hm, hg, _⟩ := coll_reaches_first_map_with_it c maps key mi i hr
    exact ⟨m, hm, hg⟩

/-! ## the bit field of a position -/

theorem lens_length (m : List MVar) : (lens m).length = m.length := by simp [lens]

theorem slot_eq (m : List MVar) (i : Nat) (v : MVar) (hv : m[i]? = some v) :
    slot m i = some (v.typ, ((lens m).take i).sum, v.len) := by
  have hi : i < m.length := by
    rcases Nat.lt_or_ge i m.length with h | h
    · exact h
    · rw [List.getElem?_eq_none h] at hv; simp at hv
  have hil : i < (lens m).length := by rw [lens_length]; exact hi
  have ho : (offsets (lens m))[i]? = some (((lens m).take i).sum) := by
    rw [List.getElem?_eq_getElem (by rw [offsets_length]; exact hil), offsets_getElem (lens m) i hil]
  simp only [slot, hv, ho]

theorem lens_getElem (m : List MVar) (i : Nat) (v : MVar) (hv : m[i]? = some v) :
    ∃ h : i < (lens m).length, (lens m)[i] = v.len := by
  have hi : i < m.length := by
    rcases Nat.lt_or_ge i m.length with h | h
    · exact h
    · rw [List.getElem?_eq_none h] at hv; simp at hv
  refine ⟨by rw [lens_length]; exact hi, ?_⟩
  have : m[i] = v := by
    rw [List.getElem?_eq_getElem hi] at hv; simpa using hv
  simp [lens, this]

/-- the field of position `i` ends inside the frame of `ceil(total / 8)` bytes -/
theorem slot_fits (m : List MVar) (i : Nat) (v : MVar) (hv : m[i]? = some v) (frame : Bytes)
    (hsize : frame.length = dataSize (lens m)) :
    ((lens m).take i).sum + v.len ≤ 8 * frame.length := by
  obtain ⟨hil, hlen⟩ := lens_getElem m i v hv
  have h1 := sum_take_succ (lens m) i hil
  have h2 := sum_take_le (lens m) (i + 1) (lens m).length (by omega)
  rw [List.take_length] at h2
  rw [hlen] at h1
  rw [hsize, dataSize]
  omega

/-- the fields of two different positions do not overlap -/
theorem slots_disjoint (m : List MVar) (i j : Nat) (v w : MVar) (hij : i < j)
    (hv : m[i]? = some v) (_hw : m[j]? = some w) :
    ((lens m).take i).sum + v.len ≤ ((lens m).take j).sum := by
  obtain ⟨hil, hlen⟩ := lens_getElem m i v hv
  have h1 := sum_take_succ (lens m) i hil
  have h2 := sum_take_le (lens m) (i + 1) j (by omega)
  rw [hlen] at h1
  omega

/-- an entry mapped as the property says: an integer object with its own bit length or (8-bit
    objects) a sub-byte length -/
def WellMapped (v : MVar) (e : Nat × Nat × Bool) : Prop :=
  v.typ = e.1 ∧ 0 < v.len ∧ v.len ≤ e.2.1 ∧ (v.len % 8 = 0 → v.len = e.2.1)

/-! ## reading and writing through a key -/

/-- Reading through a key (by name, index or position; on a map or through a collection) yields
    the value of exactly the bit field of the variable the key reaches: the field at the running
    offset of its position, sign-extended for signed types; and for a name key that variable is
    one whose full name is the key. -/
theorem read_by_key_is_its_field (h : How) (maps : List (List MVar)) (frames : List Bytes) (key : Key)
    (mi i : Nat) (r : Option Val) (hr : keyedRead h maps frames key = some (mi, i, r)) :
    ∃ m v fr, maps[mi]? = some m ∧ frames[mi]? = some fr ∧ m[i]? = some v ∧ mapGet m key = .var i ∧
      (∀ s, key = .str s → hexKey? s = none → v.fullName = s ∧ v.len ≠ 0) ∧
      (∀ e ∈ intTypes, WellMapped v e → AllBytes fr → fr.length = dataSize (lens m) →
        r = some (.int (if e.2.2 then toSigned v.len (field (leVal fr) ((lens m).take i).sum v.len)
                        else (field (leVal fr) ((lens m).take i).sum v.len : Int)))) := by
  unfold keyedRead at hr
  cases hres : resolve h maps key with
  | map j => rw [hres] at hr; simp at hr
  | err => rw [hres] at hr; simp at hr
  | var mi' i' =>
    rw [hres] at hr
    dsimp only at hr
    obtain ⟨m, hm, hg⟩ := resolve_var h maps key mi' i' hres
    cases hf : frames[mi']? with
    | none => rw [hm, hf] at hr; simp at hr
    | some fr =>
      simp only [hm, hf, Option.some.injEq, Prod.mk.injEq] at hr
      obtain ⟨rfl, rfl, hrd⟩ := hr
      have hv := mapGet_var_exists m key i' hg
      obtain ⟨v, hv⟩ := hv
      refine ⟨m, v, fr, hm, hf, hv, hg, ?_, ?_⟩
      · intro s hk hs
        subst hk
        obtain ⟨v', hv', hn, hl, _⟩ := by_name_reaches_named_field m s i' hs hg
        rw [hv] at hv'
        have : v = v' := by simpa using hv'
        subst this
        exact ⟨hn, hl⟩
      · intro e he hwm hfr hsize
        obtain ⟨ht, hl0, hle, hal⟩ := hwm
        rw [← hrd, readAt, slot_eq m i' v hv]
        simp only [ht]
        exact read_is_typed_field e he fr _ v.len hfr hl0 hle (fun hc => hal hc.2)
          (slot_fits m i' v hv fr hsize)

/-- Writing through a key changes exactly the bits of the field of the variable the key reaches —
    in the frame of the map it lies in, whose length stays; the frames of all other maps and the
    fields of all other positions of that map (the neighbours) are unchanged, and the field itself
    holds the value's low bits. -/
theorem write_by_key_changes_only_its_field (h : How) (maps : List (List MVar)) (frames : List Bytes)
    (key : Key) (x : Int) (mi i : Nat) (r : Option (List Bytes))
    (hr : keyedWrite h maps frames key (.int x) = some (mi, i, r)) :
    ∃ m v fr, maps[mi]? = some m ∧ frames[mi]? = some fr ∧ m[i]? = some v ∧ mapGet m key = .var i ∧
      (∀ e ∈ intTypes, WellMapped v e → AllBytes fr → fr.length = dataSize (lens m) →
        inRange e.2.1 e.2.2 x = true →
        ∃ new, r = some (frames.set mi new) ∧ new.length = fr.length ∧ AllBytes new ∧
          field (leVal new) ((lens m).take i).sum v.len = ofSigned v.len x ∧
          (∀ b, ¬ (((lens m).take i).sum ≤ b ∧ b < ((lens m).take i).sum + v.len) →
            (leVal new).testBit b = (leVal fr).testBit b) ∧
          (∀ j w, j ≠ i → m[j]? = some w →
            field (leVal new) ((lens m).take j).sum w.len = field (leVal fr) ((lens m).take j).sum w.len) ∧
          (∀ k, k ≠ mi → (frames.set mi new)[k]? = frames[k]?)) := by
  unfold keyedWrite at hr
  cases hres : resolve h maps key with
  | map j => rw [hres] at hr; simp at hr
  | err => rw [hres] at hr; simp at hr
  | var mi' i' =>
    rw [hres] at hr
    dsimp only at hr
    obtain ⟨m, hm, hg⟩ := resolve_var h maps key mi' i' hres
    cases hf : frames[mi']? with
    | none => rw [hm, hf] at hr; simp at hr
    | some fr =>
      simp only [hm, hf, Option.some.injEq, Prod.mk.injEq] at hr
      obtain ⟨rfl, rfl, hrd⟩ := hr
      obtain ⟨v, hv⟩ := mapGet_var_exists m key i' hg
      refine ⟨m, v, fr, hm, hf, hv, hg, ?_⟩
      · intro e he hwm hfr hsize hx
        obtain ⟨ht, hl0, hle, hal⟩ := hwm
        have hfit := slot_fits m i' v hv fr hsize
        obtain ⟨new, hw, hlen, hall, hfield, hbits⟩ :=
          write_sets_low_bits e he fr (((lens m).take i').sum) v.len x hfr hle (fun hc => hal hc.2) hfit hx
        refine ⟨new, ?_, hlen, hall, hfield, hbits, ?_, ?_⟩
        · rw [← hrd, writeAt, slot_eq m i' v hv]
          simp only [ht, hw, putFrame]
        · intro j w hji hw'
          apply Nat.eq_of_testBit_eq
          intro b
          rw [field_testBit, field_testBit]
          by_cases hb : b < w.len
          · have hdis : ¬ (((lens m).take i').sum ≤ ((lens m).take j).sum + b ∧
                ((lens m).take j).sum + b < ((lens m).take i').sum + v.len) := by
              rcases Nat.lt_or_gt_of_ne hji with hlt | hgt
              · have := slots_disjoint m j i' w v hlt hw' hv; omega
              · have := slots_disjoint m i' j v w hgt hv hw'; omega
            simp [hb, hbits _ hdis]
          · simp [hb]
        · intro k hk
          exact List.getElem?_set_ne (by omega)

/-! ## non-vacuity: the dictionary of the missed change -/

/-- `Axis.Speed` (0x2000:1), `Axis.Torque` (0x2000:2), a plain variable `Speed` (0x2010) and
    `Limit` (0x2011) in one map -/
def demoMap : List MVar :=
  [⟨3, 16, 0x2000, 1, some "Axis".toList, "Speed".toList⟩,
   ⟨3, 16, 0x2000, 2, some "Axis".toList, "Torque".toList⟩,
   ⟨5, 8, 0x2010, 0, none, "Speed".toList⟩,
   ⟨5, 8, 0x2011, 0, none, "Limit".toList⟩]

-- `pdo['Speed']` is the plain variable at position 2, not the member `Axis.Speed` at position 0
example : mapGet demoMap (.str "Speed".toList) = .var 2 := by decide
example : mapGet demoMap (.str "Axis.Speed".toList) = .var 0 := by decide
-- a member's short name and a parent's name are nobody's full name: refused
example : mapGet demoMap (.str "Torque".toList) = .keyError := by decide
example : mapGet demoMap (.str "Axis".toList) = .keyError := by decide
-- by index (int, hex str) and by position
example : mapGet demoMap (.int 0x2010) = .var 2 ∧ mapGet demoMap (.str "2010".toList) = .var 2 ∧
    mapGet demoMap (.int 2) = .var 2 := by decide
-- through the collections, past a map that does not hold the name
example : collGet .numbered [[], demoMap] (.str "Speed".toList) = .var 1 2 := by decide
example : collGet (.legacy 1) [demoMap, demoMap] (.int 0x1A00) = .map 0 := by decide
-- the read and the write of the demonstration
example : keyedRead (.direct 0) [demoMap] [[0x34, 0x12, 0x78, 0x56, 0x9a, 0xbc]] (.str "Speed".toList) =
    some (0, 2, some (.int 0x9a)) := by decide
example : keyedWrite (.coll .numbered) [demoMap] [[0x34, 0x12, 0x78, 0x56, 0x9a, 0xbc]] (.str "Speed".toList)
    (.int 0x11) = some (0, 2, some [[0x34, 0x12, 0x78, 0x56, 0x11, 0xbc]]) := by decide
-- the hypotheses of the typed theorems are satisfiable
example : (UNSIGNED8, 8, false) ∈ intTypes ∧ WellMapped ⟨5, 8, 0x2010, 0, none, "Speed".toList⟩ (UNSIGNED8, 8, false) ∧
    hexKey? "Speed".toList = none ∧ hexKey? "2010".toList = some 0x2010 ∧
    ([0x34, 0x12, 0x78, 0x56, 0x9a, 0xbc] : Bytes).length = dataSize (lens demoMap) := by
  refine ⟨by decide, ⟨by decide, by decide, by decide, by decide⟩, by decide, by decide, by decide⟩

end Canopen.C05
