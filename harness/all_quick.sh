#!/bin/sh
# runs the quick tier of every claimed check in turn on the unchanged tree (rewrites evidence/*.json)
cd "$(dirname "$0")/.."
rc=0
for p in $(/venv/bin/python -c "import json;print(' '.join(c['property_id'] for c in json.load(open('MANIFEST.json'))['checks']))"); do
  out=$(./check $p --tier quick 2>&1); r=$?
  echo "$out" | grep -E "^(VIOLATION|$p:)" | cut -c1-300
  [ $r -eq 0 ] || rc=1
done
exit $rc
