#!/venv/bin/python
"""Run the checks against the seeded changes kept under /verif/seeded/<name>/.

For each change: confirm it applies to a scratch worktree of /repo (under /tmp, removed afterwards), that the
library's own test suite still passes with it, that its demo says HOLDS on the clean tree and BROKEN on the
changed one, then run `./check <PID>` (quick; thorough with --thorough) with VERIF_REPO pointing at the changed
tree and record whether a VIOLATION line with a replay was printed.  Results go to seeded/RESULTS.json.

usage: run_seeded.py [--thorough] [--skip-confirm] [--cross] [name ...]
(--cross: when the property's own check misses a change, run every other check against it as well)
"""
import json, os, subprocess, sys, shutil, time

ROOT = os.path.dirname(os.path.dirname(os.path.abspath(__file__)))
REPO = os.environ.get("VERIF_REPO", "/repo")
SEEDED = os.path.join(ROOT, "seeded")
PY = "/venv/bin/python"


def sh(cmd, cwd=None, env=None, timeout=3600):
    p = subprocess.run(cmd, cwd=cwd, env=env, shell=isinstance(cmd, str), capture_output=True, text=True, timeout=timeout)
    return p.returncode, p.stdout + p.stderr


def main():
    args = [a for a in sys.argv[1:] if not a.startswith("--")]
    thorough = "--thorough" in sys.argv
    confirm = "--skip-confirm" not in sys.argv
    cross = "--cross" in sys.argv
    names = args or sorted(n for n in os.listdir(SEEDED) if os.path.isdir(os.path.join(SEEDED, n)))
    wt = f"/tmp/seedcheck_{os.getpid()}"
    sh(["git", "-C", REPO, "worktree", "add", "--detach", wt, "HEAD"])
    results_path = os.path.join(SEEDED, "RESULTS.json")
    results = json.load(open(results_path)) if os.path.exists(results_path) else {}
    # evidence files describe runs on the unchanged tree: keep them, restore them afterwards
    ev_keep = f"/tmp/seedcheck_ev_{os.getpid()}"
    shutil.copytree(os.path.join(ROOT, "evidence"), ev_keep)
    try:
        for name in names:
            d = os.path.join(SEEDED, name)
            meta = json.load(open(os.path.join(d, "meta.json")))
            pid = meta["property"]
            r = {"property": pid, "summary": meta.get("summary", "")}
            if not confirm and name in results:
                for k in ("demo_clean", "demo_changed", "tests", "confirmed", "first_run_detected"):
                    if k in results[name]:
                        r[k] = results[name][k]
            sh(["git", "-C", wt, "checkout", "--", "."])
            env = dict(os.environ, PYTHONPATH=wt)
            if confirm:
                rc0, out0 = sh([PY, os.path.join(d, "demo.py")], cwd=wt, env=env, timeout=300)
                r["demo_clean"] = (rc0, out0.strip().splitlines()[-1] if out0.strip() else "")
            rc, out = sh(["git", "-C", wt, "apply", os.path.join(d, "patch.diff")])
            if rc != 0:
                r["error"] = "patch does not apply: " + out.strip()[:200]
                results[name] = r
                print(name, r["error"])
                continue
            if confirm:
                rc1, out1 = sh([PY, os.path.join(d, "demo.py")], cwd=wt, env=env, timeout=300)
                r["demo_changed"] = (rc1, out1.strip().splitlines()[-1] if out1.strip() else "")
                rct, outt = sh([PY, "-m", "pytest", "-q", "-p", "no:cacheprovider", "--timeout=900"], cwd=wt, env=env)
                r["tests"] = outt.strip().splitlines()[-1] if outt.strip() else ""
                r["confirmed"] = rc0 == 0 and rc1 == 1 and rct == 0
            t = time.time()
            cmd = [os.path.join(ROOT, "check"), pid] + (["--tier", "thorough"] if thorough else [])
            rcc, outc = sh(cmd, cwd=ROOT, env=dict(os.environ, VERIF_REPO=wt), timeout=7200)
            viol = [l for l in outc.splitlines() if l.startswith("VIOLATION")]
            summ = [l for l in outc.splitlines() if l.startswith(pid + ":")]
            r["check_exit"] = rcc
            r["violation_lines"] = viol[:3]
            r["summary_line"] = summ[-1] if summ else outc.strip()[-300:]
            r["wall"] = round(time.time() - t, 1)
            r["detected"] = rcc == 1 and bool(viol)
            r["with_failing_input"] = any("no-failing-input-found" not in l for l in viol)
            r["tier"] = "thorough" if thorough else "quick"
            if cross and not r["detected"]:
                # which other property's check reports it?
                by = []
                man = json.load(open(os.path.join(ROOT, "MANIFEST.json")))
                for c in man["checks"]:
                    q = c["property_id"]
                    if q == pid:
                        continue
                    rc2, out2 = sh([os.path.join(ROOT, "check"), q], cwd=ROOT, env=dict(os.environ, VERIF_REPO=wt), timeout=7200)
                    if rc2 == 1 and any(l.startswith("VIOLATION") for l in out2.splitlines()):
                        by.append(q)
                r["cross_detected_by"] = by
            results[name] = r
            print(f"{name}: detected={r['detected']} failing_input={r['with_failing_input']} exit={rcc} "
                  f"confirmed={r.get('confirmed')} {r['wall']}s")
            json.dump(results, open(results_path, "w"), indent=1, sort_keys=True)
    finally:
        shutil.rmtree(os.path.join(ROOT, "evidence"), ignore_errors=True)
        shutil.copytree(ev_keep, os.path.join(ROOT, "evidence"))
        shutil.rmtree(ev_keep, ignore_errors=True)
        sh(["git", "-C", REPO, "worktree", "remove", "--force", wt])
        shutil.rmtree(wt, ignore_errors=True)
        shutil.rmtree(os.path.join(ROOT, "replays"), ignore_errors=True) if os.environ.get("SEEDED_CLEAN_REPLAYS") else None
    missed = [n for n in names if not results.get(n, {}).get("detected")]
    print(f"{len(names) - len(missed)}/{len(names)} detected; missed: {missed}")


if __name__ == "__main__":
    main()
