#!/venv/bin/python
"""One check, step by step (DESIGN.md §2).

  check <ID> [--tier quick|thorough] [--seed N] [--replay FILE]
  check --setup                 build everything once (MANIFEST.setup_cmd)
  check --update-fingerprints   refresh harness/fingerprints.json (after a reviewed change)

Exit 0: property held on everything explored.  Exit 1: `VIOLATION property=<id> replay=<path>`
printed.  Exit 2: infrastructure failure (never a VIOLATION line).
"""
import argparse
import fcntl
import hashlib
import importlib
import inspect
import json
import os
import threading
import random
import re
import shutil
import subprocess
import sys
import time
import traceback

HERE = os.path.dirname(os.path.abspath(__file__))
VERIF = os.path.dirname(HERE)
LEAN = os.path.join(VERIF, "lean")
REPO = os.environ.get("VERIF_REPO", "/repo")
WORK = os.path.join(VERIF, ".work", str(os.getpid()))
ALLOWED_AXIOMS = {"propext", "Classical.choice", "Quot.sound"}
FORBIDDEN = [r"\bsorry\b", r"\badmit\b", r"^\s*axiom\s", r"\bnative_decide\b", r"\bbv_decide\b",
             r"\bimplemented_by\b", r"\bunsafe\s", r"maxHeartbeats\s+0\b", r"\bextern\b"]
ALL_IDS = ["C%02d" % i for i in range(1, 21)]

sys.path.insert(0, HERE)
sys.path.insert(0, REPO)
os.environ.setdefault("CANOPEN_VERIF", "1")

import gen_tables  # noqa: E402


class Infra(Exception):
    pass


def log(*a):
    print(*a, flush=True)


# ------------------------------------------------------------------------------- lean side
def lake_lock():
    os.makedirs(os.path.join(VERIF, ".work"), exist_ok=True)
    f = open(os.path.join(VERIF, ".work", "lake.lock"), "w")
    fcntl.flock(f, fcntl.LOCK_EX)
    return f


def run(cmd, cwd=None, timeout=3600, input=None):
    try:
        p = subprocess.run(cmd, cwd=cwd, capture_output=True, text=True, timeout=timeout,
                           input=input)
    except FileNotFoundError as e:
        raise Infra(f"tool missing: {e}")
    except subprocess.TimeoutExpired:
        raise Infra(f"time-out running {' '.join(cmd)}")
    return p.returncode, p.stdout, p.stderr


def lake_build(targets):
    """Returns (ok, text)."""
    lock = lake_lock()
    try:
        rc, out, err = run(["lake", "build"] + targets, cwd=LEAN, timeout=3000)
    finally:
        lock.close()
    return rc == 0, out + err


def strip_lean_comments(src):
    out = []
    i, n, depth = 0, len(src), 0
    in_str = False
    while i < n:
        if depth == 0 and not in_str and src.startswith("--", i):
            j = src.find("\n", i)
            i = n if j < 0 else j
            continue
        if not in_str and src.startswith("/-", i):
            depth += 1
            i += 2
            continue
        if depth > 0 and src.startswith("-/", i):
            depth -= 1
            i += 2
            continue
        if depth > 0:
            if src[i] == "\n":
                out.append("\n")
            i += 1
            continue
        ch = src[i]
        if ch == '"':
            in_str = not in_str
        elif in_str and ch == "\\":
            out.append(ch)
            i += 1
            if i < n:
                out.append(src[i])
            i += 1
            continue
        out.append(ch)
        i += 1
    return "".join(out)


def import_closure(modules):
    """Lean files of this project reachable from the given modules through `import` lines."""
    seen, todo = set(), list(modules)
    while todo:
        m = todo.pop()
        if m in seen:
            continue
        path = os.path.join(LEAN, *m.split(".")) + ".lean"
        if not os.path.exists(path):
            continue
        seen.add(m)
        with open(path, encoding="utf-8") as f:
            for line in f:
                mm = re.match(r"\s*import\s+([A-Za-z0-9_.]+)", line)
                if mm and mm.group(1).split(".")[0] in ("CanopenModel", "CanopenProofs", "Driver"):
                    todo.append(mm.group(1))
    return sorted(seen)


def source_audit(modules):
    """Forbidden constructs outside comments, in every Lean source the property's proof modules and
    driver depend on (the import closure inside this project)."""
    hits = []
    for m in import_closure(modules):
        path = os.path.join(LEAN, *m.split(".")) + ".lean"
        with open(path, encoding="utf-8") as f:
            code = strip_lean_comments(f.read())
        # string literals are data (generated description tables), not proof text
        code = re.sub(r'"(?:\\.|[^"\\])*"', '""', code)
        for ln, line in enumerate(code.split("\n"), 1):
            for pat in FORBIDDEN:
                if re.search(pat, line):
                    hits.append(f"{os.path.relpath(path, LEAN)}:{ln}: {pat}")
    return hits


def axiom_audit(modules, theorems):
    """#print axioms for every listed theorem.  Returns dict theorem -> list of axioms, or
    None for a theorem that does not exist / did not elaborate."""
    os.makedirs(WORK, exist_ok=True)
    path = os.path.join(WORK, "Audit.lean")
    with open(path, "w") as f:
        for m in modules:
            f.write(f"import {m}\n")
        for t in theorems:
            f.write(f"#print axioms {t}\n")
    rc, out, err = run(["lake", "env", "lean", path], cwd=LEAN, timeout=1200)
    text = out + err
    res = {t: None for t in theorems}
    for m in re.finditer(r"'([^']+)' depends on axioms: \[([^\]]*)\]", text, re.S):
        res[m.group(1)] = [a.strip() for a in m.group(2).replace("\n", " ").split(",") if a.strip()]
    for m in re.finditer(r"'([^']+)' does not depend on any axioms", text):
        res[m.group(1)] = []
    return res, text


def driver_run(pid, lines):
    """Pipe operation lines to the property's Lean driver; returns list of output lines."""
    os.makedirs(WORK, exist_ok=True)
    exe = os.path.join(LEAN, ".lake", "build", "bin", f"driver_{pid}")
    data = "".join(l + "\n" for l in lines)
    if os.path.exists(exe):
        rc, out, err = run([exe], input=data, timeout=3000)
    else:
        rc, out, err = run(["lake", "env", "lean", "--run", f"Driver/Main{pid}.lean"], cwd=LEAN,
                           input=data, timeout=3000)
    if rc != 0:
        raise Infra(f"driver failed rc={rc}: {err[:500]}")
    outs = out.split("\n")
    if outs and outs[-1] == "":
        outs.pop()
    if len(outs) != len(lines):
        raise Infra(f"driver returned {len(outs)} lines for {len(lines)} operations")
    return outs


# --------------------------------------------------------------------------- fingerprints
FP_FILE = os.path.join(HERE, "fingerprints.json")


def resolve(qual):
    modname, _, attr = qual.partition(":")
    mod = importlib.import_module(modname)
    obj = mod
    for part in attr.split("."):
        obj = getattr(obj, part)
    return obj


def fingerprint(quals):
    res = {}
    for q in quals:
        try:
            obj = resolve(q)
            if isinstance(obj, property):
                src = inspect.getsource(obj.fget) + (inspect.getsource(obj.fset) if obj.fset else "")
            else:
                src = inspect.getsource(obj)
            res[q] = hashlib.sha256(src.encode()).hexdigest()[:16]
        except Exception as e:  # missing function = changed
            res[q] = f"missing:{type(e).__name__}"
    # … and the whole source of every module a listed function lives in: a change anywhere in an anchored
    # module (a helper, a constant, a new method) also sends the quick tier through the thorough generator
    for modname in sorted({q.partition(":")[0] for q in quals}):
        try:
            src = inspect.getsource(importlib.import_module(modname))
            res["module:" + modname] = hashlib.sha256(src.encode()).hexdigest()[:16]
        except Exception as e:
            res["module:" + modname] = f"missing:{type(e).__name__}"
    return res


def load_fp():
    if os.path.exists(FP_FILE):
        with open(FP_FILE) as f:
            return json.load(f)
    return {}


# ------------------------------------------------------------------------- known findings
def load_known():
    p = os.path.join(VERIF, "known_findings.json")
    if not os.path.exists(p):
        return []
    with open(p) as f:
        return json.load(f)["findings"]


# ---------------------------------------------------------------------------------- check
def load_prop(pid):
    return importlib.import_module(f"props.{pid.lower()}")


def write_replay(pid, payload):
    os.makedirs(os.path.join(VERIF, "replays"), exist_ok=True)
    h = hashlib.sha256(json.dumps(payload, sort_keys=True).encode()).hexdigest()[:12]
    path = os.path.join(VERIF, "replays", f"{pid}-{h}.json")
    payload = dict(payload)
    payload["replay_cmd"] = f"./check {pid} --replay replays/{pid}-{h}.json"
    with open(path, "w") as f:
        json.dump(payload, f, indent=1, sort_keys=True)
    return os.path.relpath(path, VERIF)


class _Hang(BaseException):
    """raised by SIGALRM when one operation does not return in time"""


OP_TIMEOUT_S = int(os.environ.get("OP_TIMEOUT_S", "180"))
HANG = "HANG"


def _on_alarm(signum, frame):
    raise _Hang()


def safe_impl(prop, op):
    """one operation against the real code; an operation that does not return within OP_TIMEOUT_S seconds (a
    spinning or waiting implementation) is cut short and reported as a violation with that operation as input"""
    import signal
    use_alarm = hasattr(signal, "SIGALRM") and threading.current_thread() is threading.main_thread()
    if use_alarm:
        old = signal.signal(signal.SIGALRM, _on_alarm)
        signal.alarm(OP_TIMEOUT_S)
    try:
        return prop.run_impl(op)
    except _Hang:
        return HANG
    except Exception as e:  # harness-level surprise: make it visible as an output
        return f"HARNESS-RAISED {type(e).__name__}: {e}"
    finally:
        if use_alarm:
            signal.alarm(0)
            signal.signal(signal.SIGALRM, old)


def safe_signature(prop, op, what):
    if what.startswith("hang:"):
        return "hang"
    return prop.signature(op, what)


def safe_oracle(prop, op, out):
    if out == HANG:
        return f"hang: the implementation did not return within {OP_TIMEOUT_S} s on this operation"
    try:
        return prop.oracle(op, out)
    except Exception as e:
        return f"oracle raised {type(e).__name__}: {e}"


def run_ops(prop, ops):
    """Real code + oracle on a list of ops.  Returns (impl_outs, violations[(op, out, what)])."""
    outs, viols = [], []
    hangs = 0
    for op in ops:
        o = safe_impl(prop, op)
        outs.append(o)
        w = safe_oracle(prop, op, o)
        if w:
            viols.append((op, o, w))
        if o == HANG:
            hangs += 1
            if hangs >= 3:
                break          # enough evidence; do not spend OP_TIMEOUT_S on every further operation
    return outs, viols


def shrink(prop, op, what):
    try:
        return _shrink(prop, op, what)
    except Exception:      # a shrinker that cannot handle this operation must not cost the report
        return op


def _shrink(prop, op, what):
    if not hasattr(prop, "shrink_candidates"):
        return op
    cur = op
    for _ in range(200):
        for cand in prop.shrink_candidates(cur):
            o = safe_impl(prop, cand)
            w = safe_oracle(prop, cand, o)
            if w and safe_signature(prop, cand, w) == safe_signature(prop, cur, what):
                cur = cand
                break
        else:
            return cur
    return cur


def check(pid, tier, seed, replay=None):
    t0 = time.time()
    prop = load_prop(pid)
    rng = random.Random(seed * 1000003 + int(pid[1:]))
    broken = []        # broken obligations: (kind, name, detail)
    notes = []

    if replay:
        with open(replay if os.path.isabs(replay) else os.path.join(VERIF, replay)) as f:
            rp = json.load(f)
        ops = rp.get("ops", [])
        outs, viols = run_ops(prop, ops)
        for op, o, w in viols:
            log(f"replay: op={op!r} impl={o!r}: {w}")
        if viols:
            log(f"VIOLATION property={pid} replay={replay}")
            return 1
        log(f"replay: {len(ops)} operation(s) no longer violate {pid}"
            + (f"; recorded obligation: {rp.get('obligation')}" if rp.get("obligation") else ""))
        return 0

    # 1. regenerate tables ------------------------------------------------------------
    gen, gen_errs = gen_tables.generate(REPO)
    notes.append(f"tables: {gen}")
    for name, err in gen_errs.items():
        if name in getattr(prop, "GENERATED", []) or name == "*":
            broken.append(("translator", name, err))

    # fingerprints → escalation
    fp_now = fingerprint(getattr(prop, "FINGERPRINT", []))
    fp_old = load_fp().get(pid, {})
    changed = sorted(q for q in fp_now if fp_old.get(q) != fp_now[q])
    eff_tier = tier
    if changed and tier == "quick" and fp_old and not os.environ.get("VERIF_NO_ESCALATE"):
        eff_tier = "thorough"
        notes.append(f"escalated to thorough sweep: source changed in {changed}")

    # 2. build proofs + driver, audit ----------------------------------------------------
    theorems = list(prop.THEOREMS)
    discharged = {}
    model_ok = True
    ok, text = lake_build([f"driver_{pid}"])
    if not ok:
        model_ok = False
        broken.append(("model-build", f"driver_{pid}", tail(text)))
    ok, text = lake_build(list(prop.PROOF_MODULES))
    proofs_ok = ok
    if not ok:
        broken.append(("proof-build", ",".join(prop.PROOF_MODULES), tail(text)))
    src_hits = source_audit(list(prop.PROOF_MODULES) + [f"Driver.Main{pid}"])
    if src_hits:
        broken.append(("source-audit", "forbidden construct", "; ".join(src_hits[:10])))
    axioms = {}
    if proofs_ok:
        axioms, atext = axiom_audit(prop.PROOF_MODULES, theorems)
        for t in theorems:
            ax = axioms.get(t)
            if ax is None:
                broken.append(("theorem-missing", t, tail(atext, 5)))
            elif not set(ax) <= ALLOWED_AXIOMS:
                broken.append(("axioms", t, str(ax)))
            elif not src_hits:
                discharged[t] = ax
    if tier == "thorough" and proofs_ok and shutil.which("leanchecker"):
        lock = lake_lock()
        try:
            rc, out, err = run(["lake", "env", "leanchecker"] + list(prop.PROOF_MODULES),
                               cwd=LEAN, timeout=3000)
        finally:
            lock.close()
        notes.append(f"leanchecker rc={rc}")
        if rc != 0:
            broken.append(("leanchecker", ",".join(prop.PROOF_MODULES), tail(out + err)))

    # 3. correspondence --------------------------------------------------------------------
    corpus = list(getattr(prop, "CORPUS", []))
    escalated = eff_tier != tier
    ops = corpus + [o for o in prop.gen_ops(tier, rng)]
    seen, uniq = set(), []
    for o in ops:
        if o not in seen:
            seen.add(o)
            uniq.append(o)
    ops = uniq
    impl_outs, viols = run_ops(prop, ops)
    if len(impl_outs) < len(ops):
        notes.append(f"stopped after {len(impl_outs)} of {len(ops)} operations: the implementation hung repeatedly")
        ops = ops[:len(impl_outs)]
    elif escalated:
        # a changed anchored function gets the thorough generator at once - unless the ordinary stream already
        # shows a violation that is not a recorded finding (then the report must not wait for the deep sweep)
        open_sigs = {k["signature"] for k in load_known()
                     if k.get("property") == pid and k.get("status") == "open"}
        if any(safe_signature(prop, o, w) not in open_sigs for o, _, w in viols):
            notes.append("thorough sweep skipped: the ordinary stream already shows a violation")
        else:
            more = []
            for o in prop.gen_ops(eff_tier, random.Random(seed * 1000003 + int(pid[1:]))):
                if o not in seen:
                    seen.add(o)
                    more.append(o)
            outs2, viols2 = run_ops(prop, more)
            if len(outs2) < len(more):
                notes.append(f"stopped after {len(ops) + len(outs2)} of {len(ops) + len(more)} operations: "
                             "the implementation hung repeatedly")
                more = more[:len(outs2)]
            ops, impl_outs, viols = ops + more, impl_outs + outs2, viols + viols2
    mismatches = []
    model_outs = [None] * len(ops)
    if model_ok:
        try:
            model_outs = driver_run(pid, [f"{pid} {o}" for o in ops])
            if hasattr(prop, "canon_model"):
                model_outs = [prop.canon_model(o, m) for o, m in zip(ops, model_outs)]
        except Infra as e:
            broken.append(("driver", "driver", str(e)))
            model_ok = False
    if model_ok:
        skip = getattr(prop, "model_skips", lambda o: False)
        canon_impl = getattr(prop, "canon_impl", lambda o, x: x)     # for the comparison only, not for the oracle
        for o, a, b in zip(ops, impl_outs, model_outs):
            if canon_impl(o, a) != b and not skip(o):
                mismatches.append((o, a, b))
    if mismatches:
        for o, a, b in mismatches[:8]:
            log(f"correspondence mismatch: op={o!r} impl={a!r} model={b!r}")
        broken.append(("correspondence", f"{pid} stream",
                       f"{len(mismatches)} of {len(ops)} operations differ; first: "
                       + "; ".join(f"op={o!r} impl={a!r} model={b!r}" for o, a, b in mismatches[:5])))

    # 4/5. verdict ---------------------------------------------------------------------------
    known = [k for k in load_known() if k.get("property") == pid and k.get("status") == "open"]
    known_sigs = {k["signature"]: k for k in known}
    new_viols, known_hit = {}, {}
    for op, o, w in viols:
        sig = safe_signature(prop, op, w)
        if sig in known_sigs:
            known_hit.setdefault(sig, (op, o, w))
        else:
            new_viols.setdefault(sig, (op, o, w))
    # a broken obligation with no failing input so far: widen the search
    searched = 0
    if broken and not new_viols:
        # bounded in time: the mismatching operations first, then fresh streams with other seeds
        budget = float(getattr(prop, "SEARCH_BUDGET_S", 90))
        t_search = time.time()
        sseen = set(ops) - {m[0] for m in mismatches}

        def candidates():
            for m in mismatches:
                yield m[0]
            for k in range(3):
                r2 = random.Random(rng.random())
                gen = prop.search_ops(eff_tier, r2) if hasattr(prop, "search_ops") else prop.gen_ops("thorough", r2)
                for o in gen:
                    yield o

        for o in candidates():
            if time.time() - t_search > budget:
                notes.append(f"failing-input search stopped after {budget:.0f} s ({searched} operations)")
                break
            if o in sseen:
                continue
            sseen.add(o)
            searched += 1
            out_o = safe_impl(prop, o)
            w = safe_oracle(prop, o, out_o)
            if w:
                sig = safe_signature(prop, o, w)
                if sig in known_sigs:
                    known_hit.setdefault(sig, (o, out_o, w))
                else:
                    new_viols.setdefault(sig, (o, out_o, w))
                    break

    for sig, (op, o, w) in sorted(known_hit.items()):
        log(f"KNOWN-FINDING: property={pid} {known_sigs[sig]['what']} [{sig}]")

    rc = 0
    replay_paths = []
    if new_viols:
        rc = 1
        for sig, (op, o, w) in sorted(new_viols.items()):
            small = shrink(prop, op, w)
            so = safe_impl(prop, small)
            sw = safe_oracle(prop, small, so) or w
            path = write_replay(pid, {"property": pid, "ops": [small], "original_op": op,
                                      "observed": so, "what": sw, "signature": sig,
                                      "broken_obligations": [b[:2] for b in broken]})
            replay_paths.append(path)
            log(f"failing input on the implementation: op={small!r} observed={so!r}: {sw}")
            log(f"VIOLATION property={pid} replay={path}")
    elif broken:
        rc = 1
        path = write_replay(pid, {"property": pid, "ops": [m[0] for m in mismatches[:20]],
                                  "obligation": [list(b) for b in broken],
                                  "mismatches": [list(m) for m in mismatches[:20]],
                                  "searched_ops": searched + len(ops),
                                  "what": "proof obligation or correspondence no longer checks; "
                                          "no failing input found on the implementation"})
        replay_paths.append(path)
        for b in broken:
            log(f"broken obligation: {b[0]} {b[1]}: {b[2][:2000]}")
        log(f"VIOLATION property={pid} replay={path} no-failing-input-found")

    # 6. evidence --------------------------------------------------------------------------
    nontriv = set()
    hist = {}
    for o, a in zip(ops, impl_outs):
        try:
            if prop.nontrivial(o, a):
                nontriv.add(o)
            k = prop.classify(o, a) if hasattr(prop, "classify") else o.split(" ")[0]
        except Exception:
            k = "?"
        hist[k] = hist.get(k, 0) + 1
    samples = []
    step = max(1, len(ops) // 8)
    for i in range(0, len(ops), step):
        samples.append({"op": f"{pid} {ops[i]}"[:400], "impl": str(impl_outs[i])[:400],
                        "model": str(model_outs[i])[:400]})
    ev = {
        "property_id": pid, "tier": tier, "seed": seed, "level": "proof",
        "coverage": {
            "obligations": len(theorems), "discharged": len(discharged),
            "checker_cmd": f"cd lean && lake build {' '.join(prop.PROOF_MODULES)} && lake env lean "
                           f"<#print axioms of each theorem> (run by ./check {pid}); thorough adds "
                           f"lake env leanchecker {' '.join(prop.PROOF_MODULES)}",
            "trusted_base": list(getattr(prop, "TRUSTED", [])) + [
                "Lean 4.33.0 kernel; axioms allowed: propext, Classical.choice, Quot.sound",
                "harness/gen_tables.py (table translator) and the correspondence run of this check"],
            "theorems": {t: discharged.get(t) for t in theorems},
            "traces_validated_against_impl": len(ops) if model_ok else 0,
            "correspondence_mismatches": len(mismatches),
            "evaluations": len(ops) + searched,
            "distinct_nontrivial": len(nontriv),
            "rule": getattr(prop, "RULE", ""),
            "histogram": dict(sorted(hist.items())),
            "samples": samples[:10],
            "effective_tier": eff_tier, "source_changed": changed,
            "broken_obligations": [list(b[:2]) for b in broken],
            "known_findings_seen": sorted(known_hit),
            "notes": notes,
            "exhaustive": bool(getattr(prop, "EXHAUSTIVE", False)),
        },
        "assumptions": list(getattr(prop, "ASSUMPTIONS", [])),
        "wall_s": round(time.time() - t0, 2),
        "violations": len(new_viols) if new_viols else (1 if broken else 0),
    }
    os.makedirs(os.path.join(VERIF, "evidence"), exist_ok=True)
    with open(os.path.join(VERIF, "evidence", f"{pid}.json"), "w") as f:
        json.dump(ev, f, indent=1)
    log(f"{pid}: tier={tier} seed={seed} obligations={len(theorems)} discharged={len(discharged)} "
        f"ops={len(ops)} nontrivial={len(nontriv)} mismatches={len(mismatches)} "
        f"violations={ev['violations']} wall={ev['wall_s']}s")
    return rc


def tail(text, n=30):
    lines = [l for l in text.strip().split("\n") if l.strip()]
    errs = [l for l in lines if "error" in l.lower()]
    sel = (errs[:n // 2] + lines[-n // 2:]) if errs else lines[-n:]
    return "\n".join(sel)


def main():
    ap = argparse.ArgumentParser()
    ap.add_argument("pid", nargs="?")
    ap.add_argument("--tier", default=os.environ.get("VERIF_TIER", "quick"))
    ap.add_argument("--seed", type=int, default=int(os.environ.get("VERIF_SEED", "0") or 0))
    ap.add_argument("--replay")
    ap.add_argument("--setup", action="store_true")
    ap.add_argument("--update-fingerprints", action="store_true")
    ap.add_argument("--dry-fingerprint", action="store_true",
                    help="only say whether the source anchored in this property differs from the recorded fingerprints")
    a = ap.parse_args()
    try:
        if a.setup:
            print(gen_tables.generate(REPO))
            ok, text = lake_build([])
            print(tail(text, 40))
            return 0 if ok else 2
        if a.update_fingerprints:
            fps = load_fp()
            for pid in ALL_IDS:
                try:
                    prop = load_prop(pid)
                except ModuleNotFoundError:
                    continue
                fps[pid] = fingerprint(getattr(prop, "FINGERPRINT", []))
            with open(FP_FILE, "w") as f:
                json.dump(fps, f, indent=1, sort_keys=True)
            return 0
        if a.dry_fingerprint:
            prop = load_prop(a.pid.upper())
            now = fingerprint(getattr(prop, "FINGERPRINT", []))
            old = load_fp().get(a.pid.upper(), {})
            ch = sorted(q for q in now if old.get(q) != now[q])
            print("CHANGED " + ",".join(ch) if ch else "SAME")
            return 0
        if a.tier not in ("quick", "thorough"):
            raise Infra(f"unknown tier {a.tier}")
        return check(a.pid.upper(), a.tier, a.seed, a.replay)
    except Infra as e:
        log(f"INFRASTRUCTURE: {e}")
        return 2
    except Exception:
        traceback.print_exc()
        log("INFRASTRUCTURE: harness crashed")
        return 2
    finally:
        shutil.rmtree(WORK, ignore_errors=True)


if __name__ == "__main__":
    sys.exit(main())
