#!/bin/sh
# runs the thorough tier of every claimed check in turn; prints one summary line per property
cd "$(dirname "$0")/.."
./check --setup >/dev/null 2>&1
rc=0
for p in $(/venv/bin/python -c "import json;print(' '.join(c['property_id'] for c in json.load(open('MANIFEST.json'))['checks']))"); do
  ./check $p --tier thorough 2>&1 | grep -E "^(VIOLATION|KNOWN-FINDING|$p:)" | cut -c1-300
  [ $? -eq 0 ] || rc=1
done
exit $rc
