"""Reference SDO block-transfer servers (CiA 301 §7.2.4.3.9–17), written independently of the
Lean specification `CanopenModel/Spec/BlockServer.lean` (the differential run compares the two).

Pure protocol objects: `on_frame(bytes) -> [bytes]` (responses, in order) and
`on_timeout() -> [bytes]` (what the server does when its own time-out expires).  No canopen
import, own CRC (bitwise CRC-16/XMODEM, *not* binascii).
"""


def crc16_xmodem(data, crc=0):
    """CRC-16/XMODEM, polynomial x^16+x^12+x^5+1, initial value 0, bit by bit, MSB first."""
    for byte in data:
        crc ^= byte << 8
        for _ in range(8):
            crc = ((crc << 1) ^ 0x1021) & 0xFFFF if crc & 0x8000 else (crc << 1) & 0xFFFF
    return crc


def le(n, k):
    return bytes((n >> (8 * i)) & 0xFF for i in range(k))


def abort_frame(idx, sub, code):
    return bytes([0x80]) + le(idx, 2) + bytes([sub]) + le(code, 4)


class RefBlockDownloadServer:
    """Conformant block-download server.

    blks: non-empty list of block sizes (1..127); the k-th announcement (initiate response, then
    every sub-block acknowledge) uses blks[k % len(blks)].  crc_capable: server supports CRC.
    Strictness: the first protocol illegality seen is recorded in `illegal` (a small number).
    Out-of-order segments are ignored; a sub-block is acknowledged when the segment carrying
    seqno == blksize or c == 1 arrives (in order or not) or when the server times out, always with
    the number of the last segment received in order."""

    def __init__(self, blks, crc_capable):
        self.blks, self.k, self.crc_capable = list(blks), 0, crc_capable
        self.state = "idle"
        self.committed = None
        self.illegal = None
        self.idx = self.sub = 0
        self.size = None
        self.crc = False
        self.blk = 0
        self.sseq = 0
        self.buf = b""

    def _next_blk(self):
        b = self.blks[self.k % len(self.blks)]
        self.k += 1
        return b

    def _flag(self, code):
        if self.illegal is None:
            self.illegal = code

    def _ack(self):
        """acknowledge what arrived in order and open the next sub-block"""
        nb = self._next_blk()
        r = bytes([0xA2, self.sseq, nb, 0, 0, 0, 0, 0])
        self.sseq, self.blk = 0, nb
        return [r]

    def on_timeout(self):
        if self.state == "recv":
            return self._ack()
        return []

    def on_frame(self, f):
        f = bytes(f)
        if len(f) != 8:
            self._flag(1)
            return []
        b0 = f[0]
        if self.state == "idle":
            if b0 & 0xE0 == 0xC0 and b0 & 1 == 0:
                if b0 & 0x18:
                    self._flag(2)
                self.idx, self.sub = f[1] | f[2] << 8, f[3]
                if b0 & 2:
                    self.size = int.from_bytes(f[4:8], "little")
                else:
                    self.size = None
                    if f[4:8] != bytes(4):
                        self._flag(3)
                self.crc = bool(b0 & 4) and self.crc_capable
                self.blk = self._next_blk()
                self.sseq, self.buf, self.state = 0, b"", "recv"
                return [bytes([0xA0 | (4 if self.crc_capable else 0), f[1], f[2], f[3], self.blk, 0, 0, 0])]
            if b0 != 0x80:
                self._flag(8)
            return []
        if self.state == "recv":
            if b0 == 0x80:
                self.state = "idle"
                return []
            seq, last = b0 & 0x7F, bool(b0 & 0x80)
            if seq == self.sseq + 1:
                self.buf += f[1:8]
                self.sseq += 1
                if last:
                    self.state = "end"
                    return self._ack()
                if self.sseq == self.blk:
                    return self._ack()
                return []
            if last or seq == self.blk:
                return self._ack()
            return []
        # state "end": all segments are in, waiting for the end request
        if b0 == 0x80:
            self.state = "idle"
            return []
        self.state = "idle"
        if b0 & 0xE0 == 0xC0 and b0 & 1 == 1:
            if b0 & 2:
                self._flag(4)
            n = (b0 >> 2) & 7
            if f[3:8] != bytes(5):
                self._flag(5)
            data, unused = self.buf[:len(self.buf) - n], self.buf[len(self.buf) - n:]
            if unused != bytes(len(unused)):
                self._flag(6)
            if self.crc and crc16_xmodem(data) != (f[1] | f[2] << 8):
                return [abort_frame(self.idx, self.sub, 0x05040004)]
            if self.size is not None and self.size != len(data):
                self._flag(7)
                return [abort_frame(self.idx, self.sub, 0x06070010)]
            self.committed = data
            return [bytes([0xA1, 0, 0, 0, 0, 0, 0, 0])]
        self._flag(8)
        return [abort_frame(self.idx, self.sub, 0x05040001)]


class RefBlockUploadServer:
    """Conformant block-upload server holding `data` (length >= 1).

    Sends each sub-block as segments numbered 1..blksize (numbering restarts at 1 after every
    acknowledge, CiA 301), c = 1 on the segment that exhausts the data; after an acknowledge with
    ackseq smaller than the number of segments sent it resends from the first unacknowledged
    segment; when everything is acknowledged it sends the end response with n = unused bytes of
    the last segment and, when CRC is negotiated, the CRC-16 of the whole value.
    Disturbance knobs used by the harness (not part of the protocol): crc_xor (the announced CRC is
    XOR-ed with it), end_b0 (overrides the first byte of the end response)."""

    def __init__(self, data, crc_capable, size_indicated, crc_xor=0, end_b0=None):
        self.data = bytes(data)
        self.crc_capable, self.size_indicated = crc_capable, size_indicated
        self.crc_xor, self.end_b0 = crc_xor, end_b0
        self.state = "idle"
        self.illegal = None
        self.confirmed = False
        self.idx = self.sub = 0
        self.crc = False
        self.blk = 0
        self.base = 0      # segments acknowledged so far
        self.sent = 0      # segments sent in the current sub-block
        self.nseg = (len(self.data) + 6) // 7

    def _flag(self, code):
        if self.illegal is None:
            self.illegal = code

    def on_timeout(self):
        return []

    def _segment(self, g, seq):
        chunk = self.data[7 * g:7 * g + 7]
        last = g == self.nseg - 1
        return bytes([seq | (0x80 if last else 0)]) + chunk + bytes(7 - len(chunk))

    def _send_block(self):
        out = []
        self.sent = min(self.blk, self.nseg - self.base)
        for i in range(self.sent):
            out.append(self._segment(self.base + i, i + 1))
        self.state = "ack"
        return out

    def on_frame(self, f):
        f = bytes(f)
        if len(f) != 8:
            self._flag(1)
            return []
        b0 = f[0]
        if b0 == 0x80:
            self.state = "idle"
            return []
        if self.state == "idle":
            if b0 & 0xE0 == 0xA0 and b0 & 3 == 0:
                if b0 & 0x18:
                    self._flag(2)
                if f[6:8] != bytes(2):
                    self._flag(3)
                self.idx, self.sub = f[1] | f[2] << 8, f[3]
                self.blk = f[4]
                if not 1 <= self.blk <= 127:
                    self._flag(9)
                    return [abort_frame(self.idx, self.sub, 0x05040002)]
                self.crc = bool(b0 & 4) and self.crc_capable
                self.base, self.state = 0, "start"
                size = len(self.data) if self.size_indicated else 0
                return [bytes([0xC0 | (4 if self.crc_capable else 0) | (2 if self.size_indicated else 0),
                               f[1], f[2], f[3]]) + le(size, 4)]
            self._flag(8)
            return []
        if self.state == "start":
            if b0 & 0xE0 == 0xA0 and b0 & 3 == 3:
                if b0 & 0x1C or f[1:8] != bytes(7):
                    self._flag(4)
                return self._send_block()
            self._flag(8)
            self.state = "idle"
            return [abort_frame(self.idx, self.sub, 0x05040001)]
        if self.state == "ack":
            if b0 & 0xE0 == 0xA0 and b0 & 3 == 2:
                if b0 & 0x1C or f[3:8] != bytes(5):
                    self._flag(5)
                ackseq, blk = f[1], f[2]
                if ackseq > self.sent or not 1 <= blk <= 127:
                    self._flag(6)
                    self.state = "idle"
                    return [abort_frame(self.idx, self.sub, 0x05040002 if ackseq <= self.sent else 0x05040003)]
                self.base += ackseq
                self.blk = blk
                if self.base == self.nseg:
                    n = 7 * self.nseg - len(self.data)
                    crc = (crc16_xmodem(self.data) if self.crc else 0) ^ self.crc_xor
                    self.state = "end"
                    b = 0xC1 | n << 2 if self.end_b0 is None else self.end_b0
                    return [bytes([b]) + le(crc, 2) + bytes(5)]
                return self._send_block()
            self._flag(8)
            self.state = "idle"
            return [abort_frame(self.idx, self.sub, 0x05040001)]
        # state "end": waiting for the client's end confirmation
        self.state = "idle"
        if b0 & 0xE0 == 0xA0 and b0 & 3 == 1:
            if b0 & 0x1C or f[1:8] != bytes(7):
                self._flag(7)
            self.confirmed = True
            return []
        self._flag(8)
        return [abort_frame(self.idx, self.sub, 0x05040001)]
