"""One reference server speaking every SDO transfer type, for checks that run different kinds of
transfer one after the other on the same server (C07 block ops): the strict expedited/segmented
server of props/c01.py and the two block servers of ref_block_server.py share one object store.

Routing (CiA 301 leaves no choice while a block transfer is running: inside a block download
sub-block every frame is a segment; a block upload server waits for its own sub-commands):
  * a block transfer in progress gets every frame;
  * otherwise ccs = 6 goes to the block-download server, ccs = 5 to the block-upload server (both
    ignore anything but an initiate request when idle), everything else to the segmented server.
A committed block download is stored like any other download.  `on_timeout` is a no-op: the
server's own time-out is taken to be longer than the client's.
"""
from peers.ref_block_server import RefBlockDownloadServer, RefBlockUploadServer, abort_frame


class RefCombinedServer:
    def __init__(self, seg_server, blks, crc_capable, size_indicated):
        self.seg = seg_server
        self.blks, self.crc_capable, self.size_indicated = list(blks), crc_capable, size_indicated
        self.k = 0                       # block sizes announced so far (the stream goes on across transfers)
        self.bd = self._new_bd()
        self.bu = None
        self.block_illegal = None

    def _new_bd(self):
        bd = RefBlockDownloadServer(self.blks, self.crc_capable)
        bd.k = self.k
        return bd

    @property
    def commits(self):
        return self.seg.commits

    @property
    def illegal(self):
        if self.seg.illegal is not None:
            return self.seg.illegal
        return None if self.block_illegal is None else f"block {self.block_illegal}"

    def _note(self, srv):
        if self.block_illegal is None and srv.illegal is not None:
            self.block_illegal = srv.illegal

    def on_timeout(self):
        return []

    def between(self):
        """time passes between two transfers: a block transfer still open at the server runs into the server's
        own SDO time-out, which a conformant server answers with an abort (code 0x05040000)"""
        out = []
        if self.bd.state != "idle":
            out.append(abort_frame(self.bd.idx, self.bd.sub, 0x05040000))
            self.bd.state = "idle"
        if self.bu is not None and self.bu.state != "idle":
            out.append(abort_frame(self.bu.idx, self.bu.sub, 0x05040000))
            self.bu.state = "idle"
        return out

    def on_frame(self, f):
        f = bytes(f)
        if self.bd.state != "idle":
            out = self.bd.on_frame(f)
            self.k = self.bd.k
            self._note(self.bd)
            if self.bd.committed is not None:
                key = (self.bd.idx, self.bd.sub)
                self.seg.held[key] = self.bd.committed
                self.seg.commits.append((key, self.bd.committed))
                self.bd.committed = None
            return out
        if self.bu is not None and self.bu.state != "idle":
            out = self.bu.on_frame(f)
            self._note(self.bu)
            return out
        ccs = f[0] >> 5 if len(f) else 0
        if len(f) == 8 and ccs == 6:
            if f[0] & 1 == 0:
                self.bd = self._new_bd()
            out = self.bd.on_frame(f)
            self.bd.illegal = None if f[0] & 1 else self.bd.illegal      # stray end request when idle: ignored
            self.k = self.bd.k
            self._note(self.bd)
            return out
        if len(f) == 8 and ccs == 5:
            if f[0] & 3 == 0:
                key = (f[1] | f[2] << 8, f[3])
                data = self.seg.held.get(key)
                if data is None or len(data) == 0:
                    return [abort_frame(key[0], key[1], 0x06020000 if data is None else 0x08000000)]
                self.bu = RefBlockUploadServer(data, self.crc_capable, self.size_indicated)
                out = self.bu.on_frame(f)
                self._note(self.bu)
                return out
            return []
        return self.seg.step(f)
