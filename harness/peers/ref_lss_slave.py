"""Reference LSS slave (CiA 305), Python peer of the C18 check.

Written from the standard, independently of canopen/lss.py and of the Lean spec
(lean/CanopenModel/Spec/LssSlave.lean); the differential run checks the two against each other.
It is a plain object with `on_frame(can_id, data) -> [(can_id, data), ...]`.
"""

TX_MASTER = 0x7E5     # master -> slave
TX_SLAVE = 0x7E4      # slave -> master
UNCONFIGURED = 0xFF


def _u32(b):
    return b[0] | b[1] << 8 | b[2] << 16 | b[3] << 24


def _frame(cs, *params):
    d = bytes([cs]) + bytes(params)
    return (TX_SLAVE, d + bytes(8 - len(d)))


class RefLssSlave:
    def __init__(self, vendor, product, revision, serial, store_err=0, config=False,
                 node_id=UNCONFIGURED, pending=UNCONFIGURED, pos=0, sel=0, idr=0):
        self.address = (vendor, product, revision, serial)
        self.store_err = store_err
        self.configuration = bool(config)      # LSS state: waiting / configuration
        self.node_id = node_id                 # active node-ID
        self.pending = pending                 # pending node-ID
        self.lss_pos = pos                     # fast scan position
        self.sel = sel                         # matched selective-switch parts
        self.idr = idr                         # matched identify-remote-slave parts
        self.bit_idx = None
        self.stored = None
        self.activated = None

    # ------------------------------------------------------------------ helpers
    def unconfigured(self):
        return self.node_id == UNCONFIGURED and self.pending == UNCONFIGURED

    # ---------------------------------------------------------------- dispatch
    def on_frame(self, can_id, data):
        if can_id != TX_MASTER or len(data) != 8:
            return []
        cs = data[0]
        if cs == 0x04:
            return self._switch_global(data[1])
        if 0x40 <= cs <= 0x43:
            return self._selective(cs - 0x40, _u32(data[1:5]))
        if 0x46 <= cs <= 0x4B:
            return self._identify_remote(cs - 0x46, _u32(data[1:5]))
        if cs == 0x4C:
            return [_frame(0x50)] if self.unconfigured() else []
        if cs == 0x51:
            return self._fast_scan(_u32(data[1:5]), data[5], data[6], data[7])
        if not self.configuration:
            return []               # everything below is a configuration-state service
        if cs == 0x11:
            nid = data[1]
            if 1 <= nid <= 127 or nid == UNCONFIGURED:
                self.pending = nid
                return [_frame(0x11, 0, 0)]
            return [_frame(0x11, 1, 0)]
        if cs == 0x13:
            table, idx = data[1], data[2]
            if table == 0 and idx in (0, 1, 2, 3, 4, 6, 7, 8):
                self.bit_idx = idx
                return [_frame(0x13, 0, 0)]
            return [_frame(0x13, 1, 0)]
        if cs == 0x15:
            self.activated = data[1] | data[2] << 8
            return []
        if cs == 0x17:
            if self.store_err:
                return [_frame(0x17, self.store_err & 0xFF, 0)]
            self.stored = (self.pending, self.bit_idx)
            return [_frame(0x17, 0, 0)]
        if 0x5A <= cs <= 0x5D:
            part = self.address[cs - 0x5A]
            return [_frame(cs, part & 0xFF, part >> 8 & 0xFF, part >> 16 & 0xFF, part >> 24 & 0xFF)]
        if cs == 0x5E:
            return [_frame(0x5E, self.node_id & 0xFF)]
        return []

    # ---------------------------------------------------------------- services
    def _switch_global(self, mode):
        if mode in (0, 1):
            self.configuration = mode == 1
            self.sel = 0
        return []

    def _selective(self, k, value):
        if self.configuration:
            return []
        if k < 3:
            in_order = k == 0 or self.sel == k      # the vendor-id frame (re)starts the sequence
            self.sel = k + 1 if (in_order and value == self.address[k]) else 0
            return []
        hit = self.sel == 3 and value == self.address[3]
        self.sel = 0
        if hit:
            self.configuration = True
            return [_frame(0x44)]
        return []

    def _identify_remote(self, k, value):
        v, p, r, s = self.address
        ok = self.idr == k and [value == v, value == p, value <= r, r <= value, value <= s, s <= value][k]
        if k == 0:
            ok = value == v             # the first part restarts the sequence
        if k < 5:
            self.idr = k + 1 if ok else 0
            return []
        self.idr = 0
        return [_frame(0x4F)] if ok else []

    def _fast_scan(self, id_number, bit_checked, lss_sub, lss_next):
        if self.configuration or not self.unconfigured():
            return []
        if bit_checked == 128:
            self.lss_pos = 0
            return [_frame(0x4F)]
        if bit_checked > 31 or lss_sub > 3 or lss_next > 3:
            return []
        if lss_sub != self.lss_pos:
            return []
        mask = (0xFFFFFFFF << bit_checked) & 0xFFFFFFFF
        if (self.address[lss_sub] ^ id_number) & mask:
            return []
        self.lss_pos = lss_next
        if bit_checked == 0 and lss_next < lss_sub:
            self.configuration = True
        return [_frame(0x4F)]

    # ----------------------------------------------------------------- display
    def show(self):
        def o(x):
            return "-" if x is None else str(x)
        stored = "-" if self.stored is None else f"{self.stored[0]}/{o(self.stored[1])}"
        return (f"S:{int(self.configuration)},{self.node_id},{self.pending},{self.lss_pos},{self.sel},"
                f"{self.idr},{o(self.bit_idx)},{stored},{o(self.activated)}")
