"""Synchronous in-memory rig that drives the real `canopen.sdo.SdoClient` against a protocol peer
(DESIGN.md §4 "Simulated bus", "Peers and environment").

* `RigNetwork` is a `canopen.Network` subclass whose `send_message` hands every frame, as a fresh
  `bytes`, synchronously to the peer's `on_frame`, and the peer's answers to the client's
  `on_response` (what `Network.notify` would call).  Both directions pass through a disturbance
  (`lose_req(n, frame)`, `chan_resp(n, frame) -> frame | None`) and are written to `trace`.
* Time never passes for real: the module attributes `queue` and `time` *of canopen.sdo.client* are
  replaced (assignment from the harness, /repo is not touched) by shims.  A `get()` on an empty
  response queue first lets the peer's own time-out fire (`peer.on_timeout()`), and if the queue is
  still empty advances the fake clock by the client's RESPONSE_TIMEOUT and raises `queue.Empty`
  immediately.  So a time-out is the abstract "no response" event of the model.
"""
import collections
import queue as _queue

import canopen
import canopen.sdo.client as _client_mod


class Rig:
    current = None

    def __init__(self, node_id, peer, lose_req=None, chan_resp=None):
        install()
        self.peer = peer
        self.lose_req = lose_req or (lambda n, f: False)
        self.chan_resp = chan_resp or (lambda n, f: f)
        self.trace = []
        self.pending = []
        self.delivered = []
        self.nreq = 0
        self.nresp = 0
        self.now = 1000.0
        self.network = RigNetwork(self)
        self.client = canopen.sdo.SdoClient(0x600 + node_id, 0x580 + node_id,
                                            canopen.ObjectDictionary())
        self.client.network = self.network
        self.client.RESPONSE_TIMEOUT = 0.001
        self.client.responses = HookQueue()
        Rig.current = self

    def _put(self, d):
        self.delivered.append(bytes(d))
        self.client.on_response(self.client.tx_cobid, bytearray(d), 0.0)

    def deliver(self, frames):
        for r in frames:
            n, self.nresp = self.nresp, self.nresp + 1
            d = self.chan_resp(n, bytes(r))
            if isinstance(d, tuple):
                # (frames that arrive now, frames that arrive when the client sends its next frame)
                now, later = d
                self.trace.append("*" + bytes(r).hex())
                for x in now:
                    self.trace.append("~" + bytes(x).hex())
                    self._put(x)
                self.pending += [bytes(x) for x in later]
                continue
            if d is None:
                self.trace.append("!" + bytes(r).hex())
                continue
            if d != bytes(r):
                self.trace.append("~" + bytes(d).hex())
            else:
                self.trace.append("<" + bytes(r).hex())
            self._put(d)

    def on_request(self, can_id, data):
        f = bytes(data)
        n, self.nreq = self.nreq, self.nreq + 1
        if can_id != self.client.rx_cobid:
            self.trace.append("?%x:%s" % (can_id, f.hex()))
            return
        if self.lose_req(n, f):
            self.trace.append("x" + f.hex())
            return
        self.trace.append(">" + f.hex())
        for x in self.pending:
            self.trace.append("+" + x.hex())
            self._put(x)
        self.pending = []
        self.deliver(self.peer.on_frame(f))

    def between(self, frames=()):
        """time passes between two transfers: what was held back arrives, then `frames` (the peer's own
        time-out reaction); all of it is stale by the time the next transfer starts"""
        for x in self.pending + [bytes(f) for f in frames]:
            self.trace.append("+" + x.hex())
            self._put(x)
        self.pending = []

    def on_client_timeout(self):
        self.deliver(self.peer.on_timeout())


class RigNetwork(canopen.Network):
    def __init__(self, rig):
        super().__init__()
        self.rig = rig

    def send_message(self, can_id, data, remote=False):
        self.rig.on_request(can_id, data)


class HookQueue:
    """queue.Queue stand-in (the four methods SdoClient uses); FIFO; never blocks."""

    def __init__(self, maxsize=0):
        self.q = collections.deque()

    def put(self, item, block=True, timeout=None):
        self.q.append(item)

    def empty(self):
        return not self.q

    def get(self, block=True, timeout=None):
        rig = Rig.current
        if not self.q and rig is not None and rig.client.responses is self:
            rig.on_client_timeout()
        if not self.q:
            if rig is not None:
                rig.now += timeout or 0.0
            raise _queue.Empty
        return self.q.popleft()


class _QueueShim:
    Queue = HookQueue
    Empty = _queue.Empty


class _TimeShim:
    @staticmethod
    def time():
        return Rig.current.now if Rig.current is not None else 0.0

    @staticmethod
    def sleep(s):
        if Rig.current is not None:
            Rig.current.now += s


def install():
    """idempotent; called by every Rig (not at import, so that merely importing a property module, as
    mk_manifest.py does, leaves canopen untouched)"""
    _client_mod.queue = _QueueShim
    _client_mod.time = _TimeShim
