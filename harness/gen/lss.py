from genlib import *  # noqa: F401,F403


def gen_lss():
    """canopen/lss.py: command specifiers, the need-response list, COB-IDs, state and error codes."""
    from canopen import lss
    out = header("Lss", "canopen/lss.py (module constants, ListMessageNeedResponse, LssMaster class attributes)")
    names = ["CS_SWITCH_STATE_GLOBAL", "CS_CONFIGURE_NODE_ID", "CS_CONFIGURE_BIT_TIMING",
             "CS_ACTIVATE_BIT_TIMING", "CS_STORE_CONFIGURATION",
             "CS_SWITCH_STATE_SELECTIVE_VENDOR_ID", "CS_SWITCH_STATE_SELECTIVE_PRODUCT_CODE",
             "CS_SWITCH_STATE_SELECTIVE_REVISION_NUMBER", "CS_SWITCH_STATE_SELECTIVE_SERIAL_NUMBER",
             "CS_SWITCH_STATE_SELECTIVE_RESPONSE",
             "CS_IDENTIFY_REMOTE_SLAVE_VENDOR_ID", "CS_IDENTIFY_REMOTE_SLAVE_PRODUCT_CODE",
             "CS_IDENTIFY_REMOTE_SLAVE_REVISION_NUMBER_LOW", "CS_IDENTIFY_REMOTE_SLAVE_REVISION_NUMBER_HIGH",
             "CS_IDENTIFY_REMOTE_SLAVE_SERIAL_NUMBER_LOW", "CS_IDENTIFY_REMOTE_SLAVE_SERIAL_NUMBER_HIGH",
             "CS_IDENTIFY_NON_CONFIGURED_REMOTE_SLAVE", "CS_IDENTIFY_SLAVE",
             "CS_IDENTIFY_NON_CONFIGURED_SLAVE", "CS_FAST_SCAN",
             "CS_INQUIRE_VENDOR_ID", "CS_INQUIRE_PRODUCT_CODE", "CS_INQUIRE_REVISION_NUMBER",
             "CS_INQUIRE_SERIAL_NUMBER", "CS_INQUIRE_NODE_ID",
             "ERROR_NONE", "ERROR_INADMISSIBLE", "ERROR_STORE_NONE", "ERROR_STORE_NOT_SUPPORTED",
             "ERROR_STORE_ACCESS_PROBLEM", "ERROR_VENDOR_SPECIFIC"]
    for n in names:
        if not hasattr(lss, n):
            raise TranslatorError(f"lss.{n} missing")
        out += f"def {n} : Nat := {lnat(getattr(lss, n))}\n"
    out += "\n"
    lst = lss.ListMessageNeedResponse
    if not isinstance(lst, (list, tuple)):
        raise TranslatorError(f"ListMessageNeedResponse has unknown shape {type(lst)}")
    out += f"def ListMessageNeedResponse : List Nat := {lnatlist(list(lst))}\n\n"
    for n in ["LSS_TX_COBID", "LSS_RX_COBID", "WAITING_STATE", "CONFIGURATION_STATE"]:
        if not hasattr(lss.LssMaster, n):
            raise TranslatorError(f"LssMaster.{n} missing")
        out += f"def {n} : Nat := {lnat(getattr(lss.LssMaster, n))}\n"
    out += footer("Lss")
    return out


GENERATORS = {"Lss": gen_lss}
