from genlib import *  # noqa: F401,F403


def gen_sdoconst():
    from canopen.sdo import constants as c
    out = header("SdoConst", "canopen/sdo/constants.py")
    names = ["REQUEST_SEGMENT_DOWNLOAD", "REQUEST_DOWNLOAD", "REQUEST_UPLOAD", "REQUEST_SEGMENT_UPLOAD",
             "REQUEST_ABORTED", "REQUEST_BLOCK_UPLOAD", "REQUEST_BLOCK_DOWNLOAD",
             "RESPONSE_SEGMENT_UPLOAD", "RESPONSE_SEGMENT_DOWNLOAD", "RESPONSE_UPLOAD",
             "RESPONSE_DOWNLOAD", "RESPONSE_ABORTED", "RESPONSE_BLOCK_DOWNLOAD", "RESPONSE_BLOCK_UPLOAD",
             "INITIATE_BLOCK_TRANSFER", "END_BLOCK_TRANSFER", "BLOCK_TRANSFER_RESPONSE",
             "START_BLOCK_UPLOAD", "EXPEDITED", "SIZE_SPECIFIED", "BLOCK_SIZE_SPECIFIED",
             "CRC_SUPPORTED", "NO_MORE_DATA", "NO_MORE_BLOCKS", "TOGGLE_BIT"]
    for n in names:
        out += f"def {n} : Nat := {lnat(getattr(c, n))}\n"
    if c.SDO_STRUCT.format != "<BHB":
        raise TranslatorError(f"SDO_STRUCT format {c.SDO_STRUCT.format!r} is not the modelled '<BHB'")
    out += f"\n/-- `SDO_STRUCT.format` -/\ndef SDO_STRUCT_FORMAT : List Char := {lchars(c.SDO_STRUCT.format)}\n"
    out += footer("SdoConst")
    return out


GENERATORS = {"SdoConst": gen_sdoconst}
