"""Tables of canopen/network.py and of the node classes' (de)registration code (C10).

Constants are read from the live classes.  The *handler lists* of
`RemoteNode/LocalNode.associate_network` and `.remove_network` are not data in the source, they
are straight-line code; they are turned into data by running the live methods against a
recording network object (two different node ids, one extra SDO channel) and writing down every
`subscribe` / `unsubscribe` call in the order it was made.  A call that does not have one of the
known shapes is a TranslatorError (an obligation failure for C10, not a crash).
"""
from genlib import *  # noqa: F401,F403

# handler codes shared with lean/CanopenModel/Net/Network.lean (`Handler.ofCode`)
H_SDO_RESPONSE, H_HEARTBEAT, H_EMCY, H_NMT_COMMAND, H_SDO_REQUEST = 0, 1, 2, 3, 4


class _Recorder:
    """Stands in for a Network: records the (un)subscribe calls of one method call."""

    def __init__(self):
        self.calls = []

    def subscribe(self, can_id, callback):
        self.calls.append(("sub", can_id, callback))

    def unsubscribe(self, can_id, callback=None):
        self.calls.append(("unsub", can_id, callback))


def _owner(node, cb, what):
    """(row kind, handler code, channel index) of a bound method of `node`."""
    slf = getattr(cb, "__self__", None)
    name = getattr(getattr(cb, "__func__", None), "__name__", None)
    if slf is None or name is None:
        raise TranslatorError(f"{what}: callback {cb!r} is not a bound method")
    chans = getattr(node, "sdo_channels", None)
    if chans is not None:
        for k, ch in enumerate(chans):
            if slf is ch:
                if name != "on_response":
                    raise TranslatorError(f"{what}: SDO channel handler {name}")
                return ("chan", H_SDO_RESPONSE, k)
    if slf is node.nmt and name == "on_heartbeat":
        return ("fixed", H_HEARTBEAT, None)
    if slf is node.nmt and name == "on_command":
        return ("fixed", H_NMT_COMMAND, None)
    if slf is node.emcy and name == "on_emcy":
        return ("fixed", H_EMCY, None)
    if slf is node.sdo and name == "on_request":
        return ("fixed", H_SDO_REQUEST, None)
    raise TranslatorError(f"{what}: unknown handler {cb!r}")


def _record(cls, method, expect, node_id, extra):
    """Run cls(node_id).<method> against a recorder.  Returns [(kind, can_id, handler, chan)]."""
    from canopen.objectdictionary import ObjectDictionary
    node = cls(node_id, ObjectDictionary())
    if extra and hasattr(node, "add_sdo"):
        node.add_sdo(extra[0], extra[1])
    rec = _Recorder()
    what = f"{cls.__name__}.{method}"
    if method == "remove_network":
        node.associate_network(rec)     # remove_network talks to the network it was given
        del rec.calls[:]
        node.remove_network()
    else:
        node.associate_network(rec)
    rows = []
    for kind, can_id, cb in rec.calls:
        if kind != expect:
            raise TranslatorError(f"{what} calls {kind}")
        if cb is None:
            raise TranslatorError(f"{what}: unsubscribe without a callback")
        if not isinstance(can_id, int) or isinstance(can_id, bool) or can_id < 0:
            raise TranslatorError(f"{what}: CAN id {can_id!r}")
        k, h, ch = _owner(node, cb, what)
        if k == "chan" and can_id != node.sdo_channels[ch].tx_cobid:
            raise TranslatorError(f"{what}: SDO channel {ch} registered on {can_id:#x}, "
                                  f"its tx_cobid is {node.sdo_channels[ch].tx_cobid:#x}")
        rows.append((k, can_id, h, ch))
    return node, rows


def _rows(cls, method, expect):
    """Row list: (1, 0, false, 0) = `for sdo in sdo_channels: (sdo.tx_cobid, sdo.on_response)`;
    (0, base, perNode, handler) = one call on CAN id base (+ node id when perNode)."""
    a, b = 5, 77
    extra = (0x6C0, 0x5C0)
    na, ra = _record(cls, method, expect, a, extra)
    nb, rb = _record(cls, method, expect, b, extra)
    if [(r[0], r[2], r[3]) for r in ra] != [(r[0], r[2], r[3]) for r in rb]:
        raise TranslatorError(f"{cls.__name__}.{method}: calls depend on the node id")
    out = []
    i = 0
    while i < len(ra):
        k, cid_a, h, ch = ra[i]
        if k == "chan":
            n = len(na.sdo_channels)
            chs = [r[3] for r in ra[i:i + n]]
            if chs != list(range(n)) or any(r[0] != "chan" for r in ra[i:i + n]):
                raise TranslatorError(f"{cls.__name__}.{method}: SDO channels not handled by one "
                                      f"loop in channel order: {chs}")
            out.append(f"(1, 0, false, {H_SDO_RESPONSE})")
            i += n
            continue
        cid_b = rb[i][1]
        if cid_a == cid_b:
            out.append(f"(0, {lnat(cid_a)}, false, {h})")
        elif cid_a - a == cid_b - b and cid_a - a >= 0:
            out.append(f"(0, {lnat(cid_a - a)}, true, {h})")
        else:
            raise TranslatorError(f"{cls.__name__}.{method}: CAN id {cid_a:#x}/{cid_b:#x} is not "
                                  f"constant or base + node id")
        i += 1
    return out


def gen_network():
    from canopen import network as nw
    from canopen.lss import LssMaster
    from canopen.node import LocalNode, RemoteNode
    from canopen.objectdictionary import ObjectDictionary
    out = header("Network", "canopen/network.py (NodeScanner.SERVICES), canopen/lss.py "
                 "(LSS_RX_COBID), RemoteNode/LocalNode.associate_network and .remove_network "
                 "(recorded call lists), default SDO COB-IDs of the node classes")
    sv = nw.NodeScanner.SERVICES
    if not isinstance(sv, (tuple, list)):
        raise TranslatorError("NodeScanner.SERVICES is not a tuple")
    out += f"def SERVICES : List Nat := {lnatlist(list(sv))}\n"
    out += f"def LSS_RX_COBID : Nat := {lnat(LssMaster.LSS_RX_COBID)}\n"
    # what a fresh Network has subscribed before the user does anything
    net = nw.Network()
    init = []
    for cid, cbs in net.subscribers.items():
        for cb in cbs:
            if getattr(cb, "__self__", None) is net.lss and cb.__func__.__name__ == "on_message_received":
                init.append(lnat(cid))
            else:
                raise TranslatorError(f"Network.__init__ subscribes {cb!r} on {cid:#x}")
    out += ("/-- CAN ids on which `Network.__init__` has subscribed `lss.on_message_received` -/\n"
            f"def initLssIds : List Nat := {llist(init)}\n")
    # default SDO COB-IDs
    ra, rb = RemoteNode(5, ObjectDictionary()), RemoteNode(77, ObjectDictionary())
    if ra.sdo.tx_cobid - 5 != rb.sdo.tx_cobid - 77 or len(ra.sdo_channels) != 1:
        raise TranslatorError("RemoteNode default SDO channel is not base + node id")
    out += f"def REMOTE_SDO_TX_BASE : Nat := {lnat(ra.sdo.tx_cobid - 5)}\n"
    out += ("\n/-- rows: (1, 0, false, 0) = `for sdo in self.sdo_channels: (sdo.tx_cobid, "
            "sdo.on_response)`;\n    (0, base, perNode, handler) = one call on CAN id `base` "
            "(+ node id when `perNode`);\n    handler 0 SdoClient.on_response, 1 "
            "NmtMaster.on_heartbeat, 2 EmcyConsumer.on_emcy,\n    3 nmt.on_command, 4 "
            "SdoServer.on_request; in the order the code makes the calls -/\n")
    for name, cls, method, expect in [
            ("remoteAssociate", RemoteNode, "associate_network", "sub"),
            ("remoteRemove", RemoteNode, "remove_network", "unsub"),
            ("localAssociate", LocalNode, "associate_network", "sub"),
            ("localRemove", LocalNode, "remove_network", "unsub")]:
        rows = _rows(cls, method, expect)
        out += f"def {name} : List (Nat × Nat × Bool × Nat) := {llist(rows)}\n"
    out += footer("Network")
    return out


GENERATORS = {"Network": gen_network}
