"""Tables the periodic-transmission model (C17) takes from the working tree:
`nmt.COMMAND_TO_STATE`, `nmt.NMT_COMMANDS` (dict order kept) and `SyncProducer.cob_id`."""
from genlib import *  # noqa: F401,F403


def gen_periodic():
    from canopen import nmt
    from canopen.sync import SyncProducer
    out = header("PeriodicTables", "canopen/nmt.py COMMAND_TO_STATE, NMT_COMMANDS; "
                                   "canopen/sync.py SyncProducer.cob_id")
    if not isinstance(nmt.COMMAND_TO_STATE, dict) or not isinstance(nmt.NMT_COMMANDS, dict):
        raise TranslatorError("COMMAND_TO_STATE / NMT_COMMANDS are not dicts")
    out += "/-- `COMMAND_TO_STATE` : NMT command specifier ↦ NMT state, dict order -/\n"
    out += "def COMMAND_TO_STATE : List (Nat × Nat) := " + llist(
        [f"({lnat(k)}, {lnat(v)})" for k, v in nmt.COMMAND_TO_STATE.items()]) + "\n\n"
    for k in nmt.NMT_COMMANDS:
        if not isinstance(k, str):
            raise TranslatorError(f"NMT_COMMANDS key {k!r} is not a string")
    out += "/-- `NMT_COMMANDS` : state name ↦ command specifier, dict order (names are used by the\n"
    out += "    driver only, no proof computes with them) -/\n"
    out += "def NMT_COMMANDS : List (String × Nat) := " + llist(
        [f"({lstr(k)}, {lnat(v)})" for k, v in nmt.NMT_COMMANDS.items()]) + "\n\n"
    out += "/-- class attribute `SyncProducer.cob_id` -/\n"
    out += f"def SYNC_COB_ID : Nat := {lnat(SyncProducer.cob_id)}\n"
    out += footer("PeriodicTables")
    return out


GENERATORS = {"PeriodicTables": gen_periodic}
