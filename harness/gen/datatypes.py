import struct

from genlib import *  # noqa: F401,F403


def gen_datatypes():
    from canopen.objectdictionary import datatypes as dt
    from canopen.objectdictionary import ODVariable
    out = header("Datatypes", "canopen/objectdictionary/datatypes.py, ODVariable.STRUCT_TYPES")
    names = ["BOOLEAN", "INTEGER8", "INTEGER16", "INTEGER32", "UNSIGNED8", "UNSIGNED16",
             "UNSIGNED32", "REAL32", "VISIBLE_STRING", "OCTET_STRING", "UNICODE_STRING",
             "TIME_OF_DAY", "TIME_DIFFERENCE", "DOMAIN", "INTEGER24", "REAL64", "INTEGER40",
             "INTEGER48", "INTEGER56", "INTEGER64", "UNSIGNED24", "UNSIGNED40", "UNSIGNED48",
             "UNSIGNED56", "UNSIGNED64"]
    for n in names:
        if not hasattr(dt, n):
            raise TranslatorError(f"datatypes.{n} missing")
        out += f"def {n} : Nat := {lnat(getattr(dt, n))}\n"
    out += "\n"
    for n in ["SIGNED_TYPES", "UNSIGNED_TYPES", "INTEGER_TYPES", "FLOAT_TYPES", "NUMBER_TYPES",
              "DATA_TYPES"]:
        out += f"def {n} : List Nat := {lnatlist(list(getattr(dt, n)))}\n"
    out += ("\n/-- one row of `ODVariable.STRUCT_TYPES`: data type, class (0 = struct.Struct,\n"
            "    1 = UnsignedN, 2 = IntegerN), format of the underlying struct.Struct,\n"
            "    `.size` as seen by callers (sliced width for the N classes), declared width -/\n"
            "structure StructRow where\n  dtype : Nat\n  cls : Nat\n  fmt : List Char\n"
            "  size : Nat\n  width : Nat\nderiving Repr, DecidableEq\n\n")
    rows = []
    for k, st in ODVariable.STRUCT_TYPES.items():
        if type(st) is struct.Struct:
            cls, width = 0, st.size * 8
        elif type(st) is dt.UnsignedN:
            cls, width = 1, st.width
        elif type(st) is dt.IntegerN:
            cls, width = 2, st.width
        else:
            raise TranslatorError(f"STRUCT_TYPES[{k}] has unknown class {type(st)}")
        rows.append(f"  ⟨{lnat(k)}, {cls}, {lchars(st.format)}, {lnat(st.size)}, {lnat(width)}⟩")
    out += "def STRUCT_TYPES : List StructRow := [\n" + ",\n".join(rows) + "]\n"
    out += footer("Datatypes")
    return out



GENERATORS = {"Datatypes": gen_datatypes}
