"""Tables of canopen/objectdictionary/eds.py and of the OD containers for C08/C14.

Module-level constants are read from the live module; literal tables that live *inside*
functions (the baud-rate list, the DeviceInfo attribute tables, the `_calc_bit_length` chain,
the attribute tuple of `ODArray.__getitem__`, the object-list predicates of `export_eds`) are
taken from the function's source with `ast`.  A shape the translator does not recognise raises
TranslatorError (an obligation failure of C08/C14, not a crash).
"""
import ast
import inspect
import textwrap

from genlib import *  # noqa: F401,F403


def lcl(s):
    """Lean `List Char` literal"""
    out = []
    for ch in s:
        if ch == "'":
            out.append("'\\''")
        elif ch == "\\":
            out.append("'\\\\'")
        elif 32 <= ord(ch) < 127:
            out.append(f"'{ch}'")
        else:
            out.append("(Char.ofNat %d)" % ord(ch))
    return "([" + ", ".join(out) + "] : List Char)"


def _tree(fn):
    return ast.parse(textwrap.dedent(inspect.getsource(fn)))


def _const(node, types):
    if isinstance(node, ast.Constant) and isinstance(node.value, types) and not isinstance(node.value, bool):
        return node.value
    raise TranslatorError(f"expected a literal of {types}, got {ast.dump(node)[:80]}")


def _one(xs, what):
    if len(xs) != 1:
        raise TranslatorError(f"{what}: expected exactly one match in the source, found {len(xs)}")
    return xs[0]


_MISSING = object()


def _value(node, module):
    """the Python value a node denotes when it is a literal (numbers, strings, lists / tuples / sets of them) or
    a name bound at module level (a hoisted constant); _MISSING otherwise"""
    try:
        return ast.literal_eval(node)
    except Exception:
        pass
    if isinstance(node, ast.Name) and hasattr(module, node.id):
        return getattr(module, node.id)
    if isinstance(node, ast.Attribute) and isinstance(node.value, ast.Name):
        base = getattr(module, node.value.id, _MISSING)
        if base is not _MISSING and hasattr(base, node.attr):
            return getattr(base, node.attr)
    return _MISSING


def _iter_rows(f, module):
    """the rows a `for` loop runs over, when they are written as a literal list of tuples in place or bound to a
    module-level name (a hoisted table): list of tuples of Python values (types stay types), else None"""
    it = f.iter
    if isinstance(it, (ast.List, ast.Tuple)) and it.elts and all(isinstance(e, ast.Tuple) for e in it.elts):
        rows = []
        for e in it.elts:
            row = []
            for x in e.elts:
                if isinstance(x, ast.Name) and x.id in ("str", "int", "bool"):
                    row.append({"str": str, "int": int, "bool": bool}[x.id])
                elif isinstance(x, ast.Constant):
                    row.append(x.value)
                else:
                    return None
            rows.append(tuple(row))
        return rows
    if isinstance(it, ast.Name) and hasattr(module, it.id):
        val = getattr(module, it.id)
        if isinstance(val, (list, tuple)) and val and all(isinstance(r, tuple) for r in val):
            return [tuple(r) for r in val]
    return None


def gen_edstables():
    from canopen.objectdictionary import eds, datatypes as dt
    import canopen.objectdictionary as odm
    out = header("EdsTables", "canopen/objectdictionary/eds.py (constants and literal tables inside "
                 "import_eds, export_eds, _calc_bit_length), ODArray.__getitem__")
    for n in ("DOMAIN", "VAR", "ARR", "RECORD"):
        out += f"def OT_{n} : Nat := {lnat(getattr(eds, n))}\n"

    # ---- import_eds ---------------------------------------------------------------------------
    t = _tree(eds.import_eds)
    fors = [n for n in ast.walk(t) if isinstance(n, ast.For)]
    def int_list(node):
        v = _value(node, eds)
        return list(v) if isinstance(v, (list, tuple)) and v and all(isinstance(x, int) and not isinstance(x, bool) for x in v) else None
    rates = _one([f for f in fors if int_list(f.iter)], "baud rate list")
    out += f"\ndef BAUD_RATES : List Nat := {lnatlist(int_list(rates.iter))}\n"
    # the body must be: baudPossible = int(eds.get("DeviceInfo", f"BaudRate_{rate}", fallback='0'), 0);
    # if baudPossible != 0: allowed_baudrates.add(rate*1000)
    mults = [n for n in ast.walk(rates) if isinstance(n, ast.BinOp) and isinstance(n.op, ast.Mult)]
    m = _one(mults, "rate multiplier")
    unit = _value(m.right, eds)
    if not isinstance(unit, int):
        raise TranslatorError("rate multiplier is not an integer constant")
    out += f"def BAUD_UNIT : Nat := {lnat(unit)}\n"
    cands = [r for r in (_iter_rows(f, eds) for f in fors)
             if r and all(len(x) == 3 and x[0] in (str, int, bool) and isinstance(x[1], str) and isinstance(x[2], str)
                          for x in r)]
    imp_rows = _one(cands, "DeviceInfo table of import_eds")
    kinds = {str: 0, int: 1, bool: 2}
    rows = [f"  ({kinds[k]}, {lcl(a)}, {lcl(b)})" for k, a, b in imp_rows]
    out += ("\n/-- (kind, EDS key, attribute); kind 0 = str, 1 = int, 2 = bool -/\n"
            "def DEVINFO_IMPORT : List (Nat × List Char × List Char) := [\n" + ",\n".join(rows) + "]\n")
    rng = [n for n in ast.walk(t) if isinstance(n, ast.Call) and isinstance(n.func, ast.Name)
           and n.func.id == "range" and len(n.args) == 2
           and all(isinstance(_value(a, eds), int) for a in n.args)]
    r = _one(rng, "dummy range")
    out += f"\ndef DUMMY_LO : Nat := {lnat(_value(r.args[0], eds))}\ndef DUMMY_HI : Nat := {lnat(_value(r.args[1], eds))}\n"

    # ---- build_variable: threshold of the "custom data type" branch ------------------------------
    t = _tree(eds.build_variable)
    cmps = [n for n in ast.walk(t) if isinstance(n, ast.Compare) and len(n.ops) == 1
            and isinstance(n.ops[0], ast.Gt) and isinstance(n.left, ast.Attribute)
            and n.left.attr == "data_type"]
    c = _one(cmps, "data_type threshold")
    thr = _value(c.comparators[0], eds)
    if not isinstance(thr, int):
        raise TranslatorError("data_type threshold is not an integer constant")
    out += f"\ndef CUSTOM_TYPE_ABOVE : Nat := {lnat(thr)}\n"

    # ---- _calc_bit_length: read off by calling it on every data type code (whatever its shape) -----------
    rows = []
    for code in range(0, 0x100):
        try:
            n = eds._calc_bit_length(code)
        except ValueError:
            continue
        except Exception as e:
            raise TranslatorError(f"_calc_bit_length({code}) raised {type(e).__name__}")
        if not isinstance(n, int) or isinstance(n, bool):
            raise TranslatorError(f"_calc_bit_length({code}) returned {n!r}")
        rows.append((code, n))
    rows.sort(key=lambda r: (r[1], r[0]))          # by width: the order of the original chain
    out += ("\n/-- `_calc_bit_length`: (data type, bit length); any other type raises ValueError -/\n"
            "def CALC_BIT_LENGTH : List (Nat × Nat) := "
            + llist([f"({lnat(a)}, {lnat(b)})" for a, b in rows]) + "\n")

    # ---- export_eds ---------------------------------------------------------------------------------
    t = _tree(eds.export_eds)
    fors = [n for n in ast.walk(t) if isinstance(n, ast.For)]
    cands = []
    for f in fors:
        r = _iter_rows(f, eds)
        if r and all(len(x) == 2 and isinstance(x[0], str) and isinstance(x[1], str) for x in r):
            cands.append(r)
        elif r and all(len(x) == 3 and x[0] in (str, int, bool) for x in r):
            cands.append([(x[1], x[2]) for x in r])        # one shared table (type, key, attribute)
    exp_rows = _one(cands, "DeviceInfo table of export_eds")
    rows = [f"  ({lcl(a)}, {lcl(b)})" for a, b in exp_rows]
    out += ("\n/-- (EDS key, attribute) -/\ndef DEVINFO_EXPORT : List (List Char × List Char) := [\n"
            + ",\n".join(rows) + "]\n")
    # sets written in place, or names bound to sets / frozensets at module level (hoisted constants)
    cand = []
    for n in ast.walk(t):
        if isinstance(n, (ast.Set, ast.Name)):
            v = _value(n, eds)
            if isinstance(v, (set, frozenset)) and v:
                order = [_value(e, eds) for e in n.elts] if isinstance(n, ast.Set) else sorted(v)
                if order not in cand:
                    cand.append(order)
    fl = [v for v in cand if all(isinstance(x, float) for x in v)]
    vals = []
    for x in _one(fl, "export baud-rate set"):
        if x != int(x):
            raise TranslatorError("fractional baud rate")
        vals.append(int(x))
    out += f"\ndef EXPORT_BAUDS : List Nat := {lnatlist(vals)}\n"
    il = [v for v in cand if all(isinstance(x, int) and not isinstance(x, bool) for x in v)]
    out += f"def MANDATORY : List Nat := {lnatlist(list(_one(il, 'mandatory index set')))}\n"
    rng = [n for n in ast.walk(t) if isinstance(n, ast.Call) and isinstance(n.func, ast.Name)
           and n.func.id == "range" and len(n.args) == 2
           and all(isinstance(_value(a, eds), int) for a in n.args) and _value(n.args[0], eds) >= 0x1000]
    r = _one(rng, "manufacturer range")
    out += (f"def MANUFACTURER_LO : Nat := {lnat(_value(r.args[0], eds))}\n"
            f"def MANUFACTURER_HI : Nat := {lnat(_value(r.args[1], eds))}\n")
    gts = [n for n in ast.walk(t) if isinstance(n, ast.Compare) and len(n.ops) == 1
           and isinstance(n.ops[0], ast.Gt) and isinstance(n.left, ast.Name) and n.left.id == "x"]
    g = _one(gts, "optional lower bound")
    ab = _value(g.comparators[0], eds)
    if not isinstance(ab, int):
        raise TranslatorError("optional lower bound is not an integer constant")
    out += f"def OPTIONAL_ABOVE : Nat := {lnat(ab)}\n"

    # ---- ODArray.__getitem__ -------------------------------------------------------------------------
    t = _tree(odm.ODArray.__getitem__)
    tups = [n for n in ast.walk(t) if isinstance(n, ast.Tuple) and len(n.elts) > 3
            and all(isinstance(e, ast.Constant) and isinstance(e.value, str) for e in n.elts)]
    tp = _one(tups, "attribute tuple of ODArray.__getitem__")
    out += ("\ndef ARRAY_TEMPLATE_ATTRS : List (List Char) := [\n  "
            + ",\n  ".join(lcl(e.value) for e in tp.elts) + "]\n")
    out += footer("EdsTables")
    return out


GENERATORS = {"EdsTables": gen_edstables}
