"""Tables of canopen/objectdictionary/eds.py and of the OD containers for C08/C14.

Module-level constants are read from the live module; literal tables that live *inside*
functions (the baud-rate list, the DeviceInfo attribute tables, the `_calc_bit_length` chain,
the attribute tuple of `ODArray.__getitem__`, the object-list predicates of `export_eds`) are
taken from the function's source with `ast`.  A shape the translator does not recognise raises
TranslatorError (an obligation failure of C08/C14, not a crash).
"""
import ast
import inspect
import textwrap

from genlib import *  # noqa: F401,F403


def lcl(s):
    """Lean `List Char` literal"""
    out = []
    for ch in s:
        if ch == "'":
            out.append("'\\''")
        elif ch == "\\":
            out.append("'\\\\'")
        elif 32 <= ord(ch) < 127:
            out.append(f"'{ch}'")
        else:
            out.append("(Char.ofNat %d)" % ord(ch))
    return "([" + ", ".join(out) + "] : List Char)"


def _tree(fn):
    return ast.parse(textwrap.dedent(inspect.getsource(fn)))


def _const(node, types):
    if isinstance(node, ast.Constant) and isinstance(node.value, types) and not isinstance(node.value, bool):
        return node.value
    raise TranslatorError(f"expected a literal of {types}, got {ast.dump(node)[:80]}")


def _one(xs, what):
    if len(xs) != 1:
        raise TranslatorError(f"{what}: expected exactly one match in the source, found {len(xs)}")
    return xs[0]


def gen_edstables():
    from canopen.objectdictionary import eds, datatypes as dt
    import canopen.objectdictionary as odm
    out = header("EdsTables", "canopen/objectdictionary/eds.py (constants and literal tables inside "
                 "import_eds, export_eds, _calc_bit_length), ODArray.__getitem__")
    for n in ("DOMAIN", "VAR", "ARR", "RECORD"):
        out += f"def OT_{n} : Nat := {lnat(getattr(eds, n))}\n"

    # ---- import_eds ---------------------------------------------------------------------------
    t = _tree(eds.import_eds)
    fors = [n for n in ast.walk(t) if isinstance(n, ast.For)]
    rates = _one([f for f in fors if isinstance(f.iter, ast.List) and f.iter.elts
                  and all(isinstance(e, ast.Constant) for e in f.iter.elts)], "baud rate list")
    out += f"\ndef BAUD_RATES : List Nat := {lnatlist([_const(e, int) for e in rates.iter.elts])}\n"
    # the body must be: baudPossible = int(eds.get("DeviceInfo", f"BaudRate_{rate}", fallback='0'), 0);
    # if baudPossible != 0: allowed_baudrates.add(rate*1000)
    mults = [n for n in ast.walk(rates) if isinstance(n, ast.BinOp) and isinstance(n.op, ast.Mult)]
    m = _one(mults, "rate multiplier")
    out += f"def BAUD_UNIT : Nat := {lnat(_const(m.right, int))}\n"
    props = _one([f for f in fors if isinstance(f.iter, ast.List) and f.iter.elts
                  and all(isinstance(e, ast.Tuple) and len(e.elts) == 3 for e in f.iter.elts)],
                 "DeviceInfo table of import_eds")
    kinds = {"str": 0, "int": 1, "bool": 2}
    rows = []
    for e in props.iter.elts:
        k, a, b = e.elts
        if not (isinstance(k, ast.Name) and k.id in kinds):
            raise TranslatorError("DeviceInfo table: unknown type column")
        rows.append(f"  ({kinds[k.id]}, {lcl(_const(a, str))}, {lcl(_const(b, str))})")
    out += ("\n/-- (kind, EDS key, attribute); kind 0 = str, 1 = int, 2 = bool -/\n"
            "def DEVINFO_IMPORT : List (Nat × List Char × List Char) := [\n" + ",\n".join(rows) + "]\n")
    rng = [n for n in ast.walk(t) if isinstance(n, ast.Call) and isinstance(n.func, ast.Name)
           and n.func.id == "range" and len(n.args) == 2
           and all(isinstance(a, ast.Constant) for a in n.args)]
    r = _one(rng, "dummy range")
    out += f"\ndef DUMMY_LO : Nat := {lnat(_const(r.args[0], int))}\ndef DUMMY_HI : Nat := {lnat(_const(r.args[1], int))}\n"

    # ---- build_variable: threshold of the "custom data type" branch ------------------------------
    t = _tree(eds.build_variable)
    cmps = [n for n in ast.walk(t) if isinstance(n, ast.Compare) and len(n.ops) == 1
            and isinstance(n.ops[0], ast.Gt) and isinstance(n.left, ast.Attribute)
            and n.left.attr == "data_type"]
    c = _one(cmps, "data_type threshold")
    out += f"\ndef CUSTOM_TYPE_ABOVE : Nat := {lnat(_const(c.comparators[0], int))}\n"

    # ---- _calc_bit_length: chain of `data_type == datatypes.X: return N` -----------------------
    t = _tree(eds._calc_bit_length)
    fn = t.body[0]
    rows = []
    node = fn.body[0] if fn.body else None
    if isinstance(node, ast.Return) and isinstance(node.value, ast.Subscript):
        raise TranslatorError("_calc_bit_length is no longer an if-chain")
    while isinstance(node, ast.If):
        test = node.test
        if not (isinstance(test, ast.Compare) and len(test.ops) == 1 and isinstance(test.ops[0], ast.Eq)
                and isinstance(test.left, ast.Name) and isinstance(test.comparators[0], ast.Attribute)):
            raise TranslatorError("_calc_bit_length: unknown test shape")
        tname = test.comparators[0].attr
        if not (len(node.body) == 1 and isinstance(node.body[0], ast.Return)):
            raise TranslatorError("_calc_bit_length: unknown branch shape")
        rows.append((getattr(dt, tname), _const(node.body[0].value, int)))
        if len(node.orelse) != 1:
            raise TranslatorError("_calc_bit_length: unknown else shape")
        node = node.orelse[0]
    if not isinstance(node, ast.Raise):
        raise TranslatorError("_calc_bit_length: chain does not end in raise")
    out += ("\n/-- `_calc_bit_length`: (data type, bit length); any other type raises ValueError -/\n"
            "def CALC_BIT_LENGTH : List (Nat × Nat) := "
            + llist([f"({lnat(a)}, {lnat(b)})" for a, b in rows]) + "\n")

    # ---- export_eds ---------------------------------------------------------------------------------
    t = _tree(eds.export_eds)
    fors = [n for n in ast.walk(t) if isinstance(n, ast.For)]
    props = _one([f for f in fors if isinstance(f.iter, ast.List) and f.iter.elts
                  and all(isinstance(e, ast.Tuple) and len(e.elts) == 2 for e in f.iter.elts)],
                 "DeviceInfo table of export_eds")
    rows = [f"  ({lcl(_const(e.elts[0], str))}, {lcl(_const(e.elts[1], str))})" for e in props.iter.elts]
    out += ("\n/-- (EDS key, attribute) -/\ndef DEVINFO_EXPORT : List (List Char × List Char) := [\n"
            + ",\n".join(rows) + "]\n")
    sets = [n for n in ast.walk(t) if isinstance(n, ast.Set)]
    fl = [s for s in sets if all(isinstance(e, ast.Constant) and isinstance(e.value, float) for e in s.elts)]
    s = _one(fl, "export baud-rate set")
    vals = []
    for e in s.elts:
        if e.value != int(e.value):
            raise TranslatorError("fractional baud rate")
        vals.append(int(e.value))
    out += f"\ndef EXPORT_BAUDS : List Nat := {lnatlist(vals)}\n"
    il = [s for s in sets if all(isinstance(e, ast.Constant) and isinstance(e.value, int) for e in s.elts)]
    s = _one(il, "mandatory index set")
    out += f"def MANDATORY : List Nat := {lnatlist([e.value for e in s.elts])}\n"
    rng = [n for n in ast.walk(t) if isinstance(n, ast.Call) and isinstance(n.func, ast.Name)
           and n.func.id == "range" and len(n.args) == 2
           and all(isinstance(a, ast.Constant) for a in n.args) and n.args[0].value >= 0x1000]
    r = _one(rng, "manufacturer range")
    out += (f"def MANUFACTURER_LO : Nat := {lnat(r.args[0].value)}\n"
            f"def MANUFACTURER_HI : Nat := {lnat(r.args[1].value)}\n")
    gts = [n for n in ast.walk(t) if isinstance(n, ast.Compare) and len(n.ops) == 1
           and isinstance(n.ops[0], ast.Gt) and isinstance(n.left, ast.Name) and n.left.id == "x"]
    g = _one(gts, "optional lower bound")
    out += f"def OPTIONAL_ABOVE : Nat := {lnat(_const(g.comparators[0], int))}\n"

    # ---- ODArray.__getitem__ -------------------------------------------------------------------------
    t = _tree(odm.ODArray.__getitem__)
    tups = [n for n in ast.walk(t) if isinstance(n, ast.Tuple) and len(n.elts) > 3
            and all(isinstance(e, ast.Constant) and isinstance(e.value, str) for e in n.elts)]
    tp = _one(tups, "attribute tuple of ODArray.__getitem__")
    out += ("\ndef ARRAY_TEMPLATE_ATTRS : List (List Char) := [\n  "
            + ",\n  ".join(lcl(e.value) for e in tp.elts) + "]\n")
    out += footer("EdsTables")
    return out


GENERATORS = {"EdsTables": gen_edstables}
