"""Constants of the PDO configuration code (C09): the COB-ID flag bits of canopen/pdo/base.py and
the numbering of `PdoMaps` as instantiated by `RPDO` / `TPDO` (canopen/pdo/__init__.py).

The numbering is not a table in the source (it is the argument list of two constructor calls and
a loop), so it is *probed*: a RemoteNode is created on a dictionary that has every index
0x1400..0x1BFF and the resulting maps are read off through public attributes; the translator
insists that what it sees is the affine rule the model uses and refuses anything else.
"""
from genlib import *  # noqa: F401,F403


def _probe(node_id):
    import canopen
    from canopen import objectdictionary as od
    d = od.ObjectDictionary()
    for idx in range(0x1400, 0x1C00):
        rec = od.ODRecord("o%04x" % idx, idx)
        v = od.ODVariable("n", idx, 0)
        v.data_type = od.UNSIGNED8
        rec.add_member(v)
        d.add_object(rec)
    node = canopen.RemoteNode(node_id, d)
    res = {}
    for name, pdo in (("RPDO", node.rpdo), ("TPDO", node.tpdo)):
        rows = []
        for n in pdo.map:
            m = pdo.map[n]
            rows.append((n, m.com_record.od.index, m.map_array.od.index, m.predefined_cob_id))
        res[name] = rows
    return res


def _affine(name, rows_by_node):
    """rows: (n, com, map, predefined) -> (count, com_base, map_base, cob_base, predef_count, step)"""
    ids = sorted(rows_by_node)
    rows = rows_by_node[ids[0]]
    if not rows:
        raise TranslatorError(f"{name}: no maps were created")
    ns = [r[0] for r in rows]
    count = len(rows)
    if ns != list(range(1, count + 1)):
        raise TranslatorError(f"{name}: map numbers are not 1..{count}")
    com_base, map_base = rows[0][1], rows[0][2]
    for n, com, mp, _ in rows:
        if com != com_base + n - 1 or mp != map_base + n - 1:
            raise TranslatorError(f"{name}: map {n} is at 0x{com:X}/0x{mp:X}, not base + n - 1")
    pre = [r for r in rows if r[3] is not None]
    if [r[0] for r in pre] != list(range(1, len(pre) + 1)):
        raise TranslatorError(f"{name}: predefined COB-IDs are not on maps 1..k")
    if len(pre) < 2:
        raise TranslatorError(f"{name}: fewer than two predefined COB-IDs, cannot see the step")
    cob_base = pre[0][3] - ids[0]
    step = pre[1][3] - pre[0][3]
    for nid in ids:
        for n, _, _, p in rows_by_node[nid]:
            exp = cob_base + (n - 1) * step + nid if n <= len(pre) else None
            if p != exp:
                raise TranslatorError(f"{name}: node {nid} map {n} predefined COB-ID {p!r}, "
                                      f"affine rule gives {exp!r}")
        if [(r[0], r[1], r[2]) for r in rows_by_node[nid]] != [(r[0], r[1], r[2]) for r in rows]:
            raise TranslatorError(f"{name}: numbering depends on the node id")
    return count, com_base, map_base, cob_base, len(pre), step


def gen_pdoconfig():
    from canopen.pdo import base
    out = header("PdoConfig", "canopen/pdo/base.py (PDO_NOT_VALID, RTR_NOT_ALLOWED), "
                              "canopen/pdo/__init__.py (RPDO/TPDO -> PdoMaps numbering, probed)")
    out += f"def PDO_NOT_VALID : Nat := {lnat(base.PDO_NOT_VALID)}\n"
    out += f"def RTR_NOT_ALLOWED : Nat := {lnat(base.RTR_NOT_ALLOWED)}\n\n"
    probes = {nid: _probe(nid) for nid in (1, 5, 127)}
    for name in ("RPDO", "TPDO"):
        count, com, mp, cob, npre, step = _affine(name, {nid: probes[nid][name] for nid in probes})
        out += f"def {name}_COUNT : Nat := {lnat(count)}\n"
        out += f"def {name}_COM_BASE : Nat := {lnat(com)}\n"
        out += f"def {name}_MAP_BASE : Nat := {lnat(mp)}\n"
        out += f"def {name}_COB_BASE : Nat := {lnat(cob)}\n"
        out += f"def {name}_PREDEF_COUNT : Nat := {lnat(npre)}\n"
        out += f"def {name}_PREDEF_STEP : Nat := {lnat(step)}\n\n"
    out += footer("PdoConfig")
    return out


GENERATORS = {"PdoConfig": gen_pdoconfig}
