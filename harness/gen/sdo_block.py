import struct

from genlib import *  # noqa: F401,F403


def gen_sdo_block():
    """canopen/sdo/constants.py (every integer constant, by name) and the class attributes of the
    SDO client the block-transfer models use."""
    from canopen.sdo import constants as c
    from canopen.sdo import client as cl
    out = header("SdoBlock", "canopen/sdo/constants.py, SdoClient.MAX_RETRIES, BlockUploadStream.blksize")
    names = ["REQUEST_SEGMENT_DOWNLOAD", "REQUEST_DOWNLOAD", "REQUEST_UPLOAD", "REQUEST_SEGMENT_UPLOAD",
             "REQUEST_ABORTED", "REQUEST_BLOCK_UPLOAD", "REQUEST_BLOCK_DOWNLOAD",
             "RESPONSE_SEGMENT_UPLOAD", "RESPONSE_SEGMENT_DOWNLOAD", "RESPONSE_UPLOAD",
             "RESPONSE_DOWNLOAD", "RESPONSE_ABORTED", "RESPONSE_BLOCK_DOWNLOAD",
             "RESPONSE_BLOCK_UPLOAD", "INITIATE_BLOCK_TRANSFER", "END_BLOCK_TRANSFER",
             "BLOCK_TRANSFER_RESPONSE", "START_BLOCK_UPLOAD", "EXPEDITED", "SIZE_SPECIFIED",
             "BLOCK_SIZE_SPECIFIED", "CRC_SUPPORTED", "NO_MORE_DATA", "NO_MORE_BLOCKS", "TOGGLE_BIT"]
    ints = sorted(n for n in dir(c) if n.isupper() and isinstance(getattr(c, n), int))
    if ints != sorted(names):
        raise TranslatorError(f"sdo.constants changed its set of integer constants: {sorted(set(ints) ^ set(names))}")
    for n in names:
        out += f"def {n} : Nat := {lnat(getattr(c, n))}\n"
    if not isinstance(c.SDO_STRUCT, struct.Struct):
        raise TranslatorError("SDO_STRUCT is not a struct.Struct")
    out += f"\ndef SDO_STRUCT_FORMAT : List Char := {lchars(c.SDO_STRUCT.format)}\n"
    out += f"def SDO_STRUCT_SIZE : Nat := {lnat(c.SDO_STRUCT.size)}\n"
    out += f"\ndef MAX_RETRIES : Nat := {lnat(cl.SdoClient.MAX_RETRIES)}\n"
    out += f"def UPLOAD_BLKSIZE : Nat := {lnat(cl.BlockUploadStream.blksize)}\n"
    out += f"def UPLOAD_CRC_SUPPORTED_DEFAULT : Bool := {lbool(cl.BlockUploadStream.crc_supported)}\n"
    out += footer("SdoBlock")
    return out


GENERATORS = {"SdoBlock": gen_sdo_block}
