"""Tables of canopen/emcy.py for the C16 model: the `EMCY_STRUCT` format and size and
`EmcyError.DESCRIPTIONS` (in list order: `get_desc` returns the first matching row)."""
import struct

from genlib import *  # noqa: F401,F403


def _lcharlist(s):
    """a Python str as a Lean `List Char` literal (blanks, `/` etc. allowed; printable ASCII only,
    because proofs evaluate these lists with `decide`)"""
    out = []
    for ch in s:
        if ch == "'":
            out.append("'\\''")
        elif ch == "\\":
            out.append("'\\\\'")
        elif 32 <= ord(ch) < 127:
            out.append(f"'{ch}'")
        else:
            raise TranslatorError(f"unexpected character {ch!r} in a description text")
    return "[" + ", ".join(out) + "]"


def gen_emcy():
    from canopen import emcy
    out = header("Emcy", "canopen/emcy.py: EMCY_STRUCT, EmcyError.DESCRIPTIONS")
    st = emcy.EMCY_STRUCT
    if type(st) is not struct.Struct:
        raise TranslatorError(f"EMCY_STRUCT has unknown class {type(st)}")
    fmt = st.format
    if isinstance(fmt, bytes):
        fmt = fmt.decode("ascii")
    out += "/-- `EMCY_STRUCT.format` -/\n"
    out += f"def EMCY_STRUCT_FORMAT : List Char := {lchars(fmt)}\n"
    out += "/-- `EMCY_STRUCT.size` as computed by CPython -/\n"
    out += f"def EMCY_STRUCT_SIZE : Nat := {lnat(st.size)}\n\n"
    out += ("/-- one row of `EmcyError.DESCRIPTIONS`: code, mask, description text -/\n"
            "structure DescRow where\n  code : Nat\n  mask : Nat\n  desc : List Char\n"
            "deriving Repr, DecidableEq\n\n")
    rows = []
    table = emcy.EmcyError.DESCRIPTIONS
    if not isinstance(table, (list, tuple)):
        raise TranslatorError(f"DESCRIPTIONS has unknown class {type(table)}")
    for row in table:
        if not (isinstance(row, tuple) and len(row) == 3 and isinstance(row[2], str)):
            raise TranslatorError(f"DESCRIPTIONS row of unknown shape: {row!r}")
        code, mask, text = row
        rows.append(f"  ⟨{lnat(code)}, {lnat(mask)}, {_lcharlist(text)}⟩")
    out += "def DESCRIPTIONS : List DescRow := [\n" + ",\n".join(rows) + "]\n"
    out += footer("Emcy")
    return out


GENERATORS = {"Emcy": gen_emcy}
