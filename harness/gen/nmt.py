"""Tables of canopen/nmt.py as Lean literals (C11): NMT_STATES, NMT_COMMANDS, COMMAND_TO_STATE.

Names are emitted as `List Char` (proofs compute with them); dict order is kept.
"""
from genlib import *  # noqa: F401,F403


def lname(s):
    """a Python str as a Lean `List Char` literal (any code point)"""
    if not isinstance(s, str):
        raise TranslatorError(f"expected a state name (str), got {s!r}")
    items = []
    for ch in s:
        if 32 <= ord(ch) < 127 and ch not in "'\\":
            items.append(f"'{ch}'")
        elif 0xD800 <= ord(ch) <= 0xDFFF:
            raise TranslatorError(f"surrogate code point in a state name {s!r}")
        else:
            items.append(f"Char.ofNat {ord(ch)}")
    return "[" + ", ".join(items) + "]"


def gen_nmt():
    from canopen import nmt
    out = header("Nmt", "canopen/nmt.py: NMT_STATES, NMT_COMMANDS, COMMAND_TO_STATE")
    for n in ("NMT_STATES", "NMT_COMMANDS", "COMMAND_TO_STATE"):
        if not isinstance(getattr(nmt, n, None), dict):
            raise TranslatorError(f"nmt.{n} is not a dict")
    out += "/-- `NMT_STATES`: numeric state (heartbeat value) ↦ name, in dict order -/\n"
    out += "def NMT_STATES : List (Nat × List Char) := [\n" + ",\n".join(
        f"  ({lnat(k)}, {lname(v)})" for k, v in nmt.NMT_STATES.items()) + "]\n\n"
    out += "/-- `NMT_COMMANDS`: name accepted by the `state` setter ↦ command specifier -/\n"
    out += "def NMT_COMMANDS : List (List Char × Nat) := [\n" + ",\n".join(
        f"  ({lname(k)}, {lnat(v)})" for k, v in nmt.NMT_COMMANDS.items()) + "]\n\n"
    out += "/-- `COMMAND_TO_STATE`: command specifier ↦ numeric state -/\n"
    out += "def COMMAND_TO_STATE : List (Nat × Nat) := [\n" + ",\n".join(
        f"  ({lnat(k)}, {lnat(v)})" for k, v in nmt.COMMAND_TO_STATE.items()) + "]\n"
    out += footer("Nmt")
    return out


GENERATORS = {"Nmt": gen_nmt}
