"""Tables of canopen/profiles/p402.py as Lean literals (State402 and OperationMode)."""
from genlib import *  # noqa: F401,F403


def lname(s):
    """a Python str as a Lean `List Char` literal (state / mode names contain blanks)"""
    if not isinstance(s, str):
        raise TranslatorError(f"expected a str, got {s!r}")
    for ch in s:
        if not (32 <= ord(ch) < 127) or ch in "'\\":
            raise TranslatorError(f"unexpected character {ch!r} in a name")
    return "[" + ", ".join(f"'{ch}'" for ch in s) + "]"


def lint(n):
    if not isinstance(n, int) or isinstance(n, bool):
        raise TranslatorError(f"expected an integer, got {n!r}")
    return str(n) if n >= 0 else f"({n})"


def gen_p402():
    from canopen.profiles import p402
    S, M = p402.State402, p402.OperationMode
    out = header("P402Tables", "canopen/profiles/p402.py: State402, OperationMode")
    out += "abbrev Name := List Char\n\n"
    for n in ["CW_OPERATION_ENABLED", "CW_SHUTDOWN", "CW_SWITCH_ON", "CW_QUICK_STOP",
              "CW_DISABLE_VOLTAGE", "CW_SWITCH_ON_DISABLED"]:
        out += f"def {n} : Nat := {lnat(getattr(S, n))}\n"
    # SW_MASK, dict order (the getter returns the first match)
    rows = []
    for k, v in S.SW_MASK.items():
        if not (isinstance(v, tuple) and len(v) == 2):
            raise TranslatorError(f"SW_MASK[{k!r}] is not a (mask, value) pair")
        rows.append(f"  ({lname(k)}, {lnat(v[0])}, {lnat(v[1])})")
    out += "\n/-- `State402.SW_MASK` in dict order: (state name, bit mask, value) -/\n"
    out += "def SW_MASK : List (Name × Nat × Nat) := [\n" + ",\n".join(rows) + "]\n"
    # NEXTSTATE2ANY: a key is either a str (Python `in` = substring test) or a tuple (membership)
    rows = []
    for k, v in S.NEXTSTATE2ANY.items():
        if isinstance(k, str):
            rows.append(f"  (false, [{lname(k)}], {lname(v)})")
        elif isinstance(k, tuple) and all(isinstance(x, str) for x in k):
            rows.append(f"  (true, {llist([lname(x) for x in k])}, {lname(v)})")
        else:
            raise TranslatorError(f"NEXTSTATE2ANY key {k!r} is neither str nor tuple of str")
    out += ("\n/-- `State402.NEXTSTATE2ANY` in dict order: (key is a tuple?, key elements, next state);\n"
            "    a str key (`false`) is tested with Python's substring `in`, a tuple key with membership -/\n")
    out += "def NEXTSTATE2ANY : List (Bool × List Name × Name) := [\n" + ",\n".join(rows) + "]\n"
    rows = []
    for k, v in S.TRANSITIONTABLE.items():
        if not (isinstance(k, tuple) and len(k) == 2):
            raise TranslatorError(f"TRANSITIONTABLE key {k!r} is not a pair")
        rows.append(f"  ({lname(k[0])}, {lname(k[1])}, {lnat(v)})")
    out += "\n/-- `State402.TRANSITIONTABLE`: (from, to, controlword) -/\n"
    out += "def TRANSITIONTABLE : List (Name × Name × Nat) := [\n" + ",\n".join(rows) + "]\n"
    rows = [f"  ({lname(k)}, {lnat(v)})" for k, v in S.CW_COMMANDS_CODE.items()]
    out += "\ndef CW_COMMANDS_CODE : List (Name × Nat) := [\n" + ",\n".join(rows) + "]\n"
    rows = [f"  ({lint(k)}, {lname(v)})" for k, v in M.CODE2NAME.items()]
    out += "\ndef CODE2NAME : List (Int × Name) := [\n" + ",\n".join(rows) + "]\n"
    rows = [f"  ({lname(k)}, {lint(v)})" for k, v in M.NAME2CODE.items()]
    out += "\ndef NAME2CODE : List (Name × Int) := [\n" + ",\n".join(rows) + "]\n"
    rows = [f"  ({lname(k)}, {lnat(v)})" for k, v in M.SUPPORTED.items()]
    out += "\ndef SUPPORTED : List (Name × Nat) := [\n" + ",\n".join(rows) + "]\n"
    out += footer("P402Tables")
    return out


GENERATORS = {"P402Tables": gen_p402}
