"""C18 — LSS fast scan finds the one unconfigured device's identity, bit for bit; LSS services.

The real `LssMaster` (as wired by `Network.__init__`) runs on a synchronous fake bus against
`peers/ref_lss_slave.py` (CiA 305 slave written from the standard), optionally with lost answers
and scripted extra frames, or against a purely scripted replier.  `time.sleep` inside
`canopen.lss` is replaced from here (module attribute), `RESPONSE_TIMEOUT` is 0 on the instance.

`lhist` histories add reply *latency*: the reaction to the k-th request is handed to `Network.notify`
by a second thread after a stated fraction of `RESPONSE_TIMEOUT` (which is left at the class default,
set on the instance, or set on the class); below the time-out it must be accepted, at or above it the
request has met silence.
"""
import threading
import time as _time

import canopen
import canopen.lss as lss_mod

from peers.ref_lss_slave import RefLssSlave

ID = "C18"
PROOF_MODULES = ["CanopenProofs.C18", "CanopenProofs.C18Latency"]
GENERATED = ["Lss"]
THEOREMS = [
    "Canopen.C18.fastscan_finds",
    "Canopen.C18.fastscan_empty_bus",
    "Canopen.C18.fastscan_not_for_configured",
    "Canopen.C18.frames_wellformed",
    "Canopen.C18.frames_wellformed_history",
    "Canopen.C18.services_configure",
    "Canopen.C18.services_inquire",
    "Canopen.C18.services",
    "Canopen.C18.services_conformant_slave",
    "Canopen.C18.selective_switch_confirmed",
    "Canopen.C18.selective_switch_other_address",
    "Canopen.C18.tables_match_cia305",
    "Canopen.C18.latency_transparent",
    "Canopen.C18.latency_transparent_history",
    "Canopen.C18.fastscan_finds_latency",
    "Canopen.C18.fastscan_silence_latency",
    "Canopen.C18.services_latency",
    "Canopen.C18.services_silence_latency",
    "Canopen.C18.selective_switch_confirmed_latency",
]
FINGERPRINT = [
    "canopen.lss:LssMaster.fast_scan",
    "canopen.lss:LssMaster._LssMaster__send_fast_scan_message",
    "canopen.lss:LssMaster._LssMaster__send_lss_address",
    "canopen.lss:LssMaster._LssMaster__send_inquire_node_id",
    "canopen.lss:LssMaster._LssMaster__send_inquire_lss_address",
    "canopen.lss:LssMaster._LssMaster__send_configure",
    "canopen.lss:LssMaster._LssMaster__send_command",
    "canopen.lss:LssMaster.on_message_received",
    "canopen.lss:LssMaster.send_switch_state_global",
    "canopen.lss:LssMaster.send_switch_state_selective",
    "canopen.lss:LssMaster.activate_bit_timing",
    "canopen.lss:LssMaster.configure_node_id",
    "canopen.lss:LssMaster.configure_bit_timing",
    "canopen.lss:LssMaster.store_configuration",
    "canopen.lss:LssMaster.inquire_node_id",
    "canopen.lss:LssMaster.inquire_lss_address",
    "canopen.lss:LssMaster.send_identify_remote_slave",
    "canopen.lss:LssMaster.send_identify_non_configured_remote_slave",
    "canopen.lss:LssMaster.__init__",
    "canopen.network:Network.__init__",
    "canopen.network:Network.notify",
    "canopen.network:Network.subscribe",
]
TRUSTED = [
    "Spec/LssSlave.lean and harness/peers/ref_lss_slave.py: my reading of CiA 305 (request grammar, "
    "slave state machine incl. fast scan), written twice and compared by the differential run",
    "queue.Queue modelled as a FIFO list; the blocking get with time-out as 'first queued frame or "
    "LssError'; time.sleep pacing has no counterpart in the model (patched out)",
    "CPython struct.pack/unpack_from for '<B', '<BB', '<BI', '<I', '<H', '<BIBBB' and bytearray item "
    "assignment modelled (range check -> error, little-endian)",
    "the bus is synchronous: every frame a peer sends in reaction to a request is queued before the "
    "master looks; with latency (`lhist`): the reaction to one request is one delivery, d ticks after "
    "the request, obtained by the blocking get iff d < RESPONSE_TIMEOUT (Lss.awaitReply); what comes "
    "later is on the bus when the next request goes out or in the queue once the call has returned "
    "(the rig makes the master thread itself wait for it at those two points)",
    "real time in `lhist` runs: latencies are 0..60 % or >= 150 % of the time-out, never closer to it; "
    "a run in which this process overslept by more than 20 % of the time-out is repeated (up to 9 times, "
    "the later ones with a longer time-out); if none is within 35 % the check ends with exit 2",
]
ASSUMPTIONS = ["arguments are non-negative integers (negative / non-int arguments are not modelled "
               "and not generated)"]
RULE = ("ops `fs v p r s` (fast scan against a fresh unconfigured reference slave) and `hist slave "
        "drops script stale action...` (a history of LssMaster calls and injected frames against a "
        "reference slave with lost answers / extra frames, or a scripted replier); identities: every "
        "single bit set, every single bit cleared, all-zero, all-one, seeded; node ids and bit-timing "
        "indexes 0..255; scripted replies with every error code, every wrong specifier, silence, short "
        "frames, stale and duplicate frames; `lhist tmo lats slave drops script stale action...`: the same "
        "histories with reply latency -- the reaction to request k of the history is delivered by a second "
        "thread after p % of RESPONSE_TIMEOUT (`k:p`, p in 0/20/50/60 = in time, 150/200 = too late, x = "
        "never), RESPONSE_TIMEOUT being the class default (`d`), set on the instance (`i<ms>`) or on the "
        "class (`c<ms>`); generated latency ops delay only reactions of at most one frame, to requests the "
        "master waits on or that end their call, and have a too-late reaction only where the call ends with "
        "it (elsewhere thread timing, not the library, would decide); non-trivial = at least one call returned a value")

MASTER_TX = 0x7E5
MASTER_RX = 0x7E4


# ---- patching time.sleep inside canopen.lss only ---------------------------------------------
class _NoSleepTime:
    """stands in for the module object `time` inside canopen.lss"""

    def __init__(self, real):
        self._real = real

    def sleep(self, _seconds):
        return None

    def __getattr__(self, name):
        return getattr(self._real, name)


def _patch():
    t = getattr(lss_mod, "time", None)
    if t is not None and not isinstance(t, _NoSleepTime):
        lss_mod.time = _NoSleepTime(t)
    if hasattr(lss_mod, "sleep"):
        lss_mod.sleep = lambda _s: None


# ---- line protocol ---------------------------------------------------------------------------
def hx(b):
    return bytes(b).hex() if len(b) else "-"


def unhx(s):
    return b"" if s == "-" else bytes.fromhex(s)


def show_frame(f):
    return f"{f[0]:x}.{hx(f[1])}"


def parse_frame(s):
    i, d = s.split(".")
    return (int(i, 16), unhx(d))


def show_frames(fs):
    return "+".join(show_frame(f) for f in fs) if fs else "-"


def parse_frames(s):
    return [] if s == "-" else [parse_frame(x) for x in s.split("+")]


def parse_script(s):
    return [] if s == "-" else [parse_frames(x) for x in s.split("/")]


def nl(xs):
    return ",".join(str(x) for x in xs) if xs else "-"


def unnl(s):
    return [] if s == "-" else [int(x) for x in s.split(",")]


def fresh(v, p, r, s):
    return f"{v},{p},{r},{s},0,0,255,255,0,0,0"


def normalise(op):
    """`fs v p r s` is shorthand for a one-call history against a fresh unconfigured slave"""
    a = op.split(" ")
    if a[0] == "fs":
        return ["hist", fresh(*a[1:5]), "-", "-", "-", "fs"]
    if a[0] == "thist":
        return ["hist"] + a[1:]
    if a[0] == "lhist":
        return ["hist"] + a[3:]
    return a


# ---- reply latency (`lhist tmo lats …`) ---------------------------------------------------------
def parse_tmo(s):
    """`d` (class default untouched), `i<ms>` (instance attribute), `c<ms>` (class attribute)"""
    if s == "d":
        return ("d", None)
    if len(s) > 1 and s[0] in "ic" and s[1:].isdigit() and s[1:].isascii() and int(s[1:]) > 0:
        return (s[0], int(s[1:]) / 1000.0)
    return None


def parse_lats(s):
    """`-` or `k:p,…` -> {request number: percent of the time-out, None = never}; the first entry of
    a request number counts"""
    if s == "-":
        return {}
    res = {}
    for item in s.split(","):
        k, sep, p = item.partition(":")
        if not sep or not (k.isdigit() and k.isascii()):
            return None
        if p == "x":
            v = None
        elif p.isdigit() and p.isascii():
            v = int(p)
        else:
            return None
        res.setdefault(int(k), v)
    return res


def show_lats(lats):
    return ",".join(f"{k}:{'x' if p is None else p}" for k, p in lats) if lats else "-"


def mk_slave(desc):
    if desc == "-":
        return None
    v, p, r, s, store_err, config, node_id, pending, pos, sel, idr = unnl(desc)
    return RefLssSlave(v, p, r, s, store_err=store_err, config=config != 0, node_id=node_id,
                       pending=pending, pos=pos, sel=sel, idr=idr)


# ---- the bus ---------------------------------------------------------------------------------
class PeerSide:
    """everything else on the bus: optional reference slave, lost answers, scripted extra frames"""

    def __init__(self, slave, drops, script):
        self.slave, self.drops, self.script, self.count = slave, set(drops), list(script), 0

    def exchange(self, can_id, data):
        out = []
        if self.slave is not None:
            out = self.slave.on_frame(can_id, data)
            if self.count in self.drops:
                out = []
        if self.script:
            out = out + self.script.pop(0)
        self.count += 1
        return out


class FakeBus:
    channel_info = "C18 fake bus"

    def __init__(self, peer):
        self.peer = peer
        self.network = None
        self.log = []          # [(request shown, [reply frames])]

    def send(self, msg, timeout=None):
        data = bytes(msg.data)
        shown = show_frame((msg.arbitration_id, data))
        if msg.is_extended_id:
            shown += "!ext"
        if msg.is_remote_frame:
            shown += "!rtr"
        if msg.dlc != len(data):
            shown += f"!dlc{msg.dlc}"
        out = self.peer.exchange(msg.arbitration_id, data)
        self.log.append((shown, out))
        for rid, rdata in out:
            self.network.notify(rid, bytearray(rdata), 0.0)

    def shutdown(self):
        pass


class ThreadedBus(FakeBus):
    """same bus, but frames travel through a dispatcher thread with a small delay, so that the
    master really blocks in `queue.get` (default RESPONSE_TIMEOUT)"""

    def __init__(self, peer):
        super().__init__(peer)
        import queue as _q
        import threading
        self.q = _q.Queue()
        self.t = threading.Thread(target=self._run, daemon=True)
        self.t.start()

    def send(self, msg, timeout=None):
        self.q.put(msg)

    def _run(self):
        import time as _t
        while True:
            msg = self.q.get()
            try:
                if msg is None:
                    return
                _t.sleep(0.002)
                FakeBus.send(self, msg)
            finally:
                self.q.task_done()

    def settle(self):
        self.q.join()

    def shutdown(self):
        self.q.put(None)
        self.t.join(5)


class _Jitter:
    """a thread that does nothing but sleep 5 ms at a time and remembers by how much it overslept:
    the measure of how far this process was from real time while an operation ran"""

    def __init__(self):
        self.worst = 0.0
        self._stop = threading.Event()
        self._t = threading.Thread(target=self._run, daemon=True)
        self._t.start()

    def _run(self):
        while not self._stop.is_set():
            t = _time.monotonic()
            _time.sleep(0.005)
            self.worst = max(self.worst, _time.monotonic() - t - 0.005)

    def stop(self):
        self._stop.set()
        self._t.join(2)
        return self.worst


class LatencyBus(FakeBus):
    """the reaction to the requests named in `lats` reaches `Network.notify` from a second thread,
    `pct` percent of `tmo_s` after the request (None: never); other reactions inline.  Frames still
    on their way when the next request comes (or when the call has returned: `settle`) arrive
    first -- the master thread itself waits for them here, so nothing races."""

    def __init__(self, peer, lats, tmo_s):
        super().__init__(peer)
        self.lats, self.tmo_s = lats, tmo_s
        self.n = 0
        self.timers = []
        self.worst = 0.0         # largest lateness of a delivery against its plan

    def settle(self):
        ts, self.timers = self.timers, []
        for t in ts:
            t.join()

    def _deliver(self, due, out):
        self.worst = max(self.worst, _time.monotonic() - due)
        for rid, rdata in out:
            self.network.notify(rid, bytearray(rdata), 0.0)

    def send(self, msg, timeout=None):
        self.settle()
        data = bytes(msg.data)
        shown = show_frame((msg.arbitration_id, data))
        if msg.is_extended_id:
            shown += "!ext"
        if msg.is_remote_frame:
            shown += "!rtr"
        if msg.dlc != len(data):
            shown += f"!dlc{msg.dlc}"
        out = self.peer.exchange(msg.arbitration_id, data)
        self.log.append((shown, out))
        k, self.n = self.n, self.n + 1
        if k not in self.lats:
            for rid, rdata in out:
                self.network.notify(rid, bytearray(rdata), 0.0)
        elif self.lats[k] is not None and out:
            delay = self.lats[k] / 100.0 * self.tmo_s
            t = threading.Timer(delay, self._deliver, args=(_time.monotonic() + delay, out))
            t.daemon = True
            self.timers.append(t)
            t.start()


def show_ret(r):
    if r is None:
        return "ok"
    if isinstance(r, bool):
        return "ok:T" if r else "ok:F"
    if isinstance(r, int):
        return f"ok:{r}"
    if isinstance(r, tuple) and len(r) == 2 and isinstance(r[0], bool):
        ids = r[1]
        if ids is None:
            return f"ok:{'T' if r[0] else 'F'}:-"
        if isinstance(ids, (list, tuple)) and all(isinstance(x, int) for x in ids):
            return f"ok:{'T' if r[0] else 'F'}:{nl(list(ids))}"
    return f"ok:?{type(r).__name__}"


def do_call(m, act):
    k, _, arg = act.partition(":")
    if k == "fs":
        return m.fast_scan()
    if k == "inid":
        return m.inquire_node_id()
    if k == "store":
        return m.store_configuration()
    if k == "idn":
        return m.send_identify_non_configured_remote_slave()
    if k == "sg":
        return m.send_switch_state_global(int(arg))
    if k == "iaddr":
        return m.inquire_lss_address(int(arg))
    if k == "cnid":
        return m.configure_node_id(int(arg))
    if k == "cbt":
        return m.configure_bit_timing(int(arg))
    if k == "abt":
        return m.activate_bit_timing(int(arg))
    if k == "sel":
        return m.send_switch_state_selective(*unnl(arg))
    if k == "idr":
        return m.send_identify_remote_slave(*unnl(arg))
    raise KeyError(act)


def run_impl(op):
    if op.startswith("lhist "):
        return run_latency(op)
    a = normalise(op)
    if a[0] != "hist" or len(a) < 5:
        return "bad-op"
    _patch()
    threaded = op.startswith("thist ")
    slave = mk_slave(a[1])
    peer = PeerSide(slave, unnl(a[2]), parse_script(a[3]))
    bus = ThreadedBus(peer) if threaded else FakeBus(peer)
    net = canopen.Network(bus)
    bus.network = net
    m = net.lss
    if not threaded:
        m.RESPONSE_TIMEOUT = 0      # a frame that is not there yet never comes on a synchronous bus
    return run_history(a, net, bus, m, slave, bus.settle if threaded else None)


def run_history(a, net, bus, m, slave, settle):
    for f in parse_frames(a[4]):
        net.notify(f[0], bytearray(f[1]), 0.0)
    toks = []
    for act in a[5:]:
        if act.startswith("rx:"):
            for f in parse_frames(act[3:]):
                net.notify(f[0], bytearray(f[1]), 0.0)
            toks.append("rx")
            continue
        n = len(bus.log)
        try:
            res = show_ret(do_call(m, act))
        except lss_mod.LssError:
            res = "lss"
        except KeyError:
            return "bad-op"
        except Exception:
            res = "other"
        finally:
            if settle:
                settle()
        ex = ",".join(f"{req}>{show_frames(out)}" for req, out in bus.log[n:])
        toks.append(f"{res}[{ex}]")
    bus.shutdown()
    return " ".join(toks) + " # " + (slave.show() if slave is not None else "none")


JITTER_SHARE = 0.2      # of the time-out: a run in which this process overslept by more is repeated
JITTER_LIMIT = 0.35     # ... and beyond this no run says anything about the implementation
LATENCY_TRIES = 9


def default_timeout():
    """the class default as the tree under test documents it ('max time in seconds to wait')"""
    v = getattr(lss_mod.LssMaster, "RESPONSE_TIMEOUT", None)
    if isinstance(v, bool) or not isinstance(v, (int, float)) or not 0 < v <= 10:
        return None
    return float(v)


def run_latency(op):
    """Latencies keep 40 % of the time-out away from it, so a run counts when the process was never
    further than 20 % of the time-out from real time (`_Jitter`, lateness of the deliveries).  Otherwise
    it is repeated: three times as it is, then with a time-out set twice and four times as long (the
    op's `i`/`c` milliseconds are nominal; the class default stays what it is).  When the machine is
    too loaded even for that, this is an infrastructure failure (exit 2), not a finding."""
    a = op.split(" ")
    if len(a) < 7:
        return "bad-op"
    tmo, lats = parse_tmo(a[1]), parse_lats(a[2])
    if tmo is None or lats is None:
        return "bad-op"
    best = None
    for n in range(LATENCY_TRIES):
        stretch = 1 if tmo[0] == "d" else (1, 2, 4)[n // 3]
        out, worst, tmo_s = run_latency_once(["hist"] + a[3:], (tmo[0], tmo[1] and tmo[1] * stretch), lats)
        if tmo_s is None:
            return out
        if best is None or worst / tmo_s < best[0]:
            best = (worst / tmo_s, out)
        if best[0] <= JITTER_SHARE:
            break
        _time.sleep(0.3)
    if best[0] > JITTER_LIMIT:
        print(f"INFRASTRUCTURE: C18 latency operation {op!r}: in {LATENCY_TRIES} runs this process was never "
              f"closer than {best[0]:.2f} time-outs to real time (machine overloaded); no verdict", flush=True)
        raise SystemExit(2)
    return best[1]


def run_latency_once(a, tmo, lats):
    _patch()
    kind, seconds = tmo
    if kind == "d":
        seconds = default_timeout()
        if seconds is None:
            return f"no-default-timeout:{getattr(lss_mod.LssMaster, 'RESPONSE_TIMEOUT', None)!r}", 0.0, None
    slave = mk_slave(a[1])
    peer = PeerSide(slave, unnl(a[2]), parse_script(a[3]))
    bus = LatencyBus(peer, lats, seconds)
    cls = lss_mod.LssMaster
    had = "RESPONSE_TIMEOUT" in cls.__dict__
    old = cls.__dict__.get("RESPONSE_TIMEOUT")
    if kind == "c":
        cls.RESPONSE_TIMEOUT = seconds
    jitter = _Jitter()
    try:
        net = canopen.Network(bus)
        bus.network = net
        m = net.lss
        if kind == "i":
            m.RESPONSE_TIMEOUT = seconds
        out = run_history(a, net, bus, m, slave, bus.settle)
    finally:
        bus.settle()
        worst = max(jitter.stop(), bus.worst)
        if kind == "c":
            if had:
                cls.RESPONSE_TIMEOUT = old
            else:
                del cls.RESPONSE_TIMEOUT
    return out, worst, seconds


# ---- independent oracle ----------------------------------------------------------------------
INQ = {0x5A: 0, 0x5B: 1, 0x5C: 2, 0x5D: 3}


def le32(n):
    return bytes([n & 0xFF, n >> 8 & 0xFF, n >> 16 & 0xFF, n >> 24 & 0xFF])


def expected_simple_frames(kind, arg):
    """CiA 305 request frames of the non-scanning services, from the call's arguments"""
    z = bytes
    if kind == "sg":
        m = int(arg)
        return [z([0x04, m]) + z(6)] if m < 256 else []
    if kind == "inid":
        return [z([0x5E]) + z(7)]
    if kind == "iaddr":
        c = int(arg)
        return [z([c]) + z(7)] if c < 256 else []
    if kind == "cnid":
        n = int(arg)
        return [z([0x11, n]) + z(6)] if n < 256 else []
    if kind == "cbt":
        b = int(arg)
        return [z([0x13, 0, b]) + z(5)] if b < 256 else []
    if kind == "abt":
        d = int(arg)
        return [z([0x15, d & 0xFF, d >> 8]) + z(5)] if d < 65536 else []
    if kind == "store":
        return [z([0x17]) + z(7)]
    if kind == "idn":
        return [z([0x4C]) + z(7)]
    if kind in ("sel", "idr"):
        base = 0x40 if kind == "sel" else 0x46
        out = []
        for i, v in enumerate(unnl(arg)):
            if v >= 1 << 32:
                break
            out.append(z([base + i]) + le32(v) + z(3))
        return out
    return None


def parse_out(out):
    body, _, final = out.rpartition(" # ")
    calls = []
    for tok in body.split(" "):
        if tok == "rx":
            calls.append(None)
            continue
        res, _, rest = tok.partition("[")
        ex = []
        rest = rest[:-1]
        if rest:
            for e in rest.split(","):
                req, _, rep = e.partition(">")
                ex.append((req, parse_frames(rep)))
        calls.append((res, ex))
    return calls, final


def first_answer(replies):
    for rid, d in replies:
        if rid == MASTER_RX:
            return d
    return None


def check_fastscan_trace(ex):
    """The CiA 305 master procedure re-derived from the answers seen.  Returns (problem, result):
    `problem` names the first frame that is not the one the procedure sends next (or frames sent
    after the procedure has ended); `result` is what the procedure returns, or None when the
    trace ends in a zero-length frame on 0x7E4 -- that is not an LSS frame at all and what the
    master does with it is outside the property (the code lets struct.error escape)."""
    class Junk(Exception):
        pass

    def acked(i):
        d = first_answer(ex[i][1])
        if d is not None and len(d) == 0:
            raise Junk()
        return d is not None and d[0] == 0x4F

    def want(i, idn, bc, sub, nxt):
        if i >= len(ex):
            return f"fast scan stopped after {len(ex)} frame(s), frame {i} missing"
        exp = f"7e5.{hx(bytes([0x51]) + le32(idn) + bytes([bc, sub, nxt]))}"
        if ex[i][0] != exp:
            return f"fast scan frame {i} is {ex[i][0]}, CiA 305 procedure sends {exp}"
        return None

    i = 0
    try:
        p = want(0, 0, 128, 0, 0)
        if p:
            return p, None
        if not acked(0):
            return (None if len(ex) == 1 else "frames sent after an unanswered fast-scan reset"), "ok:F:-"
        ids = [0, 0, 0, 0]
        i = 1
        for sub in range(4):
            for bit in range(31, -1, -1):
                p = want(i, ids[sub], bit, sub, sub)
                if p:
                    return p, None
                if not acked(i):
                    ids[sub] |= 1 << bit
                i += 1
            p = want(i, ids[sub], 0, sub, (sub + 1) % 4)
            if p:
                return p, None
            ok = acked(i)
            i += 1
            if not ok:
                return (None if len(ex) == i else "frames sent after a failed confirmation"), "ok:F:-"
        return (None if len(ex) == i else "extra frames after the fourth confirmation"), f"ok:T:{nl(ids)}"
    except Junk:
        return (None if len(ex) == i + 1 else "frames sent after a zero-length answer"), None


def as_seen_by_master(calls, lats):
    """What is on 0x7E4 while the master waits for the answer to each request, given the latency of
    each reaction (percent of RESPONSE_TIMEOUT; None = lost): a reaction below 100 is there in time,
    one at or above 100 is not -- it is on the bus when the next request of the same call goes out,
    or lands in the queue after the call has returned (where the next call must not take it for an
    answer)."""
    k, res_calls = 0, []
    for call in calls:
        if call is None:
            res_calls.append(None)
            continue
        res, ex = call
        carried, seen = [], []
        for req, frames in ex:
            p = lats[k] if k in lats else 0
            in_time = p is not None and p < 100
            seen.append((req, carried + (list(frames) if in_time else [])))
            carried = list(frames) if (p is not None and not in_time) else []
            k += 1
        res_calls.append((res, seen))
    return res_calls


def viol(kind, tag, text):
    return f"[{kind}/{tag}] {text}"


def oracle(op, out):
    a = normalise(op)
    if a[0] != "hist":
        return None
    if out.startswith("HARNESS-RAISED") or out == "bad-op":
        return viol("harness", "raised", out)
    slave_desc, drops, script = a[1], unnl(a[2]), parse_script(a[3])
    lats = {}
    if op.startswith("lhist "):
        if out.startswith("no-default-timeout"):
            return viol("tmo", "default", f"LssMaster.RESPONSE_TIMEOUT is not a time in seconds: {out}")
        lats = parse_lats(op.split(" ")[2])
    # in time = strictly below RESPONSE_TIMEOUT; at or above it the request has met silence
    punctual = all(p is not None and p < 100 for p in lats.values())
    conformant_peer = slave_desc != "-" and not drops and not any(script) and punctual
    calls, final = parse_out(out)
    acts = a[5:]
    if len(calls) != len(acts):
        return viol("harness", "shape", "output does not have one token per action")
    if lats:
        calls = as_seen_by_master(calls, lats)
    shadow = mk_slave(slave_desc)          # replayed reference slave: state before each call
    for act, call in zip(acts, calls):
        if call is None:
            continue
        res, ex = call
        kind, _, arg = act.partition(":")
        before = None
        if shadow is not None:
            before = (shadow.configuration, shadow.unconfigured(), shadow.address)
        # -- every request: standard data frame on 0x7E5, 8 bytes
        for req, _ in ex:
            if "!" in req:
                return viol(kind, "frame-flags", f"request {req} is not a standard data frame")
            rid, d = parse_frame(req)
            if rid != MASTER_TX:
                return viol(kind, "cob-id", f"request {req} not on COB-ID 0x7E5")
            if len(d) != 8:
                return viol(kind, "length", f"request {req} is not 8 bytes")
        # -- request contents
        if kind == "fs":
            problem, derived = check_fastscan_trace(ex)
            if problem:
                return viol(kind, "frame", problem)
            if derived is not None and res != derived:
                return viol(kind, "result", f"fast scan returned {res}, the answers seen imply {derived}")
        else:
            exp = expected_simple_frames(kind, arg)
            got = [parse_frame(r)[1] for r, _ in ex]
            if exp is not None and got != exp:
                return viol(kind, "frame", f"{act} sent {[g.hex() for g in got]}, CiA 305 says "
                                           f"{[e.hex() for e in exp]}")
        # replay on the shadow slave
        if shadow is not None:
            for req, _ in ex:
                rid, d = parse_frame(req.split("!")[0])
                shadow.on_frame(rid, d)
        # -- result against the answer that was on the bus
        ans = first_answer(ex[-1][1]) if ex else None
        if kind in ("cnid", "cbt", "store") and ex:
            cs = {"cnid": 0x11, "cbt": 0x13, "store": 0x17}[kind]
            if ans is None:
                want = "lss"
            elif len(ans) < 2:
                want = "err"
            elif ans[0] != cs or ans[1] != 0:
                want = "lss"
            else:
                want = "ok"
            if (want == "err" and res.startswith("ok")) or (want != "err" and res != want):
                return viol(kind, "result", f"{act}: answer {hx(ans) if ans is not None else 'none'} "
                                            f"gave {res}, expected {want}")
        if kind == "inid" and ex:
            if ans is None:
                want = "lss"
            elif len(ans) < 2:
                want = "err"
            elif ans[0] != 0x5E:
                want = "lss"
            else:
                want = f"ok:{ans[1]}"
            if (want == "err" and res.startswith("ok")) or (want != "err" and res != want):
                return viol(kind, "result", f"inquire node id: answer {hx(ans) if ans is not None else 'none'} "
                                            f"gave {res}, expected {want}")
        if kind == "iaddr" and ex:
            c = int(arg)
            if c not in INQ and c != 0x5E:
                want = None             # not an inquire service: outside the property
            elif ans is None:
                want = "lss"
            elif len(ans) < 5:
                want = "err"
            elif ans[0] != c:
                want = "lss"
            else:
                want = f"ok:{int.from_bytes(ans[1:5], 'little')}"
            if want is None:
                pass
            elif (want == "err" and res.startswith("ok")) or (want != "err" and res != want):
                return viol(kind, "result", f"inquire {c:#x}: answer {hx(ans) if ans is not None else 'none'} "
                                            f"gave {res}, expected {want}")
        if kind == "sel" and len(ex) == 4:
            if res == "ok:T" and not (ans is not None and len(ans) >= 1 and ans[0] == 0x44):
                return viol(kind, "result", "selective switch confirmed without a 0x44 answer")
            if ans is None and res != "lss":
                return viol(kind, "result", f"selective switch without answer gave {res}, expected lss")
            if conformant_peer and before is not None and not before[0] and list(before[2]) == unnl(arg):
                if res != "ok:T" or not shadow.configuration:
                    return viol(kind, "confirm", f"selective switch to the slave's own address gave {res}, "
                                                 f"slave configuration state {shadow.configuration}")
        # -- the scenarios of the property
        if kind == "fs":
            if conformant_peer and before is not None and not before[0] and before[1]:
                want = f"ok:T:{nl(list(before[2]))}"
                if res != want:
                    return viol(kind, "identity", f"fast scan returned {res}, slave is {want}")
                if not shadow.configuration:
                    return viol(kind, "state", "slave not in configuration state after fast scan")
            if slave_desc == "-" and not any(script) and res != "ok:F:-":
                return viol(kind, "empty-bus", f"fast scan on an empty bus returned {res}")
    if shadow is not None and conformant_peer and final != shadow.show():
        return viol("harness", "peer", f"reference slave ended in {final}, replay gives {shadow.show()}")
    return None


def signature(op, what):
    tag = what[1:what.index("]")] if what.startswith("[") and "]" in what else "other"
    return tag


def nontrivial(op, out):
    return any(t.startswith("ok") for t in out.split(" # ")[0].split(" "))


def classify(op, out):
    """peer kind : first call (+ when more follow) : outcome class of that call"""
    a = normalise(op)
    acts = a[5:]
    peer = "noslave" if a[1] == "-" else "slave"
    if op.startswith("lhist "):
        lats = parse_lats(op.split(" ")[2]) or {}
        late = any(p is None or p >= 100 for p in lats.values())
        peer = "lat-" + op.split(" ")[1][0] + ("-late:" if late else ":") + peer
    if a[2] != "-":
        peer += "+loss"
    if a[3] != "-":
        peer += "+script"
    calls = [(x, t) for x, t in zip(acts, out.split(" # ")[0].split(" ")) if not x.startswith("rx:")]
    if not calls:
        return f"{peer}:none"
    act, tok = calls[0]
    res = tok.split("[")[0]
    parts = res.split(":")
    cls = parts[0] + (":" + parts[1] if len(parts) > 1 and parts[1] in ("T", "F") else "")
    return f"{peer}:{act.partition(':')[0]}{'+' if len(calls) > 1 else ''}:{cls}"


def shrink_candidates(op):
    a = op.split(" ")
    if a[0] == "fs":
        vals = [int(x) for x in a[1:5]]
        for i in range(4):
            for c in (0, vals[i] & (vals[i] - 1), vals[i] >> 1):
                if c != vals[i]:
                    yield "fs " + " ".join(str(c if j == i else vals[j]) for j in range(4))
        return
    if a[0] == "lhist":
        # every candidate costs real time: few of them, the cheap ones first
        head, rest = a[:3], a[3:]
        acts = rest[4:]
        for i in range(len(acts)):
            if len(acts) > 1:
                yield " ".join(head + rest[:4] + acts[:i] + acts[i + 1:])
        lats = [] if a[2] == "-" else a[2].split(",")
        for i in range(len(lats)):
            yield " ".join(a[:2] + [",".join(lats[:i] + lats[i + 1:]) or "-"] + rest)
        if rest[0] != "-":
            f = unnl(rest[0])
            if any(f[:4]):
                g = [0, 0, 0, 0] + f[4:]
                acts2 = [x.replace(nl(f[:4]), nl(g[:4])) for x in acts]
                yield " ".join(head + [nl(g)] + rest[1:4] + acts2)
        if a[1] != "i300":
            yield " ".join([a[0], "i300"] + a[2:])
        return
    if a[0] == "hist":
        acts = a[5:]
        for i in range(len(acts)):
            if len(acts) > 1:
                yield " ".join(a[:5] + acts[:i] + acts[i + 1:])
        if a[4] != "-":
            yield " ".join(a[:4] + ["-"] + acts)
        if a[2] != "-":
            yield " ".join(a[:2] + ["-"] + a[3:])
        if a[3] != "-":
            yield " ".join(a[:3] + ["-"] + a[4:])
        if a[1] != "-":
            f = unnl(a[1])
            for i in range(4):
                for c in (0, f[i] & (f[i] - 1)):
                    if c != f[i]:
                        g = list(f)
                        g[i] = c
                        # keep a selective switch / identity argument in step with the identity
                        acts2 = [x.replace(nl(f[:4]), nl(g[:4])) for x in acts]
                        yield " ".join([a[0], nl(g)] + a[2:5] + acts2)


# ---- generator -------------------------------------------------------------------------------
M32 = (1 << 32) - 1


def split128(x):
    return [(x >> (32 * i)) & M32 for i in range(4)]


def slave_desc(ident, store_err=0, config=0, node_id=255, pending=255, pos=0, sel=0, idr=0):
    return nl(list(ident) + [store_err, config, node_id, pending, pos, sel, idr])


def rep(cs, *params, n=8):
    d = bytes([cs]) + bytes(params)
    d = (d + bytes(8))[:n]
    return show_frame((MASTER_RX, d))


def gen_ops(tier, rng):
    thorough = tier == "thorough"
    # -- 1. fast scan: identities named by the property's quantifier
    yield "fs 0 0 0 0"
    yield f"fs {M32} {M32} {M32} {M32}"
    for b in range(128):
        yield "fs " + " ".join(str(x) for x in split128(1 << b))
        yield "fs " + " ".join(str(x) for x in split128(((1 << 128) - 1) ^ (1 << b)))
    for _ in range(8000 if thorough else 60):
        yield "fs " + " ".join(str(x) for x in split128(rng.getrandbits(128)))
    for _ in range(300 if thorough else 20):     # sparse / dense / repeated parts
        v = rng.getrandbits(32) & rng.getrandbits(32) & rng.getrandbits(32)
        w = rng.getrandbits(32) | rng.getrandbits(32) | rng.getrandbits(32)
        yield f"fs {v} {w} {v} {w}"
        yield f"fs {w} {w} {v} {v}"
    # -- 2. fast scan in other situations
    ids = [tuple(split128(rng.getrandbits(128))) for _ in range(6 if thorough else 2)] + \
          [(0, 0, 0, 0), (M32, M32, M32, M32), (0x80000000, 1, 0x7FFFFFFF, 0xFFFFFFFE)]
    yield "hist - - - - fs"
    yield "hist - - - 7e4.4f00000000000000 fs"                     # stale answer before an empty bus
    yield "hist - - - 7e4.4f00000000000000+7e4.4f00000000000000 fs fs"
    for ident in ids:
        for pos in range(4):                                        # LSSPos left over from an earlier scan
            yield f"hist {slave_desc(ident, pos=pos, sel=pos, idr=pos)} - - 7e4.4f00000000000000 fs"
        yield f"hist {slave_desc(ident, config=1)} - - - fs"        # already in configuration state
        yield f"hist {slave_desc(ident, node_id=5, pending=5)} - - - fs"   # configured slave
        yield f"hist {slave_desc(ident, node_id=255, pending=7)} - - - fs"
        yield f"hist {slave_desc(ident)} - - - fs fs"               # second scan finds nobody
        yield f"hist {slave_desc(ident)} - - - fs sg:0 fs inid"     # back to waiting: found again
        yield f"hist {slave_desc(ident)} - - - idn fs"              # 0x50 answer is flushed
        yield f"hist {slave_desc(ident)} - - - sel:{nl(ident)} fs"
        yield f"hist {slave_desc(ident)} - - - fs cnid:9 store inid iaddr:90 iaddr:93 sg:0"
        # lost answers
        positions = list(range(133)) if thorough else \
            sorted(set([0, 1, 2, 32, 33, 34, 65, 66, 67, 98, 99, 100, 131, 132] +
                       [rng.randrange(133) for _ in range(6)]))
        for k in positions:
            yield f"hist {slave_desc(ident)} {k} - - fs"
        for _ in range(20 if thorough else 3):
            ks = sorted(set(rng.randrange(133) for _ in range(rng.randrange(2, 5))))
            yield f"hist {slave_desc(ident)} {nl(ks)} - - fs"
        # a second device answering too (extra frames), answers on a wrong COB-ID, wrong specifier
        yield f"hist {slave_desc(ident)} - {'/'.join(['7e4.4f00000000000000'] * 5)} - fs"
        yield f"hist {slave_desc(ident)} - {'/'.join(['7e5.4f00000000000000'] * 140)} - fs"
    always = "/".join(["7e4.4f00000000000000"] * 133)
    yield f"hist - - {always} - fs"                                 # everything acknowledged: zero
    yield f"hist - - {'/'.join(['7e4.5000000000000000'] * 133)} - fs"   # wrong specifier = no answer
    yield f"hist - - {'/'.join(['7e4.4f'] * 133)} - fs"             # short but sufficient
    yield f"hist - - 7e4.- - fs"                                    # empty frame
    yield f"hist - - 7e4.4f00000000000000/7e4.- - fs"
    yield f"hist - - 7e3.4f00000000000000 - fs"                     # not the LSS COB-ID
    for _ in range(40 if thorough else 6):                          # random acknowledge patterns
        sc = "/".join(rng.choice(["-", "7e4.4f00000000000000", "7e4.4f00000000000000",
                                  "7e4.4f00000000000000+7e4.4f00000000000000", "7e4.4400000000000000"])
                      for _ in range(134))
        yield f"hist - - {sc} - fs"
    # -- 3. services against the reference slave
    ident = ids[0]
    sd = slave_desc(ident)
    for n in range(256):
        yield f"hist {sd} - - - sel:{nl(ident)} cnid:{n} inid store"
        yield f"hist {sd} - - - sel:{nl(ident)} cbt:{n} store"
    for n in (256, 257, 1 << 32):
        yield f"hist {sd} - - - sel:{nl(ident)} cnid:{n} cbt:{n} inid"
    for se in (0, 1, 2, 255):
        yield f"hist {slave_desc(ident, store_err=se)} - - - sel:{nl(ident)} cnid:42 cbt:4 store inid"
    for idn in ids:
        yield (f"hist {slave_desc(idn)} - - - sel:{nl(idn)} iaddr:90 iaddr:91 iaddr:92 iaddr:93 iaddr:94 "
               f"inid iaddr:89 iaddr:95 iaddr:256")
        yield f"hist {slave_desc(idn)} - - - inid iaddr:90 cnid:1 cbt:1 store"      # waiting state: silence
        yield f"hist {slave_desc(idn)} - - - sg:1 inid iaddr:90 cnid:1 cbt:1 store sg:0 inid"
        # selective switch: own address, every single part off by one bit, silence when absent
        yield f"hist {slave_desc(idn)} - - - sel:{nl(idn)} inid"
        for i in range(4):
            other = list(idn)
            other[i] ^= 1 << rng.randrange(32)
            yield f"hist {slave_desc(idn)} - - - sel:{nl(other)} sel:{nl(idn)} inid"
        yield f"hist - - - - sel:{nl(idn)}"
        yield f"hist {slave_desc(idn)} 3 - - sel:{nl(idn)} sel:{nl(idn)}"
        yield f"hist {slave_desc(idn, sel=2)} - - - sel:{nl(idn)}"
        yield f"hist {slave_desc(idn)} - - - sel:{idn[0]},{idn[1]},{1 << 32},{idn[3]}"
        lo, hi = max(idn[2] - 1, 0), min(idn[2] + 1, M32)
        yield (f"hist {slave_desc(idn)} - - - idr:{idn[0]},{idn[1]},{lo},{hi},0,{M32} "
               f"idr:{idn[0]},{idn[1]},{hi + 1},{hi + 2},0,{M32} idn inid")
    for d in (0, 1, 255, 256, 0x1234, 65535, 65536):
        yield f"hist {sd} - - - sg:1 abt:{d} sg:0"
    for m in (0, 1, 2, 127, 255, 256):
        yield f"hist {sd} - - - sg:{m} inid"
    # -- 4. scripted answers: every error code, every wrong specifier, silence, short, stale
    services = [("cnid:1", 0x11), ("cbt:2", 0x13), ("store", 0x17), ("inid", 0x5E),
                ("iaddr:90", 0x5A), ("iaddr:91", 0x5B), ("iaddr:92", 0x5C), ("iaddr:93", 0x5D)]
    for call, cs in services:
        yield f"hist - - - - {call}"
        yield f"hist - - - {rep(cs, 0, 0)} {call}"                  # a stale good answer is not an answer
        yield f"hist - - 7e5.{hx(bytes([cs]) + bytes(7))} - {call}"  # wrong COB-ID
        yield f"hist - - {rep(cs, 1, 0)}+{rep(cs, 0, 0)}/- - {call} {call}"   # duplicate is flushed
        for e in range(256):
            yield f"hist - - {rep(cs, e, rng.getrandbits(8), rng.getrandbits(8), rng.getrandbits(8))} - {call}"
        for c in range(256):
            if c != cs:
                yield f"hist - - {rep(c, 0, 0, 0, 0)} - {call}"
        for n in range(0, 8):
            yield f"hist - - {rep(cs, 0, 0, n=n)} - {call}"
            yield f"hist - - {rep(cs ^ 1, 0, 0, n=n)} - {call}"
        for _ in range(200 if thorough else 10):
            d = bytes(rng.getrandbits(8) for _ in range(8))
            if rng.random() < 0.7:
                d = bytes([cs]) + d[1:]
            yield f"hist - - 7e4.{hx(d)} - {call}"
    for n in range(256):                                              # node ids / indexes, good and refused
        yield f"hist - - {rep(0x11, 0)} - cnid:{n}"
        yield f"hist - - {rep(0x13, 0)} - cbt:{n}"
        yield f"hist - - {rep(0x11, 1)} - cnid:{n}"
        yield f"hist - - {rep(0x13, 255)} - cbt:{n}"
    for c in range(256):
        yield f"hist - - -/-/-/{rep(c)} - sel:1,2,3,4"              # the answer to the fourth frame decides
        yield f"hist - - {rep(c, 1, 2, 3, 4)} - iaddr:{c}"
    yield f"hist - - {rep(0x44)} - sel:1,2,3,4"                     # an early 0x44 is flushed: silence
    yield "hist - - -/-/-/7e4.- - sel:1,2,3,4"
    yield "hist - - -/-/-/7e4.44 - sel:1,2,3,4"
    yield f"hist - - -/-/-/7e3.4400000000000000 - sel:1,2,3,4"
    yield f"hist - - - - idr:1,2,3,4,5,{1 << 32} idr:{1 << 32},2,3,4,5,6 sel:{1 << 32},2,3,4 sel:1,2,3,{1 << 32}"
    yield from threaded_ops(tier)
    yield from latency_ops(tier, rng)
    # -- 5. seeded histories
    for _ in range(12000 if thorough else 150):
        idn = tuple(split128(rng.getrandbits(128)))
        if rng.random() < 0.3:
            idn = tuple(x & 3 for x in idn)
        sdesc = slave_desc(idn, store_err=rng.choice([0, 0, 0, 1, 2]), config=rng.choice([0, 0, 1]),
                           node_id=rng.choice([255, 255, 255, 3]), pending=rng.choice([255, 255, 255, 9]),
                           pos=rng.randrange(4), sel=rng.randrange(4), idr=rng.randrange(6))
        if rng.random() < 0.1:
            sdesc = "-"
        acts = []
        for _ in range(rng.randrange(2, 10)):
            k = rng.random()
            near = [x ^ (1 << rng.randrange(32)) if rng.random() < 0.15 else x for x in idn]
            if k < 0.10:
                acts.append("fs")
            elif k < 0.25:
                acts.append(f"sel:{nl(near)}")
            elif k < 0.35:
                acts.append(f"sg:{rng.choice([0, 1, 1, 2])}")
            elif k < 0.45:
                acts.append(f"cnid:{rng.choice([0, 1, 5, 127, 128, 254, 255, rng.randrange(256)])}")
            elif k < 0.55:
                acts.append(f"cbt:{rng.choice([0, 4, 5, 8, 9, rng.randrange(256)])}")
            elif k < 0.62:
                acts.append("store")
            elif k < 0.70:
                acts.append("inid")
            elif k < 0.80:
                acts.append(f"iaddr:{rng.choice([90, 91, 92, 93, 94])}")
            elif k < 0.85:
                acts.append(f"abt:{rng.randrange(65536)}")
            elif k < 0.90:
                acts.append("idn")
            elif k < 0.95:
                r, s = near[2], near[3]
                acts.append(f"idr:{near[0]},{near[1]},{max(r - rng.randrange(3), 0)},{min(r + rng.randrange(3), M32)},"
                            f"{max(s - rng.randrange(3), 0)},{min(s + rng.randrange(3), M32)}")
            else:
                acts.append("rx:" + rng.choice(["7e4.4f00000000000000", "7e4.1100000000000000",
                                                "7e4.5e07000000000000", "7e3.4400000000000000"]))
        drops = "-"
        if rng.random() < 0.2:
            drops = nl(sorted(set(rng.randrange(12) for _ in range(2))))
        script = "-"
        if rng.random() < 0.15:
            script = "/".join(rng.choice(["-", "7e4.4400000000000000", "7e4.1100000000000000",
                                          "7e4.5e01000000000000", "7e4.1701000000000000"])
                              for _ in range(8))
        yield f"hist {sdesc} {drops} {script} - " + " ".join(acts)


def threaded_ops(tier):
    """real blocking waits (default 0.5 s time-out): few unanswered probes per op"""
    yield f"thist {fresh(0, 0, 0, 0)} - - - fs inid"
    if tier == "thorough":
        yield f"thist {fresh(0x80000000, 0, 0, 1)} - - - idn fs sg:0 fs"
        yield f"thist {fresh(7, 8, 9, 10)} - - - sel:7,8,9,10 cnid:3 cbt:2 store inid iaddr:93 cnid:0"
        yield "thist - - - - fs inid"


ACK = "7e4.4f00000000000000"
# the probes of a scan are numbered 0 (reset), then 33 per part: 32 bits from the top, confirmation
IN_TIME = (0, 20, 50)


def probe(part, bit):
    """request number, within one fast scan, of the probe of `bit` of identity part `part`"""
    return 1 + 33 * part + (31 - bit)


def confirm(part):
    return 1 + 33 * part + 32


def lat(entries):
    return show_lats(sorted(dict(entries).items()))


def latency_ops(tier, rng):
    """Real waits: an unanswered request costs one whole time-out, so identities have few 1 bits and
    the time-out is 0.3 s where it is set.  Quick: about 12 s."""
    thorough = tier == "thorough"
    z = fresh(0, 0, 0, 0)
    # -- fast scan, every answer in time: instance / class / default time-out
    yield f"lhist i300 {lat([(0, 20), (1, 50), (2, 0), (33, 20), (34, 50), (66, 50), (132, 50)])} {z} - - - fs inid"
    yield (f"lhist d {lat([(0, 50), (probe(0, 30), 20), (confirm(1), 60), (probe(3, 1), 50)])} "
           f"{fresh(1 << 31, 0, 0, 1)} - - - fs")
    yield (f"lhist c300 {lat([(0, 0), (probe(1, 1) - 1, 50), (probe(1, 1) + 1, 20), (confirm(3), 50)])} "
           f"{fresh(0, 2, 0, 0)} - - - fs iaddr:91")
    yield f"lhist i1000 {lat([(0, 60)])} {z} - - - fs"          # longer than the class default: 0.6 s is in time
    # -- the services, in time
    yield (f"lhist i300 {lat([(3, 50), (4, 20), (5, 50), (6, 20), (7, 50), (8, 20), (9, 50)])} {fresh(1, 2, 3, 4)} "
           f"- - - sel:1,2,3,4 cnid:5 cbt:3 store inid iaddr:90 iaddr:93")
    yield (f"lhist c300 {lat([(0, 50), (1, 20), (2, 50), (3, 20)])} - - "
           f"{rep(0x5E, 7)}/{rep(0x11, 1)}/{rep(0x12, 0)}/{rep(0x17, 0)} - inid cnid:5 cnid:5 store")
    # -- too late or never: silence, and the late frame is not the answer to the next request
    yield (f"lhist i300 {lat([(4, 150), (5, 200), (6, None)])} {fresh(1, 2, 3, 4)} - - - "
           f"sel:1,2,3,4 cnid:5 inid store inid")
    yield f"lhist i300 {lat([(0, 150)])} {fresh(0, 0, 0, 1)} - - - fs fs"
    yield f"lhist i300 {lat([(3, 150)])} {fresh(1, 2, 3, 4)} - - - sel:1,2,3,4 inid"
    yield f"lhist c300 {lat([(0, 50), (1, 150)])} - - {rep(0x5E, 7)}/{rep(0x5E, 9)} - inid inid"
    yield "lhist i300 - - - - - fs inid"                          # nobody there: two whole time-outs
    # -- seeded
    modes = ["i300", "c300", "d"]
    for n in range(24 if thorough else 3):
        ones = rng.sample(range(128), rng.choice([0, 1, 1, 2]))
        ident = split128(sum(1 << b for b in ones))
        ks = rng.sample(range(133), 7)
        mode = modes[n % 3] if n % 3 != 2 or len(ones) < 2 else "i300"
        pcts = IN_TIME + ((60,) if mode == "d" else ())
        yield (f"lhist {mode} {lat([(0, rng.choice(pcts))] + [(k, rng.choice(pcts)) for k in ks])} "
               f"{fresh(*ident)} - - - fs")
    for n in range(8 if thorough else 1):
        idn = split128(rng.getrandbits(128))
        acts = [f"sel:{nl(idn)}"] + [rng.choice([f"cnid:{rng.randrange(256)}", f"cbt:{rng.randrange(256)}", "store",
                                                  "inid", f"iaddr:{rng.choice([90, 91, 92, 93])}"])
                                     for _ in range(5)]
        entries = [(k, rng.choice(IN_TIME)) for k in range(3, 9)]
        if rng.random() < 0.5:
            j = rng.randrange(1, 6)
            entries[j] = (entries[j][0], rng.choice([150, 200, None]))
        sd = slave_desc(idn, store_err=rng.choice([0, 0, 1, 2]))
        yield f"lhist {modes[n % 2]} {lat(entries)} {sd} - - - " + " ".join(acts)
    if not thorough:
        return
    # -- every part, the top / a middle / the bottom bit: the one unanswered probe, its neighbours delayed
    for part in range(4):
        for bit in (31, 16, 1, 0):
            ident = [0, 0, 0, 0]
            ident[part] = 1 << bit
            k = probe(part, bit)
            yield (f"lhist i300 {lat([(0, 20), (k - 1, 50), (k, 50), (k + 1, 50), (confirm(part), 20)])} "
                   f"{fresh(*ident)} - - - fs")
    # -- every request of a scan delayed a little (all 133, 0 % and 20 %)
    yield f"lhist i300 {lat([(k, 20 if k % 8 == 0 else 0) for k in range(133)])} {z} - - - fs"
    yield f"lhist d {lat([(k, 0) for k in range(133)])} {fresh(0, 0, 1 << 7, 0)} - - - fs sg:0 fs"
    # -- the confirmation of each part too late: the scan fails there
    for part in range(4):
        yield f"lhist i300 {lat([(confirm(part), 150)])} {z} - - - fs"
    # -- every confirmed service: in time at each fraction, too late, never; time-out on instance / class / default
    svc = [("cnid:7", 4), ("cbt:2", 4), ("store", 4), ("inid", 4), ("iaddr:90", 4), ("iaddr:93", 4)]
    for mode in ("i300", "c300", "d"):
        for call, k in svc:
            for p in (IN_TIME + (60,) if mode == "d" else IN_TIME):
                yield f"lhist {mode} {lat([(3, p), (k, p)])} {fresh(1, 2, 3, 4)} - - - sel:1,2,3,4 {call}"
        for call, k in svc[:3 if mode != "i300" else 6]:
            for p in (150, None):
                yield f"lhist {mode} {lat([(k, p)])} {fresh(1, 2, 3, 4)} - - - sel:1,2,3,4 {call} inid"
    yield f"lhist i300 {lat([(3, 50)])} {fresh(1, 2, 3, 4)} - - - sel:1,2,3,5 sel:1,2,3,4 inid"
    yield f"lhist i300 {lat([(0, 200)])} {slave_desc((1, 2, 3, 4), config=1)} - - - inid inid"
    yield f"lhist i300 {lat([(0, 20)])} {fresh(5, 6, 7, 8)} - - - idn fs"
    yield f"lhist i700 {lat([(0, 60), (1, 150)])} - - {rep(0x5E, 7)}/{rep(0x5E, 9)} - inid inid"


CORPUS = [
    "fs 305419896 2596069104 1 2147483648",
    "hist - - - - fs",
    "hist 1,2,3,4,0,0,255,255,0,0,0 - - - sel:1,2,3,4 cnid:5 cbt:3 store inid iaddr:90",
    "hist - - 7e4.1101000000000000 - cnid:5",
    "hist - - 7e4.1200000000000000 - cnid:5",
    "hist - - - - store",
    # a slave that needs a fifth / half of the time-out for its answers (C18_30D7)
    "lhist d 0:20,1:20,2:50,33:20,132:50 1,0,0,0,0,0,255,255,0,0,0 - - - fs",
    "lhist i300 0:50,32:20,33:50 0,0,0,0,0,0,255,255,0,0,0 - - - fs inid",
]

LEVEL_TEXT = ("Lean 4 theorems: for every 128-bit LSS address, every prior fast-scan position of the slave and every "
              "stale content of the master's queue, the model of LssMaster.fast_scan composed with the CiA 305 slave "
              "returns (True, [vendor, product, revision, serial]) and leaves the slave in configuration state "
              "(induction over the 32 bit positions and the four parts); empty bus / configured slave give (False, None); "
              "every request any API call emits, against any peer whatsoever, is an 8-byte CiA 305 frame on 0x7E5 with "
              "the standard specifier and little-endian fields; configure/store/inquire return the answer or LssError "
              "for every error code, wrong specifier or silence; selective switch to the slave's own address is "
              "confirmed; all of it unchanged by reply latency below RESPONSE_TIMEOUT (simulation through every "
              "function of the model, any peer, any time-out), an answer at or after the time-out is silence; "
              "model tied to the code by regenerated constants and a differential run against an "
              "independent Python CiA 305 slave, with real waits where latency is in play")
LEVEL_NOTE = ("trusted: Lean kernel + propext/Classical.choice/Quot.sound; my reading of CiA 305 (written twice: Lean "
              "spec and Python peer); queue.Queue as FIFO and the time-out as 'no frame queued'; time.sleep pacing is "
              "outside the model; the correspondence is only as strong as its generator (distribution in the evidence)")
TECHNIQUE = "Lean 4 proof over generated tables + differential correspondence with the implementation"
