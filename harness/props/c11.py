"""C11 — NMT commands, states and heartbeats follow the CiA 301 state machine.

One operation = one whole history, run on a *fresh* pair of nodes:

    hist <own id> <0x1017 value | -> <step> <step> ...

A `RemoteNode` (master view) lives on network M, a `LocalNode` (slave view) on network S, both
attached to one simulated bus (DESIGN §4): a frame sent by one network is handed, as a fresh copy,
to `notify` of the other; third-party frames are handed to both.  Steps:

    a:<code>        remote.nmt.send_command(code)            master API for its own node
    n:<cps>         remote.nmt.state = name                  (name as comma separated code points)
    g:<code>        M.nmt.send_command(code)                 broadcast through Network.nmt
    G:<cps>         M.nmt.state = name
    c:<hex>         third-party frame on CAN id 0 (`c:<code><target>` is "bus target code")
    h:<node>:<hex>  third-party frame on 0x700+node          (heartbeat / boot-up claim)
    A:<code>        local.nmt.send_command(code)             slave application API
    N:<cps>         local.nmt.state = name
    H:<ms>          local.sdo[0x1017].raw = ms               slave application sets heartbeat time
    t               every live periodic task of S transmits once (genuine heartbeat)
    w:<arr>         remote.nmt.wait_for_heartbeat(); <arr> = `-` (nothing arrives: time-out) or
                    `/`-separated frame payloads on 0x700+own that arrive during the wait
    W:<it>;<it>...  remote.nmt.wait_for_bootup(); one <it> = `<expired 0|1>/<arr>` per loop iteration
                    (`expired` = the clock read at the top of the iteration is past the deadline)
    rw:<arr> / rW:<0|1>  the same two waits with the real threading.Condition and the real clock

Canonical output: one record per step, joined by ` | `:
    r=<ok|ok:<state>|err|err:nmt|err:rx<M|S|MS>>,m=<master view>,s=<slave view>,b=<Network.nmt view>,
    tx=<sender/id/hex+...|->,cb=<heartbeat callback arguments|->,hb=<live tasks of S|->
"""
import re
import threading

import can
import canopen
import canopen.nmt as nmtmod
from canopen import objectdictionary as odm

ID = "C11"
PROOF_MODULES = ["CanopenProofs.C11"]
GENERATED = ["Nmt"]
THEOREMS = [
    "Canopen.C11.tables_match_spec",
    "Canopen.C11.master_frame",
    "Canopen.C11.master_frame_history",
    "Canopen.C11.views_agree",
    "Canopen.C11.views_agree_from",
    "Canopen.C11.slave_tracks_spec",
    "Canopen.C11.other_target_inert",
    "Canopen.C11.heartbeat_decoding",
    "Canopen.C11.master_tracks_commands_and_heartbeats",
    "Canopen.C11.genuine_heartbeat_syncs",
    "Canopen.C11.invalid_name_inert",
    "Canopen.C11.wait_returns",
    "Canopen.C11.wait_fails",
    "Canopen.C11.wait_bootup_returns",
    "Canopen.C11.wait_bootup_fails",
]
FINGERPRINT = [
    "canopen.node.base:BaseNode",
    "canopen.node.remote:RemoteNode.__init__",
    "canopen.nmt:NmtBase.on_command",
    "canopen.nmt:NmtBase.send_command",
    "canopen.nmt:NmtBase.state",
    "canopen.nmt:NmtMaster.on_heartbeat",
    "canopen.nmt:NmtMaster.send_command",
    "canopen.nmt:NmtMaster.wait_for_heartbeat",
    "canopen.nmt:NmtMaster.wait_for_bootup",
    "canopen.nmt:NmtSlave.on_command",
    "canopen.nmt:NmtSlave.send_command",
    "canopen.nmt:NmtSlave.on_write",
    "canopen.nmt:NmtSlave.start_heartbeat",
    "canopen.nmt:NmtSlave.stop_heartbeat",
    "canopen.nmt:NmtSlave.update_heartbeat",
    "canopen.node.remote:RemoteNode.associate_network",
    "canopen.node.local:LocalNode.associate_network",
]
TRUSTED = [
    "Spec/NmtMachine.lean: my reading of the CiA 301 NMT state machine (destination of each command "
    "specifier, heartbeat state codes), with the library's two power-saving commands kept as table rows "
    "and reset -> INITIALISING without the automatic transition (DESIGN §5 C11)",
    "threading.Condition as a monitor: a wait is modelled as the list of heartbeat frames processed "
    "before the waiter resumes (empty list = time-out); time.time as the 'deadline passed' bit read at "
    "the top of each wait_for_bootup iteration; real-thread runs (rw/rW steps) are evidence, not proof",
    "python-can Message construction (bytearray range check) and the fake bus of this module",
]
ASSUMPTIONS = [
    "node ids 1..127; state names are str; NMT command frames reach both networks in the same order",
    "a broadcast issued through Network.nmt is not echoed to the sending network (real CAN behaviour), so "
    "the per-node master view is unchanged by it; it is checked for the frame and the slave's view",
]
RULE = ("ops are whole histories on a fresh RemoteNode/LocalNode pair on one simulated bus; every sequence of "
        "length <= 3 (thorough: <= 4) over the 7 defined command specifiers + 2 undefined ones x targets "
        "{own, 0, other} delivered as master API call (own) / third-party frame (0, other), plus the length <= 3 "
        "sweeps with third-party frames only and with Network.nmt broadcasts, views compared after every step; all 256 heartbeat bytes from three start states; "
        "all state names, case/blank variants and seeded strings on master, broadcast master and slave; waits "
        "scripted through a fake condition/clock plus a few real-thread runs; seeded mixed histories of all "
        "step kinds up to length 40.  non-trivial = the history has at least one step that did not raise")

OWN_DEFAULT = 5


def hx(b):
    return bytes(b).hex() if len(b) else "-"


def unhx(s):
    return b"" if s == "-" else bytes.fromhex(s)


def cps(s):
    return ",".join(str(ord(c)) for c in s) if s else "-"


def uncps(s):
    return "" if s == "-" else "".join(chr(int(x)) for x in s.split(","))


# ---- simulated bus --------------------------------------------------------------------------------
class FakeTask:
    def __init__(self, bus, msg, period):
        self.bus, self.msg, self.period, self.live = bus, msg, period, True
        bus.tasks.append(self)

    def stop(self):
        self.live = False

    def modify_data(self, msg):
        self.msg = msg


class FakeBus:
    """What python-can hands to Network: send / send_periodic.  One per network."""
    channel_info = "simulated"

    def __init__(self, sim, tag):
        self.sim, self.tag, self.tasks = sim, tag, []

    def send(self, msg):
        self.sim.transmit(self.tag, msg)

    def send_periodic(self, msg, period):
        return FakeTask(self, msg, period)

    def shutdown(self):
        pass


class Sim:
    def __init__(self):
        self.nets = {}
        self.log = []       # frames of the current step
        self.raised = []    # networks whose notify raised during the current step
        self.clock = 0.0

    def attach(self, tag, net):
        self.nets[tag] = net
        net.bus = FakeBus(self, tag)

    def transmit(self, sender, msg):
        flags = ("R" if msg.is_remote_frame else "") + ("X" if msg.is_extended_id else "")
        self.log.append(f"{sender}/{msg.arbitration_id}/{hx(msg.data)}{flags}")
        if msg.is_remote_frame or msg.is_error_frame:
            return
        for tag, net in self.nets.items():
            if tag != sender:
                self.clock += 1.0
                try:
                    net.notify(msg.arbitration_id, bytearray(msg.data), self.clock)
                except Exception:
                    self.raised.append(tag)

    def third_party(self, can_id, data):
        self.transmit("X", can.Message(arbitration_id=can_id, data=data, is_extended_id=False))


class ScriptCond:
    """Stands in for NmtMaster.state_update: `wait` plays the next scripted batch of arrivals."""

    def __init__(self, sim, can_id, script):
        self.sim, self.can_id, self.script = sim, can_id, list(script)
        self.overrun = False

    def __enter__(self):
        return self

    def __exit__(self, *a):
        return False

    def notify_all(self):
        pass

    def wait(self, timeout=None):
        if not self.script:
            self.overrun = True
            raise RuntimeError("wait script exhausted")
        for data in self.script.pop(0):
            self.sim.third_party(self.can_id, data)
        return True


class ScriptClock:
    """Stands in for the `time` module inside canopen.nmt during wait_for_bootup: the first call
    fixes the deadline, call k+1 is the clock read at the top of iteration k."""

    def __init__(self, expired):
        self.expired, self.calls = list(expired), 0

    def time(self):
        self.calls += 1
        if self.calls == 1:
            return 1000.0
        k = self.calls - 2
        exp = self.expired[k] if k < len(self.expired) else True
        return 2000.0 if exp else 1000.0


class HookCond(threading.Condition):
    """Real condition variable; on entering `wait` a real thread delivers the arrivals (it blocks
    on the monitor until the waiter has released it inside the real wait)."""

    def __init__(self, deliver):
        super().__init__()
        self.deliver, self.threads = deliver, []

    def wait(self, timeout=None):
        if self.deliver is not None:
            t = threading.Thread(target=self.deliver)
            self.deliver = None
            self.threads.append(t)
            t.start()
        return super().wait(timeout)


def make_od(hbt):
    od = odm.ObjectDictionary()
    if hbt is not None:
        v = odm.ODVariable("Producer heartbeat time", 0x1017, 0)
        v.data_type = odm.UNSIGNED16
        v.access_type = "rw"
        v.default = hbt
        od.add_object(v)
    return od


def view(s):
    return s.replace(" ", "_")


def errkind(e):
    return "err:nmt" if isinstance(e, nmtmod.NmtError) else "err"


def parse_arrivals(s):
    return [] if s == "-" else [unhx(x) for x in s.split("/")]


def own_id(tok):
    """`5`, or `o5` / `z5`: the node objects are created with node id None / 0 and take 5 from the dictionary"""
    return int(tok.lstrip("oz"))


def run_impl(op):
    a = op.split(" ")
    if a[0] != "hist" or len(a) < 3:
        return "bad-op"
    own = own_id(a[1])
    hbt = None if a[2] == "-" else int(a[2])
    sim = Sim()
    M, S = canopen.Network(), canopen.Network()
    sim.attach("M", M)
    sim.attach("S", S)
    if a[1][0] in "oz":
        given = None if a[1][0] == "o" else 0
        rod, lod = odm.ObjectDictionary(), make_od(hbt)
        rod.node_id = lod.node_id = own
        remote = canopen.RemoteNode(given, rod)
        local = canopen.LocalNode(given, lod)
    else:
        remote = canopen.RemoteNode(own, odm.ObjectDictionary())
        local = canopen.LocalNode(own, make_od(hbt))
    M.add_node(remote)
    S.add_node(local)
    cb = []
    remote.nmt.add_heartbeat_callback(cb.append)
    out = []
    real_time = nmtmod.time
    try:
        for st in a[3:]:
            sim.log, sim.raised = [], []
            del cb[:]
            kind, _, arg = st.partition(":")
            res = "ok"
            try:
                if kind == "a":
                    remote.nmt.send_command(int(arg))
                elif kind == "n":
                    remote.nmt.state = uncps(arg)
                elif kind == "g":
                    M.nmt.send_command(int(arg))
                elif kind == "G":
                    M.nmt.state = uncps(arg)
                elif kind == "A":
                    local.nmt.send_command(int(arg))
                elif kind == "N":
                    local.nmt.state = uncps(arg)
                elif kind == "H":
                    local.sdo[0x1017].raw = int(arg)
                elif kind == "c":
                    sim.third_party(0, unhx(arg))
                elif kind == "h":
                    node, _, data = arg.partition(":")
                    sim.third_party(0x700 + int(node), unhx(data))
                elif kind == "t":
                    for task in list(S.bus.tasks):
                        if task.live:
                            m = task.msg
                            sim.transmit("S", can.Message(arbitration_id=m.arbitration_id, data=bytes(m.data),
                                                          is_extended_id=m.is_extended_id,
                                                          is_remote_frame=m.is_remote_frame))
                elif kind == "w":
                    arr = parse_arrivals(arg)
                    old = remote.nmt.state_update
                    remote.nmt.state_update = ScriptCond(sim, 0x700 + own, [arr])
                    try:
                        res = "ok:" + view(remote.nmt.wait_for_heartbeat(0.25))
                    finally:
                        remote.nmt.state_update = old
                elif kind == "W":
                    its = [x.split("/", 1) for x in arg.split(";")]
                    old = remote.nmt.state_update
                    cond = ScriptCond(sim, 0x700 + own, [parse_arrivals(x[1]) for x in its])
                    remote.nmt.state_update = cond
                    nmtmod.time = ScriptClock([x[0] == "1" for x in its])
                    try:
                        remote.nmt.wait_for_bootup(0.25)
                    except RuntimeError:
                        if not cond.overrun:
                            raise
                        res = "waiting"
                    finally:
                        nmtmod.time = real_time
                        remote.nmt.state_update = old
                elif kind == "rw":
                    arr = parse_arrivals(arg)
                    old = remote.nmt.state_update
                    cond = HookCond((lambda: [sim.third_party(0x700 + own, d) for d in arr]) if arr else None)
                    remote.nmt.state_update = cond
                    try:
                        res = "ok:" + view(remote.nmt.wait_for_heartbeat(5.0 if arr else 0.003))
                    finally:
                        for t in cond.threads:
                            t.join()
                        remote.nmt.state_update = old
                elif kind == "rW":
                    old = remote.nmt.state_update
                    boot = arg == "1"
                    cond = HookCond((lambda: sim.third_party(0x700 + own, b"\x00")) if boot else None)
                    remote.nmt.state_update = cond
                    try:
                        remote.nmt.wait_for_bootup(5.0 if boot else -1.0)
                    finally:
                        for t in cond.threads:
                            t.join()
                        remote.nmt.state_update = old
                else:
                    return "bad-op"
            except Exception as e:
                res = errkind(e)
            if res == "ok" and sim.raised and kind not in ("w", "W", "rw", "rW"):
                res = "err:rx" + "".join(sorted(set(sim.raised)))
            tasks = [f"{t.msg.arbitration_id}/{hx(t.msg.data)}/{round(t.period * 1000)}"
                     + ("R" if t.msg.is_remote_frame else "")
                     for t in S.bus.tasks if t.live]
            out.append(f"r={res},m={view(remote.nmt.state)},s={view(local.nmt.state)},b={view(M.nmt.state)},"
                       f"tx={'+'.join(sim.log) or '-'},cb={','.join(str(x) for x in cb) or '-'},"
                       f"hb={'+'.join(tasks) or '-'}")
    finally:
        nmtmod.time = real_time
    return " | ".join(out) if out else "-"


# ---- independent oracle: the property stated on the implementation's answers ---------------------
# CiA 301 tables of the oracle (own copy, not the code's and not the Lean spec's)
CIA_DEST = {1: "OPERATIONAL", 2: "STOPPED", 128: "PRE-OPERATIONAL", 129: "INITIALISING",
            130: "INITIALISING", 80: "SLEEP", 96: "STANDBY"}
CIA_HB = {0: "PRE-OPERATIONAL", 4: "STOPPED", 5: "OPERATIONAL", 127: "PRE-OPERATIONAL",
          80: "SLEEP", 96: "STANDBY"}
CIA_CODE = {"INITIALISING": 0, "STOPPED": 4, "OPERATIONAL": 5, "PRE-OPERATIONAL": 127, "SLEEP": 80,
            "STANDBY": 96}
CIA_NAMES = {"OPERATIONAL": 1, "STOPPED": 2, "PRE-OPERATIONAL": 128, "INITIALISING": 129, "RESET": 129,
             "RESET COMMUNICATION": 130, "SLEEP": 80, "STANDBY": 96}
DEFINED = set(CIA_CODE)

REC = re.compile(r"^r=(.*?),m=(.*?),s=(.*?),b=(.*?),tx=(.*?),cb=(.*?),hb=(.*)$")


def parse_out(out):
    recs = []
    if out == "-":
        return recs
    for part in out.split(" | "):
        m = REC.match(part)
        if not m:
            return None
        recs.append(dict(zip(("r", "m", "s", "b", "tx", "cb", "hb"), m.groups())))
    return recs


def dest(cur, code):
    return CIA_DEST.get(code, cur)


def step_failures(own, st, prev, cur, T, B):
    """Returns (list of (tag, sentence), T', B').  T = the node's true state by the CiA 301 machine,
    B = the state the broadcast master assigns to 'all nodes'."""
    bad = []
    kind, _, arg = st.partition(":")
    boot = f"S/{0x700 + own}/00"

    def same(*fields):
        for f in fields:
            if cur[f] != prev[f]:
                bad.append(("inert", f"{ {'m': 'master', 's': 'slave', 'b': 'broadcast-master'}[f]} view changed from "
                            f"{prev[f]} to {cur[f]} by a step that must not change it"))

    def master_cmd(code, target):
        exp_tx = f"M/0/{code:02x}{target:02x}"
        if cur["tx"] != exp_tx:
            bad.append(("frame", f"master sent {cur['tx']} instead of exactly {exp_tx}"))
        if cur["r"] != "ok":
            bad.append(("frame", f"sending command {code} raised ({cur['r']})"))

    if kind in ("a", "n"):
        if kind == "n":
            name = uncps(arg)
            if name not in CIA_NAMES:
                if not cur["r"].startswith("err"):
                    bad.append(("name", f"invalid state name {name!r} was not rejected ({cur['r']})"))
                if cur["tx"] != "-":
                    bad.append(("name", f"invalid state name {name!r}: frames were sent: {cur['tx']}"))
                same("m", "s", "b")
                return bad, T, B
            code = CIA_NAMES[name]
        else:
            code = int(arg)
            if code > 255:
                return bad, T, B
        master_cmd(code, own)
        T = dest(T, code)
        if cur["s"] != view(T):
            bad.append(("slave-view", f"slave reports {cur['s']} after command {code}, CiA 301 says {view(T)}"))
        exp_m = view(CIA_DEST[code]) if code in CIA_DEST else prev["m"]
        if cur["m"] != exp_m:
            bad.append(("master-view", f"master reports {cur['m']} after its command {code}, CiA 301 says {exp_m}"))
        same("b")
    elif kind in ("g", "G"):
        if kind == "G":
            name = uncps(arg)
            if name not in CIA_NAMES:
                if not cur["r"].startswith("err"):
                    bad.append(("name", f"invalid state name {name!r} was not rejected ({cur['r']})"))
                if cur["tx"] != "-":
                    bad.append(("name", f"invalid state name {name!r}: frames were sent: {cur['tx']}"))
                same("m", "s", "b")
                return bad, T, B
            code = CIA_NAMES[name]
        else:
            code = int(arg)
            if code > 255:
                return bad, T, B
        master_cmd(code, 0)
        T, B = dest(T, code), dest(B, code)
        if cur["s"] != view(T):
            bad.append(("slave-view", f"slave reports {cur['s']} after broadcast {code}, CiA 301 says {view(T)}"))
        if cur["b"] != view(B):
            bad.append(("master-view", f"Network.nmt reports {cur['b']} after broadcast {code}, CiA 301 says {view(B)}"))
    elif kind == "c":
        data = unhx(arg)
        if cur["tx"] != f"X/0/{hx(data)}":
            bad.append(("frame", f"somebody answered an NMT command frame: {cur['tx']}"))
        if len(data) < 2:
            same("m", "s", "b")
            return bad, T, B
        cs, tgt = data[0], data[1]
        if tgt in (own, 0):
            T = dest(T, cs)
            if cur["s"] != view(T):
                bad.append(("slave-view", f"slave reports {cur['s']} after frame [{cs},{tgt}], CiA 301 says {view(T)}"))
            exp_m = view(CIA_DEST[cs]) if cs in CIA_DEST else prev["m"]
            if cur["m"] != exp_m:
                bad.append(("master-view", f"master reports {cur['m']} after frame [{cs},{tgt}], CiA 301 says {exp_m}"))
            if cur["r"] != "ok":
                bad.append(("master-view", f"a well-formed NMT command frame raised in the receive path ({cur['r']})"))
            same("b")
        else:
            same("m", "s", "b")
            if cur["r"] != "ok" or cur["cb"] != "-":
                bad.append(("inert", f"a command for node {tgt} had an effect on node {own}: {cur['r']} cb={cur['cb']}"))
    elif kind == "h":
        node, _, d = arg.partition(":")
        node, data = int(node), unhx(d)
        if cur["tx"] != f"X/{0x700 + node}/{hx(data)}":
            bad.append(("frame", f"somebody answered a heartbeat frame: {cur['tx']}"))
        same("s", "b")
        if node != own or len(data) < 1:
            same("m")
            if cur["cb"] != "-":
                bad.append(("inert", f"heartbeat callback fired for a frame of node {node}"))
            return bad, T, B
        v = data[0] & 0x7F
        if v in CIA_HB:
            if cur["m"] != view(CIA_HB[v]):
                bad.append(("heartbeat", f"heartbeat byte {data[0]:#04x} reported as {cur['m']}, CiA 301 says {view(CIA_HB[v])}"))
        elif cur["m"].replace("_", " ") in DEFINED:
            bad.append(("heartbeat", f"undefined heartbeat state {v} reported as the defined state {cur['m']}"))
        if cur["cb"] != str(v):
            bad.append(("heartbeat", f"heartbeat callback got {cur['cb']}, expected {v}"))
        if cur["r"] != "ok":
            bad.append(("heartbeat", f"a well-formed heartbeat raised in the receive path ({cur['r']})"))
    elif kind in ("A", "N"):
        if kind == "N":
            name = uncps(arg)
            if name not in CIA_NAMES:
                if not cur["r"].startswith("err"):
                    bad.append(("name", f"invalid state name {name!r} was not rejected ({cur['r']})"))
                if cur["tx"] != "-":
                    bad.append(("name", f"invalid state name {name!r}: frames were sent: {cur['tx']}"))
                same("m", "s", "b")
                return bad, T, B
            code = CIA_NAMES[name]
        else:
            code = int(arg)
        T = dest(T, code)
        if cur["s"] != view(T):
            bad.append(("slave-view", f"slave reports {cur['s']} after local command {code}, CiA 301 says {view(T)}"))
        same("b")
        if T == "INITIALISING":
            if cur["tx"] not in ((boot,) if code in (129, 130) else (boot, "-")):
                bad.append(("frame", f"slave sent {cur['tx']} on entering INITIALISING, expected the boot-up frame {boot}"))
            if cur["tx"] == boot and cur["m"] != "PRE-OPERATIONAL":
                bad.append(("heartbeat", f"boot-up message reported as {cur['m']}, not PRE-OPERATIONAL"))
            if cur["tx"] == "-":
                same("m")
        else:
            if cur["tx"] != "-":
                bad.append(("frame", f"slave sent {cur['tx']} on a local transition to {T}"))
            same("m")
    elif kind == "H":
        same("m", "s", "b")
        if cur["tx"] != "-":
            bad.append(("frame", f"frames sent on a heartbeat-time write: {cur['tx']}"))
    elif kind == "t":
        same("s", "b")
        if prev["hb"] == "-":
            if cur["tx"] != "-":
                bad.append(("frame", f"heartbeat sent although no producer is live: {cur['tx']}"))
            same("m")
        else:
            exp = f"S/{0x700 + own}/{CIA_CODE[T]:02x}"
            if cur["tx"] != exp:
                bad.append(("heartbeat", f"producer sent {cur['tx']}, the node's state {T} is reported as {exp}"))
            else:
                exp_m = "PRE-OPERATIONAL" if T == "INITIALISING" else view(T)
                if cur["m"] != exp_m:
                    bad.append(("heartbeat", f"after the node's own heartbeat the master reports {cur['m']}, node is {exp_m}"))
    elif kind in ("w", "rw"):
        arr = parse_arrivals(arg)
        same("s", "b")
        if any(len(d) < 1 for d in arr):
            return bad, T, B
        if not arr:
            if cur["r"] != "err:nmt":
                bad.append(("wait", f"wait_for_heartbeat with no heartbeat arriving gave {cur['r']}, not the NMT error"))
            same("m")
        else:
            v = arr[-1][0] & 0x7F
            if v in CIA_HB:
                if cur["r"] != "ok:" + view(CIA_HB[v]):
                    bad.append(("wait", f"wait_for_heartbeat gave {cur['r']} on heartbeat {v}, expected {view(CIA_HB[v])}"))
                if cur["m"] != view(CIA_HB[v]):
                    bad.append(("heartbeat", f"heartbeat {v} reported as {cur['m']}"))
            elif not cur["r"].startswith("ok:") or cur["r"][3:].replace("_", " ") in DEFINED:
                bad.append(("wait", f"wait_for_heartbeat gave {cur['r']} on the undefined heartbeat state {v}"))
    elif kind in ("W", "rW"):
        same("s", "b")
        if kind == "rW":
            its = [(False, [b"\x00"])] if arg == "1" else [(True, [])]
        else:
            its = [(x.split("/", 1)[0] == "1", parse_arrivals(x.split("/", 1)[1])) for x in arg.split(";")]
        exp = "waiting"
        for expired, arr in its:
            if any(len(d) < 1 for d in arr):
                return bad, T, B
            vs = [d[0] & 0x7F for d in arr]
            if expired:
                exp = ("ok", "err:nmt") if vs and vs[-1] == 0 else ("err:nmt",)
                break
            if vs and vs[-1] == 0:
                exp = ("ok",)
                break
            if 0 in vs:
                return bad, T, B      # a boot-up overtaken inside one wake-up: scheduling decides
        if exp == "waiting":
            exp = ("waiting",)
        if cur["r"] not in exp:
            bad.append(("wait", f"wait_for_bootup gave {cur['r']}, expected {' or '.join(exp)}"))
        if cur["r"] == "ok" and cur["m"] != "PRE-OPERATIONAL":
            bad.append(("heartbeat", f"boot-up message reported as {cur['m']}, not PRE-OPERATIONAL"))
        if cur["tx"] == "-":
            same("m")
    return bad, T, B


def find_failures(op, out):
    a = op.split(" ")
    if a[0] != "hist":
        return []
    own = own_id(a[1])
    steps = a[3:]
    recs = parse_out(out)
    if recs is None or len(recs) != len(steps):
        return [(0, "x", "output", f"implementation run did not produce one record per step: {out[:200]}")]
    prev = {"r": "ok", "m": "INITIALISING", "s": "INITIALISING", "b": "INITIALISING", "tx": "-", "cb": "-",
            "hb": "-"}
    T = B = "INITIALISING"
    res = []
    for i, (st, cur) in enumerate(zip(steps, recs)):
        bad, T, B = step_failures(own, st, prev, cur, T, B)
        for tag, sentence in bad:
            res.append((i, st.partition(":")[0], tag, sentence))
        prev = cur
    return res


def oracle(op, out):
    f = find_failures(op, out)
    if not f:
        return None
    i, kind, tag, sentence = f[0]
    return f"[{kind}:{tag}] step {i + 1}: {sentence}"


def signature(op, what):
    m = re.match(r"^\[([^\]]*)\]", what)
    return m.group(1) if m else "other"


def nontrivial(op, out):
    return "r=ok" in out


def classify(op, out):
    steps = op.split(" ")[3:]
    kinds = {st.partition(":")[0] for st in steps}
    if len(kinds) >= 5:
        fam = "mixed-seeded"
    elif kinds & {"rw", "rW"}:
        fam = "wait-real-thread"
    elif kinds & {"w", "W"}:
        fam = "wait-scripted"
    elif kinds & {"n", "G", "N"}:
        fam = "names"
    elif kinds & {"A", "t", "H"}:
        fam = "slave-app+producer"
    elif "h" in kinds:
        fam = "heartbeat"
    elif kinds <= {"a", "c", "g"}:
        fam = f"cmdseq-len{len(steps)}"
    else:
        fam = "other"
    flags = ""
    if "r=err:nmt" in out:
        flags += ":nmt-error"
    elif "r=err:rx" in out:
        flags += ":rx-raised"
    elif "r=err" in out:
        flags += ":rejected"
    if "UNKNOWN_STATE" in out:
        flags += ":unknown-state"
    return fam + flags


def shrink_candidates(op):
    a = op.split(" ")
    head, steps = a[:3], a[3:]
    for i in range(len(steps)):
        yield " ".join(head + steps[:i] + steps[i + 1:])
    if a[1] != str(OWN_DEFAULT):
        yield " ".join([a[0], str(OWN_DEFAULT), a[2]] + steps)


# ---- generator -------------------------------------------------------------------------------------
DEFINED_CS = [1, 2, 128, 129, 130, 80, 96]
VALID_NAMES = list(CIA_NAMES)


def name_variants(rng, n_random):
    out = list(VALID_NAMES)
    for n in VALID_NAMES:
        out += [n.lower(), n.title(), n + " ", " " + n, n[:-1], n + "X", n.replace(" ", "_"), n.replace("-", " ")]
    out += ["", " ", "0", "1", "5", "127", "UNKNOWN STATE '3'", "UNKNOWN", "PREOPERATIONAL", "PRE_OPERATIONAL",
            "BOOT-UP", "START", "STOP", "RESET NODE", "RESET_COMMUNICATION", "RESETCOMMUNICATION", "None",
            "OPERATIONAL\n", "OPERATIONAL\x00", "ÖPERATIONAL", "ＯＰＥＲＡＴＩＯＮＡＬ", "стоп", "\U0001F600"]
    alphabet = "ABCDEILNOPRSTUY -_abc019"
    for _ in range(n_random):
        k = rng.randrange(0, 21)
        out.append("".join(rng.choice(alphabet) for _ in range(k)))
    for _ in range(n_random // 4):
        n = list(rng.choice(VALID_NAMES))
        i = rng.randrange(len(n))
        n[i] = rng.choice(alphabet)
        out.append("".join(n))
    return list(dict.fromkeys(out))


def cmd_sequences(symbols, maxlen):
    """every sequence of length maxlen (its prefixes are checked step by step), plus the shorter
    ones once each for the evidence count"""
    import itertools
    for n in range(1, maxlen + 1):
        for seq in itertools.product(symbols, repeat=n):
            yield seq


def gen_ops(tier, rng):
    yield from gen_ops_main(tier, rng)
    # node objects that take their id from the dictionary (node id None or 0 given): same behaviour
    n = 0
    for op in gen_ops_main("quick", rng):
        n += 1
        if n % (97 if tier == "quick" else 11) == 0:
            a = op.split(" ")
            yield " ".join([a[0], rng.choice("oz") + a[1]] + a[2:])


def gen_ops_main(tier, rng):
    own = OWN_DEFAULT
    other = own + 1
    quick = tier == "quick"
    undefined = [0, rng.choice([c for c in range(3, 256) if c not in DEFINED_CS])]
    codes = DEFINED_CS + undefined
    # sweep A: third-party frames only; sweep B: master API (own), Network.nmt broadcast (0), frame (other);
    # sweep C (the property's quantifier; thorough: length 4): master API for own, third-party broadcast and
    # third-party frame for another node, so that master and slave both see every command
    sym_a = [f"c:{c:02x}{t:02x}" for c in codes for t in (own, 0, other)]
    sym_b = [f"a:{c}" for c in codes] + [f"g:{c}" for c in codes] + [f"c:{c:02x}{other:02x}" for c in codes]
    sym_c = [f"a:{c}" for c in codes] + [f"c:{c:02x}{t:02x}" for c in codes for t in (0, other)]
    for seq in cmd_sequences(sym_c, 3 if quick else 4):
        yield f"hist {own} 0 " + " ".join(seq)
    for seq in cmd_sequences(sym_a, 3):
        yield f"hist {own} 0 " + " ".join(seq)
    for seq in cmd_sequences(sym_b, 3):
        yield f"hist {own} 0 " + " ".join(seq)
    # every command specifier byte x every target byte once (quick: all specifiers x boundary targets)
    for c in range(256):
        for t in (range(256) if not quick else (own, 0, other, 1, 127, 128, 255, own ^ 0x80)):
            yield f"hist {own} 0 c:{c:02x}{t:02x}"
        yield f"hist {own} 0 a:{c}"
        yield f"hist {own} 0 g:{c} a:1"
        yield f"hist {own} 0 a:1 A:{c} t"
    for c in (256, 257, 300, 65536):
        yield f"hist {own} 0 a:1 a:{c} g:{c} A:{c}"
    # node id boundaries
    for o in (1, 2, 126, 127):
        ot = 1 if o == 127 else o + 1
        for c in codes:
            yield f"hist {o} 0 a:{c} c:{c:02x}{ot:02x} c:01{o:02x} g:{c} h:{o}:05 h:{ot}:04"
    # all 256 heartbeat bytes, from three start states, own and other node, with trailing bytes
    for b in range(256):
        yield f"hist {own} 0 h:{own}:{b:02x} a:1 h:{own}:{b:02x}"
        yield f"hist {own} 0 a:2 h:{own}:{b:02x} c:80{own:02x} h:{other}:{b:02x}"
        yield f"hist {own} 0 h:{own}:{b:02x}ff0102 h:{own}:{b ^ 0x80:02x} a:128 c:0100"
        yield f"hist {own} 0 w:{b:02x} w:- w:05/{b:02x}"
        yield f"hist {own} 0 W:0/{b:02x};0/{b:02x}/00;0/-"
    # malformed frames
    for d in ("-", "01", "81", "00", f"01{own:02x}00", f"81{own:02x}0000000000ff"):
        yield f"hist {own} 0 a:1 c:{d} c:02{own:02x} c:{d}"
    yield f"hist {own} 0 a:1 h:{own}:- h:{own}:04 h:{other}:-"
    # names: master, broadcast master, slave
    names = name_variants(rng, 60 if quick else 1500)
    for n in names:
        c = cps(n)
        yield f"hist {own} 0 n:{c} a:2 n:{c} h:{own}:05 n:{c}"
        yield f"hist {own} 0 a:1 G:{c} N:{c}"
    for n1 in VALID_NAMES:
        for n2 in VALID_NAMES:
            yield f"hist {own} 0 n:{cps(n1)} n:{cps(n2)} N:{cps(n1)} G:{cps(n2)}"
    # slave application API, boot-up, heartbeat producer
    for hbt in ("-", "0", "1", "100", "65535"):
        for c1 in codes:
            for c2 in codes:
                yield f"hist {own} {hbt} A:{c1} t A:{c2} t a:{c2} t c:{c1:02x}00 t"
        yield f"hist {own} {hbt} A:128 H:0 t H:1000 t A:1 t H:65535 t H:65536 t H:0 t A:129 A:128 t"
    # waits: scripted
    hbs = ["00", "04", "05", "7f", "80", "85", "03", "50", "60", "ff"]
    for x in hbs:
        for y in hbs:
            yield f"hist {own} 0 w:{x}/{y} W:0/{x};0/{y};1/-"
            yield f"hist {own} 0 a:1 W:0/{x}/{y};0/-;1/{y} w:- W:1/{x}"
            yield f"hist {own} 0 W:0/-;0/{x};0/-;0/{y};0/00 w:{y}"
    yield f"hist {own} 0 W:1/- W:1/00 W:0/-;0/-;0/-;1/- W:0/- a:1 w:-"
    # waits: real condition variable, real clock, real thread (evidence for the monitor abstraction)
    for x in (hbs if not quick else hbs[:4]):
        yield f"hist {own} 0 rw:{x} rw:- a:1"
    yield f"hist {own} 0 rW:1 rW:0 a:1"
    if not quick:
        for _ in range(20):
            yield f"hist {own} 0 rW:1 rw:05 rW:0 rw:- rW:1"
    # seeded mixed histories of every step kind
    def rstep(o, ot):
        k = rng.random()
        if k < 0.16:
            return f"a:{rng.choice(codes + [rng.randrange(256)])}"
        if k < 0.30:
            return f"c:{rng.choice(codes + [rng.randrange(256)]):02x}{rng.choice([o, 0, ot, rng.randrange(256)]):02x}"
        if k < 0.38:
            return f"g:{rng.choice(codes)}"
        if k < 0.50:
            b = rng.choice([0, 4, 5, 127, 80, 96, 3, 0x80, 0x85, rng.randrange(256)])
            return f"h:{rng.choice([o, o, o, ot])}:{b:02x}"
        if k < 0.58:
            return f"n:{cps(rng.choice(names if rng.random() < 0.3 else VALID_NAMES))}"
        if k < 0.62:
            return f"G:{cps(rng.choice(names if rng.random() < 0.3 else VALID_NAMES))}"
        if k < 0.72:
            return f"A:{rng.choice(codes)}"
        if k < 0.78:
            return f"N:{cps(rng.choice(names if rng.random() < 0.3 else VALID_NAMES))}"
        if k < 0.83:
            return f"H:{rng.choice([0, 1, 10, 1000, 65535])}"
        if k < 0.92:
            return "t"
        if k < 0.96:
            return "w:" + rng.choice(["-", "05", "00", "7f/04", "03", "85"])
        return "W:" + rng.choice(["0/00", "1/-", "0/05;0/00", "0/-;1/-", "0/04;0/7f;1/00", "0/00/05;1/-"])
    for _ in range(1500 if quick else 40000):
        o = rng.choice([own, own, own, 1, 127, rng.randrange(1, 128)])
        ot = 1 if o == 127 else o + 1
        hbt = rng.choice(["0", "0", "100", "1", "-", "65535"])
        n = rng.choice([1, 2, 3, 5, 8, 13, 25, 40])
        yield f"hist {o} {hbt} " + " ".join(rstep(o, ot) for _ in range(n))


CORPUS = [
    # F13: a heartbeat with an undefined state value, then a command (KeyError out of the logging call)
    "hist 5 0 h:5:03 a:1",
    "hist 5 0 h:5:03 c:0105",
    f"hist 5 0 h:5:03 n:{cps('STOPPED')}",
    "hist 5 0 w:03 a:128",
]

LEVEL_TEXT = ("Lean 4 theorems over all histories (any length) of master API calls, Network.nmt broadcasts, "
              "third-party command frames with any specifier/target byte, state assignments by any string, "
              "heartbeat/boot-up frames with any byte, slave application calls and genuine heartbeats: master "
              "frame is exactly [cs, id] on id 0; master view = slave view = CiA 301 machine after every prefix "
              "of commands; slave view = CiA 301 machine on every history; commands for other ids inert; "
              "heartbeat decoding with toggle ignored and boot-up -> PRE-OPERATIONAL; invalid names inert; waits "
              "as functions of the wake-up sequence; tables regenerated from the code and compared with an "
              "independent spec by kernel evaluation; exhaustive differential run of all command sequences "
              "<= 3 (thorough <= 4) and all 256 heartbeat bytes")
LEVEL_NOTE = ("trusted: Lean kernel + propext/Classical.choice/Quot.sound; threading.Condition / time.time are "
              "modelled as a sequence of wake-ups and a deadline bit (real-thread runs are evidence only); the "
              "correspondence is only as strong as its generator (distribution recorded in the evidence)")
TECHNIQUE = "Lean 4 proof over generated tables + differential correspondence with the implementation"
