"""C08 — importing an EDS/DCF yields exactly the described object dictionary."""
import json
import os
import random
import shutil
import tempfile

import canopen

from props import eds_common as E

ID = "C08"
PROOF_MODULES = ["CanopenProofs.C08"]
GENERATED = ["Datatypes", "EdsTables"]
THEOREMS = [
    "Canopen.C08.parseInt_printInt",
    "Canopen.C08.signed_limit",
    "Canopen.C08.signed_widths",
    "Canopen.C08.nodeid_arith",
    "Canopen.C08.classification_disjoint",
    "Canopen.C08.classification_total",
    "Canopen.C08.variable_import",
    "Canopen.C08.variable_import_any_order",
    "Canopen.C08.import_write",
    "Canopen.C08.lookups_agree",
    "Canopen.C08.lookups_members",
    "Canopen.C08.lookups_compact",
    "Canopen.C08.compact_expanded",
    "Canopen.C08.compact_members_complete",
    "Canopen.C08.compact_imported_complete",
    "Canopen.C08.import_history",
    "Canopen.C08.tables_as_modelled",
]
FINGERPRINT = [
    "canopen.node.base:BaseNode.__init__",
    "canopen.objectdictionary.eds:import_eds",
    "canopen.objectdictionary.eds:build_variable",
    "canopen.objectdictionary.eds:copy_variable",
    "canopen.objectdictionary.eds:_convert_variable",
    "canopen.objectdictionary.eds:_signed_int_from_hex",
    "canopen.objectdictionary.eds:_calc_bit_length",
    "canopen.objectdictionary:import_od",
    "canopen.objectdictionary:ObjectDictionary.__getitem__",
    "canopen.objectdictionary:ObjectDictionary.add_object",
    "canopen.objectdictionary:ODRecord.__getitem__",
    "canopen.objectdictionary:ODRecord.add_member",
    "canopen.objectdictionary:ODArray.__getitem__",
    "canopen.objectdictionary:ODArray.add_member",
]
TRUSTED = [
    "configparser.RawConfigParser (text -> sections/options/values) is outside the model: the Lean "
    "driver receives the parsed document the harness extracts with the same parser settings from the "
    "same text it feeds to canopen.import_od",
    "CPython int(s, 0) / int(s) / bytes.fromhex / str.splitlines / the syntax accepted by float() are "
    "modelled for ASCII input (CanopenModel/Eds/Text.lean) and differentially checked by the ops "
    "int0/int10/fromhex/float/lines; the float value itself is opaque (carried as its text)",
    "Spec/EdsWriter.lean: my reading of the CiA 306 layout (the independent writer of the theorems); "
    "harness/props/eds_common.py write_eds is its Python twin used by the correspondence run",
]
ASSUMPTIONS = [
    "numeric fields, access types and section names are ASCII (Python's int() also accepts non-ASCII "
    "digits and white space, str.lower/upper are Unicode-aware; not modelled, not generated); names, "
    "descriptions, units and string values may be any text",
    "well-formed = unique indexes, unique object names, unique member names and sub-indices per object, "
    "no '.' in names, values in the range of their type, limits only on integer types, a name list names "
    "every sub-index 1..NrOfEntries, texts without leading/trailing blanks, ';' or line breaks",
]
RULE = ("ops: imp <file> <node id> <parsed document> w <description> <probes> (text written by the harness's own "
        "CiA 306 writer from a random dictionary description: all 25 data types, 6 access types, "
        "dec/hex/octal/binary spellings, $NODEID forms, two's-complement limits for all 8 signed widths at "
        "the range ends, compact arrays of 1..254 entries (biased to 1, 2, 127, 128, 253, 254) with no, a partial "
        "or a full name list, sub/Sub, missing ObjectType, DOMAIN, comment blocks of 0..30 lines with Lines in "
        "any base, device info; node id explicit / from file / absent; <probes> = sub-indices every array is asked "
        "for: 2, 254, 255, 256, and n, n+1, n/2 of every compact array, the first entry without a name, the one "
        "after the last listed member), imph <k> {<file> <node id> <document> w <description> <probes>}*k (a "
        "history: each step (re)writes its file - the same names again with other dictionaries - and imports it "
        "by path; every step is judged against its own description), imp … t <text> (mutated and "
        "hand-written malformed texts, correspondence only), conv/lim (one value or limit through a "
        "one-object file) and int0/int10/fromhex/float/lines (CPython primitives the model transcribes); "
        "non-trivial = the implementation returned a dictionary or a value")

CUSTOM = "custom"


# ---- implementation runner --------------------------------------------------------------------
def one_var_text(dt, key, s, extra=""):
    return f"[2000]\nParameterName=x\nDataType={dt}\nAccessType=rw\n{key}={s}\n{extra}"


WORK = os.path.join(os.path.dirname(os.path.dirname(os.path.dirname(os.path.abspath(__file__)))), ".work")


def op_probes(a, i):
    return E.dec_probes(a[i]) if len(a) > i else E.DEFAULT_PROBES


def step_text(kind, payload):
    return E.write_eds(json.loads(E.unhx(payload))) if kind == "w" else E.unhx(payload)


def run_history(a):
    """imph: every step (re)writes its file in a directory of this operation's own and imports it by path"""
    k = int(a[1])
    if k < 1 or len(a) != 2 + 6 * k:
        return "bad-op"
    steps = [a[2 + 6 * i:8 + 6 * i] for i in range(k)]
    os.makedirs(WORK, exist_ok=True)
    d = tempfile.mkdtemp(dir=WORK, prefix="c08h")
    outs = []
    try:
        for fn, nid, doc, kind, payload, pr in steps:
            fname, nid = E.unhx(fn), (None if nid == "none" else int(nid))
            if os.path.basename(fname) != fname:
                return "HARNESS a history step names a file outside the operation's directory"
            text = step_text(kind, payload)
            if E.enc_doc(E.parse_text(text)) != doc:
                return "HARNESS document in the op is not the parse of its text"
            path = os.path.join(d, fname)
            with open(path, "w") as f:
                f.write(text)
            try:
                outs.append(E.show_od(canopen.import_od(path, nid), E.dec_probes(pr)))
            except Exception:
                outs.append("err")
    finally:
        shutil.rmtree(d, ignore_errors=True)
    return "ok " + " # ".join(outs)


def run_impl(op):
    a = op.split(" ")
    kind = a[0]
    if kind == "imph":
        return run_history(a)
    if kind == "imp":
        fname, nid = E.unhx(a[1]), (None if a[2] == "none" else int(a[2]))
        text = step_text(a[4], a[5])
        probes = op_probes(a, 6)
        if E.enc_doc(E.parse_text(text)) != a[3]:
            return "HARNESS document in the op is not the parse of its text"
        try:
            od = E.import_text(text, fname, nid)
        except Exception:
            return "err"
        shown = E.show_od(od, probes)
        # the same file given to a node constructor with the same explicit node id must yield the same dictionary
        if nid is not None or od.node_id is not None:
            for ctor in (canopen.RemoteNode, canopen.LocalNode):
                try:
                    via = ctor(nid, E.NamedStringIO(text, fname)).object_dictionary
                except Exception:
                    continue      # e.g. a random dictionary with a non-record object in the PDO parameter range
                if E.show_od(via, probes) != shown:
                    return f"NODE-CTOR {ctor.__name__}(node_id, file) built a different dictionary than import_od(file, node_id)"
        return shown
    s = E.unhx(a[-1])
    try:
        if kind == "int0":
            return f"ok {int(s, 0)}"
        if kind == "int10":
            return f"ok {int(s)}"
        if kind == "fromhex":
            b = bytes.fromhex(s)
            return "ok " + (b.hex() if b else "-")
        if kind == "float":
            return f"ok r({E.canon_float(float(s))})"
        if kind == "lines":
            return "ok " + E.list_or([E.esc(x) for x in s.splitlines()], ",")
    except ValueError:
        return "err"
    if kind in ("conv", "lim"):
        nid = None if a[1] == "none" else int(a[1])
        dt = a[2] if kind == "conv" else a[1]
        text = one_var_text(dt, "DefaultValue" if kind == "conv" else "LowLimit", s)
        doc = E.parse_text(text)
        if doc[0][1][-1] != (("DefaultValue" if kind == "conv" else "LowLimit"), s):
            return "HARNESS value does not survive the text layer"
        try:
            od = E.import_text(text, "x.eds", nid if kind == "conv" else None)
            v = od[0x2000]
        except Exception:
            return "err-import"
        if kind == "conv":
            return "ok " + E.show_value(v.default) if v.default is not None else "err"
        return "ok " + E.show_opt(str, v.min)
    return "bad-op"


def canon_model(op, out):
    return E.canon_model_floats(out)


# ---- oracle ---------------------------------------------------------------------------------------
def oracle(op, out):
    a = op.split(" ")
    if out.startswith("NODE-CTOR"):
        return "nodector: " + out[10:]
    if a[0] == "imp" and a[4] == "w":
        return E.check_import(json.loads(E.unhx(a[5])), out, op_probes(a, 6))
    if a[0] == "imph":
        if not out.startswith("ok "):
            return None if out == "bad-op" else f"history: {out}"
        k = int(a[1])
        steps = [a[2 + 6 * i:8 + 6 * i] for i in range(k)]
        outs = out[3:].split(" # ")
        if len(outs) != k:
            return f"history of {k} steps gave {len(outs)} answers"
        for i, (st, o) in enumerate(zip(steps, outs)):
            if st[3] != "w":
                continue
            spec = json.loads(E.unhx(st[4]))
            r = E.check_import(spec, o, E.dec_probes(st[5]))
            if r:
                earlier = [j + 1 for j in range(i) if steps[j][0] == st[0]]
                return (f"history step {i + 1} of {k} (file {E.unhx(st[0])!r}"
                        + (f", written before in step {earlier}" if earlier else "") + f"): {r}")
        return None
    if a[0] == "lim":
        dt = int(a[1], 0)
        s = E.unhx(a[2])
        if dt in E.SIGNED:
            try:
                n = int(s, 0)
            except ValueError:
                return None
            w = E.SIGNED[dt]
            if 0 <= n < (1 << w):
                exp = n - (1 << w) if n >= (1 << (w - 1)) else n
            elif -(1 << (w - 1)) <= n < 0:
                exp = n
            else:
                return None
            if out != f"ok {exp}":
                return (f"limit {s!r} of a {w}-bit signed type imported as {out}, two's complement "
                        f"reading is {exp}")
        elif dt in E.UNSIGNED:
            try:
                n = int(s, 0)
            except ValueError:
                return None
            if 0 <= n < (1 << E.UNSIGNED[dt]) and out != f"ok {n}":
                return f"limit {s!r} of an unsigned type imported as {out}"
    if a[0] == "conv":
        nid = None if a[1] == "none" else int(a[1])
        dt = int(a[2], 0)
        s = E.unhx(a[3])
        if (dt in E.SIGNED or dt in E.UNSIGNED) and "$" not in s:
            try:
                n = int(s, 0)
            except ValueError:
                return None
            if out != f"ok i{n}":
                return f"value {s!r} imported as {out}, expected {n}"
    return None


def signature(op, what):
    a = op.split(" ")
    if a[0] == "lim":
        return f"lim:{a[1]}:signed-limit" if "two's complement" in what else f"lim:{a[1]}:limit"
    if a[0] in ("imp", "imph"):
        if "expanded sub-index" in what and ": pdo is" in what:
            return f"{a[0]}:compact-pdo"
        for key, cls in (("min is", "limit-min"), ("max is", "limit-max"), ("def is", "default"),
                         ("val is", "value"), ("not imported", "rejected"), ("objects differ", "objects"),
                         ("is not expanded", "compact"), ("expanded sub-index", "compact"),
                         ("looking up sub-index", "lookup"), ("sub-indices", "subindices"),
                         ("by its name", "lookup"), ("by name", "lookup"), ("'Parent.Child'", "lookup"),
                         ("node id", "nodeid"), ("bit rate", "bitrate"), ("comments", "comments"),
                         ("device information: granularity", "devinfo-granularity"),
                         ("device information", "devinfo"), ("allowed bit rates", "bauds"),
                         ("expanded", "compact")):
            if key in what:
                return f"{a[0]}:{cls}"
        return f"{a[0]}:field"
    return f"{a[0]}:value"


def nontrivial(op, out):
    return out.startswith("ok")


def classify(op, out):
    a = op.split(" ")
    k = a[0] + (":" + a[4] if a[0] == "imp" else "")
    if a[0] == "imph":
        return f"imph:{a[1]}:{'ok' if out.startswith('ok') and ' err' not in out and '# err' not in out else 'err'}"
    return f"{k}:{'ok' if out.startswith('ok') else 'err'}"


# ---- shrinking --------------------------------------------------------------------------------------
def step_parts(sp):
    """the six tokens of a history step; the file of a step is a plain name"""
    return E.spec_to_op_parts(sp)


def shrink_candidates(op):
    a = op.split(" ")
    if a[0] == "imph":
        k = int(a[1])
        steps = [a[2 + 6 * i:8 + 6 * i] for i in range(k)]
        for i in range(k):                       # drop a step
            if k > 1:
                rest = steps[:i] + steps[i + 1:]
                yield " ".join(["imph", str(k - 1)] + [t for st in rest for t in st])
        for i, st in enumerate(steps):           # a smaller dictionary in one step
            if st[3] != "w":
                continue
            for sp in spec_shrinks(json.loads(E.unhx(st[4]))):
                try:
                    new = step_parts(sp)
                except Exception:
                    continue
                yield " ".join(["imph", str(k)] + [t for x in steps[:i] + [new] + steps[i + 1:] for t in x])
        return
    if a[0] != "imp" or a[4] != "w":
        return
    for sp in spec_shrinks(json.loads(E.unhx(a[5]))):
        try:
            yield "imp " + " ".join(E.spec_to_op_parts(sp))
        except Exception:
            continue


def spec_shrinks(spec):
    """smaller descriptions"""
    def emit(sp):
        return sp
    c = spec.get("comments")
    if c is not None and c["lines"]:
        for keep in (c["lines"][:len(c["lines"]) // 2], c["lines"][:-1], c["lines"][1:]):
            sp = dict(spec)
            sp["comments"] = {"lines": keep, "lines_t": str(len(keep))}
            yield sp
    for i, o in enumerate(spec["objs"]):
        if o["kind"] == "compact":
            cands = []
            if o.get("names"):
                m = len(o["names"])
                for m2 in (1, m // 2, m - 1):
                    if 1 <= m2 < m:
                        cands.append(dict(o, names=o["names"][:m2], n=max(1, min(o["n"], m2 + (o["n"] - m)))))
                cands.append(dict(o, names=None))
            for n2 in (1, 2, o["n"] // 2, o["n"] - 1):
                if 1 <= n2 < o["n"] and (not o.get("names") or n2 >= len(o["names"])):
                    cands.append(dict(o, n=n2))
            for o2 in cands:
                o2["ntext"] = str(o2["n"])
                sp = dict(spec)
                sp["objs"] = spec["objs"][:i] + [o2] + spec["objs"][i + 1:]
                yield sp
    for i in range(len(spec["objs"])):
        sp = dict(spec)
        sp["objs"] = spec["objs"][:i] + spec["objs"][i + 1:]
        c = emit(sp)
        if c:
            yield c
    for key in ("fileinfo", "devinfo", "comm", "dummy", "comments"):
        if spec.get(key) is not None:
            sp = dict(spec)
            sp[key] = None
            c = emit(sp)
            if c:
                yield c
    if spec.get("lists"):
        sp = dict(spec)
        sp["lists"] = False
        c = emit(sp)
        if c:
            yield c
    for i, o in enumerate(spec["objs"]):
        if o["kind"] in ("rec", "arr") and len(o["members"]) > 1:
            for j in range(len(o["members"])):
                o2 = dict(o)
                o2["members"] = o["members"][:j] + o["members"][j + 1:]
                sp = dict(spec)
                sp["objs"] = spec["objs"][:i] + [o2] + spec["objs"][i + 1:]
                c = emit(sp)
                if c:
                    yield c
        vars_ = [("var", o["var"])] if o["kind"] in ("var", "compact") else []
        for _, v in vars_:
            for f in ("def", "val", "lo", "hi", "stor", "fac", "desc", "unit", "order", "pdo"):
                if v.get(f) is not None:
                    v2 = dict(v)
                    v2[f] = None
                    o2 = dict(o)
                    o2["var"] = v2
                    sp = dict(spec)
                    sp["objs"] = spec["objs"][:i] + [o2] + spec["objs"][i + 1:]
                    c = emit(sp)
                    if c:
                        yield c
        if o["kind"] in ("rec", "arr"):
            for j, m in enumerate(o["members"]):
                for f in ("def", "val", "lo", "hi", "stor", "fac", "desc", "unit", "order", "pdo"):
                    if m["var"].get(f) is not None:
                        v2 = dict(m["var"])
                        v2[f] = None
                        m2 = dict(m)
                        m2["var"] = v2
                        o2 = dict(o)
                        o2["members"] = o["members"][:j] + [m2] + o["members"][j + 1:]
                        sp = dict(spec)
                        sp["objs"] = spec["objs"][:i] + [o2] + spec["objs"][i + 1:]
                        c = emit(sp)
                        if c:
                            yield c


# ---- generator ------------------------------------------------------------------------------------
INT_CORPUS = ["0", "00", "0_0", "01", "1_0", "_1", "1_", "1__0", "0x_1f", "0X1F", "0x", "-0x10", "+ 5", "+5",
              " 5 ", "\t5\n", "5\x0b", "5\x0c", "0b101", "0o17", "0O17", "0B1", "-0", "--5", "0x-5", "1e3",
              "1.0", "", "-", "+", "0x1_f", "0x1__f", "0_x1", "1 0", "0 x1", "0_", "0__0", "000_0", "-_1",
              "0b_1", "0b2", "0o8", "0xg", "0x 1", "0x__1", "0_1", "007", "0x10", "+-1", "-+1", "0xABCDEFabcdef",
              "18446744073709551616", "-9223372036854775808", "0b", "0o", "0o_7", "0b1_0", "a", "0xa_", "x1",
              "\x1c5", "5\x1f", "0 ", " 0", "+0", "-00", "+0x0", "0x0_0", "00x1", "1x0", "0X_F", "0XF_", " ",
              "\t", "0x1 ", " +0x1_0 "]
INT_ALPHABET = "0123456789abcdefABCDEFxXoObB_+- \t\n$g"
HEX_CORPUS = ["", "00 ff", "0 0", "00\tff", "0x00", "abc", " ab ", "ab\x0bcd", "ab\x1ccd", "AbCd", "a b",
              "00", "0", "zz", "12 34 56", "1234 5", " ", "\n00\n", "ab cd\tef\r\n", "ab  cd", "abcd ef", "a"]
FLOAT_CORPUS = E.FLOAT_TEXTS + ["", ".", "e5", "1e", "1e+", "1_e5", "1._5", "1_.5", "_1", "1_", "1__0", "in_f",
                               "nan_", "-nan", "+inf", "INF", "iNfInItY", "infinit", "1e1_0", " 1.5 ",
                               "\t2\n", "0x10", "1f", "1.5.2", "--1", "+-1", "1e5.5", "1 e5", "- 1", "1d5",
                               ".e1", "1.e1", "5.e-3", "-.5", "+.5e+5", "1__0.5", "1.5_", "1.5_5", "_", "e",
                               "nane", "-", "+", "1,5"]
LINES_CORPUS = ["", "a", "a\nb", "a\n", "\n", "\n\n", "a\r\nb", "a\rb", "a\r", "a\n\rb", "a\x0bb", "a\x0cb",
                "a\x1cb", "a\x1db", "a\x1eb", "a\x1fb", "a\x85b", "a b", "a b", "a\r\r\nb", "\r\n",
                "x\n\ny\n", " a \n b "]
CONV_CORPUS = ["$NODEID+0x600", "0x600+$NODEID", "$NODEID", "+$NODEID+", "$NODEID+$NODEID+5", "1+$NODEID+2",
               "++$NODEID", "$NODEID++5", "$NODEI$NODEID", "$nodeid+0x10", "$NodeId + 1", "0x180 + $NODEID",
               "5\t+$NODEID", "$NODEID+ 0x 1", "1 0", "0x1 F", "$NODEID+-5", "-5+$NODEID", "$NODEID-5",
               "$NODEID+0b11", "$NODEID*2", "$ NODEID+1", "$NODEID+$NODEID", "0x7f", "1_0", "08", "0o17",
               "true", "0x", "-0", "abc", "00 ff", "1.5", "1e3", "", "12ab", "AB", "a b", "$NODEID+1.5"]


def rand_junk(rng, alphabet, lo=0, hi=8):
    return "".join(rng.choice(alphabet) for _ in range(rng.randint(lo, hi)))


def render_doc(doc):
    out = []
    for s, opts in doc:
        out.append(f"[{s}]")
        out += [f"{k}={v}" for k, v in opts]
        out.append("")
    return "\n".join(out) + "\n"


JUNK_VALUES = ["", "abc", "0x", "08", "1_0", "-1", "0x1G", "$NODEID", "$NODEID+", "+$NODEID+5", "1+$NODEID+2",
               "0b102", "0o17", "1e3", "nan", "0x-5", "--5", "1 2", "FF", "ff gg", "0 0", "0", "1", "2", "7",
               "8", "9", "0x8", "0x9", "5", "6", "0x1C", "0xA0", "0x40", "255", "256", "-3", "0x0F", "15",
               "0x7FFFFF", "0x800000", "0xFFFFFF", "0x1000000", "-8388608", "-8388609", "RW", "Const", "x.y"]
JUNK_SECTIONS = ["1000sub", "1000Sub1", "1000|ub1", "1000SUB1", "1000sub1g", "100", "10000", "1000Name",
                 "1000NameX", "1000name", "g000", "DUMMYUSAGE", "dummyusage", "1000 sub1", "1000sub 1",
                 "1000sub01", "A0sub1", "00A0sub1", "2000sub1", "2000sub0", "2000subFF", "2000sub100",
                 "2000Name", "20000", "2000sub", "FileInfo", "Comments", "DeviceInfo", "DeviceComissioning",
                 "40sub1", "1Csub1", "default", "2000Namesub1", "2000subName", "Dummyusage", "dummyUsage"]
VAR_KEYS = ["ParameterName", "ObjectType", "DataType", "AccessType", "DefaultValue", "ParameterValue",
            "LowLimit", "HighLimit", "PDOMapping", "StorageLocation", "Factor", "Description", "Unit",
            "CompactSubObj", "NrOfEntries", "SubNumber", "Lines", "Line1", "Line2", "Baudrate", "NodeID",
            "1", "2", "3", "Dummy0001", "Dummy0007", "BaudRate_10", "BaudRate_1000", "VendorNumber",
            "LSS_Supported", "Granularity"]


def mutate_doc(rng, doc):
    doc = [(s, list(o)) for s, o in doc]
    for _ in range(rng.choice([1, 1, 2, 3])):
        m = rng.randrange(9)
        if not doc:
            m = 3
        if m == 0:          # delete an option
            s, o = rng.choice(doc)
            if o:
                del o[rng.randrange(len(o))]
        elif m == 1:        # junk value
            s, o = rng.choice(doc)
            if o:
                i = rng.randrange(len(o))
                o[i] = (o[i][0], rng.choice(JUNK_VALUES) if rng.random() < 0.7
                        else rand_junk(rng, INT_ALPHABET).strip())
        elif m == 2:        # rename a section
            i = rng.randrange(len(doc))
            new = rng.choice(JUNK_SECTIONS)
            if new not in [s for s, _ in doc]:
                doc[i] = (new, doc[i][1])
        elif m == 3:        # add a junk section
            new = rng.choice(JUNK_SECTIONS)
            if new not in [s for s, _ in doc]:
                opts = [("ParameterName", rng.choice(["p", "q", "Number of entries"])),
                        ("DataType", rng.choice(JUNK_VALUES)), ("AccessType", rng.choice(["ro", "RW", ""])),
                        ("NrOfEntries", rng.choice(["0", "1", "2", "3", "-1", "0x2", "x", "03"])),
                        ("1", "n1"), ("2", "n2"), ("DefaultValue", rng.choice(JUNK_VALUES)),
                        ("ObjectType", rng.choice(["7", "8", "9", "2", "5", "x", "0x8"]))]
                rng.shuffle(opts)
                opts = opts[:rng.randint(0, len(opts))]
                doc.insert(rng.randint(0, len(doc)), (new, opts))
        elif m == 4:        # delete a section
            del doc[rng.randrange(len(doc))]
        elif m == 5:        # add an option
            s, o = rng.choice(doc)
            k = rng.choice(VAR_KEYS)
            if k not in [x for x, _ in o]:
                o.insert(rng.randint(0, len(o)), (k, rng.choice(JUNK_VALUES)))
        elif m == 6:        # swap two sections
            if len(doc) > 1:
                i, j = rng.randrange(len(doc)), rng.randrange(len(doc))
                doc[i], doc[j] = doc[j], doc[i]
        elif m == 7:        # rename an option
            s, o = rng.choice(doc)
            if o:
                i = rng.randrange(len(o))
                k = rng.choice(VAR_KEYS)
                if k not in [x for x, _ in o]:
                    o[i] = (k, o[i][1])
        else:               # change case of a value
            s, o = rng.choice(doc)
            if o:
                i = rng.randrange(len(o))
                o[i] = (o[i][0], o[i][1].swapcase())
    return doc


HAND_TEXTS = [
    ("x.eds", None, ""),
    ("x.eds", None, "[1000]\nParameterName=a\nDataType=7\nAccessType=ro\n"),
    ("x.txt", None, "[1000]\nParameterName=a\nDataType=7\nAccessType=ro\n"),
    ("noext", None, "[1000]\nParameterName=a\nDataType=7\nAccessType=ro\n"),
    ("x.epf", None, "[1000]\nParameterName=a\nDataType=7\nAccessType=ro\n"),
    ("x.EDS", 3, "[1000]\nParameterName=a\nDataType=7\nAccessType=ro\nDefaultValue=$NODEID+1\n"),
    # custom data types
    ("x.eds", None, "[A0sub1]\nDefaultValue=0x5\n[2000]\nParameterName=a\nDataType=0xA0\nAccessType=rw\n"),
    ("x.eds", None, "[2000]\nParameterName=a\nDataType=0xA0\nAccessType=rw\nDefaultValue=00\n"),
    ("x.eds", None, "[A0sub1]\nx=1\n[2000]\nParameterName=a\nDataType=0xA0\nAccessType=rw\n"),
    ("x.eds", None, "[a0sub1]\nDefaultValue=5\n[2000]\nParameterName=a\nDataType=0xa0\nAccessType=rw\n"),
    # sub section before / without parent, parent is a variable
    ("x.eds", None, "[2000sub1]\nParameterName=a\nDataType=5\nAccessType=rw\n"),
    ("x.eds", None, "[2000]\nParameterName=v\nDataType=5\nAccessType=rw\n[2000sub1]\nParameterName=a\n"),
    ("x.eds", None, "[2000]\nParameterName=v\nDataType=5\nAccessType=rw\n[2000Name]\nNrOfEntries=0\n"),
    ("x.eds", None, "[2000]\nParameterName=r\nObjectType=9\n[2000Name]\nNrOfEntries=0\n"),
    ("x.eds", None, "[2000]\nParameterName=r\nObjectType=8\n[2000sub1]\nParameterName=a\nDataType=5\nAccessType=rw\n"
                    "[2000Name]\nNrOfEntries=3\n1=x\n2=y\n3=z\n"),
    ("x.eds", None, "[2000]\nParameterName=r\nObjectType=8\nCompactSubObj=4\nDataType=5\nAccessType=rw\n"
                    "[2000Name]\nNrOfEntries=3\n1=x\n3=z\n"),
    ("x.eds", None, "[2000]\nParameterName=r\nObjectType=8\nCompactSubObj=4\nDataType=5\nAccessType=rw\n"
                    "[2000Name]\nNrOfEntries=2\n1=r\n2=Number of entries\n"),
    ("x.eds", None, "[2000]\nParameterName=r\nObjectType=8\nCompactSubObj=4\nDataType=5\nAccessType=rw\n"
                    "[2000Namesake]\nNrOfEntries=1\n1=q\n"),
    # CompactSubObj counts at and beyond the ends of the range, odd spellings (the importer does not read the count)
    ("x.eds", None, "[2000]\nParameterName=r\nObjectType=8\nCompactSubObj=0\nDataType=5\nAccessType=rw\n"),
    ("x.eds", None, "[2000]\nParameterName=r\nObjectType=8\nCompactSubObj=0xFE\nDataType=5\nAccessType=rw\n"),
    ("x.eds", None, "[2000]\nParameterName=r\nObjectType=8\nCompactSubObj=255\nDataType=5\nAccessType=rw\n"),
    ("x.eds", None, "[2000]\nParameterName=r\nObjectType=8\nCompactSubObj=256\nDataType=5\nAccessType=rw\n"),
    ("x.eds", None, "[2000]\nParameterName=r\nObjectType=8\nCompactSubObj=\nDataType=5\nAccessType=rw\n"),
    ("x.eds", None, "[2000]\nParameterName=r\nObjectType=8\nCompactSubObj=many\nDataType=5\nAccessType=rw\n"),
    ("x.eds", None, "[2000]\nParameterName=r\nObjectType=8\nCompactSubObj=254\nDataType=5\nAccessType=rw\n"
                    "[2000Name]\nNrOfEntries=255\n" + "".join(f"{i}=n{i}\n" for i in range(1, 256))),
    ("x.eds", None, "[2000]\nParameterName=r\nObjectType=8\nCompactSubObj=3\nDataType=5\nAccessType=rw\n"
                    "[2000Name]\nNrOfEntries=0x2\n1=a\n2=b\n"),
    # comment blocks: ten and more lines, Lines in other bases, more / fewer lines than announced, gaps
    ("x.dcf", None, "[Comments]\nLines=12\n" + "".join(f"Line{i}=c{i}\n" for i in range(1, 13))),
    ("x.dcf", None, "[Comments]\nLines=0xC\n" + "".join(f"Line{i}=c{i}\n" for i in range(12, 0, -1))),
    ("x.dcf", None, "[Comments]\nLines=0b1010\n" + "".join(f"Line{i}=c{i}\n" for i in range(1, 13))),
    ("x.dcf", None, "[Comments]\nLines=10\n" + "".join(f"Line{i}=c{i}\n" for i in range(1, 10))),
    ("x.dcf", None, "[Comments]\nLines=2\nLine1=a\nLine02=b\nLine2=c\nLine10=d\n"),
    ("x.dcf", None, "[Comments]\nLines=010\nLine1=a\n"),
    # duplicates of index / name
    ("x.eds", None, "[2000]\nParameterName=a\nDataType=5\nAccessType=rw\n[2001]\nParameterName=a\nDataType=6\nAccessType=ro\n"),
    ("x.eds", None, "[2000]\nParameterName=r\nObjectType=9\n[2000sub0]\nParameterName=a\nDataType=5\nAccessType=rw\n"
                    "[2000sub00]\nParameterName=b\nDataType=6\nAccessType=ro\n"),
    ("x.eds", None, "[2000]\nParameterName=r\nObjectType=9\n[2000sub0]\nParameterName=a\nDataType=5\nAccessType=rw\n"
                    "[2000Sub1]\nParameterName=a\nDataType=6\nAccessType=ro\n"),
    ("x.eds", None, "[2000]\nParameterName=r\nObjectType=9\n[2000]\nParameterName=r\nObjectType=9\n"),
    # empty record, dotted names
    ("x.eds", None, "[2000]\nParameterName=r\nObjectType=9\n[2001]\nParameterName=r.x\nDataType=5\nAccessType=rw\n"),
    ("x.eds", None, "[2000]\nParameterName=r.s\nObjectType=9\n[2000sub0]\nParameterName=t.u\nDataType=5\nAccessType=rw\n"),
    # header oddities
    ("x.dcf", None, "[DeviceComissioning]\nNodeID=\nBaudrate=0\n"),
    ("x.dcf", None, "[DeviceComissioning]\nNodeID=0x\n"),
    ("x.dcf", None, "[DeviceComissioning]\nBaudrate=0x10\n"),
    ("x.dcf", 5, "[DeviceComissioning]\nNodeID=junk\nBaudrate=-125\n"),
    ("x.dcf", None, "[Comments]\nLines=2\nLine1=a\n"),
    ("x.dcf", None, "[Comments]\nLines=-1\n"),
    ("x.dcf", None, "[Comments]\nLine1=a\n"),
    ("x.dcf", None, "[Comments]\nLines=0x2\nLine1=a\nLine2=\n"),
    ("x.dcf", None, "[DeviceInfo]\nBaudRate_10=x\n"),
    ("x.dcf", None, "[DeviceInfo]\nVendorNumber=x\n"),
    ("x.dcf", None, "[DeviceInfo]\nVendorNumber=0x10\nGranularity=8\nLSS_Supported=0\nBaudRate_50=2\nBaudRate_10=-1\n"),
    ("x.dcf", None, "[DummyUsage]\nDummy0001=1\n"),
    ("x.dcf", None, "[DummyUsage]\n" + "".join(f"Dummy000{i}=1\n" for i in range(1, 8))),
    ("x.dcf", None, "[dummyusage]\n" + "".join(f"Dummy000{i}={i % 2}\n" for i in range(1, 8))),
    ("x.dcf", None, "[DummyUsage]\n" + "".join(f"Dummy000{i}=0x1\n" for i in range(1, 8))),
    ("x.dcf", None, "[DEFAULT]\nAccessType=rw\n[2000]\nParameterName=a\nDataType=5\n"),
    ("x.eds", None, "[2000]\nParameterName=a\nDataType=5\nAccessType=rw\nObjectType=5\n"),
    ("x.eds", None, "[2000]\nParameterName=a\nDataType=-3\nAccessType=rw\nDefaultValue=4\nLowLimit=1\n"),
    ("x.eds", None, "[2000]\nParameterName=a\nDataType=8\nAccessType=rw\nLowLimit=1.5\nHighLimit=2\nFactor=abc\n"),
    ("x.eds", None, "[2000]\nParameterName=a\nDataType=0x10\nAccessType=rw\nLowLimit=0x800000\nHighLimit=0x7FFFFF\n"),
]


def gen_ops(tier, rng):
    quick = tier == "quick"
    # primitives --------------------------------------------------------------------------------
    for s in INT_CORPUS:
        yield f"int0 {E.hx(s)}"
        yield f"int10 {E.hx(s)}"
    for _ in range(1500 if quick else 30000):
        s = rand_junk(rng, INT_ALPHABET)
        yield f"int0 {E.hx(s)}"
        if rng.random() < 0.3:
            yield f"int10 {E.hx(s)}"
    for _ in range(300 if quick else 5000):
        v = rng.choice([rng.getrandbits(rng.choice([1, 8, 16, 32, 64, 80])), 0, 1])
        t = E.spell_int(rng.choice([v, -v]), E.rand_style(rng), plus=rng.random() < 0.2)
        if rng.random() < 0.3 and len(t) > 2:
            i = rng.randrange(1, len(t))
            t = t[:i] + "_" + t[i:]
        if rng.random() < 0.3:
            t = rng.choice([" ", "\t", ""]) + t + rng.choice([" ", "\n", ""])
        yield f"int0 {E.hx(t)}"
        yield f"int10 {E.hx(t)}"
    for s in HEX_CORPUS:
        yield f"fromhex {E.hx(s)}"
    for _ in range(300 if quick else 5000):
        yield f"fromhex {E.hx(rand_junk(rng, '0123456789abcdefABCDEF \tg', 0, 10))}"
    for s in FLOAT_CORPUS:
        yield f"float {E.hx(s)}"
    for _ in range(600 if quick else 10000):
        yield f"float {E.hx(rand_junk(rng, '0123456789.eE+-_ infaty', 0, 8))}"
    for s in LINES_CORPUS:
        yield f"lines {E.hx(s)}"
    for _ in range(100 if quick else 2000):
        yield f"lines {E.hx(rand_junk(rng, 'ab \n\r\x0b\x0c\x1c\x1d\x1e\x85', 0, 8))}"
    # single values and limits through a one-object file ------------------------------------------------
    def survives(s):
        try:
            d = E.parse_text(one_var_text(5, "DefaultValue", s))
        except Exception:
            return False
        return d[0][1][-1] == ("DefaultValue", s)
    for s in CONV_CORPUS + JUNK_VALUES:
        if survives(s):
            for nid in ("none", "5", "0", "127"):
                for dt in (5, 7, 1, 0x10, 9, 0xA, 0xF, 8, 0xC, 0x1C):
                    yield f"conv {nid} {dt} {E.hx(s)}"
    for _ in range(300 if quick else 5000):
        s = rand_junk(rng, "0123456789abcdefxX_+-$NODEIDnodeid \t", 0, 14)
        if rng.random() < 0.5:
            s = rng.choice(["$NODEID+", "$NODEID", "+$NODEID", ""]) + s + rng.choice(["", "+$NODEID", "$NODEID"])
        if survives(s):
            yield f"conv {rng.choice(['none', '1', '127'])} {rng.choice([5, 7, 0x1B, 2, 1])} {E.hx(s)}"
    for dt, w in E.SIGNED.items():
        vals = {0, 1, (1 << (w - 1)) - 1, 1 << (w - 1), (1 << (w - 1)) + 1, (1 << w) - 1, 1 << w, (1 << w) + 1,
                -1, -(1 << (w - 1)), -(1 << (w - 1)) - 1, 0x80, 0x7F}
        for _ in range(10 if quick else 200):
            vals.add(rng.getrandbits(w))
            vals.add(-rng.getrandbits(w - 1))
        for v in sorted(vals):
            for st in ((16, True, False, 0), (10, False, False, 0), (16, False, True, w // 4), (8, False, False, 0),
                       (2, False, False, 0)):
                if st[0] in (8, 2) and rng.random() < 0.7:
                    continue
                yield f"lim {dt} {E.hx(E.spell_int(v, st))}"
    for dt, w in E.UNSIGNED.items():
        for v in (0, 1, (1 << w) - 1, 1 << (w - 1), 1 << w, -1):
            yield f"lim {dt} {E.hx(E.spell_int(v, (16, True, False, 0)))}"
            yield f"lim {dt} {E.hx(str(v))}"
    for dt in (1, 8, 9, 0xA, 0xC, 0xF, 0x11, 0x1C, 0x17):
        for s in ("5", "0xFF", "-1", "1.5", "abc", ""):
            yield f"lim {dt} {E.hx(s)}"
    # hand-written texts ----------------------------------------------------------------------------
    for fname, nid, text in HAND_TEXTS:
        try:
            doc = E.parse_text(text)
        except Exception:
            continue
        yield f"imp {E.hx(fname)} {'none' if nid is None else nid} {E.enc_doc(doc)} t {E.hx(text)}"
    # histories: the same paths written and imported several times within this process -----------------------
    for _ in range(60 if quick else 600):
        yield rand_history(rng)
    # writer stream -------------------------------------------------------------------------------
    n_spec = 900 if quick else 6000
    specs = []
    # every data type as a top-level variable with limits/defaults, every signed width
    for dt in E.ALL_TYPES:
        for rep in range(2 if quick else 12):
            sp = E.rand_spec(rng, size=rng.choice([1, 2, 3]), types=[dt])
            specs.append(sp)
    for _ in range(n_spec):
        specs.append(E.rand_spec(rng))
    for sp in specs:
        parts = E.spec_to_op_parts(sp)
        yield "imp " + " ".join(parts)
        # mutated twin (correspondence only)
        if rng.random() < (0.9 if quick else 1.0):
            doc = mutate_doc(rng, E.dec_doc(parts[2]))
            text = render_doc(doc)
            try:
                doc2 = E.parse_text(text)
            except Exception:
                continue
            fname = rng.choice(["x.eds", "x.dcf", "x.eds", "y.EDS", "x.ed", "eds", "x.eds.txt"]) \
                if rng.random() < 0.1 else "x.eds"
            yield f"imp {E.hx(fname)} {parts[1]} {E.enc_doc(doc2)} t {E.hx(text)} {parts[5]}"


HISTORY_FILES = ["x.eds", "x.dcf", "dev.EDS", "a.b.Dcf"]


def history_op(steps):
    return "imph " + " ".join([str(len(steps))] + [t for sp in steps for t in step_parts(sp)])


def rand_history(rng):
    """2..4 imports by path within one process; the files are rewritten with other dictionaries in between"""
    k = rng.choice([2, 2, 3, 4])
    names = rng.sample(HISTORY_FILES, rng.choice([1, 1, 2]))
    steps = []
    for i in range(k):
        sp = E.rand_spec(rng, size=rng.choice([0, 1, 2, 3]), suffix=names[0] if i < 2 else rng.choice(names))
        steps.append(sp)
    return history_op(steps)


def fixed_var(name, dt=5, **kw):
    v = {"name": name, "sub": 0, "dt": {"v": dt, "t": "0x%04X" % dt}, "acc": {"v": "rw", "t": "rw"}}
    v.update(kw)
    return v


def fixed_spec(objs=(), comments=None, file="x.eds", nid=None):
    sp = {"file": file, "nid_arg": nid, "lists": False, "objs": list(objs)}
    if comments is not None:
        sp["comments"] = {"lines": list(comments), "lines_t": str(len(comments))}
    return sp


def fixed_compact(index, n, names=None, **kw):
    tv = fixed_var("Table %X" % index, 6, ot="0x8", pdo={"v": True, "t": "1"},
                   **{"def": {"k": "num", "v": 0x1234, "t": "0x1234"}})
    tv.update(kw)
    return {"kind": "compact", "index": index, "sec": "%04X" % index, "namesec": "%04XName" % index, "n": n,
            "ntext": str(n), "var": tv, "names": names, "cpos": 1}


CORPUS = [
    # F7: limits of INTEGER24/40/48/56 were dropped before the fix
    f"lim 16 {E.hx('0x800000')}", f"lim 18 {E.hx('0xFFFFFFFFFF')}", f"lim 19 {E.hx('0x800000000000')}",
    f"lim 20 {E.hx('0x80000000000000')}", f"lim 16 {E.hx('-5')}",
    # compact arrays of the largest size, with and without (partial) name list; of one entry
    "imp " + " ".join(E.spec_to_op_parts(fixed_spec([fixed_compact(0x2100, 254), fixed_compact(0x2101, 1)]))),
    "imp " + " ".join(E.spec_to_op_parts(fixed_spec([fixed_compact(0x2100, 254, ["a", "b", "c"]),
                                                     fixed_compact(0x2101, 253)]))),
    # comment blocks of 9, 10, 12 and 30 lines
    *["imp " + " ".join(E.spec_to_op_parts(fixed_spec([], [f"line {i + 1} of {n}" for i in range(n)], "x.dcf")))
      for n in (9, 10, 12, 30)],
    # the same path imported again after it was rewritten
    history_op([fixed_spec([{"kind": "var", "index": 0x2000, "sec": "2000",
                             "var": fixed_var("first", 5, **{"def": {"k": "num", "v": 1, "t": "1"}})}],
                           ["one"], "dev.dcf", 3),
                fixed_spec([{"kind": "var", "index": 0x2001, "sec": "2001",
                             "var": fixed_var("second", 6, **{"def": {"k": "num", "v": 2, "t": "2"}})}],
                           ["two", "lines"], "dev.dcf", 4)]),
]

LEVEL_TEXT = ("Lean 4 theorems over the parsed document, for every well-formed description in every spelling and every "
              "node-id mode: int(text, 0) reads every spelled integer; two's-complement limits of all 8 signed widths "
              "become negative numbers (over the generated _calc_bit_length table); $NODEID forms; the four section "
              "regexes are disjoint on all names and classify every written name as meant; build_variable = described "
              "variable field by field; whole-dictionary import_write (importEds (write sod) = dictionary assembled "
              "with add_object/add_member from the description, incl. device info, comments, bit rate, node id, dummy "
              "entries, records, arrays, compact arrays with/without name list); lookups by index / name / "
              "'Parent.Child' reach the same object; compact expansion of every announced entry up to 254 (type, access, "
              "PDO-mappability, default, limits), end to end; "
              "histories of imports by path (each import is a function of the file's current content); model tied "
              "to the code by generated tables and "
              "a differential run on texts from an independent Python writer plus mutated texts")
LEVEL_NOTE = ("trusted: Lean kernel + propext/Classical.choice/Quot.sound; configparser's text layer (the driver gets the "
              "document parsed by the same parser), CPython int()/float()/bytes.fromhex/str.splitlines modelled for ASCII "
              "and differentially checked, float values opaque; the correspondence is only as strong as its "
              "generator")
TECHNIQUE = "Lean 4 proof over generated tables + differential correspondence with the implementation"
