"""C03 — Typed values survive the client -> bus -> server -> client round trip."""
import logging
import queue
import threading
import time
import zlib

import canopen
from canopen import objectdictionary as od

from props import c02, c04

logging.disable(logging.CRITICAL)

ID = "C03"
PROOF_MODULES = ["CanopenProofs.C03"]
GENERATED = ["Datatypes", "SdoConst"]
THEOREMS = [
    "Canopen.C03.download_lib",
    "Canopen.C03.upload_lib",
    "Canopen.C03.typed_roundtrip",
    "Canopen.C03.bytes_roundtrip",
    "Canopen.C03.lookup_agree",
    "Canopen.C03.channel_isolation",
    "Canopen.C03.upload_lib_refused",
    "Canopen.C03.access_roundtrip",
    "Canopen.C03.typed_roundtrip_access",
    "Canopen.C03.bytes_roundtrip_access",
    "Canopen.C03.local_assign_roundtrip",
    "Canopen.C03.local_assign_typed",
    "Canopen.C03.local_assign_bytes",
    "Canopen.C03.remote_read_never_differs",
]
FINGERPRINT = c02.FINGERPRINT + [
    "canopen.sdo.client:SdoClient.request_response",
    "canopen.sdo.client:SdoClient.read_response",
    "canopen.sdo.client:SdoClient.upload",
    "canopen.sdo.client:SdoClient.download",
    "canopen.sdo.client:SdoClient.open",
    "canopen.sdo.client:ReadableStream",
    "canopen.sdo.client:WritableStream",
    "canopen.sdo.server:SdoServer.upload",
    "canopen.sdo.server:SdoServer.download",
    "canopen.sdo.base:SdoVariable.get_data",
    "canopen.sdo.base:SdoVariable.set_data",
    "canopen.sdo.base:SdoBase.__getitem__",
    "canopen.sdo.base:SdoRecord.__getitem__",
    "canopen.sdo.base:SdoArray.__getitem__",
    "canopen.variable:Variable.raw",
    "canopen.objectdictionary:ODVariable.encode_raw",
    "canopen.objectdictionary:ODVariable.decode_raw",
    "canopen.network:Network.notify",
    "canopen.network:Network.subscribe",
    "canopen.network:Network.send_message",
    "canopen.objectdictionary:ObjectDictionary.__getitem__",
    "canopen.objectdictionary:ODRecord.__getitem__",
    "canopen.objectdictionary:ODArray.__getitem__",
]
TRUSTED = c02.TRUSTED + [
    "queue.Queue is a FIFO; a response delivered later by another thread is in the queue when the client looks "
    "(no time-out fires) — real thread pre-emption, python-can's notifier and virtual bus are exercised, not proved",
    "io.BufferedWriter(7) offers the whole unsent remainder to the raw stream (as in C01)",
]
ASSUMPTIONS = ["text values have no trailing NUL (decode strips them); REAL values travel as bit patterns"]
RULE = ("op typed: one value assigned through remote.sdo[...] .raw, then read back remotely and locally (typed accessor "
        "and sdo.upload); op ltyped: the same with the assignment made through the local node's own accessor; all "
        "numeric types with boundary/seeded values (all values of 8-bit types; of 16-bit types in thorough), BOOLEAN, "
        "REAL patterns, strings and DOMAIN of length 0..200; entries of every access type (rw, ro, wo, const, rwr, rww: "
        "every type x access type x side on every run, and a seeded share of the value sweep); access by index, name "
        "and 'Record.Member'; delivery inline, by a dispatcher thread with seeded delays, by a slow device (every response 0.45 s late, client time-out raised to 2 s), over python-can's virtual "
        "bus; op multi: 1..8 client threads on distinct nodes (oracle only); non-trivial = set went through, the local "
        "side returned a value and the remote side returned a value or a refusal")


# ---------------------------------------------------------------------- buses
class InlineNet(canopen.Network):
    """each side is its own Network; a sent frame goes synchronously to every *other* network"""

    def __init__(self, hub):
        super().__init__()
        self.hub = hub
        hub.nets.append(self)

    def send_message(self, can_id, data, remote=False):
        self.hub.route(self, can_id, bytes(data))


SLOW_S = 0.45


class Hub:
    def __init__(self, mode, rng=None):
        self.nets = []
        self.mode = mode
        self.rng = rng
        self.frames = []
        self.q = queue.Queue()
        self.thread = None
        self.stop = False
        self.hold, self.held = None, None       # "armed": keep back the next frame of a non-client net
        # "slow": every response reaches the client SLOW_S late - well inside the RESPONSE_TIMEOUT the application
        # configured on the client (2.0 s), far beyond the class default (0.3 s)
        self.fixed_delay = SLOW_S if mode == "slow" else None
        if mode in ("thread", "slow"):
            self.thread = threading.Thread(target=self.pump, daemon=True)
            self.thread.start()

    def route(self, src, can_id, data):
        self.frames.append((can_id, data))
        if self.mode == "inline":
            was_holding = self.hold == "holding"
            if self.hold == "armed" and src is not self.nets[0]:
                self.hold, self.held = "holding", (src, can_id, data)
                return
            for n in self.nets:
                if n is not src:
                    n.notify(can_id, bytearray(data), 0.0)
            if was_holding and self.hold == "holding" and src is self.nets[0]:
                # the late frame arrives right after the client's next frame (its time-out abort)
                hsrc, hid, hdata = self.held
                self.hold, self.held = None, None
                for n in self.nets:
                    if n is not hsrc:
                        n.notify(hid, bytearray(hdata), 0.0)
        else:
            if self.fixed_delay is not None:
                delay = self.fixed_delay if src is not self.nets[0] else 0
            else:
                delay = self.rng.random() * 0.0005 if self.rng else 0
            self.q.put((src, can_id, data, delay))

    def pump(self):
        while not self.stop:
            item = self.q.get()
            if item is None:
                return
            src, can_id, data, delay = item
            if delay:
                time.sleep(delay)
            for n in self.nets:
                if n is not src:
                    n.notify(can_id, bytearray(data), 0.0)

    def close(self):
        self.stop = True
        if self.thread:
            self.q.put(None)
            self.thread.join(timeout=1)


def make_pair(entries, node_id, hub=None, mode="inline", rng=None, vchan=None):
    """(remote node, local node, closer)"""
    d1, d2 = c02.build_od(entries), c02.build_od(entries)
    if mode == "vcan":
        n1, n2 = canopen.Network(), canopen.Network()
        n1.connect(interface="virtual", channel=vchan, receive_own_messages=False)
        n2.connect(interface="virtual", channel=vchan, receive_own_messages=False)

        def closer():
            n1.disconnect()
            n2.disconnect()
    else:
        own = hub is None
        hub = hub or Hub(mode, rng)
        n1, n2 = InlineNet(hub), InlineNet(hub)
        closer = hub.close if own else (lambda: None)
    remote = canopen.RemoteNode(node_id, d1)
    local = canopen.LocalNode(node_id, d2)
    n1.add_node(remote)
    n2.add_node(local)
    remote.sdo.RESPONSE_TIMEOUT = 2.0
    return remote, local, closer


def accessor(node, idx, sub, entries, path):
    """remote.sdo[...] by index, by name or by 'Record.Member'"""
    kind = next(k for k, i, _ in entries if i == idx)
    if path == "idx":
        return node.sdo[idx] if kind == "v" else node.sdo[idx][sub]
    if path == "name":
        return node.sdo[f"o{idx}"] if kind == "v" else node.sdo[f"o{idx}"][f"o{idx}_{sub}"]
    return node.sdo[f"o{idx}.o{idx}_{sub}"] if kind != "v" else node.sdo[f"o{idx}"]


def run_typed(entries, idx, sub, t, val, delivery, rng=None, vchan="c03", local_set=False):
    """assignment through the remote accessor (`typed`) or through the local node's own accessor (`ltyped`), then
    what the node holds and the read-back from both sides"""
    mode, path = delivery.split("-")
    late = mode == "late"
    hub = Hub("inline") if late else None
    remote, local, closer = make_pair(entries, 5, hub=hub, mode="inline" if late else mode, rng=rng, vchan=vchan)
    try:
        tt = None if t == "n" else int(t)
        if late:
            # history: an earlier read whose response came only after the client had given up
            hub.hold = "armed"
            remote.sdo.RESPONSE_TIMEOUT = 0.001
            try:
                accessor(remote, idx, sub, entries, path).raw
            except Exception:
                pass
            hub.hold, hub.held = None, None
            remote.sdo.RESPONSE_TIMEOUT = 2.0
        try:
            accessor(local if local_set else remote, idx, sub, entries, path).raw = c02.py_val(val, tt)
            s1 = "ok"
        except Exception as e:
            s1 = c02_err(e)
        st = local.data_store.get(idx, {}).get(sub)
        stored = "none" if st is None else c04.hx(bytes(st))
        try:
            s2 = "ok " + c04.show_val(accessor(remote, idx, sub, entries, path).raw, str(tt))
        except Exception as e:
            s2 = c02_err(e)
        try:
            loc = c04.show_val(accessor(local, idx, sub, entries, path).raw, str(tt))
        except Exception:
            loc = "err"
        try:
            lraw = c04.hx(bytes(local.sdo.upload(idx, sub)))
        except Exception:
            lraw = "err"
        return f"{s1} | {stored} | {s2} | {loc} | {lraw}"
    finally:
        closer()


def c02_err(e):
    from canopen.sdo.exceptions import SdoAbortedError, SdoCommunicationError
    if isinstance(e, SdoAbortedError):
        return f"err aborted {e.code}"
    if isinstance(e, SdoCommunicationError):
        return "err comm"
    return "err other"


def run_multi(nthreads, delivery, seed):
    """n client threads on n distinct nodes sharing one bus; returns 'ok' or a description"""
    import random
    rng = random.Random(seed)
    mode = delivery.split("-")[0]
    entries = [("v", 0x2000 + t, (t, 0, None, None)) for t in (0x05, 0x06, 0x07, 0x03, 0x0A)]
    hub = Hub(mode if mode != "vcan" else "thread", rng) if mode != "vcan" else None
    pairs = [make_pair(entries, 10 + k, hub=hub, mode=mode, rng=rng, vchan=f"c03m{seed}") for k in range(nthreads)]
    errors = []

    def worker(k):
        r = random.Random(seed * 100 + k)
        remote, local, _ = pairs[k]
        try:
            for _ in range(12):
                t = r.choice([0x05, 0x06, 0x07, 0x03, 0x0A])
                if t == 0x0A:
                    v = bytes([k]) * r.randint(0, 40)
                else:
                    w, s = c04.SPEC[t]
                    v = r.randint(-(1 << (w - 1)), (1 << (w - 1)) - 1) if s else r.randint(0, (1 << w) - 1)
                remote.sdo[0x2000 + t].raw = v
                got, loc = remote.sdo[0x2000 + t].raw, local.sdo[0x2000 + t].raw
                if got != v or loc != v:
                    errors.append(f"node {10 + k}: wrote {v!r}, read {got!r} remotely and {loc!r} locally")
        except Exception as e:
            errors.append(f"node {10 + k}: {type(e).__name__}: {e}")

    ths = [threading.Thread(target=worker, args=(k,)) for k in range(nthreads)]
    for th in ths:
        th.start()
    for th in ths:
        th.join(timeout=60)
    if hub:
        hub.close()
    for _, _, closer in pairs:
        closer()
    return "ok" if not errors else "FAIL " + "; ".join(errors[:3])


def build_named_od(spec):
    d = od.ObjectDictionary()
    for e in spec.split(";"):
        p = e.split(":")
        if p[0] == "v":
            v = od.ODVariable(p[2], int(p[1]), 0)
            v.data_type = 0x05
            d.add_object(v)
        else:
            g = (od.ODRecord if p[0] == "r" else od.ODArray)(p[2], int(p[1]))
            if p[3]:
                for m in p[3].split(","):
                    sub, nm = m.split("=")
                    mv = od.ODVariable(nm, int(p[1]), int(sub))
                    mv.data_type = 0x05
                    g.add_member(mv)
            d.add_object(g)
    return d


def py_key(k):
    return int(k[1:]) if k[0] == "i" else k[1:]


def run_lookup(a):
    d = build_named_od(a[1])
    try:
        o = d[py_key(a[2])]
        if len(a) > 3:
            o = o[py_key(a[3])]
    except Exception:
        return "err"
    if isinstance(o, od.ODVariable) and isinstance(o.parent, (od.ODRecord, od.ODArray)):
        return f"var {o.index} {o.subindex}"
    if isinstance(o, od.ODVariable) and len(a) > 3:
        return f"var {o.index} {o.subindex}"
    return f"obj {o.index}"


def spec_lookup(a):
    """the property's reading: index, name and 'Parent.Child' reach the same object (well-formed dictionaries)"""
    objs = []
    for e in a[1].split(";"):
        p = e.split(":")
        ms = []
        if p[0] != "v" and p[3]:
            ms = [(int(m.split("=")[0]), m.split("=")[1]) for m in p[3].split(",")]
        objs.append((p[0], int(p[1]), p[2], ms))
    names = [o[2] for o in objs]
    idxs = [o[1] for o in objs]
    wf = len(set(names)) == len(names) and len(set(idxs)) == len(idxs) and all(
        len({s for s, _ in o[3]}) == len(o[3]) and len({n for _, n in o[3]}) == len(o[3]) and (o[0] == "v" or o[3])
        for o in objs) and all("." not in n for n in names)
    if not wf:
        return None
    k = py_key(a[2])
    hit = next((o for o in objs if (o[1] == k if isinstance(k, int) else o[2] == k)), None)
    if len(a) == 3:
        if hit:
            return f"obj {hit[1]}"
        if isinstance(k, str) and "." in k:
            par, child = k.split(".", 1)
            g = next((o for o in objs if o[2] == par and o[0] != "v"), None)
            if g:
                m = next((s for s, n in g[3] if n == child), None)
                if m is not None:
                    return f"var {g[1]} {m}"
        return "err"
    if hit is None or hit[0] == "v":
        return "err"
    k2 = py_key(a[3])
    m = next((s for s, n in hit[3] if (s == k2 if isinstance(k2, int) else n == k2)), None)
    if m is not None:
        return f"var {hit[1]} {m}"
    if hit[0] == "a" and isinstance(k2, int) and 0 < k2 < 256 and any(s == 1 for s, _ in hit[3]):
        return f"var {hit[1]} {k2}"
    return "err"


def run_shared(entries, idx, sub, t, val):
    """two local nodes built from ONE ObjectDictionary object, each with its own remote counterpart: the value
    written to node 5 must not show on node 6"""
    shared = c02.build_od(entries)
    hub = Hub("inline")
    outs = []
    nodes = []
    for nid in (5, 6):
        n1, n2 = InlineNet(hub), InlineNet(hub)
        remote = canopen.RemoteNode(nid, c02.build_od(entries))
        local = canopen.LocalNode(nid, shared)
        n1.add_node(remote)
        n2.add_node(local)
        nodes.append(remote)
    tt = None if t == "n" else int(t)
    try:
        accessor(nodes[0], idx, sub, entries, "idx").raw = c02.py_val(val, tt)
        outs.append("ok")
    except Exception as e:
        outs.append(c02_err(e))
    try:
        outs.append("ok " + c04.show_val(accessor(nodes[1], idx, sub, entries, "idx").raw, str(tt)))
    except Exception as e:
        outs.append(c02_err(e))
    return " | ".join(outs)


def run_impl(op):
    a = op.split(" ")
    if a[0] == "lk":
        return run_lookup(a)
    if a[0] == "shared":
        return run_shared(c02.parse_od(a[1]), int(a[2]), int(a[3]), a[4], c02.parse_val(a[5]))
    if a[0] in ("typed", "ltyped"):
        import random
        return run_typed(c02.parse_od(a[1]), int(a[2]), int(a[3]), a[4], c02.parse_val(a[5]), a[6],
                         rng=random.Random(zlib.crc32(op.encode()) & 0xFFFF), local_set=a[0] == "ltyped")
    if a[0] == "multi":
        return run_multi(int(a[1]), a[2], int(a[3]))
    return "bad-op"


def model_skips(op):
    return op.startswith("multi ")


def canon_model(op, out):
    # REAL read-backs: NaN patterns are not compared bit for bit
    return out


# ---------------------------------------------------------------------- oracle
def expected_read(t, val):
    """what both sides must read back, as the harness prints it"""
    k, x = val
    if t in c04.SPEC or t == 0x01:
        if t == 0x01:
            return f"bool {int(bool(x))}"
        return f"int {int(x)}"
    if t in (0x08, 0x11):
        return "real nan" if c04.is_nan_pattern(t, x) else f"real {x}"
    if t in (0x09, 0x0B):
        return "str " + c04.nl(x)
    return "bytes " + c04.hx(bytes(x))


def oracle(op, out):
    a = op.split(" ")
    if a[0] == "lk":
        exp = spec_lookup(a)
        return None if exp is None or exp == out else f"lookup {' '.join(a[2:])} reached {out}, the dictionary says {exp}"
    if a[0] == "multi":
        return None if out == "ok" else f"concurrent transfers to distinct nodes interfered: {out}"
    if a[0] == "shared":
        entries = c02.parse_od(a[1])
        vd, _ = c02.find_entry(entries, int(a[2]), int(a[3]))
        t = None if a[4] == "n" else int(a[4])
        if vd is None or c02.cia_encode(t, c02.parse_val(a[5])) is None:
            return None
        parts = out.split(" | ")
        src = vd[2] if vd[2] is not None else vd[3]
        exp = f"err aborted {0x060A0023}" if src is None else "ok " + expected_read(t, src)
        if parts[0] == "ok" and parts[1] != exp:
            return f"shared dictionary: node 6 (never written) reads {parts[1]} after node 5 was written; its own value is {exp}"
        return None
    # typed / ltyped: judged by the property's statement and the entry's access type alone.  The bus may read an entry
    # whose access type has an "r" (or is "const") and may assign one whose access type has a "w"; the local node's own
    # accessors (the application side) are not subject to access rights.  What C03 demands:
    #  * an assignment that is admitted (remote: the access type has a "w"; local: always) succeeds,
    #  * the node then holds exactly the CiA 301 encoding,
    #  * the LOCAL side reads the value back (typed accessor and sdo.upload), whatever the access type,
    #  * the REMOTE side reads the value back when the bus may read the entry; when it may not, the read is refused
    #    (which code: C06) - C03 only demands that no *different* value is ever returned.
    entries = c02.parse_od(a[1])
    idx, sub = int(a[2]), int(a[3])
    t = None if a[4] == "n" else int(a[4])
    val = c02.parse_val(a[5])
    vd, code = c02.find_entry(entries, idx, sub)
    enc = c02.cia_encode(t, val)
    if vd is None or enc is None:
        return None
    acc = c02.ACCESS[vd[1]]
    local_set = a[0] == "ltyped"
    parts = out.split(" | ")
    if len(parts) != 5:
        return f"malformed result {out!r}"
    if not local_set and not c02.writable(vd[1]):
        # the bus may not assign a ro/const entry: the refusal is C06's business.  C03 still has "either side": if
        # both sides return a value, it is the same value.
        if parts[2].startswith("ok ") and parts[3] != "err" and parts[2] != "ok " + parts[3]:
            return f"the two sides disagree on a '{acc}' entry: remote reads {parts[2]}, local reads {parts[3]}"
        return None
    who = "local node's own" if local_set else "remote"
    if parts[0] != "ok":
        return f"assignment through the {who} accessor to a '{acc}' entry failed: {parts[0]}"
    if parts[1] != c04.hx(enc):
        return f"local node holds {parts[1]}, the CiA 301 encoding of the value is {c04.hx(enc)} ('{acc}' entry)"
    exp = expected_read(t, val)
    if c02.readable(vd[1]):
        if parts[2] != "ok " + exp:
            return f"remote read-back of a '{acc}' entry gave {parts[2]}, assigned {exp}"
    elif parts[2].startswith("ok ") and parts[2] != "ok " + exp:
        return f"remote read of a '{acc}' entry returned a different value: {parts[2]}, assigned {exp}"
    if parts[3] != exp:
        return f"local read of a '{acc}' entry gave {parts[3]}, assigned {exp} through the {who} accessor"
    if parts[4] != c04.hx(enc):
        return f"local sdo.upload of a '{acc}' entry gave {parts[4]}, the node was assigned {c04.hx(enc)}"
    return None


def _access_of(a):
    """access type of the addressed entry of a typed / ltyped op, as text"""
    try:
        vd, _ = c02.find_entry(c02.parse_od(a[1]), int(a[2]), int(a[3]))
        return c02.ACCESS[vd[1]]
    except Exception:
        return "?"


def signature(op, what):
    a = op.split(" ")
    if a[0] in ("typed", "ltyped"):
        # data type, and for entries other than the plain read-write one the access type
        acc = _access_of(a)
        return f"{a[0]}:{a[4]}{'' if acc == 'rw' else ':' + acc}:{what.split(' ')[0]}"
    return f"{a[0]}:{a[4] if a[0] == 'shared' else a[2]}:{what.split(' ')[0]}"


def nontrivial(op, out):
    if op.startswith("lk"):
        return out != "err"
    if op.startswith("multi"):
        return out == "ok"
    p = out.split(" | ")
    if op.startswith("shared"):
        return p[0] == "ok"
    # the assignment went through and the local side returned a value; the remote side returned a value or (entry not
    # readable over the bus) was refused with an abort
    return p[0] == "ok" and (p[2].startswith("ok") or p[2].startswith("err aborted")) and p[3] != "err"


def classify(op, out):
    a = op.split(" ")
    if a[0] in ("typed", "ltyped"):
        return f"{a[0]}:{_access_of(a)}:{a[-1]}"
    return f"{a[0]}:{a[4] if a[0] == 'shared' else a[2]}"


def shrink_candidates(op):
    """typed / ltyped: simpler delivery, a plain variable instead of a record / array, no pre-set value or default, no
    by-stander entries, a smaller value - the access type of the addressed entry is kept"""
    a = op.split(" ")
    if a[0] not in ("typed", "ltyped"):
        return
    entries = c02.parse_od(a[1])
    idx, sub = int(a[2]), int(a[3])
    vd, _ = c02.find_entry(entries, idx, sub)
    if vd is None:
        return
    if a[6] != "inline-idx":
        yield " ".join(a[:6] + ["inline-idx"])
    plain = [("v", idx, (vd[0], vd[1], None, None))]
    if entries != plain:
        if len(entries) > 1:
            yield " ".join([a[0], c02.od_token([e for e in entries if e[1] == idx])] + a[2:])
        yield " ".join([a[0], c02.od_token(plain), a[2], "0"] + a[4:6] + [a[6].replace("dot", "name")])
    k, x = c02.parse_val(a[5])
    smaller = []
    if k == "i" and x not in (0, 1):
        smaller = [("i", 1), ("i", 0)]
    elif k in ("s", "x") and len(x) > 1:
        smaller = [(k, x[:1])]
    elif k == "f" and x != 0:
        smaller = [("f", 0)]
    for v in smaller:
        yield " ".join(a[:5] + [c02.val_token(v), a[6]])


# ---------------------------------------------------------------------- generator
def values(t, rng, tier):
    if t in c04.SPEC:
        w, s = c04.SPEC[t]
        lo, hi = (-(1 << (w - 1)), (1 << (w - 1)) - 1) if s else (0, (1 << w) - 1)
        if w == 8 or (w == 16 and tier == "thorough"):
            return [("i", v) for v in range(lo, hi + 1)]
        vals = {lo, lo + 1, lo + 2, hi, hi - 1, hi - 2, 0, 1, 2}
        if s:
            vals |= {-1, -2}
        for k in range(1, w):
            for d in (-2, -1, 0, 1, 2):
                for sg in ((1, -1) if s else (1,)):
                    v = sg * (1 << k) + d
                    if lo <= v <= hi:
                        vals.add(v)
        for _ in range(10 if tier == "quick" else 200):
            vals.add(rng.randint(lo, hi))
        vals = sorted(vals)
        if tier == "quick" and len(vals) > 40:
            vals = rng.sample(vals, 40) + [lo, hi]
        return [("i", v) for v in vals]
    if t == 0x01:
        return [("b", False), ("b", True)]
    if t in (0x08, 0x11):
        w, eb, mb = c04.REALS[t]
        emax = (1 << eb) - 1
        pats = [0, 1, (1 << mb) - 1, 1 << mb, (emax - 1) << mb | ((1 << mb) - 1), emax << mb, (emax >> 1) << mb]
        pats += [p | (1 << (w - 1)) for p in pats]
        pats += [(rng.getrandbits(1) << (w - 1)) | (rng.randrange(0, emax) << mb) | rng.getrandbits(mb) for _ in range(10)]
        return [("f", p) for p in pats]
    lens = [0, 1, 3, 4, 5, 7, 8, 13, 14, 15, 100, 200] + [rng.randint(0, 200) for _ in range(4)]
    if tier == "thorough":
        lens = list(range(0, 201, 1))
    out = []
    for n in lens:
        if t == 0x09:
            out.append(("s", [rng.randrange(1, 128) for _ in range(n)]))
        elif t == 0x0B:
            out.append(("s", [rng.choice([rng.randrange(1, 0xD800), rng.randrange(0xE000, 0x10000)]) for _ in range(n)]))
        else:
            out.append(("x", bytes(rng.getrandbits(8) for _ in range(n))))
    if t == 0x0B:
        out += [("s", [0xFEFF, 65, 66]), ("s", [0xFFFE, 0x3042]), ("s", [65, 0xFEFF])]     # BOMs are characters
    return out


DELIVERIES = ["inline-idx", "inline-name", "inline-dot", "thread-idx", "thread-name", "late-idx", "late-name"]


# access types (codes of c02.ACCESS): the bus may assign rw / wo / rwr / rww entries, and may read all but wo
REMOTE_ASSIGNABLE = [0, 2, 4, 5]
ALL_ACCESS = [0, 1, 2, 3, 4, 5]
TYPES = sorted(c04.SPEC) + [0x01, 0x08, 0x11, 0x09, 0x0A, 0x0B, 0x0F]


def typed_op(rng, tier, t, val, access=0, local_set=False, delivery=None):
    """one `typed` (assignment through the remote accessor) or `ltyped` (through the local node's own accessor)
    operation on an entry of type `t` and the given access type, as a variable, record member or array member"""
    kind = rng.choice("vra")
    idx = rng.choice([0x2000, 0x2001, 0x6040, 0x1018, 0xFFFF])
    sub = 0 if kind == "v" else rng.choice([0, 1, 2, 5, 255] if kind == "r" else [1, 2, 5])
    vd = (t, access, None, None)
    if rng.random() < 0.25:
        # configurations: the dictionary carries a ParameterValue and / or a default for the object
        # (another value of the same type); what was written wins over both
        other = rng.choice(values(t, rng, "quick"))
        vd = rng.choice([(t, access, other, None), (t, access, None, other),
                         (t, access, other, rng.choice(values(t, rng, "quick")))])
    if kind == "v":
        entries = [("v", idx, vd)]
    else:
        subs = sorted({1, sub})
        entries = [(kind, idx, [(s, vd) for s in subs])]
    entries.append(("v", 0x3000, (0x05, 0, None, ("i", 1))))
    r = rng.random()
    if delivery is None:
        if tier == "quick":
            delivery = ("inline-idx" if r < 0.7 else rng.choice(DELIVERIES[1:3]) if r < 0.87 else
                        rng.choice(DELIVERIES[5:]) if r < 0.97 else rng.choice(DELIVERIES[3:5]))
        else:
            delivery = rng.choice(DELIVERIES + (["vcan-idx"] if r < 0.002 else []))
    if kind == "v" and delivery.endswith("dot"):
        delivery = delivery.replace("dot", "name")
    return (f"{'ltyped' if local_set else 'typed'} {c02.od_token(entries)} {idx} {sub} {t} "
            f"{c02.val_token(val)} {delivery}")


def access_variant(rng, tier, t, val):
    """the same round trip on an entry that is not plain read-write, or assigned from the local side"""
    r = rng.random()
    if r < 0.45:        # the bus assigns an entry it may write: write-only above all
        return typed_op(rng, tier, t, val, access=rng.choice([2, 2, 2, 4, 5]))
    if r < 0.93:        # the application assigns; the bus may read it back unless the entry is write-only
        return typed_op(rng, tier, t, val, access=rng.choice([1, 3, 2, 1, 3, 2, 0, 4, 5]), local_set=True)
    return typed_op(rng, tier, t, val, access=rng.choice([1, 3]))     # refused by the server (C06); both sides agree


def gen_ops(tier, rng):
    # every data type x every access type x assignment from either side, on every run
    for t in TYPES:
        vals = values(t, rng, "quick")
        for access in ALL_ACCESS:
            for local_set in (False, True):
                if access == 0 and not local_set:
                    continue                    # the plain read-write round trip is swept below
                delivery = rng.choice(["inline-idx", "inline-idx", "inline-name", "inline-dot"])
                yield typed_op(rng, "quick", t, rng.choice(vals), access=access, local_set=local_set,
                               delivery=delivery)
    for t in TYPES:
        vals = values(t, rng, tier)
        # share of the value sweep repeated on another access type / from the local side: quick 30 %; thorough every
        # value twice, except in the exhaustive 16-bit sweeps (25 %)
        for val in vals:
            yield typed_op(rng, tier, t, val)
            if tier != "thorough":
                n = int(rng.random() < 0.3)
            elif len(vals) > 2000:
                n = int(rng.random() < 0.25)
            else:
                n = 2
            for _ in range(n):
                yield access_variant(rng, tier, t, val)
    # two local nodes built from one dictionary object: what is written to one does not show on the other
    for t in sorted(c04.SPEC) + [0x01, 0x08, 0x09, 0x0A]:
        vals = values(t, rng, "quick")
        for val in rng.sample(vals, min(3, len(vals))):
            other = rng.choice(vals)
            for vd in ((t, 0, None, None), (t, 0, None, other), (t, 0, other, None)):
                yield f"shared {c02.od_token([('v', 0x2000, vd)])} 8192 0 {t} {c02.val_token(val)}"
    # lookups: by index, by name, dotted, members by sub-index and name; well-formed and not
    pool = ["A", "B", "Dev", "Dev.x", "x", "Status", "Rec", "1018", "a_b", "Zed"]
    for _ in range(300 if tier == "quick" else 3000):
        names = rng.sample(pool, rng.randint(1, 4))
        if rng.random() < 0.1:
            names.append(names[0])
        objs, idx0 = [], rng.choice([0x1000, 0x2000, 0x6000])
        for k, nm in enumerate(names):
            kind = rng.choice("vra")
            idx = idx0 + (k if rng.random() < 0.95 else 0)
            if kind == "v":
                objs.append(f"v:{idx}:{nm}")
            else:
                subs = sorted(rng.sample(range(0, 6), rng.randint(0, 4)))
                mnames = rng.sample(["x", "y", "n", "Value", "a.b", "m1"], len(subs))
                objs.append(f"{kind}:{idx}:{nm}:" + ",".join(f"{s}={m}" for s, m in zip(subs, mnames)))
        ods = ";".join(objs)
        for o in objs:
            p = o.split(":")
            yield f"lk {ods} i{p[1]}"
            yield f"lk {ods} n{p[2]}"
            if p[0] != "v" and p[3]:
                for m in p[3].split(","):
                    sub, mn = m.split("=")
                    yield f"lk {ods} i{p[1]} i{sub}"
                    yield f"lk {ods} n{p[2]} n{mn}"
                    yield f"lk {ods} n{p[2]}.{mn}"
                yield f"lk {ods} i{p[1]} i{rng.choice([0, 1, 7, 255, 256])}"
        yield f"lk {ods} n{rng.choice(pool)}.{rng.choice(['x', 'q'])}"
        yield f"lk {ods} i{rng.choice([0x1000, 0x1234])}"
    for n in ([1, 2, 4, 8] if tier == "quick" else [1, 2, 3, 4, 5, 6, 7, 8] * 3):
        yield f"multi {n} thread-idx {rng.randrange(1000)}"
    if tier == "thorough":
        for n in (2, 8):
            yield f"multi {n} vcan-idx {rng.randrange(1000)}"


CORPUS = [
    # a slow device: every response arrives 0.45 s late, the application has raised the client's time-out to 2 s
    "typed v@8200@7,0,n,n 8200 0 7 i2271560481 slow-idx",
    "typed v@8201@10,0,n,n 8201 0 10 x0102030405060708090a slow-name",
    "typed v@8192@10,0,n,n 8192 0 10 x- inline-idx",       # F6: empty OCTET_STRING read back as 00000000
    "typed v@8192@15,0,n,n 8192 0 15 x- inline-idx",
    # access types: the master writes a write-only entry, the application reads it back (by index, by name, as a
    # record member); the application sets read-only / constant entries and both sides read them
    "typed v@8704@7,2,n,n 8704 0 7 i3735928559 inline-idx",
    "typed v@8705@3,2,n,n 8705 0 3 i-2 inline-name",
    "typed v@8706@9,2,n,n 8706 0 9 s115.101.99.114.101.116 inline-name",
    "typed r@8707@1=6,2,n,i7|2=6,0,n,n 8707 1 6 i4660 inline-dot",
    "typed v@8708@10,2,n,n 8708 0 10 x- inline-idx",
    "typed v@8709@5,4,n,n 8709 0 5 i255 inline-idx",
    "typed v@8710@5,5,n,n 8710 0 5 i1 late-idx",
    "ltyped v@8711@7,1,n,i1 8711 0 7 i305419896 inline-idx",
    "ltyped v@8712@6,3,i1,n 8712 0 6 i65535 inline-name",
    "ltyped v@8713@4,2,n,n 8713 0 4 i-2147483648 inline-idx",
    "ltyped a@8714@1=15,1,n,n 8714 2 15 x0102030405060708 inline-idx",
    "typed v@8715@6,1,n,i9 8715 0 6 i1 inline-idx",       # refused (C06); both sides still read the default
]

LEVEL_TEXT = ("Lean 4 theorems about the library's client model composed with the library's server model: a download "
              "through the typed accessor stores exactly the CiA 301 encoding at the local node, and reading back from "
              "either side returns the value, for every integer type and in-range value, for BOOLEAN/REAL patterns and "
              "for byte strings of every length; for every access type that admits the write (rw, wo, rwr, rww) the "
              "local side reads the value back and the remote side reads it or - write-only entry - is refused with "
              "0x06010001 and never gets another value; the same after an assignment by the application itself, for all "
              "six access types; index, name and 'Record.Member' reach the same entry; requests on the "
              "bus reach exactly the addressed node's server, so interleaved transfers to distinct nodes do not see "
              "each other; tied to the code by differential runs (inline, dispatcher thread, python-can virtual bus, "
              "1..8 client threads)")
LEVEL_NOTE = ("trusted: Lean kernel + standard axioms; queue.Queue FIFO, thread scheduling, python-can notifier/bus are "
              "exercised by the correspondence run, not proved; codec and server/client models as in C01/C02/C04")
TECHNIQUE = "Lean 4 proof (client∘server invariant, composition with the codec theorems) + differential correspondence incl. threaded delivery"
