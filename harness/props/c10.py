"""C10 — frames reach exactly the handlers subscribed at that moment (network dispatch,
node (de)registration, frame construction, listener filter, node scanner)."""
import contextlib
import logging

import can
import canopen
from canopen import network as nw
from canopen.emcy import EmcyConsumer
from canopen.lss import LssMaster
from canopen.nmt import NmtBase, NmtMaster, NmtSlave
from canopen.objectdictionary import ObjectDictionary
from canopen.sdo import SdoClient, SdoServer

ID = "C10"
PROOF_MODULES = ["CanopenProofs.C10"]
GENERATED = ["Network"]
THEOREMS = [
    "Canopen.C10.refines_multimap",
    "Canopen.C10.spec_membership",
    "Canopen.C10.spec_order_stable",
    "Canopen.C10.no_dup_on_resubscribe",
    "Canopen.C10.removed_node_silent",
    "Canopen.C10.absent_node_silent",
    "Canopen.C10.node_table_coherent",
    "Canopen.C10.clear_fuel",
    "Canopen.C10.clear_stops_only_on_failure",
    "Canopen.C10.listener_flags_irrelevant",
    "Canopen.C10.frame_format",
    "Canopen.C10.periodic_update_frame",
    "Canopen.C10.listener_filter",
    "Canopen.C10.services_match",
    "Canopen.C10.scanner",
    "Canopen.C10.scanner_in_network",
]
FINGERPRINT = [
    "canopen.network:Network.__init__",
    "canopen.network:Network.subscribe",
    "canopen.network:Network.unsubscribe",
    "canopen.network:Network.notify",
    "canopen.network:Network.send_message",
    "canopen.network:Network.__setitem__",
    "canopen.network:Network.__delitem__",
    "canopen.network:Network.add_node",
    "canopen.network:Network.create_node",
    "canopen.network:PeriodicMessageTask.__init__",
    "canopen.network:PeriodicMessageTask.update",
    "canopen.network:MessageListener.on_message_received",
    "canopen.network:NodeScanner.on_message_received",
    "canopen.network:NodeScanner.reset",
    "canopen.node.remote:RemoteNode.associate_network",
    "canopen.node.remote:RemoteNode.remove_network",
    "canopen.node.remote:RemoteNode.add_sdo",
    "canopen.node.local:LocalNode.associate_network",
    "canopen.node.local:LocalNode.remove_network",
    "canopen.node.base:BaseNode.has_network",
    # Network.__getitem__ / __iter__ / __len__ (node table, iteration order) are covered by the hash of the whole
    # module canopen.network
]
TRUSTED = [
    "Python dict/list semantics (setdefault, `in`, append, remove, del) and bound-method equality "
    "(same __self__ object and same function) modelled as a function CAN id -> optional list of tags",
    "collections.abc.MutableMapping mix-ins (pop, popitem, clear, update, setdefault; Python 3.12 source) "
    "transcribed on top of __getitem__/__setitem__/__delitem__/__iter__: popitem takes the first key of the "
    "iteration, clear = popitem until KeyError (any KeyError, also one out of remove_network, is swallowed), "
    "pop's `del` is outside its try; dict iteration order = insertion order, a re-assigned key keeps its place",
    "python-can can.Message constructor modelled (a remote frame keeps no data); Bus/Notifier not "
    "modelled: frames enter through Network.notify or MessageListener.on_message_received",
    "Spec/Multimap.lean (append-if-absent / erase multimap; per-(id,callback) activity bit) and "
    "Spec/ConnectionSet.lean (my reading of the CiA 301 predefined connection set)",
    "in the history ops the node handlers and the LSS handler are replaced, at class level and "
    "only inside the harness process, by pure loggers, so that what is compared is dispatch, not "
    "what a handler does with a frame; the fx ops run the unmodified handlers and observe their "
    "effects (emcy.log, nmt.timestamp, SDO response queues, frames sent by a local SDO server)",
]
ASSUMPTIONS = [
    "callbacks do not subscribe/unsubscribe during dispatch (DESIGN: not covered)",
    "a callback that raises ends Network.notify at once (later callbacks and the scanner do not "
    "see the frame); this is modelled, proved as such, and not claimed as a violation",
    "one Network object; a node object is only ever registered under its own node id "
    "(Network.__setitem__ asserts it)",
]
RULE = ("h: random histories (subscribe / unsubscribe one or all / add, replace, delete local and "
        "remote nodes through every entry of the mapping API: add_node/create_node, network[id]=node, "
        "setdefault, update (dict, keys()-object, iterable of pairs), del, pop, pop with default, popitem, "
        "clear, with len/iteration/keys/items/values/in/get read back / add_sdo / notify / listener frames "
        "with every attribute of can.Message varied (error, remote, is_rx, is_extended_id, is_fd, "
        "bitrate_switch, error_state_indicator, dlc, channel; through on_message_received and the way "
        "can.Notifier calls a listener) / scanner reset and read) over a pool of 6-9 CAN ids that contains the nodes' own COB-IDs, 0, 0x7E4 "
        "and a 29-bit id, 8 user callbacks (two of them raise) plus the node handlers themselves, "
        "3 node ids, 4-6 node objects local/remote mixed, lengths 5..400, every map entry probed at "
        "the end; one replace/remove script per node id 1..127; per node id removal/replacement scripts "
        "through each of the 10 mapping entries (quick: 2 per node id, all 10 for ids 1 and 127); all 128 "
        "combinations of the 7 frame flags on the node's COB-IDs, a user id and a 29-bit id; every 11-bit id once through "
        "notify/listener with the scanner read back; scan: every 11-bit id alone, "
        "boundary and seeded 29-bit ids, random id lists; tx/ptx: every 11-bit id, boundary and "
        "seeded 29-bit ids, data lengths 0..8, remote flag; fx (oracle only): real handlers' "
        "effects before/after removal through del/pop/popitem/clear/replacement.  non-trivial = at least one callback was invoked / a frame "
        "was built / the scanner listed a node")

logging.getLogger("canopen").setLevel(logging.CRITICAL + 1)
logging.getLogger("can").setLevel(logging.CRITICAL + 1)

N_USER = 8
RAISING_FROM = 6          # user callbacks 6 and 7 raise
LSS_ID = 0x7E4
# CiA 301 predefined connection set, objects transmitted by a node (the oracle's own table)
TX_SERVICES = (0x080, 0x180, 0x280, 0x380, 0x480, 0x580, 0x700)


def hx(b):
    return bytes(b).hex() if len(b) else "-"


def unhx(s):
    return b"" if s == "-" else bytes.fromhex(s)


# --------------------------------------------------------------------------- implementation
class FakeBus:
    """What Network needs from a python-can bus, recording instead of sending."""
    channel_info = "fake"

    def __init__(self):
        self.sent = []
        self.periodic = []

    def send(self, msg, timeout=None):
        self.sent.append(msg)

    def send_periodic(self, msg, period, *a, **k):
        self.periodic.append((msg, period))

        class Task:
            def stop(self):
                pass
        return Task()

    def shutdown(self):
        pass


class _Boom(Exception):
    pass


_DEFAULT = object()          # the default handed to pop() / get()
CHANNELS = [None, 0, "can0", 1, "vcan1"]


def bus_message(a):
    """the can.Message of an `r` step; the long form gives every attribute"""
    cid, ts = int(a[1]), float(int(a[3]))
    fl = a[4]
    if len(a) == 5:
        return can.Message(arbitration_id=cid, data=unhx(a[2]), timestamp=ts,
                           is_extended_id=cid > 0x7FF, is_error_frame=fl[0] == "1",
                           is_remote_frame=fl[1] == "1")
    return can.Message(arbitration_id=cid, data=unhx(a[2]), timestamp=ts,
                       is_error_frame=fl[0] == "1", is_remote_frame=fl[1] == "1", is_rx=fl[2] == "1",
                       is_extended_id=fl[3] == "1", is_fd=fl[4] == "1", bitrate_switch=fl[5] == "1",
                       error_state_indicator=fl[6] == "1", dlc=int(a[5]),
                       channel=CHANNELS[int(a[6]) % len(CHANNELS)])


_HANDLERS = [  # (class, method name)
    (SdoClient, "on_response"), (NmtMaster, "on_heartbeat"), (EmcyConsumer, "on_emcy"),
    (NmtBase, "on_command"), (NmtSlave, "on_command"), (SdoServer, "on_request"),
    (LssMaster, "on_message_received"),
]


@contextlib.contextmanager
def logging_handlers(log):
    """Replace the frame handlers of the protocol classes by pure loggers (class attribute
    assignment inside this process only; restored afterwards).  Bound methods of these loggers
    compare exactly like the real bound methods (same __self__, same function)."""
    saved = []
    try:
        for cls, name in _HANDLERS:
            if name not in cls.__dict__:
                raise RuntimeError(f"{cls.__name__}.{name} is gone")
            saved.append((cls, name, cls.__dict__[name]))

            def make(nm):
                def logger_(self, can_id, data, timestamp):
                    log.append((self, nm, can_id, data, timestamp))
                logger_.__name__ = nm
                return logger_
            setattr(cls, name, make(name))
        yield
    finally:
        for cls, name, orig in saved:
            setattr(cls, name, orig)


def parse_env(s):
    if s == "-":
        return []
    return [(int(t[:-1]), t[-1] == "l") for t in s.split(",")]


class World:
    def __init__(self, env):
        self.bus = FakeBus()
        self.net = canopen.Network(self.bus)
        self.env = env
        self.objs = []
        for nid, is_local in env:
            cls = canopen.LocalNode if is_local else canopen.RemoteNode
            self.objs.append(cls(nid, ObjectDictionary()))
        self.log = []
        self.users = [self._mk_user(k) for k in range(64)]

    def _mk_user(self, k):
        def cb(can_id, data, timestamp):
            self.log.append((None, k, can_id, data, timestamp))
            if k >= RAISING_FROM:
                raise _Boom(f"user callback {k}")
        return cb

    def callback(self, tag):
        if tag == "L":
            return self.net.lss.on_message_received
        if tag[0] == "u":
            return self.users[int(tag[1:])]
        o, h = tag[1:].split(".")
        node = self.objs[int(o)]
        if h == "hb":
            return node.nmt.on_heartbeat
        if h == "em":
            return node.emcy.on_emcy
        if h == "nc":
            return node.nmt.on_command
        if h == "rq":
            return node.sdo.on_request
        return node.sdo_channels[int(h[1:])].on_response

    def tag_of(self, slf, name):
        if slf is None:
            return f"u{name}"
        if slf is self.net.lss:
            return "L"
        for o, node in enumerate(self.objs):
            if slf is node.nmt:
                return f"o{o}." + {"on_heartbeat": "hb", "on_command": "nc"}.get(name, name)
            if slf is getattr(node, "emcy", None) and name == "on_emcy":
                return f"o{o}.em"
            if slf is node.sdo and name == "on_request":
                return f"o{o}.rq"
            for k, ch in enumerate(getattr(node, "sdo_channels", [])):
                if slf is ch:
                    return f"o{o}.s{k}"
        return f"?{type(slf).__name__}.{name}"

    def obj_tag(self, node):
        for o, cand in enumerate(self.objs):
            if cand is node:
                return f"o{o}"
        return "D" if node is _DEFAULT else f"?{type(node).__name__}"

    def view(self):
        """len / iteration / keys() / values() / items() / `in` / get / [] of the network, as one token; any
        disagreement between them shows"""
        net = self.net
        keys = list(net)
        odd = []
        if len(net) != len(keys):
            odd.append(f"len={len(net)}")
        if list(net.keys()) != keys:
            odd.append("keys()=" + "/".join(map(str, net.keys())))
        vals = list(net.values())
        items = list(net.items())
        if [k for k, _ in items] != keys or len(vals) != len(keys) \
                or any(v is not w for (_, v), w in zip(items, vals)):
            odd.append("items/values")
        for k, v in zip(keys, vals):
            if k not in net or net.get(k, _DEFAULT) is not v or net[k] is not v:
                odd.append(f"in/get/[]@{k}")
        for nid in sorted({nid for nid, _ in self.env} | {0, 128}):
            if nid not in keys:
                try:
                    net[nid]
                    odd.append(f"[]@{nid}")
                except KeyError:
                    pass
                if nid in net or net.get(nid, _DEFAULT) is not _DEFAULT:
                    odd.append(f"in/get@{nid}")
        body = ",".join(f"{k}={self.obj_tag(v)}" for k, v in zip(keys, vals))
        return "v[" + body + "]" + ("!" + ";".join(odd) if odd else "")

    def update(self, form, objs):
        """network.update(...) in one of the three shapes MutableMapping.update accepts; returns the number of
        items handed over when it raised, None when it returned"""
        pairs = [(self.objs[o].id, self.objs[o]) for o in objs]
        if form in ("d", "k") and len({k for k, _ in pairs}) != len(pairs):
            form = "i"                     # a dict cannot hold one key twice
        taken = [0]
        if form == "d":
            src = dict(pairs)

            class Watch(dict):
                def __getitem__(s, key):
                    taken[0] += 1
                    return dict.__getitem__(s, key)
            arg = Watch(src)
        elif form == "k":
            class Keyed:
                def keys(s):
                    return [k for k, _ in pairs]

                def __getitem__(s, key):
                    taken[0] += 1
                    return dict(pairs)[key]
            arg = Keyed()
        else:
            def it():
                for pr in pairs:
                    taken[0] += 1
                    yield pr
            arg = it()
        try:
            self.net.update(arg)
        except Exception:
            return taken[0] - 1
        return None

    def calls(self, can_id, data, ts):
        """Canonical invocation list since the last call; an invocation whose arguments are not
        the frame's own shows them."""
        out = []
        for slf, name, cid, d, t in self.log:
            tag = self.tag_of(slf, name)
            same = (cid == can_id and type(cid) is int and d is data and t == ts
                    and isinstance(t, float))
            out.append(tag if same else f"{tag}!{cid}/{hx(d)}/{t}")
        del self.log[:]
        return "[" + ",".join(out) + "]"


def run_history(env_s, steps):
    env = parse_env(env_s)
    log_sink = []
    with logging_handlers(log_sink):
        w = World(env)
        w.log = log_sink
        out = []
        for st in steps:
            a = st.split(":")
            k = a[0]
            try:
                if k == "s":
                    w.net.subscribe(int(a[1]), w.callback(a[2]))
                    out.append("ok")
                elif k == "u":
                    if a[2] == "*":
                        w.net.unsubscribe(int(a[1]))
                    else:
                        w.net.unsubscribe(int(a[1]), w.callback(a[2]))
                    out.append("ok")
                elif k == "a":
                    node = w.objs[int(a[1])]
                    if isinstance(node, canopen.LocalNode):
                        r = w.net.create_node(node)
                    else:
                        r = w.net.add_node(node)
                    out.append("ok" if r is node and w.net[node.id] is node else "ok-wrong-node")
                elif k == "d":
                    del w.net[int(a[1])]
                    out.append("ok")
                elif k == "c":
                    node = w.objs[int(a[1])]
                    node.add_sdo(0x600 + (int(a[2]) & 0x7F), int(a[2]))
                    out.append("ok")
                elif k == "n":
                    cid, data, ts = int(a[1]), bytearray(unhx(a[2])), float(int(a[3]))
                    try:
                        w.net.notify(cid, data, ts)
                        out.append("ok" + w.calls(cid, data, ts))
                    except _Boom:
                        out.append("err" + w.calls(cid, data, ts))
                elif k == "r":
                    cid, ts = int(a[1]), float(int(a[3]))
                    msg = bus_message(a)
                    if len(a) == 5:
                        w.net.listeners[0].on_message_received(msg)
                    else:
                        for listener in w.net.listeners:     # what can.Notifier does with a frame
                            listener(msg)
                    out.append("ok" + w.calls(cid, msg.data, ts))
                elif k == "i":
                    node = w.objs[int(a[1])]
                    w.net[node.id] = node
                    out.append("ok")
                elif k == "p":
                    out.append("ok=" + w.obj_tag(w.net.pop(int(a[1]))))
                elif k == "pd":
                    out.append("ok=" + w.obj_tag(w.net.pop(int(a[1]), _DEFAULT)))
                elif k == "pi":
                    key, node = w.net.popitem()
                    out.append(f"ok={key}/" + w.obj_tag(node))
                elif k == "x":
                    try:
                        w.net.clear()
                        r = "ok"
                    except Exception:
                        r = "err"
                    out.append(r + "<" + ",".join(str(n) for n in w.net) + ">")
                elif k == "up":
                    if a[1] not in ("d", "k", "i"):
                        return "bad-op"
                    at = w.update(a[1], [] if a[2] == "-" else [int(o) for o in a[2].split("+")])
                    out.append("ok" if at is None else f"err@{at}")
                elif k == "sd":
                    node = w.objs[int(a[1])]
                    out.append("ok=" + w.obj_tag(w.net.setdefault(node.id, node)))
                elif k == "v":
                    out.append(w.view())
                elif k == "z":
                    w.net.scanner.reset()
                    out.append("ok")
                elif k == "q":
                    out.append("q[" + ",".join(str(n) for n in w.net.scanner.nodes) + "]")
                else:
                    return "bad-op"
            except _Boom:
                out.append("err-boom")
            except Exception:
                del w.log[:]
                out.append("err")
        return " ".join(out)


def show_msg(m):
    return f"ok {m.arbitration_id} {int(bool(m.is_extended_id))} {hx(m.data)} {int(bool(m.is_remote_frame))}"


def run_impl(op):
    a = op.split(" ")
    if a[0] == "h":
        return run_history(a[1], a[2:])
    if a[0] == "fx":
        return run_effects(a[1], a[2:])
    if a[0] == "tx":
        bus = FakeBus()
        net = canopen.Network(bus if a[4] == "1" else None)
        try:
            net.send_message(int(a[1]), unhx(a[2]), a[3] == "1")
        except Exception:
            return "err"
        if len(bus.sent) != 1:
            return f"sent {len(bus.sent)} frames"
        m = bus.sent[0]
        if m.is_error_frame or m.is_fd or m.dlc != len(m.data):
            return "odd-frame"
        return show_msg(m)
    if a[0] == "ptx":
        bus = FakeBus()
        net = canopen.Network(bus)
        try:
            task = net.send_periodic(int(a[1]), unhx(a[2]), 0.5, a[3] == "1")
        except Exception:
            return "err"
        if len(bus.periodic) != 1 or bus.periodic[0][0] is not task.msg or bus.periodic[0][1] != 0.5:
            return "odd-task"
        return show_msg(task.msg)
    if a[0] == "pup":
        # `pup id data0 remote data1,data2,… mod`: a periodic task whose payload is updated; the message the bus
        # holds afterwards (mod=1: handed to modify_data; mod=0: handed to the last send_periodic)
        mod = a[5] == "1"
        seen = []

        class UBus(FakeBus):
            def send_periodic(self, msg, period, *aa, **kk):
                seen.append(msg)

                class Task:
                    def stop(self):
                        pass
                if mod:
                    Task.modify_data = lambda self, m: seen.append(m)
                return Task()
        net = canopen.Network(UBus())
        try:
            task = net.send_periodic(int(a[1]), unhx(a[2]), 0.5, a[3] == "1")
            for d in a[4].split(","):
                task.update(unhx(d))
        except Exception:
            return "err"
        return show_msg(seen[-1])
    if a[0] == "scan":
        sc = nw.NodeScanner()
        for i in ([] if a[1] == "-" else a[1].split(",")):
            sc.on_message_received(int(i))
        return "q[" + ",".join(str(n) for n in sc.nodes) + "]"
    return "bad-op"


# ---- fx: the unmodified handlers, observed through their effects ----------------------------
def effects(w):
    """Observable per-object state that only a frame handler changes."""
    out = []
    for node in w.objs:
        if isinstance(node, canopen.RemoteNode):
            out.append((len(node.emcy.log), node.nmt.timestamp,
                        tuple(ch.responses.qsize() for ch in node.sdo_channels)))
        else:
            out.append((sum(1 for m in w.bus.sent if m.arbitration_id == node.sdo.tx_cobid),))
    return out


def run_effects(env_s, steps):
    """Same step language (a/d/n/c and the mapping steps i/p/pd/pi/x/up/sd); frames are well-formed for the
    service of their id.
    Output: after every step the effect tuples of all objects."""
    env = parse_env(env_s)
    w = World(env)
    out = []
    for st in steps:
        a = st.split(":")
        try:
            if a[0] == "a":
                node = w.objs[int(a[1])]
                (w.net.create_node if isinstance(node, canopen.LocalNode) else w.net.add_node)(node)
                r = "ok"
            elif a[0] == "d":
                del w.net[int(a[1])]
                r = "ok"
            elif a[0] == "i":
                w.net[w.objs[int(a[1])].id] = w.objs[int(a[1])]
                r = "ok"
            elif a[0] == "p":
                w.net.pop(int(a[1]))
                r = "ok"
            elif a[0] == "pd":
                w.net.pop(int(a[1]), _DEFAULT)
                r = "ok"
            elif a[0] == "pi":
                w.net.popitem()
                r = "ok"
            elif a[0] == "x":
                w.net.clear()
                r = "ok"
            elif a[0] == "up":
                r = "ok" if w.update(a[1], [int(o) for o in a[2].split("+")]) is None else "err"
            elif a[0] == "sd":
                w.net.setdefault(w.objs[int(a[1])].id, w.objs[int(a[1])])
                r = "ok"
            elif a[0] == "c":
                w.objs[int(a[1])].add_sdo(0x600, int(a[2]))
                r = "ok"
            elif a[0] == "n":
                w.net.notify(int(a[1]), bytearray(unhx(a[2])), float(int(a[3])))
                r = "ok"
            else:
                return "bad-op"
        except Exception:
            r = "err"
        out.append(r + repr(effects(w)).replace(" ", ""))
    return " ".join(out)


def oracle_effects(op, out):
    """A registered node's handlers react to its frames; after a successful delete / replace the
    old object's observable state never changes again (until it is added again)."""
    a = op.split(" ")
    env = parse_env(a[1])
    steps = a[2:]
    toks = out.split(" ")
    if len(toks) != len(steps):
        return f"effects: {out[:80]}"
    reg = {}
    chans = {o: [0x580 + nid] for o, (nid, loc) in enumerate(env) if not loc}
    prev = [((0, None, (0,)) if not loc else (0,)) for nid, loc in env]
    for i, (st, tok) in enumerate(zip(steps, toks)):
        ok = tok.startswith("ok")
        cur = eval(tok[2 if ok else 3:], {"__builtins__": {}}, {"None": None})  # tuples of ints only
        s = st.split(":")
        exp = [list(p) if len(p) == 1 else [p[0], p[1], list(p[2])] for p in prev]
        if s[0] in ("a", "i"):
            if not ok:
                return f"effects: step {i} adding a node raised"
            reg[env[int(s[1])][0]] = int(s[1])
        elif s[0] in ("d", "p"):
            if ok != (int(s[1]) in reg):
                return (f"effects: step {i} ({st}) removing a node id that is "
                        f"{'in the network raised' if not ok else 'not in the network returned'}")
            reg.pop(int(s[1]), None)
        elif s[0] == "pd":
            if not ok:
                return f"effects: step {i} ({st}) pop(id, default) raised"
            reg.pop(int(s[1]), None)
        elif s[0] == "pi":
            if ok != bool(reg):
                return f"effects: step {i} ({st}) popitem() {'raised' if not ok else 'of an empty network returned'}"
            if reg:
                del reg[next(iter(reg))]
        elif s[0] == "x":
            if not ok:
                return f"effects: step {i} ({st}) clear() raised"
            reg.clear()
        elif s[0] == "up":
            if not ok:
                return f"effects: step {i} ({st}) update() raised"
            for o in s[2].split("+"):
                reg[env[int(o)][0]] = int(o)
        elif s[0] == "sd":
            if not ok:
                return f"effects: step {i} ({st}) setdefault() raised"
            reg.setdefault(env[int(s[1])][0], int(s[1]))
        elif s[0] == "c":
            chans[int(s[1])].append(int(s[2]))
            exp[int(s[1])][2].append(0)
        elif s[0] == "n":
            cid, ts = int(s[1]), float(int(s[3]))
            for nid, o in reg.items():
                if env[o][1]:
                    if cid == 0x600 + nid:
                        exp[o][0] += 1
                else:
                    if cid == 0x80 + nid:
                        exp[o][0] += 1
                    if cid == 0x700 + nid:
                        exp[o][1] = ts
                    for k, tx in enumerate(chans[o]):
                        if tx == cid:
                            exp[o][2][k] += 1
        exp = [tuple(e) if len(e) == 1 else (e[0], e[1], tuple(e[2])) for e in exp]
        for o, (e, c) in enumerate(zip(exp, cur)):
            if e != c:
                if env[o][0] in reg and reg[env[o][0]] == o:
                    return (f"delivery: step {i} ({st}): registered node object {o} shows {c}, "
                            f"expected {e}")
                return (f"removed-node: step {i} ({st}): node object {o} is not in the network "
                        f"but its handlers reacted: {c}, expected {e}")
        prev = cur
    return None


# ----------------------------------------------------------------------------------- oracle
def ref_node_of(can_id):
    if can_id > 0x7FF:
        return None
    for s in TX_SERVICES:
        if 1 <= can_id - s <= 127:
            return can_id - s
    return None


def ref_scan(nodes, can_id):
    n = ref_node_of(can_id)
    if n is not None and n not in nodes:
        nodes.append(n)


def raises(tag):
    return tag[0] == "u" and int(tag[1:]) >= RAISING_FROM


def parse_calls(tok):
    """'ok[a,b]' -> ('ok', ['a','b'])"""
    i = tok.find("[")
    if i < 0 or not tok.endswith("]"):
        return tok, None
    body = tok[i + 1:-1]
    return tok[:i], (body.split(",") if body else [])


def parse_keys(tok):
    """'ok<5,7>' -> ('ok', [5, 7])"""
    i = tok.find("<")
    if i < 0 or not tok.endswith(">"):
        return tok, None
    body = tok[i + 1:-1]
    try:
        return tok[:i], ([int(x) for x in body.split(",")] if body else [])
    except ValueError:
        return tok, None


def oracle_history(op, out):
    a = op.split(" ")
    env = parse_env(a[1])
    steps = a[2:]
    toks = out.split(" ")
    if len(toks) != len(steps):
        return f"harness: {len(toks)} results for {len(steps)} steps: {out[:120]}"
    M = {LSS_ID: ["L"]}          # reference multimap: CAN id -> callbacks in subscription order
    taint = set()                # (id, tag) whose membership a *failed* removal left undefined
    reg = {}                     # node id -> object
    chans = {o: [0x580 + nid] for o, (nid, loc) in enumerate(env) if not loc}
    scan = []

    def handlers(o):
        nid, loc = env[o]
        if loc:
            return [(0x600 + nid, f"o{o}.rq"), (0, f"o{o}.nc")]
        return ([(tx, f"o{o}.s{k}") for k, tx in enumerate(chans[o])]
                + [(0x700 + nid, f"o{o}.hb"), (0x80 + nid, f"o{o}.em"), (0, f"o{o}.nc")])

    def sub(i, c):
        l = M.setdefault(i, [])
        if c not in l:
            l.append(c)

    def remove_old(old, ok, i, st):
        H = handlers(old)
        complete = all((j, c) not in taint and c in M.get(j, []) for j, c in H)
        if ok:
            for j, c in H:
                if c in M.get(j, []):
                    M[j].remove(c)
                taint.discard((j, c))
            return None
        if complete:
            return (f"removal: step {i} ({st}): removing node object {old}, all of whose handlers "
                    f"are subscribed, raised")
        for j, c in H:
            if c in M.get(j, []) or (j, c) in taint:
                taint.add((j, c))
        return False

    def do_set(o, ok, i, st):
        """network[node.id] = node (add_node, create_node, update, setdefault on a free id)"""
        nid = env[o][0]
        if nid in reg:
            r = remove_old(reg[nid], ok, i, st)
            if r or r is False:
                return r or None
        elif not ok:
            return f"add: step {i} ({st}): adding a node on a free node id raised"
        reg[nid] = o          # a dict keeps the position of a key that is assigned again
        for j, c in handlers(o):
            sub(j, c)
        return None

    for i, (st, tok) in enumerate(zip(steps, toks)):
        s = st.split(":")
        k = s[0]
        if tok.startswith("HARNESS") or tok in ("err-boom", "ok-wrong-node", "bad-op"):
            return f"harness: step {i} ({st}) -> {tok}"
        if k == "s":
            if tok != "ok":
                return f"subscribe: step {i} ({st}) raised"
            sub(int(s[1]), s[2])
        elif k == "u":
            j = int(s[1])
            if s[2] == "*":
                M[j] = []
                for p in [p for p in taint if p[0] == j]:
                    taint.discard(p)
            else:
                if s[2] in M.get(j, []):
                    if tok != "ok" and (j, s[2]) not in taint:
                        return f"unsubscribe: step {i} ({st}): a subscribed callback could not be removed"
                    M[j].remove(s[2])
                taint.discard((j, s[2]))
        elif k in ("a", "i"):
            r = do_set(int(s[1]), tok == "ok", i, st)
            if r:
                return r
            if tok not in ("ok", "err"):
                return f"harness: step {i} ({st}) -> {tok}"
        elif k in ("d", "p", "pd", "pi"):
            res, _, val = tok.partition("=")
            ok = res == "ok"
            if res not in ("ok", "err") or (k == "d" and val):
                return f"harness: step {i} ({st}) -> {tok}"
            if k == "pi":
                nid = next(iter(reg), None)
            else:
                nid = int(s[1])
            if nid is None or nid not in reg:
                # nothing to remove: KeyError, or the default handed to pop()
                if k == "pd":
                    if tok != "ok=D":
                        return (f"node-table: step {i} ({st}): pop(id, default) of an id that is not in the "
                                f"network gave {tok}, expected the default")
                elif ok:
                    return (f"node-table: step {i} ({st}): nothing to remove "
                            f"({'the network is empty' if nid is None else f'node id {nid} is not in the network'}) "
                            f"but the call returned {tok}")
                continue
            old = reg[nid]
            r = remove_old(old, ok, i, st)
            if r:
                return r
            if r is False:
                continue
            del reg[nid]
            want = {"d": "", "p": f"o{old}", "pd": f"o{old}", "pi": f"{nid}/o{old}"}[k]
            if val != want:
                return (f"node-table: step {i} ({st}): removed node object {old} (node id {nid}, the "
                        f"{'first in iteration order' if k == 'pi' else 'one asked for'}) but the call returned "
                        f"{val or 'nothing'}, expected {want}")
        elif k == "x":
            res, keys = parse_keys(tok)
            if keys is None or res not in ("ok", "err"):
                return f"harness: step {i} ({st}) -> {tok}"
            before = list(reg)
            if any(n not in reg for n in keys) or len(set(keys)) != len(keys):
                return (f"node-table: step {i} ({st}): after clear() the network lists {keys}, before it "
                        f"held {before}")
            def complete(o):
                return all((j, c) not in taint and c in M.get(j, []) for j, c in handlers(o))
            stuck = [n for n in keys if not complete(reg[n])]
            if keys and not stuck:
                return (f"removal: step {i} ({st}): clear() left node id(s) {keys} in the network although "
                        f"all their handlers are subscribed (nothing can have made their removal fail)")
            if not keys and res != "ok":
                return f"removal: step {i} ({st}): clear() removed every node and still raised"
            for n in before:
                if n not in keys:
                    r = remove_old(reg[n], True, i, st)
                    del reg[n]
            for n in stuck:          # any of these may be the one whose removal stopped half-way
                remove_old(reg[n], False, i, st)
        elif k == "up":
            objs = [] if s[2] == "-" else [int(o) for o in s[2].split("+")]
            if tok == "ok":
                at = len(objs)
            elif tok.startswith("err@") and tok[4:].isdigit() and int(tok[4:]) < len(objs):
                at = int(tok[4:])
            else:
                return f"harness: step {i} ({st}) -> {tok}"
            for n_, o in enumerate(objs[:at + 1]):
                r = do_set(o, n_ < at, i, st)
                if r:
                    return r
        elif k == "sd":
            o = int(s[1])
            nid = env[o][0]
            if nid in reg:
                if tok != f"ok=o{reg[nid]}":
                    return (f"node-table: step {i} ({st}): setdefault on node id {nid}, which holds node "
                            f"object {reg[nid]}, gave {tok} (it must hand back that node and change nothing)")
            else:
                if tok != f"ok=o{o}":
                    return f"add: step {i} ({st}): setdefault on a free node id gave {tok}"
                do_set(o, True, i, st)
        elif k == "v":
            want = "v[" + ",".join(f"{n}=o{o}" for n, o in reg.items()) + "]"
            if tok != want:
                return (f"node-table: step {i} ({st}): len / iteration / keys / items / in / get of the "
                        f"network show {tok}, the history of additions and removals gives {want}")
        elif k == "c":
            o = int(s[1])
            if not env[o][1]:
                if tok != "ok":
                    return f"add_sdo: step {i} ({st}) raised"
                chans[o].append(int(s[2]))
                if reg.get(env[o][0]) == o:
                    sub(int(s[2]), f"o{o}.s{len(chans[o]) - 1}")
        elif k in ("n", "r"):
            cid = int(s[1])
            res, calls = parse_calls(tok)
            if calls is None:
                return f"harness: step {i} ({st}) -> {tok}"
            if k == "r" and (s[4][0] == "1" or s[4][1] == "1"):
                if calls or res != "ok":
                    return (f"listener: step {i} ({st}): an error/remote frame was dispatched: {tok}")
                continue
            for c in calls:
                if "!" in c:
                    return (f"args: step {i} ({st}): a callback did not get the frame's own id, "
                            f"data and timestamp: {c}")
            if len(set(calls)) != len(calls):
                return f"dup: step {i} ({st}): a callback was invoked more than once: {tok}"
            exp = [c for c in M.get(cid, []) if (cid, c) not in taint]
            obs = [c for c in calls if (cid, c) not in taint]
            boom = False
            for n_, c in enumerate(exp):
                if raises(c):
                    exp = exp[:n_ + 1]
                    boom = True
                    break
            if obs != exp:
                gone = [c for c in obs if c not in M.get(cid, []) and c[0] == "o"]
                if gone and all(reg.get(env[int(c[1:].split('.')[0])][0]) != int(c[1:].split('.')[0])
                                for c in gone):
                    return (f"removed-node: step {i} ({st}): handler(s) {gone} of a node object that "
                            f"is no longer in the network saw the frame; invoked {obs}, "
                            f"subscribed {exp}")
                return (f"delivery: step {i} ({st}): invoked {obs}, subscribed at that moment "
                        f"(in subscription order) {exp}")
            want = "ok" if (k == "r" or not boom) else "err"
            if res != want:
                return (f"listener: step {i} ({st}): result {res}, expected {want} "
                        f"(a raising callback {'must not escape the listener' if k == 'r' else 'propagates out of notify'})")
            if not boom:
                ref_scan(scan, cid)
        elif k == "z":
            scan = []
        elif k == "q":
            want = "q[" + ",".join(str(n) for n in scan) + "]"
            if tok != want:
                return f"scanner: step {i} ({st}): scanner lists {tok}, expected {want}"
    return None


def oracle(op, out):
    a = op.split(" ")
    if out.startswith("HARNESS"):
        return f"harness: {out}"
    if a[0] == "h":
        return oracle_history(op, out)
    if a[0] == "fx":
        return oracle_effects(op, out)
    if a[0] == "pup":
        # same rule as ptx, for the last payload given
        last = a[4].split(",")[-1]
        return oracle(f"ptx {a[1]} {last} {a[3]}", out)
    if a[0] in ("tx", "ptx"):
        cid, data, rem = int(a[1]), a[2], a[3]
        if a[0] == "tx" and a[4] == "0":
            return None if out == "err" else f"format: sending without a bus gave {out}"
        b = out.split(" ")
        if b[0] != "ok" or len(b) != 5:
            return f"format: sending id {cid:#x} gave {out}"
        if int(b[1]) != cid:
            return f"format: frame carries id {int(b[1]):#x}, not {cid:#x}"
        if b[2] != ("1" if cid > 0x7FF else "0"):
            return f"format: id {cid:#x} sent with extended={b[2]}"
        if b[4] != rem:
            return f"format: remote flag {b[4]}, asked for {rem}"
        if b[3] != data and not (rem == "1" and b[3] == "-"):
            return f"format: data {b[3]}, asked for {data}"
        return None
    if a[0] == "scan":
        nodes = []
        for i in ([] if a[1] == "-" else a[1].split(",")):
            ref_scan(nodes, int(i))
        want = "q[" + ",".join(str(n) for n in nodes) + "]"
        if out != want:
            ext = any(int(i) > 0x7FF for i in a[1].split(",")) if a[1] != "-" else False
            return (f"scanner{'-extended-id' if ext else ''}: ids {a[1][:200]} -> {out}, "
                    f"predefined connection set says {want}")
        return None
    return None


def signature(op, what):
    return f"{op.split(' ')[0]}:{what.split(':')[0]}"


def nontrivial(op, out):
    a = op.split(" ")
    if a[0] == "h":
        return any(t.startswith(("ok[", "err[")) and not t.endswith("[]") for t in out.split(" "))
    if a[0] == "fx":
        return "ok" in out
    if a[0] == "scan":
        return out != "q[]"
    return out.startswith("ok")


MAPPING_STEPS = ("i", "p", "pd", "pi", "x", "up", "sd", "v")


def classify(op, out):
    a = op.split(" ")
    if a[0] == "h":
        n = len(a) - 2
        size = "<=20" if n <= 20 else "<=100" if n <= 100 else ">100"
        mp = any(t.split(":")[0] in MAPPING_STEPS for t in a[2:])
        return f"h:{size}:{'err' if 'err' in out else 'clean'}{':map' if mp else ''}"
    if a[0] == "scan":
        return "scan:" + ("hit" if out != "q[]" else "none")
    if a[0] == "fx":
        return "fx:" + ("err" if " err" in " " + out else "ok")
    return f"{a[0]}:{out.split(' ')[0]}"


def model_skips(op):
    return op.startswith("fx ")


def shrink_candidates(op):
    a = op.split(" ")
    if a[0] in ("h", "fx"):
        head, steps = a[:2], a[2:]
        n = len(steps)
        size = n // 2
        while size >= 1:
            for start in range(0, n, size):
                cand = steps[:start] + steps[start + size:]
                if cand:
                    yield " ".join(head + cand)
            if size == 1:
                break
            size //= 2
        for k, st in enumerate(steps):      # smaller steps: shorter update lists, plain frames
            f = st.split(":")
            if f[0] == "up" and "+" in f[2]:
                objs = f[2].split("+")
                for j in range(len(objs)):
                    yield " ".join(head + steps[:k] + [f"up:{f[1]}:" + "+".join(objs[:j] + objs[j + 1:])]
                                   + steps[k + 1:])
            elif f[0] == "r" and len(f) == 8:
                n_ = 0 if f[2] == "-" else len(f[2]) // 2
                plain = f[4][:2] + "1" + ("1" if int(f[1]) > 0x7FF else "0") + "000"
                if (f[4], f[5], f[6]) != (plain, str(n_), "0"):
                    yield " ".join(head + steps[:k] + [f"r:{f[1]}:{f[2]}:{f[3]}:{plain}:{n_}:0"] + steps[k + 1:])
    elif a[0] == "scan" and a[1] != "-":
        ids = a[1].split(",")
        for i in range(len(ids)):
            cand = ids[:i] + ids[i + 1:]
            if cand:
                yield "scan " + ",".join(cand)
    elif a[0] in ("tx", "ptx") and a[2] != "-":
        yield " ".join([a[0], a[1], "-"] + a[3:])


# -------------------------------------------------------------------------------- generator
def rdata(rng):
    n = rng.choice([0, 1, 2, 8, 8, rng.randrange(0, 9)])
    return hx(bytes(rng.getrandbits(8) for _ in range(n)))


def rflags(rng, cid, ts, fl):
    """a listener frame with every attribute of can.Message chosen: is_rx, is_extended_id (not tied to the id),
    is_fd, bitrate_switch, error_state_indicator, dlc (mostly, not always, the data length), channel"""
    fd = rng.random() < 0.25
    if fd and rng.random() < 0.5:
        data = hx(bytes(rng.getrandbits(8) for _ in range(rng.choice([12, 16, 24, 64]))))
    else:
        data = rdata(rng)
    n = 0 if data == "-" else len(data) // 2
    flags = fl + rng.choice("01") + rng.choice("01") + ("1" if fd else "0") \
        + ("1" if fd and rng.random() < 0.5 else rng.choice("0001")) + rng.choice("0001")
    dlc = n if rng.random() < 0.7 else rng.choice([0, 1, 8, 15, n + 1, 64])
    return f"r:{cid}:{data}:{ts}:{flags}:{dlc}:{rng.randrange(5)}"


REMOVALS = ("d", "p", "pd", "pi", "x", "i", "a", "up:d", "up:k", "up:i")


def mapping_script(nid, kind, rng):
    """two nodes registered (one under `nid`, remote, with an extra SDO channel; one local under another id),
    then the node under `nid` is removed / replaced in one of the ways the mapping API offers; every COB-ID of
    both nodes is probed before and after, the node table is read back"""
    other = nid % 127 + 1
    ids = [0, 0x700 + nid, 0x80 + nid, 0x580 + nid, 0x600 + nid, 0x5C0 + (nid & 0x3F), 0x600 + other]
    ts = [0]

    def probe():
        out = []
        for c in ids:
            ts[0] += 1
            out.append(f"n:{c}:{rdata(rng)}:{ts[0]}" if rng.random() < 0.5 else rflags(rng, c, ts[0], "00"))
        return out
    # objects: 0 remote nid, 1 local other, 2 local nid (the replacement), 3 remote nid
    first = ["a:0", "a:1"] if kind != "pi" or rng.random() < 0.5 else ["a:0", "sd:1"]
    steps = first + [f"c:0:{0x5C0 + (nid & 0x3F)}", "v"] + probe()
    if kind in ("d", "p", "pd"):
        steps.append(f"{kind}:{nid}")
    elif kind in ("pi", "x"):
        steps.append(kind)
    elif kind in ("i", "a"):
        steps.append(f"{kind}:2")
    else:
        steps.append(f"{kind}:" + rng.choice(["2", "2+1", "1+2", "3+2" if kind == "up:i" else "2"]))
    steps += ["v"] + probe()
    steps += [rng.choice(["x", "pi", f"pd:{nid}", f"sd:3", "up:i:3+0"]), "v"] + probe() + ["x", "v"] + probe() + ["q"]
    return f"h {nid}r,{other}l,{nid}l,{nid}r " + " ".join(steps)


def flag_sweep(cid, nid, rng, remote):
    """every combination of the seven flags of a received frame on one CAN id, through the listener"""
    combos = list(range(128))
    rng.shuffle(combos)
    steps = ["a:0", f"s:{cid}:u0", f"s:{cid}:u1"]
    for t, m in enumerate(combos):
        bits = f"{m:07b}"
        data = rdata(rng)
        n = 0 if data == "-" else len(data) // 2
        steps.append(f"r:{cid}:{data}:{t + 1}:{bits}:{rng.choice([n, n, 0, 8, 15])}:{rng.randrange(5)}")
    return f"h {nid}{'r' if remote else 'l'} " + " ".join(steps) + " q"


def gen_history(rng, length, nids=None):
    nids = nids or rng.sample(range(1, 128), 3)
    if rng.random() < 0.3:
        nids[0] = rng.choice([1, 127])
    nobj = rng.randint(4, 6)
    env = []
    for o in range(nobj):
        env.append((nids[o % 3] if o < 3 else rng.choice(nids), rng.random() < 0.4))
    nchan = {o: 1 for o, (nid, loc) in enumerate(env) if not loc}
    focus = nids[0]
    pool = [0, 0x700 + focus, 0x80 + focus, 0x580 + focus, 0x600 + focus, LSS_ID]
    pool += rng.sample([0x123, 0x700 + nids[1], 0x580 + nids[1], 0x80 + nids[2], 0x600 + nids[2],
                        0x10000700 + focus, 0x1FFFFFFF, 0x800 + 0x700 + focus, 0x180 + focus,
                        0x7FF, 0x800], rng.randint(1, 3))

    def node_cb():
        o = rng.randrange(nobj)
        if env[o][1]:
            return f"o{o}." + rng.choice(["rq", "nc"])
        return f"o{o}." + rng.choice(["hb", "em", "nc", f"s{rng.randrange(nchan[o])}"])

    def any_cb():
        r = rng.random()
        if r < 0.12:
            return node_cb()
        if r < 0.16:
            return "L"
        if r < 0.22:
            return f"u{rng.randrange(RAISING_FROM, N_USER)}"
        return f"u{rng.randrange(0, RAISING_FROM)}"

    def add_step():
        """one of the ways a node gets into the network (or replaces the one filed under its id)"""
        o = rng.randrange(nobj)
        v = rng.random()
        if v < 0.55:
            return f"a:{o}"
        if v < 0.70:
            return f"i:{o}"
        if v < 0.82:
            return f"sd:{o}"
        form = rng.choice("dki")
        objs = [rng.randrange(nobj) for _ in range(rng.choice([1, 2, 2, 3, 4]))]
        if form != "i":                     # a mapping holds every key once
            seen, uniq = set(), []
            for x in objs:
                if env[x][0] not in seen:
                    seen.add(env[x][0])
                    uniq.append(x)
            objs = uniq
        if rng.random() < 0.05:
            objs = []
        return f"up:{form}:" + ("+".join(map(str, objs)) or "-")

    def del_step():
        """one of the ways a node leaves the network"""
        nid = rng.choice(nids) if rng.random() < 0.92 else rng.choice([0, 128, nids[0] % 127 + 1])
        v = rng.random()
        if v < 0.40:
            return f"d:{nid}"
        if v < 0.55:
            return f"p:{nid}"
        if v < 0.70:
            return f"pd:{nid}"
        if v < 0.86:
            return "pi"
        return "x"

    steps = []
    ts = 0
    for _ in range(length):
        r = rng.random()
        cid = rng.choice(pool)
        if r < 0.20:
            steps.append(f"s:{cid}:{any_cb()}")
        elif r < 0.30:
            steps.append(f"u:{cid}:{'*' if rng.random() < 0.2 else any_cb()}")
        elif r < 0.41:
            steps.append(add_step())
            if rng.random() < 0.15:
                steps.append("v")
        elif r < 0.47:
            steps.append(del_step())
            if rng.random() < 0.4:
                steps.append("v")
        elif r < 0.50:
            o = rng.randrange(nobj)
            steps.append(f"c:{o}:{rng.choice(pool + [0x5C0 + env[o][0]])}")
            if not env[o][1]:
                nchan[o] += 1
        elif r < 0.86:
            ts += 1
            steps.append(f"n:{cid}:{rdata(rng)}:{ts}")
        elif r < 0.93:
            ts += 1
            fl = rng.choice(["00", "00", "00", "10", "01", "11"])
            if rng.random() < 0.4:
                steps.append(f"r:{cid}:{rdata(rng)}:{ts}:{fl}")
            else:
                steps.append(rflags(rng, cid, ts, fl))
        elif r < 0.94:
            steps.append("z")
        else:
            steps.append("q" if rng.random() < 0.6 else "v")
    for cid in pool:                      # probe the whole map, then the scanner and the node table
        ts += 1
        if rng.random() < 0.5:
            steps.append(f"r:{cid}:{rdata(rng)}:{ts}:00")
        else:
            steps.append(rflags(rng, cid, ts, "00"))
    steps.append("q")
    steps.append("v")
    envs = ",".join(f"{nid}{'l' if loc else 'r'}" for nid, loc in env)
    return f"h {envs} " + " ".join(steps)


def node_script(nid, rng):
    """replace remote by local by remote, then delete, probing all COB-IDs of the node id"""
    ids = [0, 0x700 + nid, 0x80 + nid, 0x580 + nid, 0x600 + nid]
    ts = [0]

    def probe():
        out = []
        for c in ids:
            ts[0] += 1
            out.append(f"n:{c}:{rdata(rng)}:{ts[0]}")
        return out
    steps = ["a:0"] + probe() + ["a:1"] + probe() + ["a:2"] + probe() + ["a:2"] + probe() \
        + [f"d:{nid}"] + probe() + ["q"]
    return f"h {nid}r,{nid}l,{nid}r " + " ".join(steps)


def gen_effects(rng, length):
    nids = rng.sample(range(1, 128), 2)
    env = [(nids[0], False), (nids[0], True), (nids[0], False), (nids[1], False), (nids[1], True)]
    reg = {}
    nchan = {0: [0x580 + nids[0]], 2: [0x580 + nids[0]], 3: [0x580 + nids[1]]}
    steps = []
    ts = 0
    for _ in range(length):
        r = rng.random()
        if r < 0.2:
            o = rng.randrange(len(env))
            v = rng.random()
            if v < 0.5:
                steps.append(f"a:{o}")
                reg[env[o][0]] = o
            elif v < 0.65:
                steps.append(f"i:{o}")
                reg[env[o][0]] = o
            elif v < 0.8:
                steps.append(f"sd:{o}")
                reg.setdefault(env[o][0], o)
            else:
                o2 = rng.randrange(len(env))
                form = "i" if env[o][0] == env[o2][0] else rng.choice("dki")
                steps.append(f"up:{form}:{o}+{o2}")
                reg[env[o][0]] = o
                reg[env[o2][0]] = o2
        elif r < 0.3 and reg:
            nid = rng.choice(sorted(reg))
            v = rng.random()
            if v < 0.4:
                steps.append(f"d:{nid}")
                del reg[nid]
            elif v < 0.55:
                steps.append(f"{rng.choice(['p', 'pd'])}:{nid}")
                del reg[nid]
            elif v < 0.8:
                steps.append("pi")
                del reg[next(iter(reg))]
            else:
                steps.append("x")
                reg.clear()
        elif r < 0.33:
            o = rng.choice([0, 2, 3])
            tx = 0x5C0 + rng.randrange(1, 4)
            steps.append(f"c:{o}:{tx}")
            nchan[o].append(tx)
        else:
            ts += 1
            nid = rng.choice(nids)
            kind = rng.randrange(5)
            if kind == 0:
                steps.append(f"n:{0x700 + nid}:{rng.choice(['00', '05', '7f', '04'])}:{ts}")
            elif kind == 1:
                steps.append(f"n:{0x80 + nid}:{hx(bytes(rng.getrandbits(8) for _ in range(8)))}:{ts}")
            elif kind == 2:
                steps.append(f"n:{0x580 + nid}:{hx(bytes(rng.getrandbits(8) for _ in range(8)))}:{ts}")
            elif kind == 3:   # upload request for an object that does not exist -> one abort frame
                steps.append(f"n:{0x600 + nid}:4000200000000000:{ts}")
            else:
                steps.append(f"n:{0x5C0 + rng.randrange(1, 4)}:{hx(bytes(8))}:{ts}")
    envs = ",".join(f"{nid}{'l' if loc else 'r'}" for nid, loc in env)
    return f"fx {envs} " + " ".join(steps)


def gen_ops(tier, rng):
    thorough = tier == "thorough"
    # --- scanner: every 11-bit id alone
    for cid in range(0x800):
        yield f"scan {cid}"
    ext = [0x800, 0x801, 0x87F, 0x880, 0x881, 0xF01, 0xFFF, 0x1000, 0x1701, 0x10000701, 0x10000581,
           0x1FFFFFFF, 0x1FFFFF01, 0x1FFFF881, (1 << 29) - 0x80 + 1, 0x18FF0081, 0x0CF00401]
    for s in (0x700, 0x580, 0x180, 0x280, 0x380, 0x480, 0x80, 0x200, 0x600, 0):
        for n in (0, 1, 127):
            for hi in (0x800, 0x1000, 0x10000, 0x10000000, 0x1FFFF800):
                ext.append(hi + s + n)
    for _ in range(3000 if thorough else 300):
        ext.append((rng.getrandbits(18) << 11) | rng.choice([0x700, 0x580, 0x180, 0x80, 0x100, 0x600])
                   | rng.randrange(0, 128))
        ext.append(rng.getrandbits(29))
    for cid in ext:
        yield f"scan {cid}"
    for _ in range(2000 if thorough else 200):
        n = rng.choice([2, 3, 5, 10, 40])
        base = [rng.choice([0x700, 0x580, 0x180, 0x280, 0x380, 0x480, 0x80, 0x600, 0x200, 0])
                + rng.choice([0, 1, 2, 3, 127, rng.randrange(128)]) for _ in range(n)]
        base = [b if rng.random() < 0.85 else b + rng.choice([0x800, 0x10000000]) for b in base]
        yield "scan " + ",".join(str(b) for b in base)
    # --- frame format: every 11-bit id, boundaries, seeded 29-bit ids
    for cid in range(0x800):
        yield f"tx {cid} {rdata(rng)} {rng.choice('0001')} 1"
    for cid in [0x7FE, 0x7FF, 0x800, 0x801, 0xFFF, 0x1000, 0x1FFFFFFF, 0x1FFFFFFE, 0x10000000, 0] \
            + [rng.getrandbits(29) for _ in range(2000 if thorough else 200)] \
            + [rng.randrange(0x800, 0x1000) for _ in range(50)]:
        for rem in "01":
            yield f"tx {cid} {rdata(rng)} {rem} 1"
            yield f"ptx {cid} {rdata(rng)} {rem}"
    for cid in range(0, 0x800, 1 if thorough else 16):
        yield f"ptx {cid} {rdata(rng)} {rng.choice('01')}"
    # a periodic message whose payload is updated keeps id, format and remote flag (payloads of one length)
    for cid in [0, 1, 0x80, 0x181, 0x701, 0x7FF, 0x800, 0x1FFFFFFF] + [rng.randrange(0, 0x800) for _ in range(40)] \
            + [rng.getrandbits(29) for _ in range(10)]:
        n = rng.choice([1, 2, 8])
        ups = ",".join(hx(bytes(rng.getrandbits(8) for _ in range(n))) for _ in range(rng.randint(1, 3)))
        for mod in "01":
            yield f"pup {cid} {hx(bytes(rng.getrandbits(8) for _ in range(n)))} 0 {ups} {mod}"
    for n in range(0, 9):
        yield f"tx 291 {hx(bytes(range(n)))} 0 1"
        yield f"ptx 2049 {hx(bytes(range(n)))} 0"
    yield "tx 5 01 0 0"
    yield "tx 2049 - 1 0"
    # --- scanner through Network.notify / the listener: every 11-bit id, 128 per history
    for base in range(0, 0x800, 128):
        ids = list(range(base, base + 128))
        rng.shuffle(ids)
        ids += [base + 1, 0x10000000 + base + 2, 0x800 + base + 3]
        yield "h - " + " ".join(f"n:{c}:{rdata(rng)}:{t}" if t % 3 else f"r:{c}:{rdata(rng)}:{t}:00"
                                for t, c in enumerate(ids)) + " q z q"
    # --- per node id 1..127: replace / delete scripts
    for nid in range(1, 128):
        yield node_script(nid, rng)
    # --- per node id 1..127: removal / replacement through every method of the mapping API
    for nid in range(1, 128):
        for j, kind in enumerate(REMOVALS):
            if thorough or (nid + j) % 5 == 0 or nid in (1, 127):
                yield mapping_script(nid, kind, rng)
    # --- every combination of the flags of a received frame
    for nid in ([1, 5, 64, 127] + [rng.randrange(1, 128) for _ in range(40)]) if thorough else [1, rng.randrange(2, 128)]:
        for cid in (0x700 + nid, 0x80 + nid, 0x580 + nid, 0, 0x123, 0x10000000 + 0x700 + nid):
            yield flag_sweep(cid, nid, rng, True)
        yield flag_sweep(0x600 + nid, nid, rng, False)
    # --- random histories
    n_hist = 40000 if thorough else 6000
    for i in range(n_hist):
        r = rng.random()
        length = rng.randint(5, 20) if r < 0.35 else rng.randint(20, 100) if r < 0.85 \
            else rng.randint(200, 400)
        yield gen_history(rng, length)
    # --- effects of the unmodified handlers (oracle only)
    for i in range(5000 if thorough else 600):
        yield gen_effects(rng, rng.randint(10, 120))


CORPUS = [
    "scan 268437249",                                # F8: 0x10000701 listed node 1 before the repair
    "scan 1793,268437249,3841",
    "h 1r n:268437249:05:1 q",
    "h - s:291:u0 s:291:u0 n:291:0102:1",            # double subscribe, one delivery
    "h 3r,3l a:0 a:1 n:1795:05:1 n:131:0000000000000000:2 n:1411:-:3 n:0:0100:4 n:1539:-:5",
    "h 3r a:0 u:0:* d:3 n:1795:05:1 a:0 n:1795:05:2",   # removal aborted half-way
    "h - s:5:u1 s:5:u6 s:5:u2 n:5:-:1 r:5:-:2:00 q",     # raising callback
    "tx 2047 0102 0 1", "tx 2048 0102 0 1",
    # every way out of the mapping, then frames for the nodes that left
    "h 5r,6l a:0 a:1 v x v n:1797:04:1 n:133:1081010000000000:2 n:0:8005:3 n:1542:4000100000000000:4 n:1413:-:5",
    "h 5r,6l,5l a:0 sd:1 pi v n:1797:04:1 n:1542:-:2 pi pi v p:5 pd:5 pd:6 up:d:0+1 v up:i:2 v sd:0 v "
    "n:1797:04:3 n:1541:-:4 n:0:0100:5",
    "h 5r a:0 u:0:* x v n:1797:05:1 n:0:0100:2",        # clear() swallows the KeyError of a removal stopped half-way
    "h 5r,7r a:0 a:1 u:1797:o0.hb x v n:1799:05:1",     # … but not its ValueError
    # only error and remote frames are not dispatched: the echo of an own transmission (is_rx False), FD, odd dlc
    "h 5r a:0 s:291:u0 r:291:010203:1:0010000:3:0 r:291:040506:2:0000000:3:1 r:291:-:3:0110000:0:0 "
    "r:291:-:4:1010000:0:0 r:1797:05:5:0001111:15:2 r:1797:7f:6:0000000:0:3 q",
    "fx 5r,6l a:0 a:1 n:1797:05:1 n:1542:4000200000000000:2 x n:1797:04:3 n:133:1081010000000000:4 "
    "n:1542:4000200000000000:5 n:1413:4300100000000000:6",
]

LEVEL_TEXT = ("Lean 4 theorems over all histories (any length) of subscribe / unsubscribe / node add, replace, "
              "delete / add_sdo / notify / listener frames: every notify invokes exactly the list the "
              "append-if-absent multimap holds at that moment, once each, in order, with the frame's own "
              "arguments; the multimap is characterised by one activity bit per (id, callback) and keeps "
              "relative order; after a successful delete, pop, popitem, clear, or replacement (item assignment, "
              "add_node, update) no frame reaches any handler of the old node object for any later history "
              "that does not add it again, and in general no handler of a node object that is not in the node "
              "table is ever invoked; the node table's iteration lists exactly the ids that hold a node, once; "
              "clear = popitem until empty or a removal raises; dispatch by the listener depends on no attribute "
              "of the message but id, data, timestamp, error and remote flag; frame format (extended iff "
              "id > 0x7FF), listener filter, scanner = first occurrences of the predefined-connection-set node "
              "ids (all CAN ids, 2 048-id table in-kernel); model tied to the code by tables recorded from the "
              "live associate_network/remove_network and a differential run over histories up to 400 steps")
LEVEL_NOTE = ("trusted: Lean kernel + propext/Classical.choice/Quot.sound; dict/list/bound-method semantics and "
              "can.Message are modelled; callbacks that (un)subscribe during dispatch are not covered; a raising "
              "callback is modelled as ending notify (not claimed as a violation); real threads/Notifier are "
              "outside the model")
TECHNIQUE = "Lean 4 proof (refinement to a multimap spec, invariants over histories) + generated call tables + differential correspondence"
