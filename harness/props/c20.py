"""C20 — physical, described and bit-field views agree with the raw value.

Operation lines (all self-contained; STORE says which real `Variable` subclass is driven):

  bits  STORE T DEFS KEY get            ->  ok <int> | err
  bits  STORE T DEFS KEY set V          ->  ok <store> <read-back> | err <store>
  seq   STORE T DEFS op|op|...          (one held `Bits` object; op = KEY=V or KEY?)
                                        ->  ok r1,r2,... <store> | err
  desc  STORE T TBL get                 ->  ok <cps> | err
  desc  STORE T TBL set CPS             ->  ok <store> <read-back cps> | err <store>
  phys  STORE T F get                   ->  ok n/d | err
  phys  STORE T F set V   (physf: every number handed over as float)
                                        ->  ok <store> <read-back n/d> | err <store>
  physx STORE T F set V   (factor/value not dyadic: float arithmetic rounds; oracle only)
  raw   STORE T get                     ->  ok <int> | err
  raw   STORE T set V                   ->  ok <store> <read-back int> | err <store>
  data  STORE T get                     ->  ok <hex> | err                 (var.data)
  data  STORE T set HEX                 ->  ok <store> <read-back hex> | err <store>
  via W:R <raw|data|desc|phys|physf|physx op>
        the same operation with the write spelt W and every read spelt R:
          p  the attribute           var.phys / var.phys = x / var.data / var.data = b
          m  the method, keyword     var.read(fmt="phys") / var.write(x, fmt="phys") / get_data() / set_data(b)
          a  the method, positional  var.read("phys") / var.write(x, "phys")            (data: as m)
          n  the method, default fmt var.read() / var.write(x)                          (raw view only)
        get ->  as the plain operation
        set ->  ok <store> <read-back> <raw> <data> | err <store>   (<raw>, <data>: the raw value and the
                bytes as the variable shows them afterwards through spelling R)
  fmt   STORE T CPS get | set V         var.read(fmt=<any string>) / var.write(V, fmt=<any string>)
                                        ->  ok <value|none> | ok <store> <read-back> | err ...
  mseq  STORE T F TBL DEFS step|step|...   one variable object, every step with its own spelling and view:
          <p|m|a|n><r|f|d|b>?  read   (r raw, f phys, d desc, b bytes)
          <p|m|a|n><r|f|d|b>=<value>   write (int, n/d, cps, hex)
          B<KEY>? / B<KEY>=<int>       bit field
                                        ->  ok r1;r2;... <store>   (a write shows ok | err)

  STORE = d:<hex>   harness subclass of canopen.variable.Variable over a dict
          l:<hex>   LocalNode.sdo[...] (SdoVariable over LocalNode.data_store)
          s:<hex>   RemoteNode.sdo[...] talking SDO to a LocalNode over a synchronous fake bus
          p:<off>:<framehex>  PdoVariable, byte-aligned at byte <off> of a TPDO frame
          L:<hex> / S:<hex>   the variable is member 2 of a record: LocalNode.sdo[i][2] / RemoteNode.sdo[i][2]
          A:<hex> / T:<hex>   member 3 of an array, made from the template member 1: LocalNode / RemoteNode
          P:<off>:<framehex>  the record member mapped into the TPDO, looked up by name ("rec.v")
  KEY   = n:<int> | l:<ints> | t:<ints> (tuple) | s:<a>:<b>:<c> (slice, _ = omitted) | d:<cps>
  DEFS  = name=bits;...   TBL = value=cps;...   (cps = code points, "-" = empty)
"""
from fractions import Fraction

import canopen
from canopen import objectdictionary as od
from canopen.variable import Variable

ID = "C20"
PROOF_MODULES = ["CanopenProofs.C20", "CanopenProofs.C20Methods"]
GENERATED = ["Datatypes"]
THEOREMS = [
    "Canopen.C20.bits_set_exact",
    "Canopen.C20.bits_get",
    "Canopen.C20.bits_get_set",
    "Canopen.C20.bits_set_exact_any_list",
    "Canopen.C20.spellings_agree",
    "Canopen.C20.desc_roundtrip",
    "Canopen.C20.phys_half_step",
    "Canopen.C20.views_over_any_store",
    "Canopen.C20.store_instances",
    "Canopen.C20.stored_pattern",
    "Canopen.C20.bits_through_store",
    "Canopen.C20.bits_through_store_bytes",
    "Canopen.C20.signbit_write_sets_sign",
    "Canopen.C20.bits_beyond_width_rejected",
    "Canopen.C20.desc_through_store",
    "Canopen.C20.phys_through_store",
    "Canopen.C20.integer_types_table",
    "Canopen.C20.bitsObj_coherent",
    "Canopen.C20.methods_agree",
    "Canopen.C20.spelling_irrelevant",
    "Canopen.C20.phys_through_methods",
    "Canopen.C20.desc_through_methods",
    "Canopen.C20.bits_seen_by_methods",
    "Canopen.C20.data_raw_agree",
    "Canopen.C20.methods_over_any_store",
]
FINGERPRINT = [
    "canopen.objectdictionary:ODVariable.encode_bits",
    "canopen.objectdictionary:ODVariable.decode_bits",
    "canopen.objectdictionary:ODVariable.encode_desc",
    "canopen.objectdictionary:ODVariable.decode_desc",
    "canopen.objectdictionary:ODVariable.encode_phys",
    "canopen.objectdictionary:ODVariable.decode_phys",
    "canopen.variable:Bits",
    "canopen.variable:Variable.raw",
    "canopen.variable:Variable.phys",
    "canopen.variable:Variable.desc",
    "canopen.variable:Variable.bits",
    "canopen.variable:Variable.read",
    "canopen.variable:Variable.write",
    "canopen.variable:Variable.data",
]
TRUSTED = [
    "Python int bit operations modelled as infinite two's complement (Views.lean tbit/pyAnd/pyOr/...)",
    "Python float '/', '*' and round(): scaling is proved over the rationals with round-half-even; "
    "IEEE rounding is differential-only (exact on the dyadic stream, bounded by the oracle on physx)",
    "read(\"phys\") and read(fmt=\"phys\") (likewise write) are one call for the model: argument passing is Python's; "
    "both are driven",
    "the store law get(set(s, x)) = x for SDO variables is what C01-C03 establish; here it is a "
    "hypothesis of the theorems and exercised through a LocalNode on a synchronous fake bus",
]
ASSUMPTIONS = [
    "only INTEGER_TYPES variables (the property's domain); BOOLEAN/REAL/string variables are not modelled",
    "field values are Python ints; keys are int / list / tuple / slice / str",
    "PDO variables byte-aligned and of full length (bit-aligned PDO mapping is C05)",
    "values handed to write()/the setters have the type of the view (int for raw, int/float for phys, str for "
    "desc, bytes for data); other combinations are modelled (Views.lean setRawVal/...) but not driven",
]
RULE = ("every contiguous bit range within 32 bits in the four spellings (number where one bit wide) "
        "on UNSIGNED32/INTEGER32 and within the width of the other integer types, raw values at "
        "0 / all-ones / alternating / seeded random, field values 0 / max / single bits / random "
        "and exhaustive for UNSIGNED8; description tables of 1..20 entries (unique and duplicate "
        "descriptions, undescribed values, values out of range); dyadic factors 2^-10..2^10 x "
        "{1,3,5} of both signs with quotients at ties, near-ties and range ends; four stores "
        "(dict, LocalNode, SDO over a fake bus, byte-aligned PDO) and the same with the variable a record "
        "member or an array member made from the template; every view (raw, phys, desc, bytes) through "
        "every spelling of the write and of the read-back (attribute, read/write with keyword, positional "
        "and default fmt, .data / get_data / set_data) with the raw value and the bytes observed through "
        "the variable afterwards, histories mixing spellings, views and bit fields on one variable object, "
        "unknown fmt strings (model only); an out-of-domain stream "
        "(undefined names, empty / negative / non-contiguous lists, stepped and open slices, "
        "values that do not fit, wrong-length data) is compared with the model only; "
        "non-trivial = the implementation returned a value")

SPEC = {0x02: (8, True), 0x03: (16, True), 0x04: (32, True), 0x10: (24, True), 0x12: (40, True),
        0x13: (48, True), 0x14: (56, True), 0x15: (64, True),
        0x05: (8, False), 0x06: (16, False), 0x07: (32, False), 0x16: (24, False),
        0x18: (40, False), 0x19: (48, False), 0x1A: (56, False), 0x1B: (64, False)}
IDX = 0x2000


def hx(b):
    return bytes(b).hex() if len(b) else "-"


def unhx(s):
    return b"" if s == "-" else bytes.fromhex(s)


def nl(xs):
    return ",".join(str(x) for x in xs) if len(xs) else "-"


def unil(s):
    return [] if s == "-" else [int(x) for x in s.split(",")]


def cps_of(s):
    return [ord(c) for c in s]


def str_of(cps):
    return "".join(chr(c) for c in cps)


def fr_s(fr):
    return f"{fr.numerator}/{fr.denominator}"


def s_fr(s):
    n, _, d = s.partition("/")
    return Fraction(int(n), int(d) if d else 1)


def key_s(kind, *a):
    if kind == "n":
        return f"n:{a[0]}"
    if kind in ("l", "t"):
        return f"{kind}:{nl(a[0])}"
    if kind == "s":
        return "s:" + ":".join("_" if x is None else str(x) for x in a)
    if kind == "d":
        return f"d:{nl(a[0])}"
    raise ValueError(kind)


def parse_key(s):
    p = s.split(":")
    if p[0] == "n":
        return int(p[1])
    if p[0] == "l":
        return unil(p[1])
    if p[0] == "t":
        return tuple(unil(p[1]))
    if p[0] == "s":
        return slice(*[None if x == "_" else int(x) for x in p[1:4]])
    if p[0] == "d":
        return str_of(unil(p[1]))
    raise ValueError(s)


def parse_defs(s):
    if s == "-":
        return []
    out = []
    for e in s.split(";"):
        n, b = e.split("=")
        out.append((str_of(unil(n)), unil(b)))
    return out


def defs_s(defs):
    return ";".join(f"{nl(cps_of(n))}={nl(b)}" for n, b in defs) if defs else "-"


def parse_tbl(s):
    if s == "-":
        return []
    out = []
    for e in s.split(";"):
        v, d = e.split("=")
        out.append((int(v), str_of(unil(d))))
    return out


def tbl_s(tbl):
    return ";".join(f"{v}={nl(cps_of(d))}" for v, d in tbl) if tbl else "-"


# ---- the real code, driven over four kinds of store ----------------------------------------
class DictVariable(Variable):
    """canopen.variable.Variable over a plain dict (the minimal store)."""

    def __init__(self, odvar, cell):
        super().__init__(odvar)
        self.cell = cell

    def get_data(self):
        return self.cell[(self.index, self.subindex)]

    def set_data(self, data):
        self.cell[(self.index, self.subindex)] = bytes(data)


class FakeNet(canopen.Network):
    """synchronous in-memory bus: a frame sent here is handed to every peer network"""

    def __init__(self):
        super().__init__()
        self.peers = []

    def send_message(self, can_id, data, remote=False):
        for p in self.peers:
            p.notify(can_id, bytearray(data), 0.0)


SUBS = {None: 0, "rec": 2, "arr": 3}


def mk_od(t, factor=1, descs=(), bitdefs=(), fillers=0, pdo=False, member=None):
    """the variable stands alone at IDX, is member 2 of the record at IDX, or is the template (member 1) of the
    array at IDX, from which the library makes member 3"""
    d = od.ObjectDictionary()
    v = od.ODVariable("v", IDX, {None: 0, "rec": 2, "arr": 1}[member])
    v.data_type = t
    v.factor = factor
    for val, text in descs:
        v.add_value_description(val, text)
    for n, b in bitdefs:
        v.add_bit_definition(n, b)
    v.pdo_mappable = True
    if member is None:
        d.add_object(v)
    else:
        box = od.ODRecord("rec", IDX) if member == "rec" else od.ODArray("arr", IDX)
        n = od.ODVariable("n", IDX, 0)
        n.data_type = od.UNSIGNED8
        box.add_member(n)
        if member == "rec":
            o = od.ODVariable("other", IDX, 1)
            o.data_type = od.UNSIGNED16
            o.factor = 1000
            box.add_member(o)
        box.add_member(v)
        d.add_object(box)
    for i in range(fillers):
        f = od.ODVariable(f"fill{i}", 0x2100 + i, 0)
        f.data_type = od.UNSIGNED8
        f.pdo_mappable = True
        d.add_object(f)
    if pdo:
        com = od.ODRecord("TPDO1 com", 0x1800)
        for sub, (name, ty) in enumerate([("n", od.UNSIGNED8), ("COB-ID", od.UNSIGNED32),
                                           ("type", od.UNSIGNED8)]):
            m = od.ODVariable(name, 0x1800, sub)
            m.data_type = ty
            com.add_member(m)
        d.add_object(com)
        mp = od.ODArray("TPDO1 map", 0x1A00)
        for sub in range(0, 9):
            m = od.ODVariable(f"m{sub}", 0x1A00, sub)
            m.data_type = od.UNSIGNED8 if sub == 0 else od.UNSIGNED32
            mp.add_member(m)
        d.add_object(mp)
    return d, v


MEMBER_OF = {"d": None, "l": None, "s": None, "p": None, "L": "rec", "S": "rec", "P": "rec", "A": "arr", "T": "arr"}


def build(store, t, **kw):
    """Returns (variable, peek) — peek() gives the bytes now held by the store."""
    p = store.split(":")
    kind = p[0]
    if kind not in MEMBER_OF:
        raise ValueError(store)
    member = MEMBER_OF[kind]
    sub = SUBS[member]
    if kind == "d":
        d, v = mk_od(t, **kw)
        cell = {(IDX, 0): unhx(p[1])}
        peek = lambda: cell[(IDX, 0)]                                   # noqa: E731
        peek.poke = lambda b: cell.__setitem__((IDX, 0), bytes(b))
        return DictVariable(v, cell), peek
    if kind in "lLA":
        d, v = mk_od(t, member=member, **kw)
        node = canopen.LocalNode(1, d)
        node.data_store[IDX] = {sub: unhx(p[1])}
        peek = lambda: node.data_store[IDX][sub]                        # noqa: E731
        peek.poke = lambda b: node.data_store[IDX].__setitem__(sub, bytes(b))
        return (node.sdo[IDX] if member is None else node.sdo[IDX][sub]), peek
    if kind in "sST":
        d, v = mk_od(t, member=member, **kw)
        na, nb = FakeNet(), FakeNet()
        na.peers.append(nb)
        nb.peers.append(na)
        remote = canopen.RemoteNode(1, d)
        na.add_node(remote)
        local = canopen.LocalNode(1, d)
        nb.add_node(local)
        remote.sdo.RESPONSE_TIMEOUT = 0.01
        remote.sdo.MAX_RETRIES = 0
        local.data_store[IDX] = {sub: unhx(p[1])}
        peek = lambda: local.data_store[IDX][sub]                       # noqa: E731
        peek.poke = lambda b: local.data_store[IDX].__setitem__(sub, bytes(b))
        return (remote.sdo[IDX] if member is None else remote.sdo[IDX][sub]), peek
    if kind in "pP":
        off, frame = int(p[1]), unhx(p[2])
        size = (SPEC[t][0] // 8) if t in SPEC else 1
        trail = len(frame) - off - size
        if trail < 0:
            raise ValueError("frame shorter than the window")
        d, v = mk_od(t, fillers=off + trail, pdo=True, member=member, **kw)
        net = FakeNet()
        node = canopen.LocalNode(1, d)
        net.add_node(node)
        m = node.tpdo[1]
        for i in range(off):
            m.add_variable(0x2100 + i)
        if member is None:
            m.add_variable(IDX)
        else:
            m.add_variable(IDX, sub)
        for i in range(off, off + trail):
            m.add_variable(0x2100 + i)
        m.data = bytearray(frame)
        peek = lambda: bytes(m.data)                                    # noqa: E731

        def poke(b):
            # a new frame arrives: the same bytes elsewhere, the variable's window replaced
            new = bytearray(m.data)
            new[off:off + size] = b
            m.data = new
        peek.poke = poke
        return (m[IDX] if member is None else m["rec.v"]), peek
    raise ValueError(store)


def show_int(r):
    if isinstance(r, int):
        return str(int(r))
    return f"nonint:{type(r).__name__}"


def to_num(fr, as_float):
    if fr.denominator == 1 and not as_float:
        return int(fr)
    return float(fr)


def exact_float(fr):
    try:
        return Fraction(float(fr)) == fr
    except OverflowError:
        return False


class BadOp(Exception):
    pass


VIEW_OF = {"r": "raw", "f": "phys", "d": "desc", "b": "data"}


def do_get(var, view, sp):
    """one read of a view, spelt sp"""
    if sp not in "pman":
        raise BadOp(sp)
    if view == "data":
        if sp == "n":
            raise BadOp("data has no default-fmt spelling")
        return var.data if sp == "p" else var.get_data()
    if sp == "p":
        return {"raw": lambda: var.raw, "phys": lambda: var.phys, "desc": lambda: var.desc}[view]()
    if sp == "m":
        return var.read(fmt=view)
    if sp == "a":
        return var.read(view)
    if view != "raw":
        raise BadOp("default fmt is raw")
    return var.read()


def do_set(var, view, sp, value):
    """one write through a view, spelt sp"""
    if sp not in "pman":
        raise BadOp(sp)
    if view == "data":
        if sp == "n":
            raise BadOp("data has no default-fmt spelling")
        if sp == "p":
            var.data = value
        else:
            var.set_data(value)
        return
    if sp == "p":
        if view == "raw":
            var.raw = value
        elif view == "phys":
            var.phys = value
        else:
            var.desc = value
    elif sp == "m":
        r = var.write(value, fmt=view)
        if r is not None:
            raise TypeError("write() returned a value")
    elif sp == "a":
        var.write(value, view)
    else:
        if view != "raw":
            raise BadOp("default fmt is raw")
        var.write(value)


def show_view(view, r):
    if view == "raw":
        return show_int(r) if not isinstance(r, bool) else "nonint:bool"
    if view == "phys":
        if isinstance(r, (int, float)) and not isinstance(r, bool):
            try:
                return fr_s(Fraction(r))
            except (ValueError, OverflowError):
                return "nonnum:" + repr(r)
        return f"nonnum:{type(r).__name__}"
    if view == "desc":
        return nl(cps_of(r)) if isinstance(r, str) else f"nonstr:{type(r).__name__}"
    if view == "data":
        return hx(bytes(r)) if isinstance(r, (bytes, bytearray)) else f"nonbytes:{type(r).__name__}"
    raise BadOp(view)


def spell_ok(view, sp):
    return sp in "pma" or (sp == "n" and view == "raw")


def run_view(a, w, r, ext):
    """raw / data / desc / phys / physf / physx operation with the write spelt w and the reads spelt r"""
    kind = a[0]
    t = int(a[2])
    if kind == "raw":
        view, kw, args = "raw", {}, a[3:]
    elif kind == "data":
        view, kw, args = "data", {}, a[3:]
    elif kind == "desc":
        view, kw, args = "desc", {"descs": parse_tbl(a[3])}, a[4:]
    elif kind in ("phys", "physf", "physx"):
        f = s_fr(a[3])
        as_float = kind != "phys"
        if kind != "physx" and not exact_float(f):
            return "bad-op"
        view, kw, args = "phys", {"factor": to_num(f, as_float)}, a[4:]
    else:
        return "bad-op"
    if not spell_ok(view, r) or (args[0] == "set" and not spell_ok(view, w)):
        return "bad-op"
    if args[0] == "set":
        if view == "raw":
            value = int(args[1])
        elif view == "data":
            value = unhx(args[1])
        elif view == "desc":
            value = str_of(unil(args[1]))
        else:
            v = s_fr(args[1])
            if kind != "physx" and not exact_float(v):
                return "bad-op"
            value = to_num(v, as_float)
    var, peek = build(a[1], t, **kw)
    if args[0] == "get":
        try:
            return "ok " + show_view(view, do_get(var, view, r))
        except BadOp:
            raise
        except Exception:
            return "err"
    try:
        do_set(var, view, w, value)
    except BadOp:
        raise
    except Exception:
        return f"err {hx(peek())}"
    cols = [(view, r)] + ([("raw", r), ("data", "p" if r == "p" else "m")] if ext else [])
    outs = []
    for vw, sp in cols:
        try:
            outs.append(show_view(vw, do_get(var, vw, sp)))
        except BadOp:
            raise
        except Exception:
            outs.append("err")
    return f"ok {hx(peek())} " + " ".join(outs)


def run_mseq(a):
    t = int(a[2])
    f = s_fr(a[3])
    if not exact_float(f):
        return "bad-op"
    var, peek = build(a[1], t, factor=to_num(f, False), descs=parse_tbl(a[4]), bitdefs=parse_defs(a[5]))
    outs = []
    for s in a[6].split("|"):
        if s[0] == "B":
            try:
                if s.endswith("?"):
                    outs.append(show_int(var.bits[parse_key(s[1:-1])]))
                else:
                    k, v = s[1:].split("=")
                    var.bits[parse_key(k)] = int(v)
                    outs.append("ok")
            except Exception:
                outs.append("err")
            continue
        sp, view = s[0], VIEW_OF[s[1]]
        if not spell_ok(view, sp) or (view == "data" and sp == "n"):
            return "bad-op"
        if s[2:] == "?":
            try:
                outs.append(show_view(view, do_get(var, view, sp)))
            except BadOp:
                raise
            except Exception:
                outs.append("err")
            continue
        if s[2] != "=":
            return "bad-op"
        txt = s[3:]
        if view == "raw":
            value = int(txt)
        elif view == "data":
            value = unhx(txt)
        elif view == "desc":
            value = str_of(unil(txt))
        else:
            q = s_fr(txt)
            if not exact_float(q):
                return "bad-op"
            value = to_num(q, len(outs) % 2 == 1)      # handed over as int (when integral) or as float, in turn
        try:
            do_set(var, view, sp, value)
            outs.append("ok")
        except BadOp:
            raise
        except Exception:
            outs.append("err")
    return f"ok {';'.join(outs)} {hx(peek())}"


def show_any(r):
    if r is None:
        return "none"
    if isinstance(r, int) and not isinstance(r, bool):
        return str(r)
    return f"other:{type(r).__name__}"


def run_impl(op):
    a = op.split(" ")
    kind = a[0]
    if kind == "via":
        w, _, r = a[1].partition(":")
        if len(w) != 1 or len(r) != 1 or w not in "pman" or r not in "pman":
            return "bad-op"
        return run_view(a[2:], w, r, True)
    if kind in ("raw", "data"):
        return run_view(a, "p", "p", False)
    if kind == "mseq":
        return run_mseq(a)
    if kind == "fmt":
        t = int(a[2])
        name = str_of(unil(a[3]))
        var, peek = build(a[1], t)
        if a[4] == "get":
            try:
                return "ok " + show_any(var.read(fmt=name))
            except Exception:
                return "err"
        try:
            var.write(int(a[5]), fmt=name)
        except Exception:
            return f"err {hx(peek())}"
        try:
            rb = show_any(var.read(fmt=name))
        except Exception:
            rb = "err"
        return f"ok {hx(peek())} {rb}"
    if kind == "vseq":
        # the variable object is kept, `var.bits` is taken afresh for every step, and `R=<int>` changes the raw
        # value by another path in between
        t = int(a[2])
        var, peek = build(a[1], t, bitdefs=parse_defs(a[3]))
        outs = []
        for s in a[4].split("|"):
            try:
                if s.startswith("R="):
                    # the value changes behind the variable's back: store written directly / new frame received
                    w_, sg_ = SPEC[t]
                    v_ = int(s[2:])
                    if not (-(1 << (w_ - 1)) <= v_ < (1 << (w_ - 1)) if sg_ else 0 <= v_ < (1 << w_)):
                        raise ValueError("does not fit")
                    peek.poke((v_ % (1 << w_)).to_bytes(w_ // 8, "little"))
                    outs.append("ok")
                elif s.endswith("?"):
                    outs.append(show_int(var.bits[parse_key(s[:-1])]))
                else:
                    k, v = s.split("=")
                    var.bits[parse_key(k)] = int(v)
                    outs.append("ok")
            except Exception:
                outs.append("err")
        return f"ok {','.join(outs)} {hx(peek())}"
    if kind in ("bits", "seq"):
        t = int(a[2])
        var, peek = build(a[1], t, bitdefs=parse_defs(a[3]))
        if kind == "seq":
            try:
                b = var.bits
            except Exception:
                return "err"
            outs = []
            for s in a[4].split("|"):
                try:
                    if s.endswith("?"):
                        outs.append(show_int(b[parse_key(s[:-1])]))
                    else:
                        k, v = s.split("=")
                        b[parse_key(k)] = int(v)
                        outs.append("ok")
                except Exception:
                    outs.append("err")
            return f"ok {','.join(outs)} {hx(peek())}"
        key = parse_key(a[4])
        if a[5] == "get":
            try:
                return "ok " + show_int(var.bits[key])
            except Exception:
                return "err"
        try:
            var.bits[key] = int(a[6])
        except Exception:
            return f"err {hx(peek())}"
        try:
            rb = show_int(var.bits[key])
        except Exception:
            rb = "err"
        return f"ok {hx(peek())} {rb}"
    if kind == "desc":
        t = int(a[2])
        var, peek = build(a[1], t, descs=parse_tbl(a[3]))
        if a[4] == "get":
            try:
                r = var.desc
                return "ok " + (nl(cps_of(r)) if isinstance(r, str) else f"nonstr:{type(r).__name__}")
            except Exception:
                return "err"
        try:
            var.desc = str_of(unil(a[5]))
        except Exception:
            return f"err {hx(peek())}"
        try:
            rb = nl(cps_of(var.desc))
        except Exception:
            rb = "err"
        return f"ok {hx(peek())} {rb}"
    if kind in ("phys", "physf", "physx"):
        t = int(a[2])
        f = s_fr(a[3])
        as_float = kind != "phys"
        if kind != "physx" and not exact_float(f):
            return "bad-op"
        var, peek = build(a[1], t, factor=to_num(f, as_float))
        if a[4] == "get":
            try:
                return "ok " + fr_s(Fraction(var.phys))
            except Exception:
                return "err"
        v = s_fr(a[5])
        if kind != "physx" and not exact_float(v):
            return "bad-op"
        try:
            var.phys = to_num(v, as_float)
        except Exception:
            return f"err {hx(peek())}"
        try:
            rb = fr_s(Fraction(var.phys))
        except Exception:
            rb = "err"
        return f"ok {hx(peek())} {rb}"
    return "bad-op"


def canon_model(op, out):
    return out


def model_skips(op):
    a = op.split(" ")
    return a[0] == "physx" or (a[0] == "via" and len(a) > 2 and a[2] == "physx")


# ---- independent oracle ------------------------------------------------------------------------
def window(store, t):
    """(initial value bytes or None, function replacing the value bytes in the whole store)"""
    p = store.split(":")
    size = SPEC[t][0] // 8
    if p[0] in ("p", "P"):
        off, frame = int(p[1]), unhx(p[2])
        return frame[off:off + size], (lambda nb: frame[:off] + nb + frame[off + size:]), frame
    b = unhx(p[1])
    return b, (lambda nb: nb), b


def key_range(key, defs):
    """The property's reading of a key: a list of bit numbers, or None when the key is not one of
    the four spellings of a non-empty contiguous range lo..hi-1 of non-negative bits."""
    p = key.split(":")
    if p[0] == "n":
        bits = [int(p[1])]
    elif p[0] in ("l", "t"):
        bits = unil(p[1])
    elif p[0] == "s":
        a, b, c = [None if x == "_" else int(x) for x in p[1:4]]
        if c == -1 and a is not None and b is not None and a >= 0 and b >= -1:
            bits = list(range(a, b, -1))                 # a downward slice names the same bits, top first
        elif b is None or c not in (None, 1) or (a is not None and a < 0) or b < 0:
            return None
        else:
            bits = list(range(a or 0, b))
    elif p[0] == "d":
        name = str_of(unil(p[1]))
        m = [b for n, b in defs if n == name]
        if len(m) != 1:
            return None
        bits = m[0]
    else:
        return None
    # the bits may be listed in any order (e.g. most significant first); they must be a contiguous range
    if not bits or min(bits) < 0 or sorted(bits) != list(range(min(bits), min(bits) + len(bits))):
        return None
    return min(bits), min(bits) + len(bits)


def half_even(q):
    fl = q.numerator // q.denominator
    twice = 2 * (q - fl)
    if twice < 1:
        return fl
    if twice > 1:
        return fl + 1
    return fl if fl % 2 == 0 else fl + 1


def fits(t, v):
    w, signed = SPEC[t]
    return -(1 << (w - 1)) <= v < (1 << (w - 1)) if signed else 0 <= v < (1 << w)


def pat(t, v):
    w, _ = SPEC[t]
    return (v % (1 << w)).to_bytes(w // 8, "little")


SPELT = {"p": "the attribute", "m": "the method with fmt= keyword", "a": "the method with positional fmt",
         "n": "the method with its default fmt"}


def oracle(op, out):
    """every access path is held to the same statement: the `via` form is judged as the plain operation, and the
    raw value and the bytes the variable shows afterwards must be those it holds"""
    a = op.split(" ")
    if out.startswith("HARNESS-RAISED") or out == "bad-op" or "nonint" in out or "nonstr" in out \
            or "nonnum" in out or "nonbytes" in out or "other:" in out:
        return f"unexpected harness-level output {out}"
    if a[0] == "fmt":
        return None                      # an unknown fmt string is outside the property: model only
    if a[0] == "mseq":
        return oracle_mseq(a, out)
    if a[0] != "via":
        return oracle_plain(op, out)
    w_sp, _, r_sp = a[1].partition(":")
    inner = a[2:]
    o = out.split(" ")
    how = f" [write through {SPELT.get(w_sp)}, reads through {SPELT.get(r_sp)}]"
    if inner[-1] == "get" or o[0] != "ok":
        msg = oracle_plain(" ".join(inner), out)
        return msg + how if msg else None
    if len(o) != 5:
        return f"malformed output {out}"
    msg = oracle_plain(" ".join(inner), " ".join(o[:3]))
    if msg:
        return msg + how
    t = int(inner[2])
    if t not in SPEC:
        return None
    w, signed = SPEC[t]
    size = w // 8
    st = unhx(o[1])
    off = int(inner[1].split(":")[1]) if inner[1][0] in "pP" else 0
    held = st[off:off + size]
    if len(held) != size or (inner[1][0] not in "pP" and len(st) != size):
        return None
    exp_raw = str(int.from_bytes(held, "little", signed=signed))
    if o[3] != exp_raw:
        return (f"after the write the variable holds {hx(held)} (raw {exp_raw}) but its raw value reads {o[3]}" + how)
    if o[4] != hx(held):
        return f"after the write the variable holds {hx(held)} but its data reads {o[4]}" + how
    return None


def oracle_mseq(a, out):
    t = int(a[2])
    if t not in SPEC:
        return None
    w, signed = SPEC[t]
    f = s_fr(a[3])
    tbl = parse_tbl(a[4])
    defs = parse_defs(a[5])
    if len({v for v, _ in tbl}) != len(tbl) or len({d for _, d in tbl}) != len(tbl):
        return None
    cur, put, whole = window(a[1], t)
    if len(cur) != w // 8:
        return None
    p_now, res = int.from_bytes(cur, "little"), []
    for s in a[6].split("|"):
        raw = p_now - (1 << w) if signed and p_now >> (w - 1) else p_now
        if s[0] == "B":
            body = s[1:]
            k = body[:-1] if body.endswith("?") else body.split("=")[0]
            rg = key_range(k, defs)
            if rg is None or rg[1] > w:
                return None
            lo, hi = rg
            n = hi - lo
            if body.endswith("?"):
                res.append(str((p_now >> lo) & ((1 << n) - 1)))
            else:
                v = int(body.split("=")[1])
                if not 0 <= v < (1 << n):
                    return None
                p_now = (p_now & ~(((1 << n) - 1) << lo)) | (v << lo)
                res.append("ok")
            continue
        view = VIEW_OF[s[1]]
        if s[2:] == "?":
            if view == "raw":
                res.append(str(raw))
            elif view == "phys":
                res.append(fr_s(raw * f))
            elif view == "desc":
                m = [d for v, d in tbl if v == raw]
                res.append(nl(cps_of(m[0])) if m else "err")
            else:
                res.append(hx(p_now.to_bytes(w // 8, "little")))
            continue
        txt = s[3:]
        new = None
        if view == "raw":
            new = int(txt)
            if not fits(t, new):
                return None              # outside the type's range: outside the property
        elif view == "phys":
            if f == 0:
                return None
            q = s_fr(txt) / f
            if 2 * (q - (q.numerator // q.denominator)) == 1:
                return None              # an exact tie has two nearest integers: judged on single operations
            new = half_even(q)
        elif view == "desc":
            named = [v for v, x in tbl if x == str_of(unil(txt))]
            new = named[0] if named else None
        else:
            b = unhx(txt)
            if len(b) != w // 8:
                return None
            new = int.from_bytes(b, "little", signed=signed)
        if new is None or not fits(t, new):
            res.append("err")            # nothing it could store: it must raise and leave the value alone
        else:
            p_now = new % (1 << w)
            res.append("ok")
    exp = f"ok {';'.join(res)} {hx(put(p_now.to_bytes(w // 8, 'little')))}"
    if out != exp:
        got, want = out.split(" ")[1].split(";") if out.count(" ") == 2 else [], res
        at = next((i for i, (x, y) in enumerate(zip(got, want)) if x != y), None)
        where = f" (first difference at step {at + 1}: {a[6].split('|')[at]} gave {got[at]}, the statement gives {want[at]})" \
            if at is not None else ""
        return f"history of accesses on one variable gave {out}, expected {exp}{where}"
    return None


def oracle_plain(op, out):
    a = op.split(" ")
    kind = a[0]
    t = int(a[2])
    if t not in SPEC:
        return None
    w, signed = SPEC[t]
    cur, put, whole = window(a[1], t)
    o = out.split(" ")
    # an assignment that raises must not have stored anything
    if o[0] == "err" and len(o) == 2 and o[1] != hx(whole):
        return f"assignment raised but the store changed from {hx(whole)} to {o[1]}"
    if len(cur) != w // 8:
        return None                      # no raw value to speak of: correspondence only
    P = int.from_bytes(cur, "little")
    raw = int.from_bytes(cur, "little", signed=signed)
    if kind == "raw":
        if a[3] == "get":
            exp = f"ok {raw}"
            if out != exp:
                return f"raw value of stored {hx(cur)} read as {out}, it is {exp}"
            return None
        v = int(a[4])
        if not fits(t, v):
            return None                  # "raw values over each type's range"
        exp = f"ok {hx(put(pat(t, v)))} {v}"
        if out != exp:
            return f"raw = {v} gave {out}, expected {exp}"
        return None
    if kind == "data":
        if a[3] == "get":
            exp = f"ok {hx(cur)}"
            if out != exp:
                return f"the bytes of the variable read as {out}, it holds {exp}"
            return None
        b = unhx(a[4])
        if len(b) != w // 8:
            return None
        exp = f"ok {hx(put(b))} {hx(b)}"
        if out != exp:
            return f"data = {hx(b)} gave {out}, expected {exp}"
        return None
    if kind == "bits":
        rg = key_range(a[4], parse_defs(a[3]))
        if rg is None:
            return None
        lo, hi = rg
        n = hi - lo
        if a[5] == "get":
            if hi > w:
                return None
            exp = f"ok {(P >> lo) & ((1 << n) - 1)}"
            if out != exp:
                return f"field [{lo},{hi}) of raw {raw} read as {out}, its bits are {exp}"
            return None
        v = int(a[6])
        if not 0 <= v < (1 << n):
            return None                  # "all field values that fit"
        mask = ((1 << n) - 1) << lo
        newp = (P & ~mask) | (v << lo)
        if hi > w:
            # the field reaches beyond the value (signed or unsigned: the bits of the raw value are
            # those of its pattern in the type's width): refusing is fine, silently dropping bits is not
            acceptable = {f"err {hx(whole)}"}
            if newp < (1 << w):
                acceptable.add(f"ok {hx(put(newp.to_bytes(w // 8, 'little')))} {v}")
            if signed and out.startswith("ok "):
                # what is stored must be exact; reading back bits above the width of a negative
                # value (sign extension of the Python int) is outside the property
                out = " ".join(o[:2] + [str(v)])
            if out not in acceptable:
                return f"field [{lo},{hi}) reaching beyond the {w}-bit value: got {out}, acceptable {sorted(acceptable)}"
            return None
        exp = f"ok {hx(put(newp.to_bytes(w // 8, 'little')))} {v}"
        if out != exp:
            return (f"assigning {v} to field [{lo},{hi}) of {w}-bit {'signed' if signed else 'unsigned'} "
                    f"raw {raw} (spelling {a[4].split(':')[0]}) gave {out}, exactly-those-bits is {exp}")
        return None
    if kind == "vseq":
        defs = parse_defs(a[3])
        p_now, res = P, []
        for s in a[4].split("|"):
            if s.startswith("R="):
                v = int(s[2:])
                lo_, hi_ = (-(1 << (w - 1)), (1 << (w - 1)) - 1) if signed else (0, (1 << w) - 1)
                if not lo_ <= v <= hi_:
                    return None
                p_now = v % (1 << w)
                res.append("ok")
                continue
            k = s[:-1] if s.endswith("?") else s.split("=")[0]
            rg = key_range(k, defs)
            if rg is None or rg[1] > w:
                return None
            lo, hi = rg
            n = hi - lo
            if s.endswith("?"):
                res.append(str((p_now >> lo) & ((1 << n) - 1)))
            else:
                v = int(s.split("=")[1])
                if not 0 <= v < (1 << n):
                    return None
                p_now = (p_now & ~(((1 << n) - 1) << lo)) | (v << lo)
                res.append("ok")
        exp = f"ok {','.join(res)} {hx(put(p_now.to_bytes(w // 8, 'little')))}"
        if out != exp:
            return f"bit views taken afresh after the value changed gave {out}, expected {exp}"
        return None
    if kind == "seq":
        defs = parse_defs(a[3])
        p_now, res = P, []
        for s in a[4].split("|"):
            k = s[:-1] if s.endswith("?") else s.split("=")[0]
            rg = key_range(k, defs)
            if rg is None or rg[1] > w:
                return None
            lo, hi = rg
            n = hi - lo
            if s.endswith("?"):
                res.append(str((p_now >> lo) & ((1 << n) - 1)))
            else:
                v = int(s.split("=")[1])
                if not 0 <= v < (1 << n):
                    return None
                p_now = (p_now & ~(((1 << n) - 1) << lo)) | (v << lo)
                res.append("ok")
        exp = f"ok {','.join(res)} {hx(put(p_now.to_bytes(w // 8, 'little')))}"
        if out != exp:
            return f"sequence on one Bits object gave {out}, expected {exp}"
        return None
    if kind == "desc":
        tbl = parse_tbl(a[3])
        if len({v for v, _ in tbl}) != len(tbl):
            return None
        if a[4] == "get":
            m = [d for v, d in tbl if v == raw]
            exp = f"ok {nl(cps_of(m[0]))}" if m else "err"
            if out != exp:
                return f"description of raw {raw} read as {out}, the table says {exp}"
            return None
        d = str_of(unil(a[5]))
        named = [v for v, x in tbl if x == d]
        if not named:
            if not out.startswith("err"):
                return f"description naming no value was accepted: {out}"
            return None
        # duplicates: any value the description names will do; one that does not fit must raise
        acceptable = {f"ok {hx(put(pat(t, v)))} {nl(cps_of(d))}" for v in named if fits(t, v)}
        if any(not fits(t, v) for v in named):
            acceptable.add(f"err {hx(whole)}")
        if out not in acceptable:
            return f"setting description gave {out}, the value(s) it names give {sorted(acceptable)}"
        return None
    if kind in ("phys", "physf"):
        f = s_fr(a[3])
        if a[4] == "get":
            exp = f"ok {fr_s(raw * f)}"
            if out != exp:
                return f"physical value of raw {raw} with factor {f} read as {out}, raw*factor is {exp}"
            return None
        v = s_fr(a[5])
        if f == 0:
            if not out.startswith("err"):
                return f"zero factor accepted: {out}"
            return None
        q = v / f
        r = half_even(q)
        assert abs(r * f - v) <= abs(f) / 2 and abs(q - r) <= Fraction(1, 2)
        # the property: *a* nearest integer (at an exact tie both neighbours are; which one the
        # code picks — Python rounds half to even — is pinned by the model, not by the property)
        near = [r] if 2 * (q - (q.numerator // q.denominator)) != 1 else \
            [q.numerator // q.denominator, q.numerator // q.denominator + 1]
        exps = [f"ok {hx(put(pat(t, n)))} {fr_s(n * f)}" if fits(t, n) else f"err {hx(whole)}" for n in near]
        if out not in exps:
            return (f"phys = {v} with factor {f}: got {out}; nearest integer(s) of value/factor: {near}, "
                    f"so {' or '.join(exps)}")
        return None
    if kind == "physx":
        f = Fraction(float(s_fr(a[3])))
        if a[4] == "get" or f == 0:
            return None
        v = Fraction(float(s_fr(a[5])))
        q = v / f
        slack = Fraction(1, 1 << 40)
        cands = {half_even(q), q.numerator // q.denominator, -((-q.numerator) // q.denominator)}
        if not out.startswith("ok"):
            if all(fits(t, c) for c in cands):
                return f"phys = {float(v)} with factor {float(f)} rejected although {sorted(cands)} fit"
            return None
        size = w // 8
        st = unhx(o[1])
        off = int(a[1].split(":")[1]) if a[1][0] in "pP" else 0
        r = int.from_bytes(st[off:off + size], "little", signed=signed)
        if abs(q - r) > Fraction(1, 2) + slack * max(1, abs(q)):
            return f"raw {r} is not a nearest integer of {float(v)}/{float(f)} = {float(q)}"
        rb = s_fr(o[2])
        if abs(rb - v) > abs(f) / 2 + slack * max(abs(v), abs(f)):
            return f"read-back {float(rb)} differs from {float(v)} by more than half a step {float(f)}/2"
        return None
    return None


def signature(op, what):
    a = op.split(" ")
    if a[0] == "via":
        return "via:" + signature(" ".join(a[2:]), what)
    if a[0] in ("raw", "data"):
        return f"{a[0]}:{a[3]}"
    if a[0] in ("mseq", "fmt"):
        return a[0]
    if a[0] == "bits" and len(a) > 5:
        sp = a[4].split(":")[0]
        t = int(a[2])
        if a[5] == "set" and t in SPEC and SPEC[t][1] and " gave err " in what:
            # the defect repaired by "fix: bit fields of signed variables": signed type, field
            # reaching up to the sign bit, the assignment would change the sign bit, the code raised
            w = SPEC[t][0]
            rg = key_range(a[4], parse_defs(a[3]))
            cur = window(a[1], t)[0]
            if rg and rg[1] == w and len(cur) == w // 8:
                sign = cur[-1] >> 7
                v = int(a[6])
                if 0 <= v < (1 << (w - rg[0])) and (v >> (w - 1 - rg[0])) & 1 != sign:
                    return "bits:set:signed-sign-bit-changed"
        if sp == "s" and (" gave err" in what or "read as err" in what):
            return "bits:slice:raises"
        return f"bits:{a[5]}:{sp}"
    if a[0] in ("desc", "phys", "physf", "physx"):
        return f"{a[0]}:{a[4]}"
    return a[0]


def nontrivial(op, out):
    return out.startswith("ok")


def classify(op, out):
    a = op.split(" ")
    res = "ok" if out.startswith("ok") else "err"
    if a[0] == "via":
        return f"via-{a[2]}:{a[1]}:{a[-1] if a[-1] == 'get' else 'set'}:{res}"
    if a[0] in ("raw", "data", "fmt"):
        return f"{a[0]}:{a[1][0]}:{a[3] if a[0] != 'fmt' else a[4]}:{res}"
    if a[0] in ("mseq", "vseq"):
        return f"{a[0]}:{a[1][0]}:{res}"
    st = a[1][0]
    sub = a[4].split(":")[0] + ":" + a[5] if a[0] == "bits" else (a[4] if a[0] != "seq" else "")
    return f"{a[0]}:{st}:{sub}:{'ok' if out.startswith('ok') else 'err'}"


def shrink_candidates(op):
    a = op.split(" ")
    if a[0] == "via":
        # which spelling matters: try the attribute for the read, then for the write; then the operation itself
        w, _, r = a[1].partition(":")
        if r != "p":
            yield " ".join(["via", f"{w}:p"] + a[2:])
        if w != "p":
            yield " ".join(["via", f"p:{r}"] + a[2:])
        for c in shrink_candidates(" ".join(a[2:])):
            yield f"via {a[1]} {c}"
        return
    if a[0] == "mseq":
        steps = a[6].split("|")
        for i in range(len(steps) - 1, -1, -1):
            if len(steps) > 1:
                yield " ".join(a[:6] + ["|".join(steps[:i] + steps[i + 1:])])
        for i, st in enumerate(steps):    # a method spelling replaced by the attribute
            if st[0] in "man":
                yield " ".join(a[:6] + ["|".join(steps[:i] + ["p" + st[1:]] + steps[i + 1:])])
    p = a[1].split(":")
    if p[0] != "d":                       # simplest store first
        size = SPEC.get(int(a[2]), (8,))[0] // 8
        if p[0] in ("p", "P"):
            off = int(p[1])
            val = unhx(p[2])[off:off + size]
        else:
            val = unhx(p[1])
        yield " ".join([a[0], "d:" + hx(val)] + a[2:])
    else:
        b = unhx(p[1])
        if any(b):
            yield " ".join([a[0], "d:" + hx(bytes(len(b)))] + a[2:])
    if a[0] == "bits" and a[5] == "set":
        v = int(a[6])
        for c in (0, 1, v // 2):
            if c != v:
                yield " ".join(a[:6] + [str(c)])
    if a[0] in ("bits", "seq") and a[3] != "-" and not a[4].startswith("d:"):
        yield " ".join(a[:3] + ["-"] + a[4:])


# ---- generator ---------------------------------------------------------------------------------
INT_TYPES = sorted(SPEC)


def rand_raw_bytes(rng, w, style=None):
    style = style if style is not None else rng.randrange(5)
    n = w // 8
    if style == 0:
        return bytes(n)
    if style == 1:
        return b"\xff" * n
    if style == 2:
        return bytes([0xAA if i % 2 == 0 else 0x55 for i in range(n)])
    if style == 3:
        return (1 << (w - 1)).to_bytes(n, "little")
    return bytes(rng.getrandbits(8) for _ in range(n))


def mk_store(rng, t, val, kind=None):
    kind = kind or rng.choice("dlsp")
    size = len(val)
    if kind in ("p", "P"):
        room = 8 - size
        off = rng.randint(0, room) if room > 0 else 0
        trail = rng.randint(0, room - off) if room - off > 0 else 0
        frame = bytes(rng.getrandbits(8) for _ in range(off)) + val + bytes(rng.getrandbits(8) for _ in range(trail))
        return f"{kind}:{off}:{hx(frame)}"
    return f"{kind}:{hx(val)}"


NAMES = ["READY", "bit", "", "Fault reset", "ÄÖ€", "x" * 20, "0", "OPERATION MODE"]


def field_values(rng, n, full=False):
    top = (1 << n) - 1
    if full or n <= 3:
        return list(range(top + 1))
    vals = {0, top, 1, 1 << (n - 1), top - 1, rng.randint(0, top), rng.randint(0, top)}
    return sorted(vals)


def spellings(rng, lo, hi, extra_defs=True):
    """(key string, defs string) for each spelling of [lo, hi)"""
    bits = list(range(lo, hi))
    out = []
    if hi == lo + 1:
        out.append((key_s("n", lo), "-"))
    out.append((key_s("l", bits), "-"))
    out.append((key_s("s", lo, hi, None), "-"))
    name = rng.choice(NAMES)
    defs = [(name, bits)]
    if extra_defs:
        others = [n for n in NAMES if n != name]
        rng.shuffle(others)
        for n in others[:rng.randint(0, 3)]:
            l2 = rng.randint(0, 31)
            defs.insert(rng.randint(0, len(defs)), (n, list(range(l2, rng.randint(l2 + 1, 32)))))
    out.append((key_s("d", cps_of(name)), defs_s(defs)))
    if hi > lo + 1 and rng.random() < 0.35:
        # the same field with its bits listed top first: list, downward slice, defined name
        rev = bits[::-1]
        out.append((key_s("l", rev), "-"))
        if lo >= 1:
            out.append((key_s("s", hi - 1, lo - 1, -1), "-"))
        out.append((key_s("d", cps_of(name)), defs_s([(name, rev)])))
    return out


def gen_bits(tier, rng):
    quick = tier == "quick"
    # (1) every contiguous range within 32 bits, four spellings, on the two 32-bit types
    stores = "dlsp"
    i = 0
    for t in (0x07, 0x04):
        w, signed = SPEC[t]
        for lo in range(32):
            for hi in range(lo + 1, 33):
                n = hi - lo
                for key, defs in spellings(rng, lo, hi):
                    reps = 1 if quick else 4
                    for _ in range(reps):
                        i += 1
                        kind = stores[i % 4]
                        if quick and kind == "s" and i % 3:
                            kind = "d"
                        val = rand_raw_bytes(rng, w)
                        st = mk_store(rng, t, val, kind)
                        vals = field_values(rng, n)
                        yield f"bits {st} {t} {defs} {key} get"
                        for vv in rng.sample(vals, min(2 if quick else 4, len(vals))):
                            yield f"bits {st} {t} {defs} {key} set {vv}"
    # (1b) UNSIGNED32: every range up to 8 bits wide, every value that fits
    for lo in range(32):
        for hi in range(lo + 1, min(lo + 8, 32) + 1):
            for v in range(1 << (hi - lo)):
                if quick and hi - lo > 5 and v % 7 != (lo + hi) % 7 and v not in (0, (1 << (hi - lo)) - 1):
                    continue
                sp = rng.choice(spellings(rng, lo, hi, extra_defs=False))
                yield f"bits {mk_store(rng, 0x07, rand_raw_bytes(rng, 32), rng.choice('dlp'))} 7 {sp[1]} {sp[0]} set {v}"
    # (2) UNSIGNED8 / INTEGER8: every range, every fitting value
    for t in (0x05, 0x02):
        for lo in range(8):
            for hi in range(lo + 1, 9):
                for v in field_values(rng, hi - lo, full=True):
                    val = rand_raw_bytes(rng, 8)
                    sp = rng.choice(spellings(rng, lo, hi, extra_defs=False))
                    yield f"bits {mk_store(rng, t, val, rng.choice('dlp'))} {t} {sp[1]} {sp[0]} set {v}"
                for style in range(5):
                    val = rand_raw_bytes(rng, 8, style)
                    sp = rng.choice(spellings(rng, lo, hi, extra_defs=False))
                    yield f"bits {mk_store(rng, t, val, rng.choice('dlp'))} {t} {sp[1]} {sp[0]} get"
    # (3) every integer type: ranges within (and just beyond) its width
    for t in INT_TYPES:
        w, signed = SPEC[t]
        ranges = [(lo, hi) for lo in range(w) for hi in range(lo + 1, w + 1)]
        edge = [(0, w), (w - 1, w), (0, 1), (w - 2, w - 1), (0, w - 1), (w // 2, w), (w - 8, w),
                (w - 1, w + 1), (w, w + 1), (0, w + 1), (w + 3, w + 9), (0, 64), (63, 64), (64, 65), (0, 70)]
        pick = edge + (rng.sample(ranges, min(len(ranges), 24 if quick else 150)))
        for lo, hi in pick:
            if lo < 0 or hi <= lo:
                continue
            for key, defs in spellings(rng, lo, hi):
                for style in ((rng.randrange(5),) if quick else range(5)):
                    val = rand_raw_bytes(rng, w, style)
                    st = mk_store(rng, t, val)
                    yield f"bits {st} {t} {defs} {key} get"
                    fv = field_values(rng, hi - lo)
                    for v in rng.sample(fv, min(len(fv), 2 if quick else 4)):
                        yield f"bits {st} {t} {defs} {key} set {v}"
    # (3b) fields containing the sign bit of every signed type, over every store (SDO and PDO
    #      variables in particular): sign set, cleared, kept; raw at 0, -1, min, max, random
    for t in [x for x in INT_TYPES if SPEC[x][1]]:
        w, _ = SPEC[t]
        los = sorted({w - 1, w - 2, w - 4, w - 8, w // 2, 1, 0})
        for lo in los:
            n = w - lo
            vals = sorted({0, 1, (1 << n) - 1, 1 << (n - 1), (1 << (n - 1)) - 1, (1 << (n - 1)) | 1,
                           rng.getrandbits(n), rng.getrandbits(n) | (1 << (n - 1)),
                           rng.getrandbits(n) & ~(1 << (n - 1))})
            vals = [v for v in vals if 0 <= v < (1 << n)]
            for kind in "spdl":
                if quick and kind in "dl" and lo not in (w - 1, w - 4, 0):
                    continue
                for style, val in enumerate([bytes(w // 8), b"\xff" * (w // 8), (1 << (w - 1)).to_bytes(w // 8, "little"),
                                             ((1 << (w - 1)) - 1).to_bytes(w // 8, "little"),
                                             rand_raw_bytes(rng, w, 4)]):
                    sps = spellings(rng, lo, w, extra_defs=False)
                    for key, defs in (sps if not quick else [sps[(style + lo) % len(sps)]]):
                        st = mk_store(rng, t, val, kind)
                        yield f"bits {st} {t} {defs} {key} get"
                        for v in (vals if not quick or kind in "sp" else rng.sample(vals, min(3, len(vals)))):
                            yield f"bits {st} {t} {defs} {key} set {v}"
        # the field ending just beyond the sign bit, and single bits above it (must not be dropped silently)
        for lo, hi in ((w - 1, w + 1), (w, w + 1), (0, w + 1), (w - 3, w + 2)):
            for val in (bytes(w // 8), b"\xff" * (w // 8), rand_raw_bytes(rng, w, 4)):
                for v in sorted({0, 1, (1 << (hi - lo)) - 1, 1 << (hi - lo - 1), rng.getrandbits(hi - lo)}):
                    st = mk_store(rng, t, val, rng.choice("sp"))
                    yield f"bits {st} {t} - {key_s('s', lo, hi, None)} set {v}"
    # (4) sequences on one Bits object
    for _ in range(60 if quick else 1500):
        t = rng.choice(INT_TYPES)
        w, signed = SPEC[t]
        top = w
        ops = []
        for _ in range(rng.randint(2, 6)):
            lo = rng.randrange(top)
            hi = rng.randint(lo + 1, top)
            key = rng.choice(spellings(rng, lo, hi, extra_defs=False)[:-1])[0]
            ops.append(f"{key}?" if rng.random() < 0.4 else f"{key}={rng.randint(0, (1 << (hi - lo)) - 1)}")
        yield f"seq {mk_store(rng, t, rand_raw_bytes(rng, w))} {t} - {'|'.join(ops)}"
    # (4b) one variable object, a fresh `bits` view per step, the raw value changed by another path in between
    for _ in range(80 if quick else 1500):
        t = rng.choice(INT_TYPES)
        w, signed = SPEC[t]
        ops = []
        for _ in range(rng.randint(3, 7)):
            r = rng.random()
            if r < 0.3:
                lo_, hi_ = (-(1 << (w - 1)), (1 << (w - 1)) - 1) if signed else (0, (1 << w) - 1)
                ops.append(f"R={rng.randint(lo_, hi_)}")
                continue
            lo = rng.randrange(w)
            hi = rng.randint(lo + 1, w)
            key = rng.choice(spellings(rng, lo, hi, extra_defs=False)[:3])[0]
            ops.append(f"{key}?" if r < 0.65 else f"{key}={rng.randint(0, (1 << (hi - lo)) - 1)}")
        yield f"vseq {mk_store(rng, t, rand_raw_bytes(rng, w))} {t} - {'|'.join(ops)}"
    # (5) out-of-domain keys and values: model vs code only
    odd_keys = [key_s("l", []), key_s("l", [-1]), key_s("l", [3, -2, 5]), key_s("l", [7, 3]), key_s("l", [0, 2, 4]),
                key_s("l", [5, 5, 6]), key_s("t", [1, 2]), key_s("t", []), key_s("n", -1), key_s("n", 200),
                key_s("s", None, 4, None), key_s("s", 4, None, None), key_s("s", None, None, None),
                key_s("s", 0, 8, 2), key_s("s", 7, 3, -1), key_s("s", 7, None, -1), key_s("s", 4, 8, 0),
                key_s("s", 8, 4, None), key_s("s", 4, 4, None), key_s("s", -2, 3, None), key_s("s", 0, 4, 1),
                key_s("s", 0, 0, None), key_s("s", 1, 12, 3), key_s("s", 0, -1, None),
                key_s("d", cps_of("UNDEFINED")), key_s("d", []), key_s("d", cps_of("12"))]
    for t in (0x05, 0x02, 0x06, 0x03, 0x07, 0x1B, 0x15, 0x16, 0x10):
        w, signed = SPEC[t]
        for key in odd_keys:
            for defs in ("-", defs_s([("A", [0, 1]), ("", [2]), ("E", []), ("N", [-1, 0]), ("12", [3, 4])])):
                val = rand_raw_bytes(rng, w)
                st = mk_store(rng, t, val, rng.choice("dlp"))
                yield f"bits {st} {t} {defs} {key} get"
                yield f"bits {st} {t} {defs} {key} set {rng.choice([0, 1, 3, 255, -1, 1 << 70])}"
        for key, defs in [(key_s("d", cps_of("E")), defs_s([("E", [])])), (key_s("d", cps_of("N")), defs_s([("N", [-1, 0])])),
                          (key_s("d", []), defs_s([("", [2, 3])])), (key_s("d", cps_of("A")), defs_s([("A", [1, 3])]))]:
            st = mk_store(rng, t, rand_raw_bytes(rng, w), "d")
            yield f"bits {st} {t} {defs} {key} get"
            yield f"bits {st} {t} {defs} {key} set 1"
        # values that do not fit the field, negative values
        for _ in range(6 if quick else 60):
            lo = rng.randrange(w)
            hi = rng.randint(lo + 1, w)
            st = mk_store(rng, t, rand_raw_bytes(rng, w))
            v = rng.choice([1 << (hi - lo), (1 << (hi - lo)) + 1, -1, -(1 << (hi - lo)), rng.getrandbits(70)])
            yield f"bits {st} {t} - {key_s('s', lo, hi, None)} set {v}"
        # wrong-length / empty data behind the variable
        for hexs in ("-", "00", "000000", "00" * 9):
            if len(unhx(hexs)) != w // 8:
                yield f"bits d:{hexs} {t} - n:0 get"
                yield f"bits d:{hexs} {t} - n:0 set 1"
                yield f"seq d:{hexs} {t} - n:0=1|n:0?"
    # a rejected write leaves the held Bits object's cache changed (model follows the code)
    yield "seq d:00 5 - n:0=1|n:8=1|n:8?|n:1=1|n:0?"
    yield "seq l:7f 2 - n:7=1|n:7?|n:0=0|n:0?"


DESCS = ["OFF", "ON", "", "Profile Position Mode", "ÄÖ€ß", "a b", "Homing", "x" * 30, "1", "No mode"]


def gen_desc(tier, rng):
    quick = tier == "quick"
    for nent in range(0, 21):
        for rep in range(2 if quick else 20):
            t = rng.choice(INT_TYPES)
            w, signed = SPEC[t]
            lo, hi = (-(1 << (w - 1)), (1 << (w - 1)) - 1) if signed else (0, (1 << w) - 1)
            vals = set()
            while len(vals) < nent:
                vals.add(rng.choice([lo, hi, 0, 1, -1 if signed else 2, rng.randint(lo, hi), rng.randint(0, 20),
                                     hi + 1, lo - 1, rng.randint(-5, 5)]))
            vals = list(vals)
            rng.shuffle(vals)
            dup = rep % 2 == 1 and nent > 1
            tbl = []
            for i, v in enumerate(vals):
                text = rng.choice(DESCS) if dup else (DESCS[i % len(DESCS)] + ("" if i < len(DESCS) else str(i)))
                tbl.append((v, text))
            tb = tbl_s(tbl)
            # read: every described in-range value, plus undescribed ones
            for v in [x for x in vals if fits(t, x)][:6] + [rng.randint(lo, hi), 0]:
                if fits(t, v):
                    yield f"desc {mk_store(rng, t, pat(t, v))} {t} {tb} get"
            # write: every description, plus unknown ones
            texts = list(dict.fromkeys(d for _, d in tbl))
            for d in texts[:8] + ["UNKNOWN", "off"]:
                yield f"desc {mk_store(rng, t, rand_raw_bytes(rng, w))} {t} {tb} set {nl(cps_of(d))}"
    for t in (0x05, 0x03):
        yield f"desc d:- {t} 0=79 get"
        yield f"desc d:000000 {t} 0=79 get"
        yield f"desc d:- {t} 0=79 set 79"


def dyadic_factors():
    out = []
    for e in range(-10, 11):
        for m in (1, 3, 5):
            for s in (1, -1):
                out.append(Fraction(s * m) * Fraction(2) ** e)
    return out


def gen_phys(tier, rng):
    quick = tier == "quick"
    factors = dyadic_factors()
    types = [t for t in INT_TYPES if SPEC[t][0] <= 32]
    for f in factors:
        for rep in range(2 if quick else 12):
            t = rng.choice(types)
            w, signed = SPEC[t]
            lo, hi = (-(1 << (w - 1)), (1 << (w - 1)) - 1) if signed else (0, (1 << w) - 1)
            ns = [lo, hi, 0, 1, hi - 1, lo + 1, rng.randint(lo, hi), rng.randint(lo, hi), rng.randint(-40, 40),
                  hi + 1, lo - 1]
            n = rng.choice(ns)
            fracs = [Fraction(0), Fraction(1, 2), Fraction(-1, 2), Fraction(1, 4), Fraction(-1, 4),
                     Fraction(1, 2) - Fraction(1, 1 << 12), Fraction(1, 2) + Fraction(1, 1 << 12),
                     Fraction(rng.randint(-511, 511), 1024)]
            for fr in (rng.sample(fracs, 3) if quick else fracs):
                q = n + fr
                v = q * f
                kind = rng.choice(["phys", "physf"])
                st = mk_store(rng, t, rand_raw_bytes(rng, w))
                yield f"{kind} {st} {t} {fr_s(f)} set {fr_s(v)}"
            raw = rng.choice(ns[:9])
            if fits(t, raw):
                yield f"{rng.choice(['phys', 'physf'])} {mk_store(rng, t, pat(t, raw))} {t} {fr_s(f)} get"
    # 64-bit types: small quotients only (int -> float conversion of big raws is not exact)
    for t in (0x1B, 0x15, 0x19, 0x13):
        w, signed = SPEC[t]
        for _ in range(10 if quick else 100):
            f = rng.choice(factors)
            q = Fraction(rng.randint(-(1 << 20) if signed else 0, 1 << 20)) + rng.choice([0, Fraction(1, 2), Fraction(3, 8)])
            yield f"phys {mk_store(rng, t, rand_raw_bytes(rng, w, 0))} {t} {fr_s(f)} set {fr_s(q * f)}"
    # quotients that a double still holds exactly but where adding 0.5 in floating point goes wrong: odd integers
    # between 2^52 and 2^53, and the largest double below one half
    for t in (0x1B, 0x15, 0x19, 0x13):
        w, signed = SPEC[t]
        for q in (Fraction((1 << 52) + 1), Fraction((1 << 53) - 1), Fraction((1 << 52) + 12345 * 2 + 1),
                  Fraction((1 << 53) - 1, 1 << 54), Fraction(3 * (1 << 50) + 1, 1)) + \
                ((Fraction(-((1 << 52) + 1)), Fraction(-((1 << 53) - 1), 1 << 54)) if signed else ()):
            for kind in ("phys", "physf"):
                yield f"{kind} {mk_store(rng, t, bytes(w // 8))} {t} 1/1 set {fr_s(q)}"
    for t in (0x06, 0x03):
        yield f"phys d:0a00 {t} 0/1 set 1/1"
        yield f"physf d:0a00 {t} 0/1 set 1/1"
        yield f"phys d:0a00 {t} 0/1 get"
        yield f"phys d:- {t} 1/2 get"
        yield f"phys d:0a {t} 1/2 get"
    # non-dyadic factors: float arithmetic rounds; bounded by the oracle, not compared with the model
    dec = [Fraction(1, 10), Fraction(1, 100), Fraction(1, 1000), Fraction(-1, 10), Fraction(1, 3), Fraction(7, 10),
           Fraction(22, 7), Fraction(-3, 1000), Fraction(1, 1000000), Fraction(15, 10), Fraction(255, 100)]
    for f in dec:
        for _ in range(6 if quick else 200):
            t = rng.choice(types)
            w, signed = SPEC[t]
            lo, hi = (-(1 << (w - 1)), (1 << (w - 1)) - 1) if signed else (0, (1 << w) - 1)
            n = rng.choice([lo, hi, 0, 1, rng.randint(lo, hi), rng.randint(-100, 100)])
            if not fits(t, n):
                continue
            q = n + rng.choice([Fraction(0), Fraction(1, 2), Fraction(49, 100), Fraction(51, 100),
                                Fraction(rng.randint(-499, 499), 1000)])
            yield f"physx {mk_store(rng, t, rand_raw_bytes(rng, w))} {t} {fr_s(f)} set {fr_s(q * f)}"


ALL_KINDS = "dlspLASTP"
MEMBER_ALT = {"d": "d", "l": "lLA", "s": "sST", "p": "pP"}


def via_pairs(view):
    """(write spelling, read spelling) pairs of a view, the all-attribute pair (the plain operation) left out"""
    letters = "pman" if view == "raw" else "pma"
    return [(w, r) for w in letters for r in letters if (w, r) != ("p", "p")]


def vary_store(rng, st):
    """the same bytes behind a stand-alone variable, a record member or an array member"""
    return rng.choice(MEMBER_ALT[st[0]]) + st[1:]


FMT_NAMES = ["bits", "", "RAW", "raw ", " raw", "Raw", "physical", "data", "desc\x00", "phys,desc", "raw"]


def gen_methods(tier, rng):
    """the method spellings as an access-path dimension of every view"""
    quick = tier == "quick"
    # (1) the phys and desc streams again, every operation through a method spelling of the write and / or the
    #     read-back, the variable standing alone or being a record / array member
    for src, view in ((gen_phys, "phys"), (gen_desc, "desc")):
        pairs = via_pairs(view)
        for op in src(tier, rng):
            a = op.split(" ")
            w, r = rng.choice(pairs)
            a[1] = vary_store(rng, a[1])
            yield f"via {w}:{r} " + " ".join(a)
    # (1b) every pair of spellings on the ties and near-ties of a few factors, every kind of variable
    for f in (Fraction(1, 4), Fraction(-1, 4), Fraction(5, 2), Fraction(-3, 8), Fraction(1), Fraction(-1), Fraction(3)):
        for w, r in via_pairs("phys"):
            for kind in (rng.sample(ALL_KINDS, 3) if quick else ALL_KINDS):
                t = rng.choice([0x03, 0x04, 0x02, 0x10, 0x06, 0x07])
                wd, signed = SPEC[t]
                n = rng.randint(-100 if signed else 1, 100)
                for fr in (Fraction(1, 4), Fraction(-1, 4), Fraction(3, 8), Fraction(-3, 8), Fraction(1, 2) + Fraction(1, 64),
                           Fraction(-1, 2) - Fraction(1, 64), Fraction(1, 2)):
                    st = mk_store(rng, t, rand_raw_bytes(rng, wd), kind)
                    yield f"via {w}:{r} {rng.choice(['phys', 'physf'])} {st} {t} {fr_s(f)} set {fr_s((n + fr) * f)}"
    # (2) the raw value and the bytes themselves: every integer type, every kind of variable
    for t in INT_TYPES:
        wd, signed = SPEC[t]
        lo, hi = (-(1 << (wd - 1)), (1 << (wd - 1)) - 1) if signed else (0, (1 << wd) - 1)
        for kind in ALL_KINDS:
            vals = [lo, hi, 0, 1, -1 if signed else 2, rng.randint(lo, hi), rng.randint(lo, hi), hi + 1, lo - 1]
            datas = [pat(t, lo), pat(t, hi), rand_raw_bytes(rng, wd, 4), rand_raw_bytes(rng, wd, 2)]
            rp, dp = via_pairs("raw"), via_pairs("data")
            for w, r in (rng.sample(rp, 2) if quick else rp):
                st = mk_store(rng, t, rand_raw_bytes(rng, wd), kind)
                yield f"via {w}:{r} raw {st} {t} get"
                for v in rng.sample(vals, 2 if quick else 4):
                    yield f"via {w}:{r} raw {st} {t} set {v}"
            for w, r in (rng.sample(dp, 2) if quick else dp):
                st = mk_store(rng, t, rand_raw_bytes(rng, wd), kind)
                yield f"via {w}:{r} data {st} {t} get"
                for b in rng.sample(datas, 2 if quick else 3):
                    yield f"via {w}:{r} data {st} {t} set {hx(b)}"
            st = mk_store(rng, t, rand_raw_bytes(rng, wd), kind)
            yield f"raw {st} {t} get"
            yield f"raw {st} {t} set {rng.choice(vals)}"
            yield f"data {st} {t} get"
            yield f"data {st} {t} set {hx(rng.choice(datas))}"
        # bytes of the wrong length (model only; a dict cell and a PDO frame take them as they are)
        for kind in "dp":
            for n in (0, wd // 8 - 1, wd // 8 + 1):
                st = mk_store(rng, t, rand_raw_bytes(rng, wd), kind)
                if kind == "p" and n > wd // 8:
                    continue
                yield f"via {rng.choice('pm')}:{rng.choice('pm')} data {st} {t} set {hx(bytes(rng.getrandbits(8) for _ in range(n)))}"
    # (3) histories on one variable object mixing spellings, views and bit fields
    small = [t for t in INT_TYPES if SPEC[t][0] <= 32]
    facs = [Fraction(1), Fraction(1, 4), Fraction(-1, 2), Fraction(5, 8), Fraction(3), Fraction(-2), Fraction(1, 16)]
    for _ in range(400 if quick else 4000):
        t = rng.choice(small)
        wd, signed = SPEC[t]
        lo, hi = (-(1 << (wd - 1)), (1 << (wd - 1)) - 1) if signed else (0, (1 << wd) - 1)
        f = rng.choice(facs)
        tvals = set()
        while len(tvals) < rng.randint(1, 5):
            tvals.add(rng.choice([lo, hi, 0, 1, rng.randint(lo, hi), rng.randint(0, 9)]))
        tvals = sorted(tvals)
        tbl = [(v, DESCS[i]) for i, v in enumerate(tvals)]
        flo = rng.randrange(wd)
        fhi = rng.randint(flo + 1, wd)
        defs = [("F", list(range(flo, fhi)))]
        steps = []
        for _ in range(rng.randint(3, 8)):
            c = rng.random()
            sp = rng.choice("pma")
            if c < 0.15:
                steps.append(f"{rng.choice('pman')}r?")
            elif c < 0.25:
                steps.append(f"{sp}f?")
            elif c < 0.32:
                steps.append(f"{sp}d?")
            elif c < 0.40:
                steps.append(f"{sp}b?")
            elif c < 0.52:
                steps.append(f"{rng.choice('pman')}r={rng.choice(tvals + [rng.randint(lo, hi), rng.randint(lo, hi)])}")
            elif c < 0.70:
                n = rng.choice([lo, hi, 0, rng.randint(lo, hi), rng.randint(-50, 50), hi + 1, lo - 1] + tvals)
                fr = rng.choice([Fraction(0), Fraction(1, 4), Fraction(-1, 4), Fraction(3, 8), Fraction(-3, 8),
                                 Fraction(1, 2) - Fraction(1, 256), Fraction(-1, 2) + Fraction(1, 256)])
                steps.append(f"{sp}f={fr_s((n + fr) * f)}")
            elif c < 0.80:
                d = rng.choice([d for _, d in tbl] + ["UNKNOWN"])
                steps.append(f"{sp}d={nl(cps_of(d))}")
            elif c < 0.88:
                steps.append(f"{sp}b={hx(rand_raw_bytes(rng, wd))}")
            else:
                key = rng.choice([key_s("s", flo, fhi, None), key_s("d", cps_of("F")), key_s("l", list(range(flo, fhi)))])
                steps.append(f"B{key}?" if rng.random() < 0.5 else f"B{key}={rng.randint(0, (1 << (fhi - flo)) - 1)}")
        st = mk_store(rng, t, rand_raw_bytes(rng, wd), rng.choice(ALL_KINDS))
        yield f"mseq {st} {t} {fr_s(f)} {tbl_s(tbl)} {defs_s(defs)} {'|'.join(steps)}"
    # (4) fmt strings that name no view (model only): read returns None, write does nothing
    for name in FMT_NAMES:
        for kind in ("d", "l", "p") if quick else ALL_KINDS:
            t = rng.choice(INT_TYPES)
            st = mk_store(rng, t, rand_raw_bytes(rng, SPEC[t][0]), kind)
            yield f"fmt {st} {t} {nl(cps_of(name))} get"
            yield f"fmt {st} {t} {nl(cps_of(name))} set {rng.randint(0, 100)}"


def gen_ops(tier, rng):
    yield from gen_bits(tier, rng)
    yield from gen_desc(tier, rng)
    yield from gen_phys(tier, rng)
    yield from gen_methods(tier, rng)


def search_ops(tier, rng):
    """extra seeds of the quick sweep (used when an obligation broke and no failing input is known)"""
    yield from gen_ops("quick", rng)


CORPUS = [
    "bits d:f0 5 - s:4:8:_ get",          # F12: bits[4:8] raised TypeError before the fix
    "bits d:0f 5 - s:4:8:_ set 10",
    "bits s:34120000 7 - s:_:4:_ get",
    "bits p:2:aabb3412ccdd 6 - s:8:12:_ set 15",
    "bits d:00 2 - n:7 set 1",            # sign bit of a signed type: raised ValueError before the fix
    "bits d:ff 2 - s:4:8:_ set 7",
    "bits s:ffffff 16 - n:23 set 0",      # INTEGER24 -1 -> 0x7fffff over SDO
    "bits p:1:aa0080bb 3 - n:15 set 0",   # INTEGER16 min -> 0 in a PDO frame
    "bits d:00 2 - n:8 set 1",            # a bit beyond the width is refused, not dropped (as for UNSIGNED8)
    "bits d:ff 2 - n:8 set 1",
    "bits l:0000 3 82,68,89=15 d:82,68,89 set 1",
    "phys d:0000 3 1/4 set 5/8",          # tie: 2.5 -> 2
    "phys d:0000 3 1/4 set 7/8",          # tie: 3.5 -> 4
    "phys d:0000 3 -1/4 set 7/8",         # tie: -3.5 -> -4
    # the documented methods: write(0.3, fmt="phys") with factor 0.1 stores 3 (a truncating write stored 2)
    "via m:p physx d:0000 3 1/10 set 3/10",
    "via a:m physx s:0000 3 1/10 set -777/100",
    "via m:m phys p:1:aa0000bb 3 1/4 set 11/16",      # 2.75 -> 3
    "via a:a phys S:00000000 4 -2/1 set 7/1",         # -3.5 -> -4 (tie) on a record member over SDO
    "via m:n raw T:0000 3 set -2",
    "via n:a raw P:2:aabb0000cc 6 set 65535",
    "via m:m desc A:00 5 0=79,70,70;1=79,78 set 79,78",
    "via p:m data l:0000 3 set 0102",
    "mseq L:0000 3 1/4 3=79,78;-2=79,70,70 70=0,1 mf=11/16|nr?|pd?|ab?|ad=79,70,70|pf?|Bd:70=1|mr?",
]

LEVEL_TEXT = ("Lean 4 theorems over all Python-int raw values, all contiguous bit ranges (unbounded; also arbitrary "
              "bit lists), all field values that fit, all key spellings, all description tables, all rational factors "
              "and values (round-half-even), and all lawful stores (any two lawful stores are indistinguishable "
              "through the views; dict cell and byte-aligned PDO window proved lawful), composed with the C04 codec "
              "for the 16 integer types, signed ones included (bits = two's complement pattern in the type's width, "
              "fields containing the sign bit included); the documented methods read(fmt)/write(value, fmt) and "
              ".data/get_data/set_data modelled as coded and proved to agree with the attributes for every fmt, for "
              "single accesses and for histories mixing the spellings, so that the half-step / description / bit-field "
              "theorems hold through the method API (restated with the raw value observed through read() and .data); "
              "model tied to the code by a differential run over four real stores "
              "(dict, LocalNode, SDO over a fake bus, PDO), the variable standing alone or being a record / array member, "
              "every view through every spelling")
LEVEL_NOTE = ("scaling is proved over the rationals: IEEE rounding of '/' and '*' is differential-only (exact dyadic "
              "stream compared with the model, decimal factors bounded by the oracle); the SDO store law is a "
              "hypothesis here (C01-C03); reading a field that reaches beyond the width of a signed variable (sign "
              "extension of the Python int) is outside the property and compared with the model only")
TECHNIQUE = "Lean 4 proof (bit-level extensionality on unbounded ints, rationals) + differential correspondence"
