"""C07 — A disturbed SDO transfer fails loudly and does not poison the next one."""
import logging

from canopen.sdo import SdoClient

from props import c01, c02, c04, c07_block, c07_lib
from props.c01 import RefServer, Bus, make_od, parse_held, parse_xfer, err_name, show_frames, dl_token

logging.disable(logging.CRITICAL)

ID = "C07"
PROOF_MODULES = ["CanopenProofs.C07", "CanopenProofs.C07Block", "CanopenProofs.C07Lib"]
GENERATED = ["Datatypes", "SdoConst", "SdoBlock"]
THEOREMS = [
    "Canopen.C07.Lib.lib_server_wf_any_requests",
    "Canopen.C07.Lib.lib_server_wf_under_disturbance",
    "Canopen.C07.Lib.distPeer_lib_forwards",
    "Canopen.C07.Lib.download_never_silently_wrong_lib",
    "Canopen.C07.Lib.next_transfer_clean_lib",
    "Canopen.C07.Lib.upload_never_silently_wrong_lib",
    "Canopen.C07.Lib.schedPeer_lib_honest",
    "Canopen.C07.timeout_aborts",
    "Canopen.C07.abort_raises",
    "Canopen.C07.downloadWith_ok",
    "Canopen.C07.download_never_silently_wrong",
    "Canopen.C07.distPeer_forwards",
    "Canopen.C07.upload_never_silently_wrong",
    "Canopen.C07.schedPeer_honest",
    "Canopen.C07.next_transfer_clean",
    # block transfers (CanopenProofs/C07Block.lean)
    "Canopen.C07.BD.initiate_lost_aborts",
    "Canopen.C07.BD.ack_lost_aborts",
    "Canopen.C07.BD.end_lost_aborts",
    "Canopen.C07.BD.initiate_abort_raises",
    "Canopen.C07.BD.ack_abort_raises",
    "Canopen.C07.BD.end_abort_raises",
    "Canopen.C07.BD.block_download_ok_exact_partial",
    "Canopen.C07.BD.dup_ack_counterexample",
    "Canopen.C07.BD.between_idle",
    "Canopen.C07.BD.next_block_download_clean",
    "Canopen.C07.BU.request_lost_aborts",
    "Canopen.C07.BU.segment_lost_aborts",
    "Canopen.C07.BU.end_lost_aborts",
    "Canopen.C07.BU.request_abort_raises",
    "Canopen.C07.BU.segment_abort_raises",
    "Canopen.C07.BU.end_abort_raises",
    "Canopen.C07.BU.between_idle",
    "Canopen.C07.BU.block_upload_lost_ok_exact",
    "Canopen.C07.BU.block_upload_lost_segment_repaired",
    "Canopen.C07.BU.late_dup_instances",
    "Canopen.C07.BU.deferred_dup_counterexample",
]
FINGERPRINT = c01.FINGERPRINT + c02.FINGERPRINT + [
    "canopen.sdo.client:BlockDownloadStream",
    "canopen.sdo.client:BlockUploadStream",
]
TRUSTED = c01.TRUSTED + [
    "a disturbance alters only what the client finds in its response queue (CanopenModel/Sdo/Disturb.lean); "
    "real time-outs are 'queue empty when the client looks'",
    "`with` semantics (close() on every exit, also via IOBase.__del__) modelled as downloadWith",
]
ASSUMPTIONS = [
    "a stale upload response that carries the expected command specifier, toggle bit and multiplexer, arriving "
    "between request and response, is indistinguishable by the protocol from the real one; such frames are "
    "excluded (hypothesis of upload_never_silently_wrong; never generated)",
    "block transfers: a stale frame that has the form of a block acknowledge, arriving where an acknowledge is "
    "expected, is indistinguishable by the protocol from the real one (no toggle, no sequence id) and is not "
    "generated; duplicated acknowledges (explicit in the property) are, and are open findings; the wrong-toggle / "
    "wrong-specifier / wrong-multiplexer kinds are applied to the command responses (initiate, acknowledge, end), "
    "not to block-upload data segments, which have none of these fields; a stale block-upload segment frame that "
    "carries exactly the sequence number the client waits for is indistinguishable from the real segment and is "
    "not generated (the stale segment of the bdist ops carries another number); the same holds for a duplicate of "
    "the first segment of a sub-block that arrives only after the acknowledge of that sub-block (sequence numbers "
    "restart at 1 with every sub-block): without CRC it is accepted (closed instance BU.deferred_dup_counterexample); "
    "generated only for transfers with CRC negotiated, where it is caught",
    "block ops: during a transfer the server's own time-out never fires before the client's; between two "
    "transfers it does (a block transfer left open is aborted by the server with 0x05040000)",
]
RULE = ("op distlib: the library client against the library's own LocalNode server, one response disturbed (every "
        "step of expedited / segmented downloads and uploads, all kinds), followed by two or three undisturbed "
        "transfers in both directions on the same client and server; the node's data store is read after each.  "
        "op bdist: a block download / upload whose `at`-th server response is lost / late / replaced by an abort frame / "
        "given a wrong command specifier / wrong multiplexer (initiate) / duplicated (inline, deferred) / preceded by "
        "a stale frame, or stale frames queued before the first request; every response index of transfers of 1, 7, "
        "8, 30, 32, 50, 64 and 909 bytes, CRC on and off, changing block sizes; followed by two undisturbed "
        "transfers (block and expedited/segmented, both directions) on the same client and server.  "
        "op dist: a transfer disturbed at request index `at` by one of lost / abort frame / wrong toggle / wrong "
        "command specifier / wrong multiplexer / duplicate (inline, deferred) / late response / stale frame in "
        "between, followed by an undisturbed transfer on the same client and server; every step of expedited and "
        "segmented transfers in both directions, lengths on both sides of 4, 7, 14, 21; non-trivial = the first "
        "transfer failed loudly or completed, and the second completed")

ABORT_TIMEOUT = "8000000000000405"


class Disturber:
    def __init__(self, at, kind):
        self.at, self.kind = at, kind
        self.idx = 0
        self.pending = []
        self.delivered = []

    def __call__(self, req, rs):
        pre, self.pending = self.pending, []
        i = self.idx
        self.idx += 1
        k = self.kind.split(":")
        out = pre + rs
        if i == self.at:
            if k[0] == "lost":
                out = pre
            elif k[0] == "replace":
                out = pre + [c04.unhx(k[1])]
            elif k[0] == "toggle":
                out = pre + ([bytes([rs[0][0] ^ 0x10]) + rs[0][1:]] + rs[1:] if rs else [])
            elif k[0] == "scs":
                out = pre + ([bytes([(rs[0][0] & 0x1F) | int(k[1]) << 5]) + rs[0][1:]] + rs[1:] if rs else [])
            elif k[0] == "mux":
                out = pre + ([rs[0][:1] + bytes([(rs[0][1] + 1) % 256]) + rs[0][2:]] + rs[1:] if rs else [])
            elif k[0] == "dup":
                out = pre + rs + rs
            elif k[0] == "dupd":
                out = pre + rs
                self.pending = list(rs)
            elif k[0] == "late":
                out = pre
                self.pending = list(rs)
            elif k[0] == "stale":
                out = pre + [c04.unhx(k[1])] + rs
        self.delivered += out
        return out


def run(held, style, at, kind, xfers):
    server = RefServer(held, *style)
    odtypes = {(x[1], x[2]): x[3] for x in xfers if x[0] == "u"}
    client = SdoClient(0x602, 0x582, make_od(odtypes))
    client.RESPONSE_TIMEOUT = 0.001
    dist = Disturber(at, kind)
    bus = Bus(client, server, dist)
    client.network = bus
    results = []
    for x in xfers:
        try:
            if x[0] == "d":
                _, idx, sub, data, sized, force, offers = x
                with client.open(idx, sub, "wb", buffering=0, size=len(data) if sized else None,
                                 force_segment=force) as fp:
                    rem, offs = data, list(offers)
                    guard = 2 * len(data) + len(offers) + 2
                    while rem and guard:
                        guard -= 1
                        k = max(offs.pop(0), 1) if offs else len(rem)
                        n = fp.write(rem[:k])
                        rem = rem[n:]
                results.append("ok")
            else:
                results.append("ok " + c04.hx(client.upload(x[1], x[2])))
        except Exception as e:
            results.append(err_name(e))
    return results, bus, server, dist


def run_impl(op):
    if op.startswith("bdist "):
        return c07_block.run_impl(op)
    if op.startswith("distlib "):
        return c07_lib.run_impl(op)
    a = op.split(" ")
    held = parse_held(a[1])
    style = (a[2] == "1", a[3] == "1", a[4] == "1", c04.unnl(a[5]))
    xfers = [parse_xfer(s) for s in a[8].split(";")]
    results, bus, server, dist = run(held, style, int(a[6]), a[7], xfers)
    commits = "&".join(f"{i}.{j}={c04.hx(b)}" for (i, j), b in server.commits) if server.commits else "-"
    ill = "-" if server.illegal is None else server.illegal.replace(" ", "_")
    return f"{';'.join(results)} | {show_frames(bus.requests)} | {show_frames(dist.delivered)} | {commits} | {ill}"


def oracle(op, out):
    if op.startswith("bdist "):
        return c07_block.oracle(op, out)
    if op.startswith("distlib "):
        return c07_lib.oracle(op, out)
    a = op.split(" ")
    if out.startswith("HARNESS"):
        return None
    held = parse_held(a[1])
    expedited, exp_size = a[3] == "1", a[4] == "1"
    at, kind = int(a[6]), a[7].split(":")[0]
    xfers = [parse_xfer(s) for s in a[8].split(";")]
    parts = out.split(" | ")
    results = parts[0].split(";")
    reqs = [] if parts[1] == "-" else parts[1].split(",")
    commits = [] if parts[3] == "-" else parts[3].split("&")

    def expected_upload(x):
        data = held.get((x[1], x[2]))
        if data is None:
            return None
        if expedited and 1 <= len(data) <= 4 and not exp_size:
            data = data.ljust(4, b"\0")
        return "ok " + c04.hx(data)

    for n, (x, r) in enumerate(zip(xfers, results)):
        first = n == 0
        if r == "err other":
            return f"transfer {n} raised something that is neither an SDO communication nor an abort error"
        if x[0] == "d":
            key = f"{x[1]}.{x[2]}={c04.hx(x[3])}"
            if r == "ok":
                if key not in commits:
                    return f"download {n} reported success but the server did not commit the payload ({parts[3]})"
                held[(x[1], x[2])] = x[3]
            elif not first:
                return f"the transfer after the disturbed one failed: {r}"
            else:
                # failed loudly; what the server holds now is whatever it last committed for that object
                for c in commits:
                    k, v = c.split("=")
                    i, j = k.split(".")
                    held[(int(i), int(j))] = c04.unhx(v)
        else:
            exp = expected_upload(x)
            if r.startswith("ok"):
                if exp is not None and r != exp:
                    return f"upload {n} reported success with {r}, the server holds {exp}"
            elif not first:
                if not (exp is None and r.startswith("err aborted")):
                    return f"the transfer after the disturbed one failed: {r}"
    if kind in ("lost", "late") and at < len(reqs):
        # was the disturbed request part of a transfer (not the client's own abort frame)?
        if not reqs[at].startswith("80"):
            if results[0].startswith("ok"):
                return "a lost response went unnoticed"
            if at + 1 >= len(reqs) or reqs[at + 1] != ABORT_TIMEOUT:
                return (f"response to request {at} lost, but the client did not emit the time-out abort frame "
                        f"{ABORT_TIMEOUT} next (sent: {reqs[at + 1] if at + 1 < len(reqs) else 'nothing'})")
    return None


def signature(op, what):
    if op.startswith("bdist "):
        return c07_block.signature(op, what)
    if op.startswith("distlib "):
        return c07_lib.signature(op, what)
    a = op.split(" ")
    return f"{a[7].split(':')[0]}:{what.split(' ')[0]}:{what.split(' ')[1] if ' ' in what else ''}"


def nontrivial(op, out):
    if op.startswith("bdist "):
        return c07_block.nontrivial(op, out)
    if op.startswith("distlib "):
        return c07_lib.nontrivial(op, out)
    rs = out.split(" | ")[0].split(";")
    return len(rs) == 2 and rs[1].startswith("ok")


def classify(op, out):
    if op.startswith("bdist "):
        return c07_block.classify(op, out)
    if op.startswith("distlib "):
        return c07_lib.classify(op, out)
    a = op.split(" ")
    rs = out.split(" | ")[0].split(";")
    return f"{a[7].split(':')[0]}:{a[8][0]}:{rs[0].split(' ')[0] + (' ' + rs[0].split(' ')[1] if rs[0].startswith('err') else '')}"


def shrink_candidates(op):
    return []


def count_requests(held, style, xfer):
    """number of request frames of the undisturbed transfer (measured on the real client)"""
    _, bus, _, _ = run(parse_held(held), style, 10 ** 9, "lost", [parse_xfer(xfer)])
    return len(bus.requests)


def gen_ops(tier, rng):
    yield from gen_seg_ops(tier, rng)
    yield from c07_lib.gen_ops(tier, rng)
    yield from c07_block.gen_ops(tier, rng)


def gen_seg_ops(tier, rng):
    lens = [0, 1, 3, 4, 5, 7, 8, 13, 14, 15, 21, 22] + ([] if tier == "quick" else [28, 29, 35, 36, 50, 100])
    kinds_common = ["lost", "late", "dup", "dupd", "toggle", "scs:0", "scs:1", "scs:2", "scs:3", "scs:7", "mux"]
    codes = [0x05040000, 0x06090011, 0x08000000, 0, 0xFFFFFFFF, 0x06010002]
    idx, sub = 0x2000, 3
    for n in lens:
        data = c01.rand_bytes(rng, n)
        data2 = c01.rand_bytes(rng, rng.choice([0, 2, 5, 9, 16]))
        # downloads
        for sized in (True, False):
            for force in ((False, True) if n <= 4 else (False,)):
                offers = rng.choice([[], [7] * 4, [3] * 8, [rng.randint(1, 9) for _ in range(6)]])
                steps = count_requests("-", (True, True, True, []), dl_token(idx, sub, data, sized, force, offers))
                for at in range(steps):
                    kinds = [k for k in kinds_common if (k != "mux" or at == 0) and (k != "dupd" or at < steps - 1)]
                    kinds.append("replace:" + c04.hx(bytes([0x80, 0, 0x20, 3]) + rng.choice(codes).to_bytes(4, "little")))
                    kinds.append("stale:6000200300000000")           # an old download-initiate response
                    kinds.append("stale:" + c04.hx(bytes([0x20 | rng.choice([0, 0x10])]) + bytes(7)))
                    if tier == "quick" and n not in (0, 4, 5, 14, 15):
                        kinds = rng.sample(kinds, 4)
                    for kind in kinds:
                        x1 = dl_token(idx, sub, data, sized, force, offers)
                        x2 = dl_token(idx, sub, data2, True, False, []) if rng.random() < 0.5 else f"u:{idx}:{sub}:x"
                        if x2.startswith("u"):
                            # the upload after a failed download reads whatever the server holds; give it a value
                            yield f"dist {idx}.{sub}=aabbccddeeff 1 1 1 - {at} {kind} {x1};{x2}"
                        else:
                            yield f"dist - 1 1 1 - {at} {kind} {x1};{x2}"
        # uploads
        held = f"{idx}.{sub}={c04.hx(data)}"
        for (si, ex, es) in ((1, 1, 1), (0, 1, 1), (1, 0, 1), (1, 1, 0)):
            if (ex == 0 or es == 0) and n > 4:
                continue
            cuts = rng.choice([[], [1] * 30, [rng.randint(1, 7) for _ in range(30)]])
            steps = count_requests(held, (bool(si), bool(ex), bool(es), cuts), f"u:{idx}:{sub}:x")
            for at in range(steps):
                kinds = [k for k in kinds_common if (k != "mux" or at == 0) and (k != "dupd" or at < steps - 1)]
                kinds.append("replace:" + c04.hx(bytes([0x80, 0, 0x20, 3]) + rng.choice(codes).to_bytes(4, "little")))
                # stale frames that differ from the expected response in specifier, toggle or multiplexer
                kinds.append("stale:6000200300000000")
                kinds.append("stale:4301200304030201")                 # upload response for another object
                if at >= 1:
                    wrong_t = 0x10 if (at - 1) % 2 == 0 else 0x00      # the toggle the client does NOT expect
                    kinds.append("stale:" + c04.hx(bytes([wrong_t | 0x02]) + bytes([9, 9, 9, 9, 9, 9, 0])))
                    # … and the last segment of an earlier transfer (last flag set, toggle not the expected one)
                    kinds.append("stale:" + c04.hx(bytes([wrong_t | 0x03]) + bytes([0xd6, 0xd7, 0xd8, 0xd9, 0xda, 0xdb, 0])))
                if tier == "quick" and n not in (0, 4, 5, 14, 15):
                    kinds = rng.sample(kinds, 4)
                for kind in kinds:
                    x2 = f"u:{idx}:{sub}:x" if rng.random() < 0.5 else dl_token(idx, sub, data2, True, False, [])
                    yield f"dist {held} {si} {ex} {es} {c04.nl(cuts)} {at} {kind} u:{idx}:{sub}:x;{x2}"


CORPUS = [
    # replay of Canopen.C07.BD.dup_ack_counterexample on the real client (open finding bdist:down:ack:dup:wrong-data)
    "bdist down 8192 3 h0102030405060708090a0b0c0d0e0f101112131415161718191a1b1c1d1e1f20 0 0 1,2 0 - 1 dup -",
    # a lost first acknowledge: SdoCommunicationError and the time-out abort right after the segments
    "bdist down 8192 3 h0102030405060708090a0b0c0d0e0f101112131415161718191a1b1c1d1e1f20 1 1 3,2 1 - 1 lost u;bd=r9:20",
    "bdist up 8192 3 h0102030405060708090a0b0c0d0e0f101112131415161718191a1b1c1d1e1f20 1 1 3 1 - 6 lost d=h0102;bu",
]

LEVEL_TEXT = ("Library client against the library's own server: a download that returns normally under ANY alteration "
              "of the responses has stored exactly the payload in the local node; the server state stays well-formed "
              "whatever frames reach it; an upload that returns normally under any schedule of lost / aborted / "
              "duplicated responses (any honest peer) returns exactly the node's value; from any such state and any "
              "stale queue the next download/upload pair is exact.  Lean 4 theorems about the client model under response disturbances: a request whose response does not "
              "arrive is followed by the abort frame 0x05040000 and a communication error (every step, any peer); an "
              "abort frame raises the aborted error with its code; a download that returns normally has delivered "
              "exactly the payload under ANY alteration of the responses; an upload that returns normally under any "
              "schedule of lost / aborted / wrong-toggle / wrong-specifier / wrong-multiplexer / duplicated responses "
              "returns exactly the server's value; after anything (any server phase, any queue content) the next "
              "transfer completes exactly; tied to the code by differential runs disturbing every step.  Block transfers "
              "(models of BlockDownloadStream / BlockUploadStream with one server response disturbed): at every wait of "
              "both streams, in every state, a response that does not arrive is followed by the abort frame 0x05040000 "
              "and SdoCommunicationError, an abort frame raises SdoAbortedError with its code; a block download that "
              "returns normally after a lost response / abort frame / wrong command specifier at ANY response index has "
              "committed exactly the payload (closed counterexample for a duplicated acknowledge: open finding); a "
              "block upload that returns normally after a lost response at ANY index (anything queued beforehand, CRC "
              "or not) returns exactly the server's value, and a lost segment is repaired; after "
              "the server has gone idle again a following block download commits exactly its payload whatever queue and "
              "server record were left behind")
LEVEL_NOTE = ("trusted: Lean kernel + standard axioms; disturbances act on the response queue only; real time-outs and "
              "threads are outside the model; a stale response identical in specifier/toggle/multiplexer to the "
              "expected one is indistinguishable by the protocol and excluded; block transfers: theorems (a), (b) are "
              "local to each wait (all states, all environments), (c) is partial (false for duplicated acknowledges), "
              "(c) for block uploads is proved for lost responses; late / duplicated / stale segment frames are "
              "covered by the differential run and the oracle only (repaired, or an SDO error; never wrong data); "
              "a following block upload is covered by the differential run only")
TECHNIQUE = "Lean 4 proof (frame-sequence determinism of the client, invariant under disturbance schedules) + differential correspondence"
