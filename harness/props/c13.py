"""C13 — SDO block upload returns exactly the server's data or fails visibly."""
from peers.ref_block_server import RefBlockUploadServer
from peers.sdo_rig import Rig
from props.blk_common import crc16, hx, nl, parse_data, unnl

ID = "C13"
PROOF_MODULES = ["CanopenProofs.C13"]
GENERATED = ["SdoBlock"]
THEOREMS = [
    "Canopen.C13.undisturbed",
    "Canopen.C13.crc_guard",
    "Canopen.C13.single_bit_flip_detected",
    "Canopen.C13.wrong_crc_or_end_frame_errors",
    "Canopen.C13.flipped_data_byte_errors",
    "Canopen.C13.flipped_data_bit_errors",
    "Canopen.C13.crc_only_if_requested",
    "Canopen.C13.loss_never_returns_different_data",
    "Canopen.C13.single_loss_repaired",
    "Canopen.C13.never_returns_different_data_partial",
    "Canopen.C13.crc_collision_counterexample",
    "Canopen.C13.crc_blind_counterexample",
]
FINGERPRINT = [
    "canopen.sdo.client:BlockUploadStream",
    "canopen.sdo.client:SdoClient.request_response",
    "canopen.sdo.client:SdoClient.read_response",
    "canopen.sdo.client:SdoClient.send_request",
    "canopen.sdo.client:SdoClient.abort",
    "canopen.sdo.client:SdoClient.open",
    "canopen.sdo.base:CrcXmodem",
]
TRUSTED = [
    "Spec/BlockServer.lean (BlockUp): my reading of the CiA 301 block-upload server (numbering restarts at 1 after "
    "every acknowledge), written twice (Lean spec, harness/peers/ref_block_server.py) and compared on every operation",
    "binascii.crc_hqx modelled as bitwise CRC-16/XMODEM (Crc.lean; compared with binascii by the C12 crc ops and here "
    "through every transfer with CRC: the Python reference server and the oracle each have their own bitwise CRC)",
    "queue.Queue modelled as FIFO list; time as the abstract event 'queue empty when the client looks' "
    "(harness/peers/sdo_rig.py replaces canopen.sdo.client's queue/time module attributes: the fake clock advances "
    "only when a read times out, so the `while time.time() < end_time` loop of _retransmit is a scan of the queue); "
    "RawIOBase.readall / io.BufferedReader assumed to call read() until it returns no bytes (exercised raw and "
    "with buffer sizes 7, 1024, default)",
]
ASSUMPTIONS = [
    "responses are 8 bytes long",
    "only server-to-client frames are disturbed (lost / bit-flipped), plus a wrong announced CRC and a wrong first "
    "byte of the end response; client-to-server frames always arrive",
]
RULE = ("ops `bul idx sub data crcreq srvcrc sizeind loss flips crcxor endb0 buf` (one whole transfer per line: real "
        "SdoClient on a synchronous in-memory bus against the Python reference block-upload server; compared: every "
        "frame on the bus in order incl. lost/altered ones, returned bytes or err, fp.size, server's end "
        "confirmation and illegality flag); lengths 1..64, 7k+-1, 889k+-1, up to 10^4, random / all-zero / all-ones "
        "values; CRC requested/supported in all four combinations; size indicated or not; every single lost frame "
        "and every single flipped bit of selected transfers, sampled positions of multi-block ones, every first byte "
        "of the end response, wrong CRCs, seeded multi-disturbance; non-trivial = bytes were returned")


def parse_flips(s):
    return [] if s == "-" else [tuple(int(x) for x in p.split(":")) for p in s.split(",")]


def parse(op):
    a = op.split(" ")
    return dict(idx=int(a[1]), sub=int(a[2]), data=parse_data(a[3]), crcreq=a[4] == "1", srvcrc=a[5] == "1",
                sizeind=a[6] == "1", loss=set(unnl(a[7])), flips=parse_flips(a[8]), crcxor=int(a[9]),
                endb0=None if a[10] == "-" else int(a[10]), buf=int(a[11]))


def run_bul(p):
    srv = RefBlockUploadServer(p["data"], p["srvcrc"], p["sizeind"], p["crcxor"], p["endb0"])
    loss, fl = p["loss"], {}
    for n, b in p["flips"]:
        fl.setdefault(n, []).append(b)

    def chan(n, f):
        if n in loss:
            return None
        if n in fl:
            f = bytearray(f)
            for b in fl[n]:
                f[b // 8] ^= 1 << (b % 8)
            return bytes(f)
        return f
    rig = Rig(5, srv, chan_resp=chan)
    size = None
    try:
        with rig.client.open(p["idx"], p["sub"], "rb", buffering=p["buf"], block_transfer=True,
                             request_crc_support=p["crcreq"]) as fp:
            size = getattr(fp, "raw", fp).size
            if p["buf"] in CHUNKED_BUFS:
                # the caller reads in pieces through BufferedReader(buf): read(buf - 2) until nothing comes
                got = b""
                while True:
                    d = fp.read(max(1, p["buf"] - 2))
                    if not d:
                        break
                    got += d
            else:
                got = fp.read()
        res = "ok " + hx(got)
    except Exception:
        res = "err none"
    return res, size, srv, rig


def run_impl(op):
    a = op.split(" ")
    if a[0] != "bul":
        return "bad-op"
    res, size, srv, rig = run_bul(parse(op))
    return (f"{res} {'-' if size is None else size} {int(srv.confirmed)} "
            f"{'-' if srv.illegal is None else srv.illegal} " + ",".join(rig.trace))


# ---- independent oracle -------------------------------------------------------------------------
def ideal_requests(p):
    """client frames of an undisturbed conformant block upload with block size 127"""
    nseg = (len(p["data"]) + 6) // 7
    fr = [bytes([0xA0 | (4 if p["crcreq"] else 0), p["idx"] & 0xFF, p["idx"] >> 8, p["sub"], 127, 0, 0, 0]),
          bytes([0xA3, 0, 0, 0, 0, 0, 0, 0])]
    left = nseg
    while left > 0:
        c = min(127, left)
        fr.append(bytes([0xA2, c, 127, 0, 0, 0, 0, 0]))
        left -= c
    fr.append(bytes([0xA1, 0, 0, 0, 0, 0, 0, 0]))
    return fr


def disturbance_kind(p):
    nseg = (len(p["data"]) + 6) // 7
    kinds = []
    if p["loss"]:
        kinds.append("loss")
    if p["endb0"] is not None:
        kinds.append("end")
    for n, b in p["flips"]:
        if n == 0:
            kinds.append("initflip")
        elif len(p["flips"]) == 1 and not p["loss"] and n <= nseg:
            kinds.append("seqflip" if b < 8 else "dataflip")
        elif len(p["flips"]) == 1 and not p["loss"] and n == nseg + 1:
            kinds.append("endflip")
        else:
            kinds.append("flips")
    if p["crcxor"]:
        kinds.append("badcrc")
    return kinds


def oracle(op, out):
    a = op.split(" ")
    if a[0] != "bul":
        return None
    p = parse(op)
    o = out.split(" ")
    if len(o) != 6 or o[0] not in ("ok", "err"):
        return f"unexpected output {out[:80]}"
    res, got, size, confirmed, ill, trace = o
    value = p["data"]
    if not value:
        return None
    kinds = disturbance_kind(p)
    negotiated = p["crcreq"] and p["srvcrc"]
    if not kinds:
        if res != "ok" or got != hx(value):
            return "undisturbed block upload " + ("failed" if res != "ok" else "returned different data")
        if confirmed != "1":
            return "undisturbed: the transfer was not closed (no end confirmation reached the server)"
        if ill != "-":
            return f"undisturbed: the strict server flagged illegality {ill}"
        if size != (str(len(value)) if p["sizeind"] else "-"):
            return f"undisturbed: fp.size is {size}"
        reqs = [bytes.fromhex(e[1:]) for e in trace.split(",") if e[0] == ">"]
        ideal = ideal_requests(p)
        if reqs != ideal:
            i = next((i for i, (x, y) in enumerate(zip(reqs, ideal)) if x != y), min(len(reqs), len(ideal)))
            return (f"undisturbed: request {i} is {reqs[i].hex() if i < len(reqs) else 'missing'}, the standard "
                    f"says {ideal[i].hex() if i < len(ideal) else 'nothing'}")
        return None
    if p["endb0"] is not None and (p["endb0"] & 0xE0 != 0xC0 or p["endb0"] & 3 != 1) and not p["loss"] \
            and not p["flips"] and res == "ok":
        return f"wrong end frame (first byte {p['endb0']:#04x}) accepted"
    if kinds == ["loss"]:
        # frames are lost, none altered: with or without CRC the client re-synchronises (it acknowledges what it
        # has, the server repeats the rest numbering from 1) — C13 loss_never_returns_different_data,
        # single_loss_repaired
        if res == "ok" and got != hx(value):
            return (f"frames were lost, none altered, and the upload returned data that differs from the server's "
                    f"value [loss-wrong-data] lost={sorted(p['loss'])}")
        nseg = (len(value) + 6) // 7
        if len(p["loss"]) == 1 and 1 <= min(p["loss"]) <= nseg:
            if res != "ok":
                return f"a single lost segment (frame {min(p['loss'])}) was not repaired [single-loss-not-repaired]"
            if confirmed != "1" or ill != "-":
                return (f"a single lost segment (frame {min(p['loss'])}) was repaired but the transfer was not closed "
                        f"cleanly (confirmed={confirmed} illegal={ill}) [single-loss-not-repaired]")
    if negotiated and "initflip" not in kinds:
        if kinds == ["badcrc"] and res == "ok":
            return "wrong checksum accepted"
        if res == "ok" and got != hx(value):
            ret = bytes.fromhex(got) if got != "-" else b""
            if crc16(ret) == crc16(value) ^ p["crcxor"]:
                cls = "single-data-flip" if kinds == ["dataflip"] else "guard-blind"
                return (f"returned data differs from the server's value although CRC was negotiated; the CRC-16 of "
                        f"the returned {len(ret)} bytes equals the announced one [crc-collision:{cls}] "
                        f"disturbance={'+'.join(kinds)}")
            return ("returned data differs from the server's value although CRC was negotiated and the checksums "
                    "differ [crc-ignored]")
    return None


def signature(op, what):
    if "[crc-collision:guard-blind]" in what:
        return "bul:crc-collision"
    if "[crc-collision:single-data-flip]" in what:
        return "bul:crc-collision:single-data-flip"
    if "[crc-ignored]" in what:
        return "bul:crc-ignored"
    if "[loss-wrong-data]" in what:
        return "bul:loss-wrong-data"
    if "[single-loss-not-repaired]" in what:
        return "bul:single-loss-not-repaired"
    if what.startswith("undisturbed"):
        return "bul:undisturbed"
    if "wrong checksum" in what:
        return "bul:wrong-crc-accepted"
    if "wrong end frame" in what:
        return "bul:wrong-end-accepted"
    return "bul:other"


def nontrivial(op, out):
    return out.startswith("ok")


def classify(op, out):
    a = op.split(" ")
    if a[0] != "bul":
        return a[0]
    k = disturbance_kind(parse(op))
    return f"bul:{'ok' if out.startswith('ok') else 'err'}:{'+'.join(sorted(set(k))) if k else 'undisturbed'}"


def fmt(idx, sub, data, crcreq, srvcrc, sizeind, loss, flips, crcxor, endb0, buf):
    fl = ",".join(f"{n}:{b}" for n, b in flips) if flips else "-"
    return (f"bul {idx} {sub} {data} {int(crcreq)} {int(srvcrc)} {int(sizeind)} {nl(sorted(loss))} {fl} "
            f"{crcxor} {'-' if endb0 is None else endb0} {buf}")


def shrink_candidates(op):
    a = op.split(" ")
    if a[0] != "bul":
        return
    p = parse(op)
    n = len(p["data"])
    base = lambda **kw: fmt(**{**dict(idx=p["idx"], sub=p["sub"], data=a[3], crcreq=p["crcreq"], srvcrc=p["srvcrc"],
                                     sizeind=p["sizeind"], loss=p["loss"], flips=p["flips"], crcxor=p["crcxor"],
                                     endb0=p["endb0"], buf=p["buf"]), **kw})
    for m in (n // 2, n - 7, n - 1):
        if 1 <= m < n:
            yield base(data="h" + p["data"][:m].hex())
    for l in sorted(p["loss"]):
        yield base(loss=p["loss"] - {l})
    for f in p["flips"]:
        yield base(flips=[x for x in p["flips"] if x != f])
    if p["buf"]:
        yield base(buf=0)


# ---- generator ----------------------------------------------------------------------------------------
CHUNKED_BUFS = (2, 3, 5, 9, 13)
BUFS = [2, 3, 5, 9, 13, 0, 1024, 7, 1]
MUXES = [(0x2000, 1), (0x1F50, 0), (0xFFFF, 255), (0, 0), (0x1234, 0x56)]
CRCS = [(1, 1), (0, 1), (1, 0), (0, 0)]


def gen_ops(tier, rng):
    thorough = tier == "thorough"
    cnt = [0]

    def mk(n, loss=(), flips=(), crcxor=0, endb0=None, crc=None, data=None, sizeind=None, buf=None):
        cnt[0] += 1
        c = cnt[0]
        if data is None:
            data = f"r{rng.randrange(1 << 30)}:{n}"
        cr, cs = crc if crc is not None else CRCS[c % 4 if c % 3 else 0]
        idx, sub = MUXES[c % len(MUXES)]
        return fmt(idx, sub, data, cr, cs, (c // 2) % 2 if sizeind is None else sizeind, set(loss), list(flips),
                   crcxor, endb0, buf if buf is not None else BUFS[c % len(BUFS)])

    def nseg(n):
        return (n + 6) // 7

    # undisturbed
    for n in range(1, 65):
        for crc in CRCS:
            yield mk(n, crc=crc)
        yield mk(n, data=f"z{n}", crc=(1, 1))
        yield mk(n, data=f"f{n}", crc=(1, 1))
    # every multiple of 7 +-1: up to 64*7 in the quick tier, up to 10^4 in the thorough tier
    for k in range(9, 65 if not thorough else 1430):
        for d in (-1, 0, 1):
            yield mk(7 * k + d)
    for k in ((1, 2, 3) if not thorough else range(1, 12)):
        for d in (-1, 0, 1):
            yield mk(889 * k + d, crc=(1, 1))
            yield mk(889 * k + d)
    yield mk(10000, crc=(1, 1))
    yield mk(10000, crc=(0, 0))
    yield mk(9999, data="z9999", crc=(1, 1))
    if thorough:
        for _ in range(300):
            yield mk(rng.randint(1, 10000))

    # every single lost frame (0 = initiate response … end response), CRC negotiated and not
    singles = [30, 1, 7, 8, 50, 100, 889 + 50]
    if thorough:
        singles += [889 - 1, 889, 889 + 1, 889 * 2 + 1, 300]
    for n in singles:
        for g in range(0, nseg(n) + 2 + (n > 889)):
            yield mk(n, loss=[g], crc=(1, 1))
            yield mk(n, loss=[g], crc=(0, 0) if g % 3 else CRCS[1 + g // 3 % 3])
            yield mk(n, loss=[g], crc=(1, 1), data=f"z{n}")
    for n in ([889 * 2 + 1] if not thorough else [889 * 3 + 6, 10000]):
        ns = nseg(n)
        pos = {1, 2, 3, 126, 127, 128, 129, ns - 1, ns, ns + 1, ns + 2, 254, 255} \
            | {rng.randint(1, ns) for _ in range(12 if not thorough else 150)}
        for g in sorted(pos):
            yield mk(n, loss=[g], crc=(1, 1))
            yield mk(n, loss=[g], crc=(1, 1), data=f"z{n}")
    # every single flipped bit of every frame of small transfers
    for n in ([30, 8] if not thorough else [30, 8, 1, 7, 50, 64]):
        for g in range(0, nseg(n) + 2):
            for bit in range(64):
                yield mk(n, flips=[(g, bit)], crc=(1, 1))
    for bit in range(64):
        yield mk(30, flips=[(2, bit)], crc=(1, 1), data="z30")
        yield mk(30, flips=[(nseg(30) + 1, bit)], crc=(1, 1), data="z30")
    for n in ([889 + 50] if not thorough else [889 + 50, 889 * 3 + 6]):
        ns = nseg(n)
        for _ in range(200 if not thorough else 1500):
            yield mk(n, flips=[(rng.randint(1, ns + 1), rng.randrange(64))], crc=(1, 1))
    # wrong checksum, wrong end frame
    for n in (1, 6, 7, 8, 30, 889, 890):
        for x in (1, 0x80, 0x8000, 0xFFFF, rng.randrange(1, 1 << 16)):
            yield mk(n, crcxor=x, crc=(1, 1))
        yield mk(n, crcxor=0x1021, crc=(0, 1))
    # the announced checksum is a near miss of the true one: byte-swapped, bit-reversed, complemented, off by one
    for n in (3, 7, 20, 50, 889):
        dtok = f"r{rng.randrange(1 << 30)}:{n}"
        c = crc16(parse_data(dtok))
        near = {((c >> 8) | ((c & 0xFF) << 8)), int(f"{c:016b}"[::-1], 2), c ^ 0xFFFF, (c + 1) & 0xFFFF, (c - 1) & 0xFFFF,
                c >> 1, (c << 1) & 0xFFFF}
        for w in sorted(near - {c}):
            yield mk(n, crcxor=c ^ w, crc=(1, 1), data=dtok)
    for b in range(256):
        yield mk(30, endb0=b, crc=(1, 1))
        yield mk(33, endb0=b, crc=CRCS[b % 4])
    for b in range(0, 256, 1 if thorough else 5):
        yield mk(30, endb0=b, crc=(1, 1), data="z30")
    # seeded multi-disturbance (never the initiate response: that would corrupt the negotiation itself)
    for _ in range(600 if not thorough else 4000):
        n = rng.randint(1, 200 if rng.random() < 0.8 else 2000)
        ns = nseg(n)
        loss = {rng.randint(1, ns + 4) for _ in range(rng.randint(0, 3))}
        flips = [(rng.randint(1, ns + 2), rng.randrange(64)) for _ in range(rng.randint(0, 3))]
        if not loss and not flips:
            loss = {rng.randint(1, ns)}
        yield mk(n, loss=loss, flips=flips, crc=(1, 1) if rng.random() < 0.8 else None,
                 data=f"z{n}" if rng.random() < 0.05 else None)


CORPUS = [
    "bul 8192 1 h0102030405060708090a0b0c0d0e0f101112131415161718191a1b1c1d1e 1 1 1 - - 0 - 0",
    "bul 8192 1 h0102030405060708090a0b0c0d0e0f101112131415161718191a1b1c1d1e 1 1 1 1 - 0 - 1024",
    "bul 8192 1 h0102030405060708090a0b0c0d0e0f101112131415161718191a1b1c1d1e 1 1 1 2 - 0 - 0",
    "bul 8192 1 z1778 1 1 1 5 - 0 - 0",      # lost segment + all-zero value (returned short before the resync repair)
    "bul 8192 1 z57 0 0 1 5 - 0 - 0",        # lost segment, no CRC: repaired
    "bul 8192 1 z29 1 1 1 - 6:2 0 - 0",      # byte-count field of the end response corrupted, all-zero value
]

LEVEL_TEXT = ("Lean 4 theorems about the model of BlockUploadStream: against the conformant block-upload server, for every "
              "value (1 <= length < 2^32), CRC requested/supported in any combination, size indicated or not, every "
              "multiplexer: undisturbed = value returned exactly, one acknowledge per sub-block with the number of "
              "segments in it, last segment trimmed by the announced count, transfer closed, strict server flags "
              "nothing; a wrong announced CRC (negotiated) or a wrong end frame ends in an error; against EVERY peer "
              "and EVERY loss/corruption pattern: a normal return implies CRC-16(returned) = checksum read from the end "
              "response, hence a value differing from the server's in a single byte (any single flipped bit) is never "
              "returned; whatever frames are LOST (none altered) a normal return yields exactly the server's value, CRC "
              "or not, and a single lost segment at any position is repaired (repaired re-synchronisation); closed "
              "counterexamples for the stronger 'never returns different data under corruption' clause (a 16-bit "
              "collision; the unchecked length, open finding); "
              "model tied to the code by generated constants and a differential run over whole transfers incl. every "
              "single lost frame and every single flipped bit of selected transfers")
LEVEL_NOTE = ("trusted: Lean kernel + propext/Classical.choice/Quot.sound; the reference server specification (written "
              "twice); queue/time-out/readall abstractions named in the trusted base; the property's clause 'never "
              "returns data that differs' is proved for loss (any pattern, with or without CRC) and is FALSE for "
              "corruption (inherent 16-bit collisions: crc_collision_counterexample; unchecked length on CRC-blind "
              "values: known finding bul:crc-collision, crc_blind_counterexample), where only its CRC-strength version "
              "is proved; late / duplicated segments are exercised by C07 (bdist ops), not proved here; termination "
              "of the read loop under arbitrary disturbance is not proved (explicit fuel, Res.fuel distinct)")
TECHNIQUE = "Lean 4 proof over generated tables + differential correspondence with the implementation"
