"""Shared by C08 and C14: line-protocol encodings, canonical dump of a real ObjectDictionary,
the independent EDS/DCF writer and the random dictionary descriptions it is fed with.

Nothing in this file looks at the Lean model.  The dump format is the one printed by
lean/CanopenModel/Driver/EdsCommon.lean (`showOD`).
"""
import configparser
import io
import json
import logging
import math
import re

import canopen
from canopen import objectdictionary as odm

logging.getLogger("canopen").setLevel(logging.CRITICAL)

# ------------------------------------------------------------------------------ encodings


def hx(s):
    return s.encode("utf-8").hex() or "-"


def unhx(h):
    return "" if h == "-" else bytes.fromhex(h).decode("utf-8")


def esc(s):
    return "".join(c if (c.isascii() and c.isalnum()) else "%%%x." % ord(c) for c in s)


def unesc(e):
    return re.sub(r"%([0-9a-f]+)\.", lambda m: chr(int(m.group(1), 16)), e)


def parse_text(text):
    """What RawConfigParser hands to import_eds: [(section, [(key, value)])]; raises what
    configparser raises."""
    cp = configparser.RawConfigParser(inline_comment_prefixes=(';',))
    cp.optionxform = str
    cp.read_file(io.StringIO(text))
    return [(s, [(k, cp.get(s, k)) for k in cp.options(s)]) for s in cp.sections()]


def enc_doc(doc):
    if not doc:
        return "-"
    return ";".join(hx(s) + ":" + ",".join(hx(k) + "=" + hx(v) for k, v in opts) for s, opts in doc)


def dec_doc(s):
    if s == "-":
        return []
    out = []
    for sec in s.split(";"):
        n, body = sec.split(":")
        opts = []
        if body:
            for kv in body.split(","):
                k, v = kv.split("=")
                opts.append((unhx(k), unhx(v)))
        out.append((unhx(n), opts))
    return out


# ------------------------------------------------------------------- dump of a real dictionary
DEV_ATTRS = ["vendor_name", "vendor_number", "product_name", "product_number", "revision_number",
             "order_code", "simple_boot_up_master", "simple_boot_up_slave", "granularity",
             "dynamic_channels_supported", "group_messaging", "nr_of_RXPDO", "nr_of_TXPDO",
             "LSS_supported"]


def canon_float(x):
    if math.isnan(x):
        return "nan"
    return x.hex()


def show_opt(f, v):
    return "~" if v is None else f(v)


def show_value(v):
    if isinstance(v, bool):
        return f"i{int(v)}"
    if isinstance(v, int):
        return f"i{v}"
    if isinstance(v, (bytes, bytearray)):
        return "b" + (bytes(v).hex() if len(v) else "-")
    if isinstance(v, str):
        return "s" + esc(v)
    if isinstance(v, float):
        return f"r({canon_float(v)})"
    return f"?{type(v).__name__}"


def show_factor(f):
    if isinstance(f, float):
        return f"r({canon_float(f)})"
    if f == 1:
        return "~"
    return f"?{f!r}"


def show_var(v):
    return ";".join([
        esc(v.name), str(v.index), str(v.subindex), str(v.data_type), esc(v.access_type),
        "1" if v.pdo_mappable else "0", show_opt(show_value, v.default), show_opt(show_value, v.value),
        show_opt(str, v.min), show_opt(str, v.max), "1" if v.relative else "0",
        show_opt(lambda s: "=" + esc(s), getattr(v, "default_raw", None)),
        show_opt(lambda s: "=" + esc(s), getattr(v, "value_raw", None)),
        show_opt(lambda s: "=" + esc(s), v.storage_location), show_factor(v.factor),
        esc(v.description), esc(v.unit)])


def look(fn, expected):
    try:
        r = fn()
    except Exception:
        return "x"
    return "=" if r is expected else "!"


DEFAULT_PROBES = (2, 254, 255, 256)


def enc_probes(probes):
    return ",".join(str(k) for k in probes) if probes else "-"


def dec_probes(tok):
    return () if tok == "-" else tuple(int(x) for x in tok.split(","))


def show_coll(od, c, probes=DEFAULT_PROBES):
    is_arr = isinstance(c, odm.ODArray)
    subs = [show_var(c.subindices[k]) for k in sorted(c.subindices)]
    names = [f"{esc(k)}>{v.subindex}{'=' if c.subindices.get(v.subindex) is v else '!'}"
             for k, v in sorted(c.names.items())]
    if is_arr:
        pr = []
        for k in probes:
            try:
                pr.append(show_var(c[k]))
            except Exception:
                pr.append("~")
        pdump = "P[" + "|".join(pr) + "]"
    else:
        pdump = "P[]"
    ml = []
    for k in sorted(c.subindices):
        m = c.subindices[k]
        ml.append(look(lambda: c[m.name], m) + look(lambda: od[c.name + "." + m.name], m)
                  + look(lambda: c[k], m))
    return ("A{" if is_arr else "R{") + ";".join([
        esc(c.name), str(c.index), show_opt(lambda s: "=" + esc(s), c.storage_location),
        "S[" + "|".join(subs) + "]", "N[" + ",".join(names) + "]", pdump,
        "M[" + "".join(ml) + "]"]) + "}"


def show_obj(od, o, probes=DEFAULT_PROBES):
    body = "V{" + show_var(o) + "}" if isinstance(o, odm.ODVariable) else show_coll(od, o, probes)
    return body + "L" + look(lambda: od[o.name], o)


def show_devval(v):
    if isinstance(v, bool):
        return "t" if v else "f"
    if isinstance(v, int):
        return f"i{v}"
    if isinstance(v, str):
        return "s" + esc(v)
    return f"?{type(v).__name__}"


def list_or(xs, sep):
    return sep.join(xs) if xs else "-"


def show_od(od, probes=DEFAULT_PROBES):
    objs = [show_obj(od, od.indices[i], probes) for i in od]
    names = [f"{esc(k)}>{o.index}{'=' if od.indices.get(o.index) is o else '!'}"
             for k, o in sorted(od.names.items())]
    di = od.device_information
    dev = [f"{esc(a)}:{show_devval(getattr(di, a))}" for a in DEV_ATTRS if getattr(di, a, None) is not None]
    fi = getattr(od, "__edsFileInfo", None)
    return " ".join([
        "ok", "N=" + show_opt(str, od.node_id), "B=" + show_opt(str, od.bitrate),
        "C=" + esc(od.comments),
        "U=" + list_or([str(b) for b in sorted(di.allowed_baudrates)], ","),
        "D=" + list_or(dev, ","),
        "F=" + show_opt(lambda d: list_or([esc(k) + ":" + esc(v) for k, v in d.items()], ","), fi),
        "O=" + list_or(objs, "/"),
        "T=" + list_or(names, ",")])


FLOAT_TOKEN = re.compile(r"r\(([A-Za-z0-9%.]*)\)")


def canon_model_floats(out):
    """The model carries the text handed to float(); give it the value Python gives it."""
    def rep(m):
        try:
            return f"r({canon_float(float(unesc(m.group(1))))})"
        except ValueError:
            return "r(!valueerror)"
    return FLOAT_TOKEN.sub(rep, out)


# ------------------------------------------------------------------------ parsing a dump back
VAR_FIELDS = ["name", "index", "sub", "dt", "acc", "pdo", "def", "val", "min", "max", "rel", "draw",
              "vraw", "stor", "fac", "desc", "unit"]
COLL_RE = re.compile(r"^([AR])\{([^;]*);(\d+);([^;]*);S\[(.*)\];N\[(.*)\];P\[(.*)\];M\[(.*)\]\}L(.)$")
VAR_RE = re.compile(r"^V\{(.*)\}L(.)$")


def parse_var(s):
    f = s.split(";")
    if len(f) != len(VAR_FIELDS):
        raise ValueError(f"variable dump with {len(f)} fields: {s[:80]}")
    return dict(zip(VAR_FIELDS, f))


def parse_dump(out):
    """'ok …' dump → dict; raises ValueError on anything else"""
    if not out.startswith("ok "):
        raise ValueError("not a dictionary dump")
    top = {}
    for tok in out.split(" ")[1:]:
        k, _, v = tok.partition("=")
        top[k] = v
    objs = []
    if top["O"] != "-":
        for o in top["O"].split("/"):
            m = VAR_RE.match(o)
            if m:
                objs.append({"kind": "V", "var": parse_var(m.group(1)), "L": m.group(2)})
                continue
            m = COLL_RE.match(o)
            if not m:
                raise ValueError(f"unparsable object dump {o[:80]}")
            subs = [parse_var(x) for x in m.group(5).split("|")] if m.group(5) else []
            probes = [None if x == "~" else parse_var(x) for x in m.group(7).split("|")] if m.group(7) else []
            objs.append({"kind": m.group(1), "name": m.group(2), "index": m.group(3), "stor": m.group(4),
                         "subs": subs, "names": m.group(6), "probes": probes, "M": m.group(8),
                         "L": m.group(9)})
    top["objs"] = objs
    return top


# --------------------------------------------------------------------- independent EDS writer
# CiA 301 data types, written here independently of the code
T_BOOLEAN, T_I8, T_I16, T_I32, T_U8, T_U16, T_U32, T_R32 = 1, 2, 3, 4, 5, 6, 7, 8
T_VIS, T_OCT, T_UNI, T_TOD, T_TDIFF, T_DOMAIN = 9, 0xA, 0xB, 0xC, 0xD, 0xF
T_I24, T_R64, T_I40, T_I48, T_I56, T_I64 = 0x10, 0x11, 0x12, 0x13, 0x14, 0x15
T_U24, T_U40, T_U48, T_U56, T_U64 = 0x16, 0x18, 0x19, 0x1A, 0x1B
SIGNED = {T_I8: 8, T_I16: 16, T_I24: 24, T_I32: 32, T_I40: 40, T_I48: 48, T_I56: 56, T_I64: 64}
UNSIGNED = {T_U8: 8, T_U16: 16, T_U24: 24, T_U32: 32, T_U40: 40, T_U48: 48, T_U56: 56, T_U64: 64}
REALS = (T_R32, T_R64)
TEXTS = (T_VIS, T_UNI)
BLOBS = (T_OCT, T_DOMAIN)
OTHER_INTLIKE = (T_BOOLEAN, T_TOD, T_TDIFF)
ALL_TYPES = sorted(list(SIGNED) + list(UNSIGNED) + list(REALS) + list(TEXTS) + list(BLOBS) + list(OTHER_INTLIKE))
ACCESS = ["ro", "wo", "rw", "rwr", "rww", "const"]
RATES = [10, 20, 50, 125, 250, 500, 800, 1000]
DEV_KEYS = [("VendorName", "vendor_name", "s"), ("VendorNumber", "vendor_number", "i"),
            ("ProductName", "product_name", "s"), ("ProductNumber", "product_number", "i"),
            ("RevisionNumber", "revision_number", "i"), ("OrderCode", "order_code", "s"),
            ("SimpleBootUpMaster", "simple_boot_up_master", "b"),
            ("SimpleBootUpSlave", "simple_boot_up_slave", "b"), ("Granularity", "granularity", "i"),
            ("DynamicChannelsSupported", "dynamic_channels_supported", "b"),
            ("GroupMessaging", "group_messaging", "b"), ("NrOfRXPDO", "nr_of_RXPDO", "i"),
            ("NrOfTXPDO", "nr_of_TXPDO", "i"), ("LSS_Supported", "LSS_supported", "b")]


def spell_nat(n, style):
    """style: (base, upper_digits, upper_prefix, pad)"""
    base, up, upp, pad = style
    if base == 10:
        return str(n)
    digs = {16: "%x", 8: "%o", 2: "{:b}"}[base]
    d = digs.format(n) if base == 2 else digs % n
    if up:
        d = d.upper()
    d = d.rjust(pad, "0")
    p = {16: "x", 8: "o", 2: "b"}[base]
    return "0" + (p.upper() if upp else p) + d


def spell_int(n, style, plus=False):
    if n < 0:
        return "-" + spell_nat(-n, style)
    return ("+" if plus else "") + spell_nat(n, style)


def var_lines(v):
    """option lines of a variable-like section, in the order the description lists them"""
    out = []
    order = v.get("order") or ["ParameterName", "ObjectType", "StorageLocation", "DataType", "AccessType",
                               "LowLimit", "HighLimit", "DefaultValue", "ParameterValue", "PDOMapping",
                               "Factor", "Description", "Unit"]
    vals = {"ParameterName": v["name"], "ObjectType": v.get("ot"), "StorageLocation": v.get("stor"),
            "DataType": v["dt"]["t"], "AccessType": v["acc"]["t"],
            "LowLimit": v["lo"]["t"] if v.get("lo") else None,
            "HighLimit": v["hi"]["t"] if v.get("hi") else None,
            "DefaultValue": v["def"]["t"] if v.get("def") else None,
            "ParameterValue": v["val"]["t"] if v.get("val") else None,
            "PDOMapping": v["pdo"]["t"] if v.get("pdo") else None,
            "Factor": v.get("fac"), "Description": v.get("desc"), "Unit": v.get("unit")}
    for k in order:
        if vals.get(k) is not None:
            out.append(f"{k}={vals[k]}")
    return out


def obj_sections(o):
    """[(section name, [lines])] for one object"""
    secs = []
    if o["kind"] == "var":
        secs.append((o["sec"], var_lines(o["var"])))
    elif o["kind"] in ("rec", "arr"):
        lines = [f"ParameterName={o['name']}", f"ObjectType={o['ot']}"]
        if o.get("subnumber") is not None:
            lines.append(f"SubNumber={o['subnumber']}")
        if o.get("stor") is not None:
            lines.append(f"StorageLocation={o['stor']}")
        secs.append((o["sec"], lines))
        for m in o["members"]:
            secs.append((m["sec"], var_lines(m["var"])))
    elif o["kind"] == "compact":
        lines = var_lines(o["var"])
        lines.insert(o.get("cpos", 0) % (len(lines) + 1), f"CompactSubObj={o['ntext']}")
        secs.append((o["sec"], lines))
        if o.get("names") is not None:
            nl = [f"NrOfEntries={len(o['names'])}"] + [f"{i + 1}={n}" for i, n in enumerate(o["names"])]
            secs.append((o["namesec"], nl))
    else:
        raise ValueError(o["kind"])
    return secs


def write_eds(spec):
    """The independent writer: description → EDS/DCF text (CiA 306 layout)."""
    blocks = {}
    if spec.get("fileinfo") is not None:
        blocks["FileInfo"] = [("FileInfo", [f"{k}={v}" for k, v in spec["fileinfo"]])]
    di = spec.get("devinfo")
    if di is not None:
        lines = [f"{k}={t}" for k, t, _ in di["props"]]
        lines += [f"BaudRate_{r}={t}" for r, t, _ in di["bauds"]]
        blocks["DeviceInfo"] = [("DeviceInfo", lines)]
    cm = spec.get("comm")
    if cm is not None:
        lines = []
        if cm.get("nodeid") is not None:
            lines.append(f"NodeID={cm['nodeid']['t']}")
        lines.append("NodeName=node")
        if cm.get("bitrate") is not None:
            lines.append(f"Baudrate={cm['bitrate']['t']}")
        lines.append("NetNumber=0")
        blocks["DeviceComissioning"] = [("DeviceComissioning", lines)]
    if spec.get("dummy") is not None:
        blocks["DummyUsage"] = [(spec.get("dummysec", "DummyUsage"),
                                 [f"Dummy{i + 1:04d}={t}" for i, t in enumerate(spec["dummy"])])]
    if spec.get("comments") is not None:
        c = spec["comments"]
        blocks["Comments"] = [("Comments", [f"Lines={c['lines_t']}"]
                               + [f"Line{i + 1}={l}" for i, l in enumerate(c["lines"])])]
    objs = spec["objs"]
    osecs = []
    if spec.get("lists"):
        def idx(o):
            return o["index"]
        groups = [("MandatoryObjects", [o for o in objs if idx(o) in (0x1000, 0x1001, 0x1018)]),
                  ("OptionalObjects", [o for o in objs if idx(o) not in (0x1000, 0x1001, 0x1018)
                                       and not 0x2000 <= idx(o) < 0x6000]),
                  ("ManufacturerObjects", [o for o in objs if 0x2000 <= idx(o) < 0x6000])]
        for gname, members in groups:
            osecs.append((gname, [f"SupportedObjects={len(members)}"]
                          + [f"{i + 1}=0x{idx(o):04X}" for i, o in enumerate(members)]))
            for o in members:
                osecs += obj_sections(o)
    else:
        for o in objs:
            osecs += obj_sections(o)
    blocks["objects"] = osecs
    order = spec.get("order") or ["FileInfo", "DeviceInfo", "DeviceComissioning", "DummyUsage", "Comments",
                                  "objects"]
    out = []
    for b in order:
        for name, lines in blocks.get(b, []):
            out.append(f"[{name}]")
            out += lines
            out.append("")
    return "\n".join(out) + "\n"


# ------------------------------------------------------------- what the description denotes
def nid_in_force(spec):
    if spec.get("nid_arg") is not None:
        return spec["nid_arg"]
    cm = spec.get("comm")
    if cm is not None and cm.get("nodeid") is not None:
        return cm["nodeid"]["v"]
    return None


def exp_value(vs, dt, nid):
    """expected (dump of value, relative flag, raw text) for a value description"""
    if vs is None:
        return "~", False, None
    k = vs["k"]
    raw = vs["t"]
    if k == "num":
        return f"i{vs['v']}", False, raw
    if k == "rel":
        return (f"i{vs['base'] + nid}" if nid is not None else "~"), True, raw
    if k == "bytes":
        return "b" + (vs["v"] if vs["v"] else "-"), False, raw
    if k == "str":
        return "s" + esc(raw), False, raw
    if k == "real":
        return f"r({canon_float(float(raw))})", False, raw
    if k == "empty":
        if dt in TEXTS:
            return "s", False, raw
        if dt in BLOBS:
            return "b-", False, raw
        return "~", False, raw
    raise ValueError(k)


def exp_var(v, index, sub, nid, name=None):
    """the 17 dump fields the described variable must show"""
    dt = v["dt"]["v"]
    d, rel, draw = exp_value(v.get("def"), dt, nid)
    val, _, vraw = exp_value(v.get("val"), dt, nid)
    return {
        "name": esc(v["name"] if name is None else name), "index": str(index), "sub": str(sub),
        "dt": str(dt), "acc": esc(v["acc"]["v"]),
        "pdo": "1" if (v.get("pdo") and v["pdo"]["v"]) else "0",
        "def": d, "val": val,
        "min": str(v["lo"]["v"]) if v.get("lo") else "~",
        "max": str(v["hi"]["v"]) if v.get("hi") else "~",
        "rel": "1" if rel else "0",
        "draw": "~" if draw is None else "=" + esc(draw),
        "vraw": "~" if vraw is None else "=" + esc(vraw),
        "stor": "=" + esc(v["stor"]) if v.get("stor") is not None else "~",
        "fac": f"r({canon_float(float(v['fac']))})" if v.get("fac") is not None else "~",
        "desc": esc(v.get("desc") or ""), "unit": esc(v.get("unit") or "")}


def diff_var(got, exp, where):
    for f in VAR_FIELDS:
        if got[f] != exp[f]:
            return f"{where}: {f} is {got[f]!r}, the file describes {exp[f]!r}"
    return None


def probes_for(spec):
    """the sub-indices every array of the imported dictionary is asked for: the ends of the sub-index range, and for
    every compact array the last announced entry and the one after it, the first one without a name of its own; for
    every array written member by member the sub-index after its last one"""
    ks = set(DEFAULT_PROBES)
    for o in spec["objs"]:
        if o["kind"] == "compact":
            ks |= {o["n"], o["n"] + 1, (o["n"] + 1) // 2}
            if o.get("names"):
                ks |= {len(o["names"]), len(o["names"]) + 1}
        elif o["kind"] == "arr" and o["members"]:
            ks.add(max(m["sub"] for m in o["members"]) + 1)
    return tuple(sorted(k for k in ks if 1 <= k <= 256))


MAX_ARRAY_ENTRIES = 254       # CiA 301/306: sub-indices 1..0xFE; 0xFF is reserved


def check_import(spec, out, probes=DEFAULT_PROBES):
    """The property, stated on the implementation's dump.  None, or a sentence."""
    try:
        d = parse_dump(out)
    except ValueError:
        return f"a well-formed file was not imported: {out[:80]}"
    nid = nid_in_force(spec)
    # --- header ---------------------------------------------------------------------------
    cm = spec.get("comm")
    exp_nid = nid if cm is not None else None
    if d["N"] != show_opt(str, exp_nid):
        return f"node id is {d['N']}, expected {exp_nid}"
    exp_br = None
    if cm is not None and cm.get("bitrate") is not None and cm["bitrate"]["v"] != 0:
        exp_br = cm["bitrate"]["v"] * 1000
    if d["B"] != show_opt(str, exp_br):
        return f"bit rate is {d['B']}, the file says {exp_br}"
    c = spec.get("comments")
    exp_c = esc("\n".join(c["lines"])) if c is not None else ""
    if d["C"] != exp_c:
        return f"comments are {d['C']!r}, the file says {exp_c!r}"
    di = spec.get("devinfo")
    exp_u, exp_d = [], []
    if di is not None:
        exp_u = [str(r * 1000) for r, _, on in di["bauds"] if on]
        vals = {k: (t, v) for k, t, v in di["props"]}
        for key, attr, kind in DEV_KEYS:
            if key in vals:
                t, v = vals[key]
                exp_d.append(f"{esc(attr)}:" + ("s" + esc(t) if kind == "s" else
                                                f"i{v}" if kind == "i" else ("t" if v else "f")))
    if d["U"] != list_or(sorted(exp_u, key=int), ","):
        return f"allowed bit rates are {d['U']}, the file says {exp_u}"
    # (Python's True == 1: a flag stored as bool and a number 0/1 are the same value)
    def norm(x):
        return x.replace(":t", ":i1").replace(":f", ":i0")
    if norm(d["D"]) != norm(list_or(exp_d, ",")):
        got_d = dict(x.split(":", 1) for x in d["D"].split(",") if ":" in x)
        show = {"t": "True", "f": "False"}
        for e in exp_d:
            k, v = e.split(":", 1)
            g = got_d.get(k)
            if g is None or norm(":" + g) != norm(":" + v):
                return f"device information: {unesc(k)} is {show.get(g, g)}, the file says {show.get(v, v)}"
        return f"device information is {d['D']}, the file says {list_or(exp_d, ',')}"
    # --- objects ------------------------------------------------------------------------------
    exp_objs = {}
    if spec.get("dummy") is not None:
        for i, t in enumerate(spec["dummy"]):
            if int(t) == 1:
                exp_objs[i + 1] = ("dummy", i + 1)
    for o in spec["objs"]:
        exp_objs[o["index"]] = ("obj", o)
    got = {int(o["var"]["index"] if o["kind"] == "V" else o["index"]): o for o in d["objs"]}
    if sorted(got) != sorted(exp_objs):
        missing = sorted(set(exp_objs) - set(got))
        extra = sorted(set(got) - set(exp_objs))
        return f"objects differ: missing {[hex(i) for i in missing]}, not described {[hex(i) for i in extra]}"
    for idx in sorted(exp_objs):
        kind, o = exp_objs[idx]
        g = got[idx]
        w = f"object 0x{idx:04X}"
        if kind == "dummy":
            if g["kind"] != "V" or g["var"]["dt"] != str(o) or g["var"]["name"] != esc(f"Dummy{o:04d}"):
                return f"{w}: dummy entry not imported as described"
            continue
        empty = o["kind"] in ("rec", "arr") and not o["members"]
        # (an empty record is falsy and `od[name]` loses it: observed, not claimed - DESIGN §6)
        if g["L"] != "=" and not empty:
            return f"{w}: looking it up by name gives {'a KeyError' if g['L'] == 'x' else 'another object'}"
        if o["kind"] == "var":
            if g["kind"] != "V":
                return f"{w}: described as a variable, imported as {g['kind']}"
            r = diff_var(g["var"], exp_var(o["var"], idx, 0, nid), w)
            if r:
                return r
            continue
        want = "R" if o["kind"] == "rec" else "A"
        if g["kind"] != want:
            return f"{w}: described as {want}, imported as {g['kind']}"
        if g["name"] != esc(o["name"] if o["kind"] != "compact" else o["var"]["name"]):
            return f"{w}: name is {g['name']!r}"
        st = o.get("stor") if o["kind"] != "compact" else o["var"].get("stor")
        if g["stor"] != ("=" + esc(st) if st is not None else "~"):
            return f"{w}: storage location is {g['stor']!r}"
        if o["kind"] in ("rec", "arr"):
            exp_members = [(m["sub"], exp_var(m["var"], idx, m["sub"], nid)) for m in o["members"]]
        else:
            tv = o["var"]
            sub0 = {"name": esc("Number of entries"), "index": str(idx), "sub": "0", "dt": str(T_U8),
                    "acc": "rw", "pdo": "0", "def": "~", "val": "~", "min": "~", "max": "~", "rel": "0",
                    "draw": "~", "vraw": "~", "stor": "~", "fac": "~", "desc": "", "unit": ""}
            exp_members = [(0, sub0)]
            if o.get("names") is not None and len(o["names"]) > 0:
                for k, nm in enumerate(o["names"]):
                    exp_members.append((k + 1, exp_var(tv, idx, k + 1, nid, name=nm)))
            else:
                exp_members.append((1, exp_var(tv, idx, 1, nid)))
        exp_members.sort(key=lambda p: p[0])
        if [int(s["sub"]) for s in g["subs"]] != [s for s, _ in exp_members]:
            return (f"{w}: sub-indices {[int(s['sub']) for s in g['subs']]}, "
                    f"the file describes {[s for s, _ in exp_members]}")
        for gs, (s, ev) in zip(g["subs"], exp_members):
            r = diff_var(gs, ev, f"{w} sub {s}")
            if r:
                return r
        if set(g["M"]) - {"="}:
            return (f"{w}: a member is not reached by its name, by 'Parent.Child' or by its sub-index "
                    f"(flags {g['M']})")
        if want == "A":
            if len(g["probes"]) != len(probes):
                return f"{w}: {len(g['probes'])} answers to {len(probes)} sub-index look-ups"
            listed = {int(x["sub"]): x for x in g["subs"]}
            got_p = dict(zip(probes, g["probes"]))
            for k, p in got_p.items():
                if k in listed and p != listed[k]:
                    return f"{w}: looking up sub-index {k} does not give the entry listed under that sub-index"
        if o["kind"] == "compact":
            # expansion: every sub-index 1..n is a variable of the template's type, access, PDO-mappability, default
            # and limits, under its own sub-index and a name of its own
            tv = exp_var(o["var"], idx, 1, nid)
            n = min(o["n"], MAX_ARRAY_ENTRIES)
            names_seen = {x["name"]: int(x["sub"]) for x in g["subs"]}
            for k, p in got_p.items():
                if not 1 <= k <= n:
                    continue              # beyond the announced entries: nothing is claimed
                if p is None:
                    return (f"{w}: compact array of {o['n']} entries is not expanded: it has no "
                            f"sub-index {k}")
                for f in ("index", "dt", "acc", "pdo", "def", "min", "max"):
                    if p[f] != tv[f]:
                        return f"{w}: expanded sub-index {k}: {f} is {p[f]!r}, template has {tv[f]!r}"
                if p["sub"] != str(k):
                    return f"{w}: expanded sub-index {k} reports sub-index {p['sub']}"
                if not p["name"] or names_seen.get(p["name"], k) != k:
                    return (f"{w}: expanded sub-index {k} is called {p['name']!r}, like sub-index "
                            f"{names_seen.get(p['name'])}")
                names_seen[p["name"]] = k
    return None


# ------------------------------------------------------------------- random descriptions
NAME_ALPHABET = "abcdefghijklmnopqrstuvwxyzABCDEFGHIJKLMNOPQRSTUVWXYZ0123456789"
NAME_PUNCT = " _-%=:./()[]{}<>!?*+,'\"&$#@^~|\\"
NAME_WIDE = "äöüßéñΩ°µ€"


def rand_text(rng, lo=1, hi=16, wide=True):
    """text that survives the configparser layer unchanged: no leading/trailing blank, no line
    break, no ';'"""
    n = rng.randint(lo, hi)
    if n == 0:
        return ""
    chars = []
    for i in range(n):
        r = rng.random()
        if r < 0.72:
            chars.append(rng.choice(NAME_ALPHABET))
        elif r < 0.93:
            chars.append(rng.choice(NAME_PUNCT))
        elif wide:
            chars.append(rng.choice(NAME_WIDE))
        else:
            chars.append("x")
    s = "".join(chars)
    if s[0] in " #" or s[0].isspace():
        s = "N" + s[1:]
    if s[-1].isspace():
        s = s[:-1] + "e"
    return s


def rand_style(rng, allow_dec=True):
    base = rng.choice([10, 16, 16, 16, 8, 2] if allow_dec else [16, 16, 16, 8, 2])
    return (base, rng.random() < 0.5, rng.random() < 0.3, rng.choice([0, 0, 2, 4, 8]))


def rand_num(rng, v, allow_dec=True, plus_ok=True):
    st = rand_style(rng, allow_dec)
    if abs(v) > 1 << 70 and st[0] == 2:
        st = (16,) + st[1:]
    return {"v": v, "t": spell_int(v, st, plus=plus_ok and rng.random() < 0.1)}


def boundary_int(rng, lo, hi):
    c = [lo, hi, lo + 1, hi - 1, 0, 1, -1, (lo + hi) // 2]
    c = [x for x in c if lo <= x <= hi]
    if rng.random() < 0.6:
        return rng.choice(c)
    return rng.randint(lo, hi)


def type_range(dt):
    if dt in SIGNED:
        w = SIGNED[dt]
        return -(1 << (w - 1)), (1 << (w - 1)) - 1
    if dt in UNSIGNED:
        return 0, (1 << UNSIGNED[dt]) - 1
    if dt == T_BOOLEAN:
        return 0, 1
    return 0, (1 << 48) - 1


FLOAT_TEXTS = ["0", "1", "-1", "1.5", "-2.25", "3.14159", "1e3", "1E-3", "-1.5e+10", ".5", "5.", "1_000.5",
               "inf", "-inf", "Infinity", "nan", "0.1", "1e400", "4.9e-324", "1.7976931348623157e308",
               "+7.25", "00012.5", "1e0"]


def rand_value(rng, dt, allow_rel=True):
    if dt in BLOBS:
        n = rng.choice([0, 1, 2, 4, 8, 13])
        b = bytes(rng.getrandbits(8) for _ in range(n))
        t = b.hex()
        if rng.random() < 0.4:
            t = t.upper()
        if rng.random() < 0.3 and n > 1:
            t = " ".join(t[i:i + 2] for i in range(0, len(t), 2))
        if n == 0:
            return {"k": "empty", "t": ""}
        return {"k": "bytes", "v": b.hex(), "t": t}
    if dt in TEXTS:
        if rng.random() < 0.1:
            return {"k": "empty", "t": ""}
        return {"k": "str", "t": rand_text(rng, 1, 20)}
    if dt in REALS:
        if rng.random() < 0.5:
            return {"k": "real", "t": rng.choice(FLOAT_TEXTS)}
        return {"k": "real", "t": repr(rng.uniform(-1e6, 1e6))}
    lo, hi = type_range(dt)
    if rng.random() < 0.05:
        return {"k": "empty", "t": ""}
    if allow_rel and dt in UNSIGNED and UNSIGNED[dt] >= 16 and rng.random() < 0.3:
        base = rng.choice([0x180, 0x200, 0x280, 0x600, 0x580, 0x80, 0, 0x40000200, rng.randint(0, 0xFFFF)])
        num = rand_num(rng, base, plus_ok=False)["t"]
        form = rng.randrange(4)
        t = ["$NODEID+" + num, num + "+$NODEID", "$NODEID + " + num, num + " + $NODEID"][form]
        return {"k": "rel", "base": base, "t": t}
    v = boundary_int(rng, lo, hi)
    r = rand_num(rng, v)
    r["k"] = "num"
    return r


def rand_limit(rng, dt):
    lo, hi = type_range(dt)
    v = boundary_int(rng, lo, hi)
    if dt in SIGNED:
        w = SIGNED[dt]
        if rng.random() < 0.7 or v >= 0:
            # two's complement pattern, hex (CiA 306)
            st = (16, rng.random() < 0.5, rng.random() < 0.2, rng.choice([0, 0, w // 4]))
            return {"v": v, "t": spell_nat(v % (1 << w), st)}
        return {"v": v, "t": spell_int(v, rand_style(rng))}
    return rand_num(rng, v) | {"v": v}


def rand_var(rng, name, sub, dt=None, full=True, toplevel=True, allow_rel=True):
    dt = rng.choice(ALL_TYPES) if dt is None else dt
    acc = rng.choice(ACCESS)
    acct = rng.choice([acc, acc, acc.upper(), acc.capitalize()])
    v = {"name": name, "sub": sub,
         "dt": {"v": dt, "t": rng.choice(["0x%04X" % dt, "0x%x" % dt, str(dt), "0X%02X" % dt])},
         "acc": {"v": acc, "t": acct}}
    if rng.random() < 0.8:
        b = rng.random() < 0.5
        v["pdo"] = {"v": b, "t": rng.choice(["1", "0x1", "0x01"]) if b else rng.choice(["0", "0x0", "00"])}
    if toplevel and dt == T_DOMAIN and rng.random() < 0.7:
        v["ot"] = rng.choice(["0x2", "2"])
    elif rng.random() < 0.75:
        v["ot"] = rng.choice(["0x7", "7", "0x07", "0X7"])
    if full:
        if rng.random() < 0.7:
            v["def"] = rand_value(rng, dt, allow_rel)
        if rng.random() < 0.35:
            v["val"] = rand_value(rng, dt, allow_rel)
        if dt in SIGNED or dt in UNSIGNED:
            if rng.random() < 0.5:
                v["lo"] = rand_limit(rng, dt)
            if rng.random() < 0.5:
                v["hi"] = rand_limit(rng, dt)
        if rng.random() < 0.15:
            v["stor"] = rng.choice(["RAM", "ROM", "PERSIST_COMM", "nv mem"])
        if rng.random() < 0.15:
            v["fac"] = rng.choice(["0.1", "10", "1", "2.5e-3", "1_0", "-1"])
        if rng.random() < 0.2:
            v["desc"] = rand_text(rng, 1, 30)
        if rng.random() < 0.2:
            v["unit"] = rng.choice(["rpm", "°C", "m/s", "%", "mA", "1/min"])
        if rng.random() < 0.3:
            order = ["ParameterName", "ObjectType", "StorageLocation", "DataType", "AccessType", "LowLimit",
                     "HighLimit", "DefaultValue", "ParameterValue", "PDOMapping", "Factor", "Description",
                     "Unit"]
            rng.shuffle(order)
            v["order"] = order
    return v


def hex4(rng, i):
    s = "%04X" % i
    return s.lower() if rng.random() < 0.3 else s


def rand_names(rng, n, avoid=(), dots=False):
    """distinct names; member names (dots=True) may contain '.', e.g. 'Max. current': 'Parent.Child' is cut at
    the first dot, so only the parent's name must be free of dots"""
    out, seen = [], set(avoid)
    while len(out) < n:
        s = rand_text(rng, 1, 14)
        if dots and rng.random() < 0.25:
            k = rng.randrange(1, len(s) + 1)
            s = s[:k] + rng.choice([". ", "."]) + (s[k:] or "x")
        if s in seen or ("." in s and not dots):
            continue
        seen.add(s)
        out.append(s)
    return out


def rand_spec(rng, size=None, types=None, suffix=None):
    """a random well-formed dictionary description with all its spelling choices"""
    size = rng.choice([0, 1, 2, 4, 6, 10]) if size is None else size
    spec = {"file": suffix or rng.choice(["x.eds", "x.dcf", "dev.EDS", "a.b.Dcf", "/tmp/some.dir/f.eds"])}
    spec["nid_arg"] = rng.choice([None, None, 1, 5, 0x10, 127, 0])
    if rng.random() < 0.7:
        spec["fileinfo"] = [["FileName", "x.eds"], ["FileVersion", "1"], ["CreatedBy", rand_text(rng)],
                            ["EDSVersion", "4.0"]][:rng.randint(0, 4)]
    if rng.random() < 0.8:
        props = []
        for key, attr, kind in DEV_KEYS:
            if rng.random() < 0.75:
                if kind == "s":
                    t = rand_text(rng)
                    props.append([key, t, t])
                elif kind == "i" and key != "Granularity":
                    n = rand_num(rng, rng.choice([0, 1, 4, 0x1234, 0xFFFFFFFF, rng.getrandbits(32)]))
                    props.append([key, n["t"], n["v"]])
                elif key == "Granularity":
                    n = rand_num(rng, rng.choice([0, 1, 8, 8, 64]))
                    props.append([key, n["t"], n["v"]])
                else:
                    b = rng.choice([0, 1, 1, 8])
                    props.append([key, rand_num(rng, b)["t"], bool(b)])
        rng.shuffle(props)
        bauds = []
        for r in RATES:
            if rng.random() < 0.85:
                on = rng.random() < 0.5
                bauds.append([r, rng.choice(["1", "0x1", "0b1"]) if on else rng.choice(["0", "0x0"]), on])
        spec["devinfo"] = {"props": props, "bauds": bauds}
    if rng.random() < 0.6:
        cm = {}
        if rng.random() < 0.75:
            n = rng.choice([1, 2, 0x10, 0x7F, 100])
            cm["nodeid"] = rand_num(rng, n)
        if rng.random() < 0.75:
            b = rng.choice([10, 20, 50, 125, 250, 500, 800, 1000, 0])
            cm["bitrate"] = {"v": b, "t": rng.choice([str(b), "%03d" % b, "+%d" % b])}
        spec["comm"] = cm
    if rng.random() < 0.6:
        spec["dummy"] = [rng.choice(["0", "0", "1", "00", "01"]) for _ in range(7)]
        spec["dummysec"] = rng.choice(["DummyUsage", "DummyUsage", "dummyusage", "Dummyusage", "dummyUsage"])
    if rng.random() < 0.7:
        # up to 30 lines: Line10.. sort before Line2 as texts, Lines may be spelled in any base
        n = rng.choice([0, 1, 2, 3, 5, 9, 10, 11, 12, 20, 30]) if rng.random() < 0.8 else rng.randint(0, 30)
        lines = [rand_text(rng, 0, 25) for _ in range(n)]
        spec["comments"] = {"lines": lines, "lines_t": rand_num(rng, n)["t"]}
    spec["lists"] = rng.random() < 0.6
    order = ["FileInfo", "DeviceInfo", "DeviceComissioning", "DummyUsage", "Comments", "objects"]
    if rng.random() < 0.4:
        rng.shuffle(order)
    spec["order"] = order
    # objects
    pool = [0x1000, 0x1001, 0x1018, 0x1003, 0x1005, 0x1006, 0x1017, 0x1200, 0x1400, 0x1600, 0x1800, 0x1A00,
            0x1A0F, 0x1FFF, 0x2000, 0x2001, 0x2ABC, 0x5FFF, 0x6000, 0x6040, 0x6041, 0x9FFF, 0xA000, 0xFFFF,
            0xABCD, 0xFACE]
    indexes = set()
    while len(indexes) < size:
        indexes.add(rng.choice(pool) if rng.random() < 0.5 else rng.randint(0x1000, 0xFFFF))
    indexes = sorted(indexes)
    if rng.random() < 0.25:
        rng.shuffle(indexes)
    top_names = rand_names(rng, len(indexes), avoid=[f"Dummy{i:04d}" for i in range(1, 8)])
    objs = []
    for idx, name in zip(indexes, top_names):
        r = rng.random()
        tchoice = (lambda: rng.choice(types)) if types else (lambda: None)
        if r < 0.45:
            objs.append({"kind": "var", "index": idx, "sec": hex4(rng, idx),
                         "var": rand_var(rng, name, 0, dt=tchoice())})
        elif r < 0.8:
            kind = rng.choice(["rec", "arr"])
            n = rng.choice([0, 1, 2, 3, 5, 8, 20]) if rng.random() < 0.8 else rng.randint(1, 20)
            subs = [0] + sorted(rng.sample(range(1, 255), n - 1)) if n and rng.random() < 0.3 else list(range(n))
            if rng.random() < 0.15 and subs:
                subs[-1] = 255
                subs = sorted(set(subs))
            mnames = rand_names(rng, len(subs), dots=True)
            adt = rng.choice(ALL_TYPES)
            members = []
            sec = hex4(rng, idx)
            for s, mn in zip(subs, mnames):
                sub_t = rng.choice(["sub", "sub", "Sub"])
                sx = ("%X" % s) if rng.random() < 0.7 else ("%x" % s)
                if rng.random() < 0.1:
                    sx = sx.rjust(2, "0")
                mdt = tchoice() or (T_U8 if s == 0 else (adt if kind == "arr" else None))
                members.append({"sub": s, "sec": sec[:4] + sub_t + sx,
                                "var": rand_var(rng, mn, s, dt=mdt, toplevel=False)})
            if rng.random() < 0.2:
                rng.shuffle(members)
            o = {"kind": kind, "index": idx, "sec": sec, "name": name,
                 "ot": rng.choice(["0x9", "9"]) if kind == "rec" else rng.choice(["0x8", "8", "0x08"]),
                 "subnumber": rng.choice([None, str(len(subs)), "0x%X" % len(subs)]), "members": members}
            if rng.random() < 0.15:
                o["stor"] = rng.choice(["RAM", "ROM"])
            objs.append(o)
        else:
            # 1..254 entries (CiA 306), biased to both ends of the range
            n = rng.choice([1, 2, 3, 8, 20, 127, 128, 253, 254, 254]) if rng.random() < 0.85 else rng.randint(1, 254)
            tv = rand_var(rng, name, 1, dt=tchoice(), toplevel=False)
            tv["ot"] = rng.choice(["0x8", "8"])
            names = None
            if rng.random() < 0.5:
                # a name list for the first m entries (NrOfEntries counts the names, CompactSubObj the entries)
                m = rng.choice([1, 2, 3, 5, 20]) if rng.random() < 0.93 else rng.choice([100, 253, 254])
                names = rand_names(rng, m, avoid=["Number of entries"], dots=True)
                n = m if rng.random() < 0.6 else min(254, m + rng.choice([1, 2, 7, 200]))
            sec = hex4(rng, idx)
            objs.append({"kind": "compact", "index": idx, "sec": sec, "namesec": sec + "Name", "n": n,
                         "ntext": rand_num(rng, n)["t"], "var": tv, "names": names,
                         "cpos": rng.randrange(8)})
    spec["objs"] = objs
    return spec


def spec_to_op_parts(spec):
    """(file name hex, node id token, document, 'w', spec hex, sub-index probes)"""
    text = write_eds(spec)
    doc = parse_text(text)
    nid = spec.get("nid_arg")
    return [hx(spec["file"]), "none" if nid is None else str(nid), enc_doc(doc), "w",
            hx(json.dumps(spec, separators=(",", ":"), ensure_ascii=False)), enc_probes(probes_for(spec))]


class NamedStringIO(io.StringIO):
    def __init__(self, text, name):
        super().__init__(text)
        self.name = name


def import_text(text, fname, nid):
    """the real code, through the public API"""
    return canopen.import_od(NamedStringIO(text, fname), nid)
