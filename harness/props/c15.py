"""C15 — A PDO value set by the producer is the value the consumer reads.

    x <producer maps> <consumer maps> <step|step|…>        map: <cob|n>,<enabled>,<rtr>,<type:bits/…>

    w.<k>.<i>.<kind>.<v>  producer variable write      v.<k>.<i>.<kind>.<v>  consumer variable write
    t.<k>                 producer map transmit()      x.<cob>.<hex> / y.<cob>.<hex>.<dt>  third-party frame
    r.<k> / p.<k>         read consumer / producer map q.<k>  remote_request()    s.<k>  subscribe()
    c.<k>.<cob|n>.<en>.<rtr> / d.<k>.<cob>.<en>.<rtr>  reconfigure by attributes / from the dictionary
    b.<k>.<tag> / B.<k>.<tag>  add_callback of an observer (B: it raises after recording)
    W.<k>.<cob:hex;…|->   wait_for_reception, the arrivals delivered inline while waiting (scripted condition)
    Z.<k>.<n>.<ms>.<cob:hex;…|->  n reader threads in wait_for_reception(ms), arrivals handed in from another thread
    a frame's callback log: <k>.<tag>~<timestamp>~<is_received>~<period>~<data>~<v;v;…> per invoked callback
    S.<P|C>.<k>.<seconds|n>  start(period) of the periodic transmission of producer / consumer map k
    E.<P|C>.<k>  stop()   U.<P|C>.<k>  update()        T.<k>.<1|0>  older spelling of S.C.<k>.7 / E.C.<k>
"""
import logging
import threading
import time

import can
import canopen
from canopen import objectdictionary as od

from props import c04, c05, c17

logging.disable(logging.CRITICAL)

ID = "C15"
PROOF_MODULES = ["CanopenProofs.C15"]
GENERATED = ["Datatypes"]
THEOREMS = [
    "Canopen.C15.producer_consumer",
    "Canopen.C15.write_then_read",
    "Canopen.C15.only_subscribed_map_updates",
    "Canopen.C15.notify_updates_exactly_subscribed",
    "Canopen.C15.callbacks_once",
    "Canopen.C15.callback_sees_frame",
    "Canopen.C15.reception_independent_of_callbacks",
    "Canopen.C15.transmit_frame",
    "Canopen.C15.rtr_only_if_enabled_and_allowed",
    "Canopen.C15.wait_wakes",
    "Canopen.C15.wait_threaded_wakes",
    "Canopen.C15.wait_independent_of_callbacks",
    "Canopen.C15.transmit_any_running",
    "Canopen.C15.periodic_calls_erased",
    "Canopen.C15.transmit_independent_of_periodic",
    "Canopen.C15.producer_consumer_periodic",
    "Canopen.C15.start_stop_reception",
]
FINGERPRINT = c05.FINGERPRINT + [
    "canopen.pdo.base:PdoMap.on_message",
    "canopen.pdo.base:PdoMap.__getitem__",
    "canopen.pdo.base:PdoMap.__iter__",
    "canopen.pdo.base:PdoMap.__len__",
    "canopen.network:MessageListener",
    "canopen.pdo.base:PdoMap.transmit",
    "canopen.pdo.base:PdoMap.remote_request",
    "canopen.pdo.base:PdoMap.subscribe",
    "canopen.pdo.base:PdoMap.add_callback",
    "canopen.pdo.base:PdoMap.wait_for_reception",
    "canopen.pdo.base:PdoMap.start",
    "canopen.pdo.base:PdoMap.stop",
    "canopen.pdo.base:PdoMap.update",
    "canopen.network:Network.send_periodic",
    "canopen.network:PeriodicMessageTask",
    "canopen.network:Network.subscribe",
    "canopen.network:Network.notify",
    "canopen.network:Network.send_message",
]
TRUSTED = c05.TRUSTED + [
    "threading.Condition modelled as monitor: wait_for_reception is a function of the frames delivered while "
    "waiting - scripted through a fake condition (token W), and with real reader threads on a real Condition "
    "(token Z): frames are handed in from another thread once every reader is inside wait(), the readers are joined "
    "as soon as the map says is_received; a reader that got a timestamp but needed the whole (generous) time-out "
    "counts as not woken",
    "frames reach the consuming network through its MessageListener (python-can's Notifier thread is not run)",
    "Network dispatch as in C10 (subscriber lists per COB-ID, append-if-absent)",
    "python-can's cyclic tasks are replaced by C17's recording tasks (no timer fires, so no cyclic frame "
    "reaches the bus during a history); what a running task sends is C17's subject",
]
ASSUMPTIONS = ["timestamps are the integers the harness injects",
               "callbacks do not re-enter the map; a callback that raises ends the dispatch of that frame as the tree "
               "does it (the map's remaining callbacks and the maps subscribed later on the same COB-ID are passed over, "
               "the listener logs the exception): claimed for such a frame are the map's data and timestamp, what the "
               "callbacks invoked so far saw, and the wake-up of waiting readers"]
RULE = ("op x: a history over producer maps and consumer maps (distinct and colliding COB-IDs) of write / transmit / "
        "third-party frame / read / remote request / subscribe / reconfigure / add callback / wait, callbacks being "
        "observers that record what they see when called (timestamp, is_received, period, data, every variable) and "
        "some of them raising (first / middle / last), waits scripted inline and with 1..3 real reader threads, maps "
        "with all eight slots used (variables addressed by position 0..7), and "
        "start(period) / stop / update of the periodic transmission on maps of either side (periods 1 s .. 1 day, "
        "0 and none; recording bus, no timer), so that every other step runs with and without a running task; "
        "layouts and values as in C05; non-trivial = at least one frame was delivered to a subscribed map")

ACCESS_LEN = c05.lens_for


# ---------------------------------------------------------------------- real objects
def make_od(nmaps):
    d = od.ObjectDictionary()
    for t in c05.ALL_TYPES:
        v = od.ODVariable(f"v{t}", 0x2000 + t, 0)
        v.data_type = t
        d.add_object(v)
    for k in range(nmaps):
        com = od.ODRecord(f"tpdo{k}com", 0x1800 + k)
        for sub in (0, 1, 2):
            m = od.ODVariable(f"c{k}_{sub}", 0x1800 + k, sub)
            m.data_type = 0x07 if sub == 1 else 0x05
            com.add_member(m)
        d.add_object(com)
        mp = od.ODArray(f"tpdo{k}map", 0x1A00 + k)
        for sub in range(0, 9):
            m = od.ODVariable(f"m{k}_{sub}", 0x1A00 + k, sub)
            m.data_type = 0x05 if sub == 0 else 0x07
            mp.add_member(m)
        d.add_object(mp)
    return d


class Net(canopen.Network):
    """single-shot frames are recorded (and, from the producing side, delivered to the consuming network);
    periodic transmissions go through the library's own `send_periodic` / `PeriodicMessageTask` onto C17's
    recording bus: tasks are recorded, no timer runs, so no cyclic frame interferes with a history"""

    def __init__(self, rig, role, modify):
        super().__init__(c17.FakeBus(modify))
        self.rig, self.role = rig, role

    def send_message(self, can_id, data, remote=False):
        if can_id > 0x7FF:
            pass
        self.rig.sent.append((self.role, can_id, bytes(data), remote))
        if self.role == "P" and not remote:
            self.rig.deliver(can_id, bytes(data))


class FakeCondition:
    """stands in for threading.Condition: wait() performs the scripted deliveries"""

    def __init__(self, rig):
        self.rig = rig
        self.script = []

    def __enter__(self):
        return self

    def __exit__(self, *a):
        return False

    def notify_all(self):
        pass

    def notify(self, n=1):
        pass

    def wait(self, timeout=None):
        script, self.script = self.script, []
        for cid, data in script:
            self.rig.deliver(cid, data)


class ObsCondition(threading.Condition):
    """a real threading.Condition that tells the rig when a reader thread is about to block in wait(): the reader
    holds the lock at that moment, so a frame delivered afterwards cannot get into on_message's `with` block
    before the reader really waits"""

    def __init__(self):
        super().__init__()
        self.waiting = threading.Semaphore(0)

    def wait(self, timeout=None):
        self.waiting.release()
        return super().wait(timeout)


def parse_map(s):
    cob, en, rtr, lay = s.split(",")
    layout = [] if lay == "-" else [tuple(int(x) for x in e.split(":")) for e in lay.split("/")]
    return (None if cob == "n" else int(cob), en == "1", rtr == "1", layout)


def parse_maps(s):
    return [] if s == "-" else [parse_map(m) for m in s.split(";")]


class Rig:
    def __init__(self, pmaps, cmaps, modify=True):
        n = max(len(pmaps), len(cmaps), 1)
        self.sent, self.cblog, self.clock = [], [], 100
        self.np, self.nc = Net(self, "P", modify), Net(self, "C", modify)
        self.prod = canopen.RemoteNode(1, make_od(n))
        self.cons = canopen.RemoteNode(1, make_od(n))
        self.np.add_node(self.prod)
        self.nc.add_node(self.cons)
        self.pm = [self.setup(self.prod.tpdo[k + 1], m) for k, m in enumerate(pmaps)]
        self.cm = [self.setup(self.cons.tpdo[k + 1], m) for k, m in enumerate(cmaps)]

    @staticmethod
    def setup(m, spec):
        cob, en, rtr, layout = spec
        m.clear()
        for t, ln in layout:
            m.add_variable(0x2000 + t, 0, ln)
        m._update_data_size()
        m.cob_id, m.enabled, m.rtr_allowed = cob, en, rtr
        return m

    def deliver(self, can_id, data, ts=None):
        """a frame comes in the way the receive thread hands it over: the network's MessageListener gets the
        can.Message and calls Network.notify (and is the one that deals with an exception out of a callback)"""
        if ts is None:
            ts = self.clock
            self.clock += 1
        msg = can.Message(arbitration_id=can_id, data=bytes(data), timestamp=ts, is_extended_id=can_id > 0x7FF)
        self.nc.listeners[0].on_message_received(msg)

    def observer(self, idx, tag, raises):
        """a callback that records what it can see when it is called, through the map it is handed (variables by
        iteration over the map), and then returns or raises"""
        def callback(mp):
            self.cblog.append(f"{idx}.{tag}~{show_snap(mp)}")
            if raises:
                raise RuntimeError(f"callback {idx}.{tag}")
        return callback


def show_var(v):
    try:
        return c04.show_val(v.raw, str(v.od.data_type)).replace(" ", ":")
    except Exception:
        return "err"


def var_at(m, i):
    """the i-th mapped variable, addressed by position through the map: pdo_map[i]"""
    return m[i]


def show_vals(m):
    """every mapped variable read by position (0..7)"""
    out = []
    for i in range(len(m)):
        try:
            out.append(show_var(var_at(m, i)))
        except Exception:
            out.append("err")
    return ",".join(out)


def show_snap(mp):
    try:
        vals = ";".join(show_var(v) for v in mp)
    except Exception:
        vals = "err"
    return (f"{show_opt(mp.timestamp)}~{int(bool(mp.is_received))}~{show_opt(mp.period)}~{c04.hx(bytes(mp.data))}~{vals}")


def show_opt(x):
    return "n" if x is None else str(int(x))


def show_log(l):
    return ",".join(l) if l else "-"


def run_impl(op):
    a = op.split(" ")
    # the bus flavour (cyclic tasks with / without modify_data) is fixed by the configuration, not by the steps
    rig = Rig(parse_maps(a[1]), parse_maps(a[2]), modify=len(a[1]) % 2 == 0)
    outs = []
    for tok in a[3].split("|"):
        p = tok.split(".")
        try:
            outs.append(step(rig, p))
        except Exception as e:
            outs.append("err")
    return "|".join(outs)


def step(rig, p):
    k = p[0]
    if k == "w":
        m, i = rig.pm[int(p[1])], int(p[2])
        t = var_at(m, i).od.data_type
        if p[3] == "int":
            var_at(m, i).raw = int(p[4])
        elif p[3] == "bool":
            var_at(m, i).raw = p[4] == "1"
        else:
            eb, mb = (8, 23) if t == 0x08 else (11, 52)
            var_at(m, i).raw = c04.bits_to_float(int(p[4]), eb, mb)
        return "ok"
    if k == "t":
        m = rig.pm[int(p[1])]
        del rig.cblog[:]
        n0 = len(rig.sent)
        m.transmit()
        frames = rig.sent[n0:]
        if len(frames) == 1 and not frames[0][3]:
            _, cid, data, _ = frames[0]
            return f"tx:{cid}:{c04.hx(data)}>{show_log(rig.cblog)}"
        # anything but exactly one data frame: say what went out
        return ("txn:" + str(len(frames)) + "".join(f":{'R' if r else 'D'}{cid}:{c04.hx(data)}" for _, cid, data, r in frames)
                + f">{show_log(rig.cblog)}")
    if k == "x":
        del rig.cblog[:]
        rig.deliver(int(p[1]), c04.unhx(p[2]))
        return f">{show_log(rig.cblog)}"
    if k == "y":
        # a frame stamped `dt` below the clock (equal to or older than an earlier frame's stamp); clock stays
        del rig.cblog[:]
        rig.deliver(int(p[1]), c04.unhx(p[2]), ts=rig.clock - int(p[3]))
        return f">{show_log(rig.cblog)}"
    if k == "v":
        # the consuming side writes a variable of a map it receives on
        m, i = rig.cm[int(p[1])], int(p[2])
        t = var_at(m, i).od.data_type
        if p[3] == "int":
            var_at(m, i).raw = int(p[4])
        elif p[3] == "bool":
            var_at(m, i).raw = p[4] == "1"
        else:
            eb, mb = (8, 23) if t == 0x08 else (11, 52)
            var_at(m, i).raw = c04.bits_to_float(int(p[4]), eb, mb)
        return "ok"
    if k == "r":
        m = rig.cm[int(p[1])]
        return f"{show_vals(m)}@{show_opt(m.timestamp)}@{show_opt(m.period)}@{c04.hx(bytes(m.data))}"
    if k == "p":
        m = rig.pm[int(p[1])]
        return f"{show_vals(m)}@{c04.hx(bytes(m.data))}"
    if k == "q":
        m = rig.cm[int(p[1])]
        n0 = len(rig.sent)
        m.remote_request()
        if len(rig.sent) == n0:
            return "none"
        _, cid, data, remote = rig.sent[n0]
        return f"rtr:{cid}" if remote and data == b"" else f"bad-rtr:{cid}:{c04.hx(data)}:{remote}"
    if k == "s":
        rig.cm[int(p[1])].subscribe()
        return "ok"
    if k == "c":
        m = rig.cm[int(p[1])]
        m.cob_id = None if p[2] == "n" else int(p[2])
        m.enabled, m.rtr_allowed = p[3] == "1", p[4] == "1"
        return "ok"
    if k == "d":
        # the configuration comes from the dictionary: communication parameter 1 = cob | invalid<<31 | no-RTR<<30,
        # the mapping parameter names the map's own layout; PdoMap.read(from_od=True)
        m = rig.cm[int(p[1])]
        lay = [(v.index, v.length) for v in m.map]
        m.com_record[1].od.value = int(p[2]) | (0 if p[3] == "1" else 0x80000000) | (0 if p[4] == "1" else 0x40000000)
        m.com_record[2].od.value = 255
        m.map_array[0].od.value = len(lay)
        for i, (idx, ln) in enumerate(lay, 1):
            m.map_array[i].od.value = (idx << 16) | ln
        m.read(from_od=True)
        return "ok"
    if k in ("b", "B"):
        idx, tag = int(p[1]), int(p[2])
        rig.cm[idx].add_callback(rig.observer(idx, tag, k == "B"))
        return "ok"
    if k == "Z":
        return threaded_wait(rig, rig.cm[int(p[1])], int(p[2]), int(p[3]) / 1000.0,
                             [] if p[4] == "-" else [(int(e.split(":")[0]), c04.unhx(e.split(":")[1])) for e in p[4].split(";")])
    if k == "T":
        # older spelling of S.C.<k>.7 / E.C.<k>
        m = rig.cm[int(p[1])]
        if p[2] == "1":
            m.start(7)
        else:
            m.stop()
        return "ok"
    if k in ("S", "E", "U"):
        # periodic transmission of a map of the producing (P) or consuming (C) side
        m = (rig.pm if p[1] == "P" else rig.cm)[int(p[2])]
        if k == "S":
            m.start(None if p[3] == "n" else int(p[3]))
        elif k == "E":
            m.stop()
        else:
            m.update()
        return "ok"
    if k == "W":
        m = rig.cm[int(p[1])]
        cond = FakeCondition(rig)
        cond.script = [] if p[2] == "-" else [(int(e.split(":")[0]), c04.unhx(e.split(":")[1])) for e in p[2].split(";")]
        m.receive_condition = cond
        return f"wait:{show_opt(m.wait_for_reception(0.01))}"
    return "bad"


def threaded_wait(rig, m, nreaders, timeout, arrivals):
    """`nreaders` threads call wait_for_reception(timeout) on the map (a real threading.Condition); once all of them
    wait, this thread - the receive thread's part - hands in the frames one after the other.  As soon as the map says
    is_received the readers are joined before the next frame comes (the wait is over; which frame a reader would see
    after that is a matter of scheduling).  A reader that needed (nearly) the whole time-out although it got a
    timestamp was not woken: it is marked `late`."""
    cond = ObsCondition()
    m.receive_condition = cond
    results = [None] * nreaders

    def reader(i):
        t0 = time.monotonic()
        try:
            r = m.wait_for_reception(timeout)
            results[i] = (show_opt(r), time.monotonic() - t0)
        except Exception:
            results[i] = ("err", 0.0)

    threads = [threading.Thread(target=reader, args=(i,), daemon=True) for i in range(nreaders)]
    for th in threads:
        th.start()
        t0 = time.monotonic()
        # until this reader is about to block in wait() - or has come back without ever waiting
        while not cond.waiting.acquire(timeout=0.02):
            if not th.is_alive():
                break
            if time.monotonic() - t0 > 60:
                return "wait:stuck"
    joined = False
    for cid, data in arrivals:
        rig.deliver(cid, data)
        if not joined and m.is_received:
            for th in threads:
                th.join(timeout + 30)
            joined = True
    for th in threads:
        th.join(timeout + 30)
    outs = []
    for r in results:
        if r is None:
            outs.append("hung")
        else:
            outs.append(r[0] + (":late" if r[0] not in ("n", "err") and r[1] >= 0.8 * timeout else ""))
    return "wait:" + ",".join(outs)


# ---------------------------------------------------------------------- independent oracle
class RefMap:
    def __init__(self, spec):
        self.cob, self.en, self.rtr, self.layout = spec
        total = sum(l for _, l in self.layout)
        self.size = (total + 7) // 8
        self.x = 0                 # frame as a little-endian integer
        self.n = self.size         # frame length in bytes
        self.ts = None
        self.period = None
        self.received = False
        self.transmitting = False
        self.cbs = []

    def offs(self):
        o, acc = [], 0
        for _, l in self.layout:
            o.append(acc)
            acc += l
        return o

    def field(self, i):
        t, l = self.layout[i]
        return (self.x >> self.offs()[i]) & ((1 << l) - 1)

    def val(self, i):
        """typed value of variable i, or None when the frame is too short for it"""
        t, l = self.layout[i]
        if self.offs()[i] + l > 8 * self.n:
            return None
        f = self.field(i)
        if t in c04.SPEC:
            return "int:" + str(f - (1 << l) if c04.SPEC[t][1] and f >> (l - 1) else f)
        if t == 0x01:
            return "bool:" + str(int(f != 0))
        return "real:nan" if c04.is_nan_pattern(t, f) else f"real:{f}"


def canon_model(op, out):
    """REAL read-backs: the implementation hands over a float, so NaN patterns are printed as 'nan' on both sides"""
    if "real:" not in out:
        return out
    a = op.split(" ")
    toks, outs = a[3].split("|"), out.split("|")
    if len(toks) != len(outs):
        return out
    prod, cons = parse_maps(a[1]), parse_maps(a[2])

    def canon_vals(vals, lay):
        if len(vals) == len(lay):
            for j, (v, (t, _l)) in enumerate(zip(vals, lay)):
                if v.startswith("real:") and v[5:].isdigit() and t in c04.REALS and c04.is_nan_pattern(t, int(v[5:])):
                    vals[j] = "real:nan"
        return vals

    for i, (tok, o) in enumerate(zip(toks, outs)):
        p = tok.split(".")
        if p[0] in ("t", "x", "y") and "real:" in o and ">" in o:
            # what the callbacks recorded: <map>.<tag>~ts~received~period~data~v;v;…
            head, log = o.split(">", 1)
            entries = log.split(",")
            for j, e in enumerate(entries):
                f = e.split("~")
                if len(f) == 6 and f[0].split(".")[0].isdigit() and int(f[0].split(".")[0]) < len(cons):
                    f[5] = ";".join(canon_vals(f[5].split(";"), cons[int(f[0].split(".")[0])][3]))
                    entries[j] = "~".join(f)
            outs[i] = head + ">" + ",".join(entries)
            continue
        if p[0] not in ("r", "p") or "real:" not in o or "@" not in o:
            continue
        lay = (cons if p[0] == "r" else prod)[int(p[1])][3]
        head, rest = o.split("@", 1)
        vals = head.split(",")
        if len(vals) != len(lay):
            continue
        for j, (v, (t, _l)) in enumerate(zip(vals, lay)):
            if v.startswith("real:") and v[5:].isdigit() and t in c04.REALS and c04.is_nan_pattern(t, int(v[5:])):
                vals[j] = "real:nan"
        outs[i] = ",".join(vals) + "@" + rest
    return "|".join(outs)


def oracle(op, out):
    a = op.split(" ")
    prod = [RefMap(m) for m in parse_maps(a[1])]
    cons = [RefMap(m) for m in parse_maps(a[2])]
    subs = {}                         # cob -> [consumer map index], append-if-absent
    clock = 100
    outs = out.split("|")
    toks = a[3].split("|")
    if len(outs) != len(toks):
        return "output does not have one entry per step"

    def deliver(cid, data, at=None):
        nonlocal clock
        if at is None:
            ts = clock
            clock += 1
        else:
            ts = at
        log = []                      # what each invoked callback must have seen: this frame, completely taken over
        for k in subs.get(cid, []):
            m = cons[k]
            if m.cob == cid and not m.transmitting:
                m.received = True
                m.dirty = False
                m.x, m.n = int.from_bytes(data, "little"), len(data)
                if m.ts is not None:
                    m.period = ts - m.ts
                m.ts = ts
                vals = [m.val(i) for i in range(len(m.layout))]
                raised = False
                for tag, raises in m.cbs:
                    log.append((k, tag, ts, m.period, c04.hx(data), None if None in vals else vals))
                    if raises:
                        raised = True
                        break
                if raised:
                    # an exception out of a callback ends the dispatch of this frame (the remaining callbacks and the
                    # maps subscribed later are passed over, the listener logs it) - taken as the tree does it;
                    # what is demanded for the map itself (data, timestamp, wake-up) is already done above
                    break
        return log

    def check_log(got, exp):
        gl = [] if got == "-" else got.split(",")
        heads = [g.split("~")[0] for g in gl]
        want = [f"{k}.{tag}" for k, tag, *_ in exp]
        if heads != want:
            return (f"callbacks invoked {','.join(heads) or '-'}, expected {','.join(want) or '-'} (each callback of a map "
                    f"that takes the frame once, in order)")
        for g, (k, tag, ts, per, hexd, vals) in zip(gl, exp):
            f = g.split("~")
            if len(f) != 6:
                return f"callback {k}.{tag} left the record {g}"
            if f[4] != hexd:
                return f"callback {k}.{tag} invoked for the frame {hexd} stamped {ts} saw the data {f[4]}"
            if f[1] != str(ts):
                return f"callback {k}.{tag} invoked for the frame {hexd} stamped {ts} saw the timestamp {f[1]}"
            if f[2] != "1":
                return f"callback {k}.{tag} invoked for the frame {hexd} stamped {ts} saw is_received = {f[2]}"
            if f[3] != show_opt(per):
                return f"callback {k}.{tag} invoked for the frame {hexd} stamped {ts} saw the period {f[3]}, expected {show_opt(per)}"
            if vals is not None and f[5] != ";".join(vals):
                return f"callback {k}.{tag} invoked for the frame {hexd} read {f[5]}, the frame holds {';'.join(vals)}"
        return None

    for tok, o in zip(toks, outs):
        p = tok.split(".")
        k = p[0]
        if k == "w":
            m = prod[int(p[1])]
            i = int(p[2])
            t, l = m.layout[i]
            v = int(p[4])
            if p[3] == "int" and t in c04.SPEC:
                w, s = c04.SPEC[t]
                lo, hi = (-(1 << (w - 1)), (1 << (w - 1)) - 1) if s else (0, (1 << w) - 1)
                if not lo <= v <= hi:
                    if o != "err":
                        return f"out-of-range write {tok} accepted"
                    continue
            elif p[3] == "int" and t == 0x01:
                v = 1 if v else 0
            elif p[3] == "int":
                continue
            if o != "ok":
                return f"write {tok} failed: {o}"
            mask = (1 << l) - 1
            m.x = (m.x & ~(mask << m.offs()[i])) | ((v & mask) << m.offs()[i])
        elif k == "t":
            m = prod[int(p[1])]
            if m.cob is None:
                if o != "err":
                    return f"transmit without COB-ID gave {o}"
                continue
            data = m.x.to_bytes(m.size, "little")
            log = deliver(m.cob, data)
            exp = f"tx:{m.cob}:{c04.hx(data)}"
            head, _, got_log = o.partition(">")
            if head != exp or ">" not in o:
                return (f"transmit {tok} gave {o}, expected {exp} (exactly one frame: COB-ID and current data)"
                        f"{' while a periodic transmission of the map runs' if m.transmitting else ''}")
            w = check_log(got_log, log)
            if w:
                return f"{w} [transmit {tok}]"
        elif k == "x":
            log = deliver(int(p[1]), c04.unhx(p[2]))
            if not o.startswith(">"):
                return f"frame {tok} gave {o}"
            w = check_log(o[1:], log)
            if w:
                return f"{w} [frame {tok}]"
        elif k == "y":
            log = deliver(int(p[1]), c04.unhx(p[2]), at=clock - int(p[3]))
            if not o.startswith(">"):
                return f"frame {tok} gave {o}"
            w = check_log(o[1:], log)
            if w:
                return f"{w} [frame {tok}, timestamp not newer than an earlier one]"
        elif k == "v":
            m = cons[int(p[1])]
            i = int(p[2])
            t, l = m.layout[i]
            if p[3] != "int" or t not in c04.SPEC or m.offs()[i] + l > 8 * m.n:
                m.dirty = True                 # not judged; nor are reads of this map until the next frame
                continue
            v = int(p[4])
            w, sg = c04.SPEC[t]
            lo, hi = (-(1 << (w - 1)), (1 << (w - 1)) - 1) if sg else (0, (1 << w) - 1)
            if not lo <= v <= hi:
                if o != "err":
                    return f"out-of-range write {tok} accepted"
                continue
            if o != "ok":
                return f"write {tok} on the consuming side failed: {o}"
            mask = (1 << l) - 1
            m.x = (m.x & ~(mask << m.offs()[i])) | ((v & mask) << m.offs()[i])
        elif k in ("r", "p"):
            m = (cons if k == "r" else prod)[int(p[1])]
            vals = [m.val(i) for i in range(len(m.layout))]
            if None in vals or getattr(m, "dirty", False):
                continue                       # frame shorter than the mapping / unjudged write: not judged
            got = o.split("@")
            if got[0] != ",".join(vals):
                return f"{'consumer' if k == 'r' else 'producer'} map {p[1]} reads {got[0]}, the frame holds {','.join(vals)}"
            if k == "r" and (got[1] != show_opt(m.ts) or got[2] != show_opt(m.period)):
                return f"consumer map {p[1]} timestamp/period {got[1]}/{got[2]}, expected {show_opt(m.ts)}/{show_opt(m.period)}"
        elif k == "q":
            m = cons[int(p[1])]
            if m.en and m.rtr:
                exp = "err" if m.cob is None else f"rtr:{m.cob}"
            else:
                exp = "none"
            if o != exp:
                return f"remote request on map {p[1]} gave {o}, expected {exp}"
        elif k == "s":
            m = cons[int(p[1])]
            if m.en and m.cob is not None:
                lst = subs.setdefault(m.cob, [])
                if int(p[1]) not in lst:
                    lst.append(int(p[1]))
        elif k == "c":
            m = cons[int(p[1])]
            m.cob = None if p[2] == "n" else int(p[2])
            m.en, m.rtr = p[3] == "1", p[4] == "1"
        elif k == "d":
            m = cons[int(p[1])]
            m.cob, m.en, m.rtr = int(p[2]), p[3] == "1", p[4] == "1"
            m.x, m.n = 0, m.size                      # cleared and mapped again: all-zero data
            if m.en:
                lst = subs.setdefault(m.cob, [])
                if int(p[1]) not in lst:
                    lst.append(int(p[1]))
        elif k in ("b", "B"):
            cons[int(p[1])].cbs.append((int(p[2]), k == "B"))
        elif k in ("T", "S", "E", "U"):
            # periodic transmission: start(period) stops a running task, keeps a given period, and needs a
            # period (documented ValueError otherwise); stop() ends it; update() changes nothing on the map
            if k == "T":
                m, call, per = cons[int(p[1])], ("S" if p[2] == "1" else "E"), 7
            else:
                m, call = (prod if p[1] == "P" else cons)[int(p[2])], k
                per = (None if p[3] == "n" else int(p[3])) if k == "S" else None
            if call == "S":
                m.transmitting = False
                if per is not None:
                    m.period = per
                if not m.period:
                    if o != "err":
                        return f"start {tok} without a period gave {o}, expected err"
                elif m.cob is None:
                    m.transmitting = o == "ok"       # no COB-ID to transmit on: either answer is taken
                else:
                    if o != "ok":
                        return f"start {tok} with period {m.period} failed: {o}"
                    m.transmitting = True
            else:
                if o != "ok":
                    return f"{'stop' if call == 'E' else 'update'} {tok} failed: {o}"
                if call == "E":
                    m.transmitting = False
        elif k == "W":
            m = cons[int(p[1])]
            m.received = False
            if p[2] != "-":
                for e in p[2].split(";"):
                    deliver(int(e.split(":")[0]), c04.unhx(e.split(":")[1]))
            exp = f"wait:{show_opt(m.ts) if m.received else 'n'}"
            if o != exp:
                return f"wait_for_reception on map {p[1]} gave {o}, expected {exp}"
        elif k == "Z":
            # reader threads: the first frame the map takes wakes every one of them and hands over its timestamp,
            # whatever the map's callbacks do; later frames find nobody waiting
            m = cons[int(p[1])]
            m.received = False
            res = None
            if p[4] != "-":
                for e in p[4].split(";"):
                    deliver(int(e.split(":")[0]), c04.unhx(e.split(":")[1]))
                    if res is None and m.received:
                        res = m.ts
            exp = "wait:" + ",".join([show_opt(res)] * int(p[2]))
            if o != exp:
                return (f"wait_for_reception in {p[2]} thread(s) on map {p[1]} gave {o}, expected {exp} (every waiting "
                        f"reader is woken by the frame and handed its timestamp)")
    return None


def signature(op, what):
    return what.split(" ")[0] + ":" + (what.split(" ")[1] if " " in what else "")


def nontrivial(op, out):
    return ">" in out and any(seg.split(">")[1] not in ("", "-") or True for seg in out.split("|") if ">" in seg)


def classify(op, out):
    kinds = sorted({t.split(".")[0] for t in op.split(" ")[3].split("|")})
    return "".join(kinds)


def shrink_candidates(op):
    a = op.split(" ")
    toks = a[3].split("|")
    for i in range(len(toks)):
        if len(toks) > 1:
            yield " ".join(a[:3] + ["|".join(toks[:i] + toks[i + 1:])])


# ---------------------------------------------------------------------- generator
def full_layout(rng):
    """a map with all eight slots used: 1-byte objects, 1-bit and few-bit fields (positions 0..7)"""
    singles = [(t, ln) for t in c05.ALL_TYPES for ln in c05.lens_for(t) if ln <= 8]
    kind = rng.random()
    if kind < 0.35:
        pool = [e for e in singles if e[1] == 8]
    elif kind < 0.6:
        pool = [e for e in singles if e[1] == 1]
    else:
        pool = singles
    return [rng.choice(pool) for _ in range(8)]


def rand_layout(rng):
    if rng.random() < 0.15:
        return full_layout(rng)
    singles = [(t, ln) for t in c05.ALL_TYPES for ln in c05.lens_for(t)]
    lay, total = [], 0
    for _ in range(rng.randint(1, 6)):
        t, ln = rng.choice(singles) if rng.random() < 0.6 else rng.choice([e for e in singles if e[1] < 8])
        if total + ln > 64:
            continue
        lay.append((t, ln))
        total += ln
    return lay or [(0x05, 8)]


def map_token(cob, en, rtr, lay):
    return f"{'n' if cob is None else cob},{int(en)},{int(rtr)}," + ("/".join(f"{t}:{l}" for t, l in lay) if lay else "-")


PERIODS = ["1", "7", "3600", "86400", "3600", "n", "n", "0"]      # seconds; n = start() without argument


def periodic_step(rng, nm):
    """a start / stop / update call on a random map of either side"""
    side, k = rng.choice("PPC"), rng.randrange(nm)
    r = rng.random()
    if r < 0.5:
        return f"S.{side}.{k}.{rng.choice(PERIODS)}"
    return f"E.{side}.{k}" if r < 0.75 else f"U.{side}.{k}"


T_WAKE, T_NONE = 2000, 250       # ms: time-out of a reader that is to be woken (generous) / that waits in vain


def gen_threaded(tier, rng):
    """reader threads in wait_for_reception while frames come in from another thread; observer callbacks, some of
    them raising (first / middle / last of several).  The generator keeps track of whether the waited-for map takes a
    frame (subscribed, enabled, its COB-ID, not transmitting) only to choose the time-out."""
    for _ in range(24 if tier == "quick" else 70):
        lay = rand_layout(rng)
        size = (sum(l for _, l in lay) + 7) // 8
        two = rng.random() < 0.35
        cobs = [385, 385 if rng.random() < 0.4 else 386] if two else [385]
        mt = [map_token(c, True, True, lay) for c in cobs]
        steps = []
        order = list(range(len(cobs)))
        rng.shuffle(order)
        subscribed = []
        for k in order:
            if rng.random() < 0.95:
                steps.append(f"s.{k}")
                subscribed.append(k)
        raising = {}
        for k in range(len(cobs)):
            ncb = rng.choice([0, 1, 1, 2, 3, 3])
            bad = rng.choice([None, None, 0, ncb // 2, ncb - 1]) if ncb else None
            raising[k] = bad is not None
            for j in range(ncb):
                steps.append(f"{'B' if j == bad else 'b'}.{k}.{10 * k + j}")
        running = set()
        for _ in range(rng.randint(1, 3)):
            k = rng.randrange(len(cobs))
            r = rng.random()
            if r < 0.12:
                steps.append(f"S.C.{k}.3600")
                running.add(k)
            elif r < 0.24:
                steps.append(f"E.C.{k}")
                running.discard(k)
            elif r < 0.4:
                i = rng.randrange(len(lay))
                kind, v = rng.choice(c05.values_for(lay[i][0], lay[i][1], rng, "quick"))
                steps += [f"w.{k}.{i}.{kind}.{v}", f"t.{k}", f"r.{k}"]
                continue
            frames = [(rng.choice(cobs + [0x200]) if rng.random() < 0.3 else cobs[k],
                       c04.hx(bytes(rng.getrandbits(8) for _ in range(size)))) for _ in range(rng.choice([0, 1, 1, 1, 2, 3]))]
            # does one of the frames get to map k?  (an earlier subscriber on the same COB-ID whose callback raises
            # ends the dispatch before it)
            woken = False
            for cid, _h in frames:
                if cid != cobs[k] or k not in subscribed or k in running:
                    continue
                before = [j for j in subscribed[:subscribed.index(k)] if cobs[j] == cid and j not in running]
                if not any(raising[j] for j in before):
                    woken = True
            arr = ";".join(f"{cid}:{h}" for cid, h in frames) or "-"
            steps.append(f"Z.{k}.{rng.choice([1, 1, 2, 3])}.{T_WAKE if woken else T_NONE}.{arr}")
            steps.append(f"r.{k}")
        yield f"x {';'.join(mt)} {';'.join(mt)} {'|'.join(steps)}"


def gen_full(tier, rng):
    """maps with all eight slots used: every position 0..7 written on the producer, transmitted, read on the consumer
    and inside a callback"""
    for _ in range(12 if tier == "quick" else 60):
        lay = full_layout(rng)
        mt = map_token(0x181, True, True, lay)
        steps = ["s.0", "b.0.1"]
        for i in rng.sample(range(8), 8):
            kind, v = rng.choice(c05.values_for(lay[i][0], lay[i][1], rng, "quick"))
            steps.append(f"w.0.{i}.{kind}.{v}")
            if rng.random() < 0.4:
                steps += ["t.0", "r.0"]
        steps += ["t.0", "r.0", "p.0"]
        if all(t in c04.SPEC for t, _ in lay):
            t7, l7 = lay[7]
            w, sg = c04.SPEC[t7]
            lo, hi = (-(1 << (w - 1)), (1 << (w - 1)) - 1) if sg else (0, (1 << w) - 1)
            steps += [f"v.0.7.int.{rng.randint(lo, hi)}", "r.0"]
        yield f"x {mt} {mt} {'|'.join(steps)}"


def gen_ops(tier, rng):
    n_hist = 400 if tier == "quick" else 5000
    cobs = [0x181, 0x182, 0x281, 0x381, 0x7FF, 0x800, 0x1FFFFFFF, 0x181]
    for _ in range(n_hist):
        nm = rng.randint(1, 3)
        layouts = [rand_layout(rng) for _ in range(nm)]
        pcobs = [rng.choice(cobs) for _ in range(nm)]
        if rng.random() < 0.3 and nm > 1:
            pcobs[1] = pcobs[0]                                        # colliding COB-IDs
        pm = [map_token(pcobs[k], True, True, layouts[k]) for k in range(nm)]
        cm = [map_token(pcobs[k] if rng.random() < 0.9 else rng.choice(cobs + [None]),
                        rng.random() < 0.9, rng.random() < 0.8, layouts[k]) for k in range(nm)]
        steps = []
        for k in range(nm):
            if rng.random() < 0.9:
                steps.append(f"s.{k}")
            for tag in range(rng.randint(0, 2)):
                steps.append(f"{'B' if rng.random() < 0.15 else 'b'}.{k}.{10 * k + tag}")
        # one history in three starts with periodic transmissions already running on producer maps
        if rng.random() < 0.33:
            for k in range(nm):
                if rng.random() < 0.7:
                    steps.append(f"S.P.{k}.{rng.choice(PERIODS[:5])}")
        for _ in range(rng.randint(3, 25 if tier == "quick" else 60)):
            if rng.random() < 0.08:
                steps.append(periodic_step(rng, nm))
                continue
            k = rng.randrange(nm)
            r = rng.random()
            if r < 0.35:
                i = rng.randrange(len(layouts[k]))
                t, ln = layouts[k][i]
                kind, v = rng.choice(c05.values_for(t, ln, rng, "quick"))
                steps.append(f"w.{k}.{i}.{kind}.{v}")
            elif r < 0.6:
                steps.append(f"t.{k}")
                steps.append(f"r.{rng.randrange(nm)}")
            elif r < 0.68:
                size = (sum(l for _, l in layouts[k]) + 7) // 8
                steps.append(f"x.{rng.choice(pcobs + cobs)}.{c04.hx(bytes(rng.getrandbits(8) for _ in range(size)))}")
            elif r < 0.72:
                size = (sum(l for _, l in layouts[k]) + 7) // 8
                steps.append(f"y.{rng.choice(pcobs + cobs)}.{c04.hx(bytes(rng.getrandbits(8) for _ in range(size)))}.{rng.choice([1, 1, 0, 2, 5])}")
            elif r < 0.745:
                t, l = layouts[k][rng.randrange(len(layouts[k]))] if layouts[k] else (None, None)
                if t in c04.SPEC:
                    i = [j for j, e in enumerate(layouts[k]) if e == (t, l)][0]
                    w, sg = c04.SPEC[t]
                    lo, hi = (-(1 << (w - 1)), (1 << (w - 1)) - 1) if sg else (0, (1 << w) - 1)
                    steps.append(f"v.{k}.{i}.int.{rng.randint(lo, hi)}")
                    steps.append(f"r.{k}")
            elif r < 0.78:
                steps.append(f"r.{k}")
            elif r < 0.82:
                steps.append(f"p.{k}")
            elif r < 0.87:
                steps.append(f"q.{k}")
            elif r < 0.91:
                steps.append(f"c.{k}.{rng.choice([str(c) for c in cobs] + ['n'])}.{rng.randint(0, 1)}.{rng.randint(0, 1)}")
                if rng.random() < 0.7:
                    steps.append(f"s.{k}")
                elif rng.random() < 0.6:
                    steps[-1] = f"d.{k}.{rng.choice(cobs)}.{rng.randint(0, 1)}.{rng.randint(0, 1)}"
            elif r < 0.94:
                steps.append(f"T.{k}.{rng.randint(0, 1)}")
            else:
                size = (sum(l for _, l in layouts[k]) + 7) // 8
                arr = ";".join(f"{rng.choice(pcobs + cobs[:2])}:{c04.hx(bytes(rng.getrandbits(8) for _ in range(size)))}"
                               for _ in range(rng.randint(0, 3))) or "-"
                steps.append(f"W.{k}.{arr}")
        for k in range(nm):
            steps.append(f"r.{k}")
        # a write on the consuming side is only generated where no two consumer maps can ever receive the same
        # frame (maps with one COB-ID keep one shared buffer object; that aliasing is outside the property)
        ccobs = [m.split(",")[0] for m in cm]
        if len(set(ccobs)) < len(ccobs) or any(t[:2] in ("c.", "d.") for t in steps):
            steps = [t for t in steps if not t.startswith("v.")]
        yield f"x {';'.join(pm)} {';'.join(cm)} {'|'.join(steps)}"
    yield from gen_threaded(tier, rng)
    yield from gen_full(tier, rng)
    # every type alone and in pairs: write all boundary values, transmit, read on the other side
    singles = [(t, ln) for t in c05.ALL_TYPES for ln in c05.lens_for(t)]
    pairs = [[a_] for a_ in singles] + [[a_, b_] for a_ in singles for b_ in rng.sample(singles, 3 if tier == "quick" else 12)
                                        if a_[1] + b_[1] <= 64]
    for n, lay in enumerate(pairs):
        steps = ["s.0", "b.0.1"]
        # every other layout with a periodic transmission of the producer map running meanwhile
        if n % 2:
            steps.append(f"S.P.0.{rng.choice(PERIODS[:5])}")
        for i, (t, ln) in enumerate(lay):
            vs = c05.values_for(t, ln, rng, "quick")
            for j, (kind, v) in enumerate(rng.sample(vs, min(3, len(vs)))):
                steps += [f"w.0.{i}.{kind}.{v}", "t.0", "r.0"]
                if n % 4 == 3 and j == 0:
                    steps.append(rng.choice(["U.P.0", "E.P.0", "S.P.0.n", "S.P.0.0", "S.C.0.5", "E.C.0"]))
        mt = map_token(0x181, True, True, lay)
        yield f"x {mt} {mt} {'|'.join(steps)}"


# transmit / receive / reconfigure with and without a running periodic transmission, producer and consumer side
_M1 = "385,1,1,3:16/5:8"
_M2 = "385,1,1,2:4/6:16;386,1,1,5:8"
CORPUS = [
    # the producer transmits before, during and after a periodic transmission of the same map
    f"x {_M1} {_M1} s.0|b.0.1|w.0.0.int.-2|w.0.1.int.7|t.0|r.0|S.P.0.3600|w.0.0.int.1234|w.0.1.int.200|t.0|r.0|"
    "U.P.0|t.0|r.0|E.P.0|w.0.0.int.-32768|w.0.1.int.0|t.0|r.0",
    # start without / with a zero period fails and stops the running task; restart; update and stop when idle
    f"x {_M1} {_M1} s.0|U.P.0|E.P.0|S.P.0.n|w.0.1.int.9|t.0|r.0|S.P.0.7|S.P.0.n|t.0|S.P.0.0|t.0|p.0|r.0|S.P.0.n|t.0|r.0",
    # the consuming side transmits periodically: frames are ignored until stop(); remote requests do not care
    f"x {_M1} {_M1} s.0|b.0.4|w.0.0.int.5|t.0|r.0|S.C.0.86400|q.0|w.0.0.int.6|t.0|r.0|x.385.010203|r.0|W.0.385:0a0b0c|"
    "U.C.0|r.0|E.C.0|q.0|t.0|r.0|W.0.385:0a0b0c|r.0",
    # two maps, one of them running: the other is not affected; reconfiguration while running
    f"x {_M2} {_M2} s.0|s.1|b.0.1|b.1.2|S.P.1.1|w.0.0.int.-3|w.0.1.int.48879|w.1.0.int.77|t.0|t.1|r.0|r.1|S.P.0.3600|"
    "w.1.0.int.78|t.1|t.0|r.0|r.1|S.C.1.7|c.1.385.1.1|s.1|t.0|r.0|r.1|E.C.1|t.0|r.0|r.1|d.1.386.1.0|S.C.1.n|t.1|r.1|E.C.1|t.1|r.1",
    # observers: what a callback sees when it is called (first frame: no earlier timestamp; later: period known)
    f"x {_M1} {_M1} s.0|b.0.1|b.0.2|w.0.0.int.-5|w.0.1.int.7|t.0|w.0.0.int.1234|t.0|x.385.0080ff|y.385.010203.1|r.0",
    # a callback raises - first / middle / last of three: data and timestamp are set, the callbacks up to it ran
    f"x {_M1} {_M1} s.0|B.0.1|b.0.2|b.0.3|w.0.0.int.9|t.0|r.0|W.0.385:0a0b0c|r.0",
    f"x {_M1} {_M1} s.0|b.0.1|B.0.2|b.0.3|w.0.0.int.9|t.0|r.0|x.385.0a0b0c|r.0",
    f"x {_M1} {_M1} s.0|b.0.1|b.0.2|B.0.3|w.0.0.int.9|t.0|r.0|W.0.385:0a0b0c;385:0d0e0f|r.0",
    # reader threads: woken by the frame whatever the callbacks do; two readers; nobody to wake
    f"x {_M1} {_M1} s.0|b.0.1|Z.0.1.{T_WAKE}.385:0a0b0c|r.0|Z.0.2.{T_WAKE}.897:00;385:0d0e0f;385:111213|r.0|Z.0.1.{T_NONE}.-",
    f"x {_M1} {_M1} s.0|b.0.1|B.0.2|b.0.3|Z.0.1.{T_WAKE}.385:0a0b0c|r.0|Z.0.3.{T_WAKE}.385:0d0e0f|r.0",
    f"x {_M1} {_M1} s.0|B.0.1|Z.0.2.{T_WAKE}.385:0a0b0c|r.0|S.C.0.3600|Z.0.1.{T_NONE}.385:0d0e0f|r.0",
    # two maps on one COB-ID, the first one's callback raises: the dispatch ends there
    f"x {_M2} 385,1,1,2:4/6:16;385,1,1,2:4/6:16 s.0|s.1|b.0.1|B.0.2|b.1.3|w.0.0.int.-3|t.0|r.0|r.1|Z.0.1.{T_WAKE}.385:0a0b0c|r.0|r.1",
    # a full map: positions 0..7, bytes and single bits
    "x 385,1,1,5:8/2:8/5:8/2:8/5:8/2:8/5:8/2:8 385,1,1,5:8/2:8/5:8/2:8/5:8/2:8/5:8/2:8 s.0|b.0.1|w.0.7.int.-128|w.0.6.int.255|"
    "w.0.0.int.1|t.0|r.0|p.0|v.0.7.int.5|r.0",
    "x 385,1,1,1:1/5:1/1:1/5:1/1:1/5:1/1:1/5:1 385,1,1,1:1/5:1/1:1/5:1/1:1/5:1/1:1/5:1 s.0|b.0.1|w.0.7.int.1|w.0.6.bool.1|t.0|r.0|p.0",
    # a consumer map without COB-ID cannot start; the older T spelling
    f"x {_M1} n,1,1,3:16/5:8 S.C.0.5|r.0|T.0.1|c.0.385.1.1|s.0|T.0.1|t.0|r.0|T.0.0|t.0|r.0",
]

LEVEL_TEXT = ("Lean 4 theorems composing the C05 bit-field theorems with the exchange model: after any sequence of "
              "typed writes on the producer, transmission sends exactly the COB-ID and the current frame, and every "
              "variable of a consumer map that receives it reads the producer's last written value (low bits, "
              "sign-extended) with the frame's timestamp; a frame updates exactly the maps subscribed to and "
              "configured for its COB-ID (colliding COB-IDs: all of them) and invokes each of their callbacks once in "
              "order; a remote request is sent only for an enabled map that allows RTR; a waiting reader gets the "
              "timestamp of a frame delivered meanwhile - also in a thread of its own and whatever the map's callbacks do "
              "(raising ones included); every invoked callback is handed the map with the frame's data and timestamp "
              "already in place; start / stop / update of a map's periodic transmission, anywhere "
              "in a history of writes, change neither the single frame transmit() sends nor what the consumer reads "
              "from it (a transmitting consumer map ignores frames until stop()); tied to the code by differential "
              "histories over two nodes, every kind of step with and without a running periodic task")
LEVEL_NOTE = ("trusted: Lean kernel + standard axioms; typed access is the C05/C04 model; threading.Condition is modelled "
              "as a monitor and scripted; real thread timing is outside the model")
TECHNIQUE = "Lean 4 proof (composition of C05 field lemmas with dispatch, induction over write lists) + differential correspondence"
